"""C20 — the legacy API computes the same answers as the current one."""
import random, warnings
from .. import core, gen, ref
from . import cu

MODULES = ['DsdVerif.Props.C20', 'DsdVerif.Props.PyLegacy2', 'DsdVerif.Props.PyLegacyReg', 'DsdVerif.Props.PyLegacyInit', 'DsdVerif.Props.PyLegacySeq', 'DsdVerif.Props.PyLegacySeq2', 'DsdVerif.Props.PyLegacySeq3']
GEN_FILES = ['LegacyIupac', 'IupacTables', 'LegacyWrappers', 'PyLegacy', 'PyLegacyReg', 'PyLegacyInit', 'PyFuncs', 'PyLegacySeq', 'PyIupac']
THEOREM_NAMES = ['legacy_iupac_agree_dna', 'legacy_iupac_agree_rna', 'legacy_wobble_total']
THEOREMS = ['Dsd.C20.' + t for t in THEOREM_NAMES] + ['Dsd.C20L.' + t for t in ('legacy_canon_eq', 'legacy_rotations_spec', 'legacy_dup_iff')] + \
    ['Dsd.C20.legacy_wrappers_delegate', 'Dsd.C20F.legacy_rotate_once_eq', 'Dsd.C20F.legacy_construct_eq',
     'Dsd.C20F.legacy_refused_leaves_nothing', 'Dsd.C20F.legacy_full_canon_eq', 'Dsd.C20F.Findings.swapped_writes_leak',
     'Dsd.C20V.legacy_kernel_string_eq', 'Dsd.C20V.legacy_pair_table_eq', 'Dsd.C20V.legacy_is_connected_eq', 'Dsd.C20V.legacy_exterior_eq',
     'Dsd.C20V.legacy_enclosed_eq', 'Dsd.C20V.legacy_get_paired_loc_eq', 'Dsd.C20V.legacy_get_loop_index_eq',
     'Dsd.C20V.legacy_rotate_pairtable_loc_eq', 'Dsd.C20V.legacy_views_registered', 'Dsd.C20V.legacy_views_after_rotate_once'] + \
    ['Dsd.PyLegacy.' + t for t in (
        # the methods of the legacy DSD_Complex as written in the source (translator/pylegacy.py -> Gen/PyLegacy.lean, regenerated on every run)
        # equal the statement-level model Model/LegacyFull in every object state: result, state afterwards and error kind
        'py_rotate_once_eq', 'py_size_eq', 'py_strand_length_eq', 'py_sequence_eq', 'py_structure_eq', 'py_lol_sequence_eq', 'py_get_domain_eq',
        'py_pair_table_eq', 'py_get_paired_loc_eq', 'py_loop_index_eq', 'py_get_loop_index_eq', 'py_is_connected_eq', 'py_ptOk_run',
        'py_loop_index_needs_ptOk', 'py_legacy_rotate_once_obj', 'py_legacy_rotate_once_eq_current', 'py_legacy_rotate_once_raises',
        'py_strand_length_after_rotate_once',
        # Props/PyLegacy2: every translated legacy method has its equality theorem
        'py_exterior_domains_eq', 'py_enclosed_domains_eq', 'py_kernel_string_eq', 'py_legacy_kernel_string_eq_current',
        'py_rotate_pairtable_loc_eq', 'py_legacy_rotate_pairtable_loc_sign', 'py_views_after_rotate_once', 'py_inv_new', 'py_inv_step',
        'py_inv_run', 'py_exterior_needs_liOk', 'py_enclosed_needs_enOk')] + \
    ['Dsd.PyLegacyReg.' + t for t in (
        # canonical_form (with the in-place rotate() cycle) and do_memorycheck as written in the source (Gen/PyLegacyReg.lean)
        'py_do_memorycheck_eq', 'py_canonical_form_eq', 'py_canonical_form_cached', 'py_legacy_full_canon_eq', 'py_canonical_form_restores')]
# the whole legacy constructor as written in the source equals LegacyFull.construct; a refused construction leaves NAMES and MEMORY as they were
THEOREMS += ['Dsd.PyLegacyInit.' + t for t in ['py_init_eq', 'py_refused_leaves_nothing', 'py_legacy_construct_eq', 'py_canonicalForm_keeps_name']]
# the legacy SequenceConstraint as written in the source (14 methods translated; PARTIAL: only complement is proved equal to the translated current function)
THEOREMS += ['Dsd.PyLegacySeq.' + t for t in ['py_seq_init_eq', 'py_seq_complement_eq', 'py_seq_wc_codes_dna', 'py_seq_wc_codes_rna']]
# the legacy SequenceConstraint views equal the translated current functions; add_constraint assigns _sequence only, a complement read afterwards is the complement of the new sequence
THEOREMS += ['Dsd.PyLegacySeq.' + t for t in ['py_seq_wc_complement_eq', 'py_seq_reverse_complement_eq', 'py_seq_reverse_wc_complement_eq', 'py_seq_add_frame', 'py_seq_add_then_complement']]
# the legacy union of IUPAC codes equals the current intersection table for all 15 x 15 pairs; add_constraint in terms of the current per-position results (the equivalence of the two refusal tests is open)
THEOREMS += ['Dsd.PyLegacySeq.' + t for t in ['py_seq_union_pairs_dna', 'py_seq_union_pairs_rna', 'py_seq_union_reads', 'py_seq_merge_eq', 'py_seq_add_constraint_eq']]
ASSUMPTIONS = [
    'the legacy SequenceConstraint tables are transcribed from the dictionaries inside its methods (Gen/LegacyIupac.lean, evaluated with '
    'T -> T and T -> U) and compared with the current tables by kernel-decided theorems',
    'DSD_Complex and the deprecated utility wrappers are exercised on the real code next to the current API (the utilities they wrap are '
    'the functions modelled and proved for C06-C09)',
]
MANIFEST = {
    'text': 'Largely full on the model. Model/LegacyFull.lean follows the legacy DSD_Complex statement by statement (class state ID / NAMES / '
            'MEMORY, __init__ with naming and memorycheck, canonical_form with its rotation loop, do_memorycheck, its OWN rotate_once, '
            'all views with their caches; the model was additionally run against deprecated.py on 42 000 outputs). Proved: '
            'legacy_rotate_once_eq (the legacy bracket flipping equals the current rotate_complex_once on every pair of equal-length '
            'lists), legacy_construct_eq (on corresponding registry states a legacy construction creates / reports a duplicate with '
            'existing object and rotation equation / reports a name clash exactly when the current API creates / refuses with '
            'existing / refuses), legacy_refused_leaves_nothing (a refused construction leaves NAMES and MEMORY unchanged; '
            'swapped_writes_leak shows the seeded regression violates it), legacy_full_canon_eq, and the view equalities '
            'legacy_kernel_string_eq, _pair_table_eq, _is_connected_eq, _exterior_eq, _enclosed_eq, _get_paired_loc_eq, '
            '_get_loop_index_eq, _rotate_pairtable_loc_eq (sign convention), valid after __init__ and after rotate_once(). '
            'Differences between the two APIs outside the property are kept as kernel-checked findings (empty name, prefix checks, '
            'ID counter, memorycheck=False, stale caches after rotate_once, ...). Translator-based proof for the sequence-constraint clause: legacy_iupac_agree_dna / _rna (every row of the legacy '
            'complement dictionaries regenerated from deprecated.py agrees with the current table wherever both are defined) and '
            'legacy_wobble_total, decided by the Lean kernel; legacy_canon_eq (the legacy canonical form is the same minimal rotation) as '
            'listed in the evidence when present; legacy_wrappers_delegate: the five deprecated utility wrappers of utils.py are reduced by the '
            'translator to what they forward their unchanged parameters to (Gen/LegacyWrappers.lean, regenerated on every run) and are '
            'exactly delegations to the complex_utils functions modelled and proved for C06-C09. The object-model clauses (pair table, loop indices, kernel string, canonical form, '
            'size, connectivity, exterior / enclosed domains, split components, duplicate detection with the rotation equation) are '
            'decided on the real code by driving DSD_Complex / the deprecated wrappers and ComplexS / complex_utils with the same '
            'descriptions in every rotation.',
    'note': 'is_domainlevel_complement, the name setter and the domains property of the legacy class are not modelled; the legacy model is hand-written (tied by differential runs), the wrappers and tables are translated.',
    'source_derived': 'STATEMENT LEVEL, FROM THE SOURCE (since batch 7): translator/pylegacy.py transcribes 15 methods of the legacy DSD_Complex from the working tree (Gen/PyLegacy.lean); PyLegacy.py_rotate_once_eq, py_size_eq, py_strand_length_eq, py_pair_table_eq, py_get_paired_loc_eq, py_loop_index_eq, py_get_loop_index_eq, py_is_connected_eq, py_get_domain_eq ... prove them equal to the statement-level model in every object state (result, state afterwards, error kind), py_legacy_rotate_once_eq_current compares the translated legacy rotate_once with the translated current rotate_complex_once with no model in the statement; stream DSD_Complex-methods.source-derived.',
    'technique': 'Lean 4 statement-level model of the legacy class proved equivalent to the current API model; decide over legacy tables and wrapper delegations regenerated from source; differential exploration of legacy vs current API on the real code',
}


def run(res, proof):
    warnings.simplefilter('ignore')
    from dsdobjects.core import deprecated as dep
    from dsdobjects import utils, complex_utils as cux, iupac_utils as iu, clear_singletons
    from dsdobjects.base_classes import ComplexS, DomainS
    import dsdobjects.parser            # the deprecated import path must still work
    rng = random.Random(res.seed * 122949829 + 20)
    quick = res.tier == 'quick'
    L = 6 if quick else 7
    structs = list(gen.wellformed_structures(L, 3))
    if quick:
        structs = [s for s in structs if len(s) <= 4 or rng.random() < 0.2]
    for _ in range(40 if quick else 800):
        structs.append(gen.random_structure(rng, rng.randint(5, 25), nstrands=rng.randint(1, 5)))
    clear_singletons(DomainS)
    dom = {n: DomainS(n, 5) for n in ('a', 'b')}

    def both(k, a, b, desc):
        if a != b:
            res.violation('legacy-differs:' + k, desc, 'legacy %r' % (a,), 'current %r' % (b,))

    def outcome(f):
        try:
            return ('ok', f())
        except Exception as e:
            return ('err', type(e).__name__)

    cases = [(gen.label(s, rng, ['a', 'b']), s) for s in structs] + gen.symmetric_complexes()
    dom.update({n: DomainS(n, 5) for n in ('a*', 'b*', 'x')})
    for names, s in cases:
        rots = ref.rotations(names, s)
        n = len(rots)
        for k, (rn, rs) in enumerate(rots):
            res.evaluations += 1
            if n > 1:
                res.nontriv((rn, rs))
            dep.clear_memory()
            clear_singletons(ComplexS)
            desc = {'seq': ' '.join(rn), 'sst': ''.join(rs)}
            try:
                Lc = dep.DSD_Complex(list(rn), list(rs), name='L')
                C = ComplexS([dom[x] if x != '+' else '+' for x in rn], list(rs), name='C')
            except Exception as e:
                res.violation('legacy-or-current-ctor-raises:' + type(e).__name__, desc, type(e).__name__, 'both constructed')
                continue
            both('pair_table', Lc.pair_table, [list(x) for x in C.pair_table], desc)
            both('kernel_string', Lc.kernel_string, C.kernel_string, desc)
            both('canonical_form', Lc.canonical_form, C.canonical_form, desc)
            both('size', Lc.size, C.size, desc)
            both('is_connected', Lc.is_connected, C.is_connected, desc)
            both('strand_lengths', [Lc.strand_length(i) for i in range(Lc.size)], [C.strand_length(i) for i in range(C.size)], desc)
            both('sequence-after-canon', (list(map(str, Lc.sequence)), Lc.structure), (list(rn), list(rs)), desc)
            li_l = outcome(lambda: Lc.loop_index)
            li_c = outcome(lambda: cux.make_loop_index(cux.make_pair_table(list(rs))))
            both('loop_index', li_l, li_c, desc)
            if C.is_connected:
                both('exterior_domains', Lc.exterior_domains, C.exterior_domains, desc)
                both('enclosed_domains', Lc.enclosed_domains, C.enclosed_domains, desc)
                for si, row in enumerate(C.pair_table):
                    for di, _ in enumerate(row):
                        both('get_loop_index', Lc.get_loop_index((si, di)), C.get_loop_index((si, di)), desc)
                        both('get_paired_loc', Lc.get_paired_loc((si, di)), C.get_paired_loc((si, di)), desc)
                        both('get_domain', str(Lc.get_domain((si, di))), str(C.get_domain((si, di))), desc)
            both('lol_sequence', Lc.lol_sequence, [list(map(str, x)) for x in C.strand_table], desc)
            sp_l = outcome(lambda: utils.split_complex(Lc.lol_sequence, Lc.pair_table))
            sp_c = outcome(lambda: [(a, b) for a, b in cux.split_complex_db(list(rn), list(rs))])
            both('split', sp_l, sp_c, desc)
            both('wrapper:make_pair_table', utils.make_pair_table(list(rs)), cux.make_pair_table(list(rs)), desc)
            both('wrapper:pair_table_to_dot_bracket', utils.pair_table_to_dot_bracket(cux.make_pair_table(list(rs))), list(rs), desc)
            both('wrapper:make_lol_sequence', utils.make_lol_sequence(list(rn)), cux.make_strand_table(list(rn)), desc)
            # the wrappers take the optional arguments of the functions they stand for, by position and by keyword
            amp = [('&' if x == '+' else x) for x in rs]
            spaced = list(' '.join(rs))
            pt_c = cux.make_pair_table(list(rs))
            for nm, w, c in (
                    ('make_pair_table(strand_break=)', lambda: utils.make_pair_table(list(amp), strand_break='&'), lambda: cux.make_pair_table(list(amp), strand_break='&')),
                    ('make_pair_table(positional strand_break)', lambda: utils.make_pair_table(list(amp), '&'), lambda: cux.make_pair_table(list(amp), '&')),
                    ('make_pair_table(ignore=)', lambda: utils.make_pair_table(list(spaced), ignore=set(' ')), lambda: cux.make_pair_table(list(spaced), ignore=set(' '))),
                    ('make_pair_table(strand_break=, ignore=)', lambda: utils.make_pair_table(list(rs), strand_break='&', ignore=set('+')),
                     lambda: cux.make_pair_table(list(rs), strand_break='&', ignore=set('+'))),
                    ('pair_table_to_dot_bracket(strand_break=)', lambda: utils.pair_table_to_dot_bracket(pt_c, strand_break='&'), lambda: cux.pair_table_to_dot_bracket(pt_c, strand_break='&')),
                    ('pair_table_to_dot_bracket(join=)', lambda: utils.pair_table_to_dot_bracket(pt_c, join=True), lambda: cux.pair_table_to_dot_bracket(pt_c, join=True)),
                    ('pair_table_to_dot_bracket(positional join)', lambda: utils.pair_table_to_dot_bracket(pt_c, True), lambda: cux.pair_table_to_dot_bracket(pt_c, True))):
                both('wrapper:' + nm, outcome(w), outcome(c), desc)
            both('wrapper:make_pair_table(strand_break=) value', outcome(lambda: utils.make_pair_table(list(amp), strand_break='&')), outcome(lambda: cux.make_pair_table(list(rs))), desc)
            both('wrapper:pair_table_to_dot_bracket(join=) value', outcome(lambda: utils.pair_table_to_dot_bracket(pt_c, join=True)), outcome(lambda: ''.join(rs)), desc)
            # duplicates: every rotation of the registered complex is detected, with the existing object and the rotation equation
            for k2, (rn2, rs2) in enumerate(rots):
                try:
                    dep.DSD_Complex(list(rn2), list(rs2), name='L2')
                    res.violation('legacy-duplicate-not-detected', desc, 'rotation %d accepted as a new complex' % k2, 'DSDDuplicationError')
                    dep.DSD_Complex.NAMES.pop('L2', None)
                except dep.DSDDuplicationError as e:
                    r = e.rotations
                    x, y = list(Lc.sequence), list(Lc.structure)
                    for _ in range(r % n):
                        x, y = cux.rotate_complex_once(x, y)
                    if e.existing is not Lc or (tuple(map(str, x)), tuple(y)) != (rn2, rs2):
                        res.violation('legacy-duplicate-rotations', desc, 'existing is L: %s, rotations=%r' % (e.existing is Lc, r),
                                      'existing is the registered complex and rotating it by `rotations` strands gives the new description')
                    e = None
                cur = ComplexS([dom[x] if x != '+' else '+' for x in rn2], list(rs2), name='C')
                if cur is not C:
                    res.violation('current-does-not-return-existing', desc, 'another object', 'the existing object')
                del cur
            # memorycheck=False builds a second legacy object for a rotation of the registered complex: the two compare and hash
            # equal (canonical form), exactly as the current API answers with the one existing object
            rn2, rs2 = rots[(k + 1) % n]
            tw = outcome(lambda: dep.DSD_Complex(list(rn2), list(rs2), name='Ltwin', memorycheck=False))
            if tw[0] != 'ok':
                res.violation('legacy-differs:memorycheck-off-raises', desc, tw[1], 'a second legacy object')
            else:
                both('twin-equal-and-hash', (tw[1] == Lc, tw[1] != Lc, hash(tw[1]) == hash(Lc), tw[1].canonical_form == Lc.canonical_form), (True, False, True, True), desc)
                dep.DSD_Complex.NAMES.pop('Ltwin', None)
            del tw
            # a REFUSED construction registers nothing in either model: the inequivalent complex is first requested under
            # the taken names (both models refuse), then - in another rotation - under free names (both create it)
            other = gen.label(s, rng, ['a', 'b'])
            if not (set(ref.rotations(other, s)) & set(rots)):
                orots = ref.rotations(other, s)
                r1 = outcome(lambda: dep.DSD_Complex(list(other), list(s), name='L'))
                r2 = outcome(lambda: ComplexS([dom[x] if x != '+' else '+' for x in other], list(s), name='C'))
                if r1[0] != 'err' or r2[0] != 'err':
                    res.violation('name-clash-accepted', desc, '%s / %s' % (r1[0], r2[0]), 'both models refuse a different complex under a taken name')
                del r1, r2
                on, os_ = orots[1 % len(orots)]
                d1 = outcome(lambda: dep.DSD_Complex(list(on), list(os_), name='L4'))
                d2 = outcome(lambda: ComplexS([dom[x] if x != '+' else '+' for x in on], list(os_), name='C4'))
                if d1[0] != 'ok' or d2[0] != 'ok':
                    res.violation('refused-construction-left-a-trace', desc, 'after a refused request: legacy %s / current %s' % (d1[1] if d1[0] == 'err' else 'ok', d2[1] if d2[0] == 'err' else 'ok'),
                                  'both create the complex (the refused request registered nothing)')
                for nm in ('L4',):
                    dep.DSD_Complex.NAMES.pop(nm, None)
                if d1[0] == 'ok':
                    dep.DSD_Complex.MEMORY.pop(d1[1].canonical_form, None) if hasattr(dep.DSD_Complex, 'MEMORY') else None
                del d1, d2
            # an inequivalent description is not reported as a duplicate by either API
            if not (set(ref.rotations(other, s)) & set(rots)):
                d1 = outcome(lambda: dep.DSD_Complex(list(other), list(s), name='L3'))
                d2 = outcome(lambda: ComplexS([dom[x] if x != '+' else '+' for x in other], list(s), name='C3'))
                if d1[0] != 'ok' or d2[0] != 'ok':
                    res.violation('inequivalent-reported-duplicate', desc, '%s / %s' % (d1[1] if d1[0] == 'err' else 'ok', d2[1] if d2[0] == 'err' else 'ok'), 'both create a new complex')
                del d1, d2
            del Lc, C
        res.count('strands_%d' % min(n, 5))
    # ---- (after the registered-object scenarios, on objects of its own)
    for names, s in cases:
        rots = ref.rotations(names, s)
        n = len(rots)
        for k, (rn, rs) in enumerate(rots[:1]):
            desc = {'seq': ' '.join(rn), 'sst': ''.join(rs)}
            # the legacy views in ANY order, before and after in-place rotations: what was asked first (and whether it was refused)
            # and how often the object was rotated has no influence - every answer is the current API's for the object's
            # current description
            if k == 0 and n >= 2:
                def lviews(o, which):
                    out = []
                    for v in which:
                        if v == 'pair_table': out.append(outcome(lambda: [list(x) for x in o.pair_table]))
                        elif v == 'loop_index': out.append(outcome(lambda: o.get_loop_index((0, 0))))
                        elif v == 'is_connected': out.append(outcome(lambda: o.is_connected))
                        elif v == 'exterior': out.append(outcome(lambda: list(o.exterior_domains)))
                        elif v == 'enclosed': out.append(outcome(lambda: list(o.enclosed_domains)))
                        elif v == 'paired': out.append(outcome(lambda: o.get_paired_loc((0, 0))))
                        elif v == 'kernel': out.append(outcome(lambda: o.kernel_string))
                    return [(a, b if a == 'ok' else 'raises') for a, b in out]
                VIEWS = ['pair_table', 'loop_index', 'is_connected', 'exterior', 'enclosed', 'paired', 'kernel']
                for trial in range(2):
                    order1 = rng.sample(VIEWS, rng.randint(1, 4))
                    order2 = rng.sample(VIEWS, len(VIEWS))
                    turns = rng.choice([1, 1, 2, n - 1, n + 1])
                    dep.clear_memory(); clear_singletons(ComplexS)
                    L3 = dep.DSD_Complex(list(rn), list(rs), name='L3')
                    before_l = lviews(L3, order1)
                    for _ in range(turns):
                        L3.rotate_once()
                    cur_seq, cur_sst = [str(x) for x in L3.sequence], list(L3.structure)
                    C3 = ComplexS([dom[x] if x != '+' else '+' for x in cur_seq], list(cur_sst), name='C3')
                    after_l, after_c = lviews(L3, order2), lviews(C3, order2)
                    d3 = dict(desc, asked_before=order1, rotate_once_calls=turns, asked_after=order2)
                    res.count('legacy_views_any_order')
                    if after_l != after_c:
                        bad = [v for v, a, b in zip(order2, after_l, after_c) if a != b]
                        res.violation('legacy-differs:views-after-rotate_once:' + bad[0], d3, 'legacy %r' % (after_l,), 'current API on the same description %r' % (after_c,))
                    del L3, C3
    dep.clear_memory(); clear_singletons(ComplexS)
    dep.clear_memory(); clear_singletons(ComplexS)
    # ---- SequenceConstraint vs iupac functions
    for _ in range(1500 if quick else 30000):
        mol = rng.choice(['DNA', 'RNA'])
        t = 'T' if mol == 'DNA' else 'U'
        full = 'ACG' + t + 'RYSMWKVHDBN'
        wc_ok = 'ACG' + t + 'N'
        s_all = ''.join(rng.choice(full) for _ in range(rng.randint(0, 30)))
        s_wc = ''.join(rng.choice(wc_ok) for _ in range(rng.randint(0, 30)))
        res.evaluations += 1
        res.nontriv((mol, s_all, s_wc))
        sc = dep.SequenceConstraint(s_all, molecule=mol)
        both('SequenceConstraint.complement', sc.complement, iu.complement(s_all, material=mol), {'seq': s_all, 'mol': mol})
        both('SequenceConstraint.reverse_complement', sc.reverse_complement, iu.reverse_complement(s_all, material=mol), {'seq': s_all, 'mol': mol})
        # the operator and container forms of the same answers: ~x is the reverse complement, len / str / == follow the constraint
        inv = outcome(lambda: (~sc).constraint)
        both('SequenceConstraint.__invert__', inv, ('ok', iu.reverse_complement(s_all, material=mol)), {'seq': s_all, 'mol': mol})
        both('SequenceConstraint.len/str', (len(sc), str(sc), sc == dep.SequenceConstraint(list(s_all), molecule=mol), sc != dep.SequenceConstraint(s_all + 'N', molecule=mol)),
             (len(s_all), s_all, True, True), {'seq': s_all, 'mol': mol})
        sw = dep.SequenceConstraint(s_wc, molecule=mol)
        both('SequenceConstraint.wc_complement', sw.wc_complement, iu.wc_complement(s_wc, material=mol), {'seq': s_wc, 'mol': mol})
        both('SequenceConstraint.reverse_wc_complement', sw.reverse_wc_complement, iu.reverse_wc_complement(s_wc, material=mol), {'seq': s_wc, 'mol': mol})
        # the in-place mutator: views read before and after add_constraint() on ONE object
        s_n = ''.join(rng.choice('N' + wc_ok) for _ in range(rng.randint(1, 20)))
        narrow = ''.join((rng.choice('ACG' + t) if (c == 'N' and rng.random() < 0.6) else c) for c in s_n)
        one = dep.SequenceConstraint(s_n, molecule=mol)
        _ = (one.wc_complement, one.reverse_wc_complement, one.complement, one.reverse_complement)
        try:
            one.add_constraint(narrow)
            cur = one.constraint
            both('SequenceConstraint.after-add:wc_complement', one.wc_complement, iu.wc_complement(cur, material=mol), {'seq': s_n, 'narrowed': narrow, 'mol': mol})
            both('SequenceConstraint.after-add:reverse_wc_complement', one.reverse_wc_complement, iu.reverse_wc_complement(cur, material=mol), {'seq': s_n, 'narrowed': narrow, 'mol': mol})
            both('SequenceConstraint.after-add:complement', one.complement, iu.complement(cur, material=mol), {'seq': s_n, 'narrowed': narrow, 'mol': mol})
            both('SequenceConstraint.after-add:reverse_complement', one.reverse_complement, iu.reverse_complement(cur, material=mol), {'seq': s_n, 'narrowed': narrow, 'mol': mol})
            both('SequenceConstraint.after-add:constraint', cur, iu.add_constraints(s_n, narrow, material=mol), {'seq': s_n, 'narrowed': narrow, 'mol': mol})
        except Exception as e:
            res.violation('legacy-differs:SequenceConstraint.add_constraint-raises', {'seq': s_n, 'narrowed': narrow}, type(e).__name__, 'the narrowed constraint')
        s2 = ''.join(rng.choice(full) for _ in range(len(s_all)))
        a = outcome(lambda: (dep.SequenceConstraint(s_all, mol) + dep.SequenceConstraint(s2, mol)).constraint)
        b = outcome(lambda: iu.add_constraints(s_all, s2, material=mol))
        if a[0] == 'ok' and b[0] == 'ok':
            both('SequenceConstraint.add', a[1], b[1], {'seq': s_all, 'seq2': s2, 'mol': mol})
        elif a[0] != b[0]:
            res.violation('legacy-differs:SequenceConstraint.add-outcome', {'seq': s_all, 'seq2': s2, 'mol': mol}, repr(a), repr(b))
    res.rule = ('every well-formed structure up to %d positions / 3 strands (quick: sampled) and random structures up to 25 positions, '
                'labelled over 2 names, presented to both object models in every rotation (views, wrappers, split, duplicates in every '
                'rotation, one inequivalent relabelling); random IUPAC sequences up to length 30 for both materials; distinct by '
                '(sequence, structure) / sequence' % L)
    # no model stream here: the utilities behind both APIs are covered by the C06-C09 correspondence
    res.streams['legacy-vs-current (real code)'] = res.evaluations
    res.traces = res.evaluations
    # the legacy methods as translated from the working tree (Gen/PyLegacy.lean) against the real legacy objects
    from .pylegacy_stream import source_derived_pylegacy
    core.run_stream(source_derived_pylegacy, res, proof)
    from .pylegacyreg_stream import source_derived_pylegacyreg
    core.run_stream(source_derived_pylegacyreg, res, proof)
    # the whole legacy constructor as translated from the working tree (Gen/PyLegacyInit.lean; no equality theorem yet): ID / NAMES / MEMORY after every construction
    from .pylegacyinit_stream import source_derived_pylegacyinit
    core.run_stream(source_derived_pylegacyinit, res, proof)
    from .pylegacyseq_stream import source_derived_pylegacyseq
    core.run_stream(source_derived_pylegacyseq, res, proof)
    res.sample({'seq': 'a b + a', 'sst': '(.+)'})


def replay(body, repo):
    print(body['input']); print('observed :', body.get('observed')); print('required :', body.get('required'))
    return 1
