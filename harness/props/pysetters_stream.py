"""The identity-protecting property setters as TRANSLATED from the working tree (Gen/PySetters.lean) against real objects.

`source_derived_pysetters(res, proof)`: real objects of all five classes (DomainS, StrandS, ComplexS, MacrostateS, ReactionS; subclasses
inherit the setters); every setter is called with several values (the same value, another value of the same kind, None, an int, a list);
recorded: the exception class (and `existing` of a SingletonError) and whether ANY getter of the object answers differently afterwards
(name, canonical form, length / sequence / structure / members / rtype, hash).  The translated setter (driver op `pysetter`,
lean/DsdVerif/DriverSetters.lean) must answer the same.  Attributes WITHOUT a setter in the source (`MacrostateS.name`, `.canonical_form`,
`ReactionS.canonical_form`, `DomainS.canonical_form`) are sampled on the real code only: AttributeError, nothing changes (an oracle check).
"""
import subprocess
from .. import core


def snapshot(o):
    out = []
    for a in ('name', 'canonical_form', 'length', 'sequence', 'structure', 'complexes', 'representative', 'reactants', 'products', 'rtype', 'turns'):
        try:
            v = getattr(o, a)
            if a in ('sequence', 'complexes', 'reactants', 'products') and not isinstance(v, (str, type(None))):
                v = [str(x) for x in v]
            elif a == 'structure' and not isinstance(v, (str, type(None))):
                v = list(v)
            out.append((a, repr(v) if a == 'canonical_form' else str(v)))
        except AttributeError:
            pass
    out.append(('hash', hash(o)))
    return out


def attempt(o, attr, value):
    before = snapshot(o)
    try:
        setattr(o, attr, value)
        r = 'ok'
    except Exception as e:
        r = 'err ' + type(e).__name__
        if type(e).__name__ == 'SingletonError':
            r += ' existing=' + ('None' if getattr(e, 'existing', None) is None else 'obj')
        e = None
    return r + (' unchanged' if snapshot(o) == before else ' changed')


def source_derived_pysetters(res, proof, runner=None):
    from dsdobjects.base_classes import DomainS, StrandS, ComplexS, MacrostateS, ReactionS
    from dsdobjects.singleton import clear_singletons
    runner = runner or core.run_driver
    for K in (ReactionS, MacrostateS, StrandS, ComplexS, DomainS):
        clear_singletons(K)
    d = DomainS('a', 5); d2 = DomainS('b', 7)
    c = ComplexS(['a', '+', 'b'], list('(+)'), name='X'); c2 = ComplexS(['b'], list('.'), name='Y')
    st = StrandS(['a', 'b'], name='S')
    m = MacrostateS([c, c2], name='X')
    r = ReactionS([c], [c2], 'open', name='r')
    objs = {'DomainS': (DomainS, d), 'ComplexS': (ComplexS, c), 'StrandS': (ComplexS, st), 'MacrostateS': (MacrostateS, m), 'ReactionS': (ReactionS, r)}
    setters = {'DomainS': ['name', 'length'], 'ComplexS': ['name', 'canonical_form'], 'StrandS': ['name', 'canonical_form'],
               'MacrostateS': ['complexes', 'representative'], 'ReactionS': ['reactants', 'products', 'rtype', 'name']}
    others = {'name': 'other', 'length': 9, 'canonical_form': (('q',), ('.',)), 'complexes': [c2], 'representative': c2, 'reactants': [c2], 'products': [c],
              'rtype': 'bind21'}
    lines, impl = [], []
    for kind, (K, o) in objs.items():
        for attr in setters[kind]:
            same = getattr(o, attr)
            if attr in ('complexes', 'reactants', 'products'):
                same = list(same)
            vals = [('same', same), ('other', others[attr]), ('None', None), ('int', 3), ('list', [])]
            if attr == 'rtype':
                vals += [(t, t) for t in sorted(ReactionS.RTYPES)] + [('unknown-type', 'no-such-type')]
            for label, v in vals:
                # the translated setter belongs to the class that defines it (StrandS inherits ComplexS's)
                lines.append('pysetter\t%s.%s\t%s' % (K.__name__, attr, label))
                impl.append(attempt(o, attr, v))
                res.evaluations += 1
    # attributes without a setter: Python's own AttributeError, nothing changes
    for kind, attrs in (('MacrostateS', ['name', 'canonical_form']), ('ReactionS', ['canonical_form']), ('DomainS', ['canonical_form'])):
        for attr in attrs:
            got = attempt(objs[kind][1], attr, 'x')
            if got != 'err AttributeError unchanged':
                res.violation('setterless-attribute-assignable:%s.%s' % (kind, attr), {'call': '%s.%s = "x"' % (kind, attr)}, got, 'err AttributeError unchanged')
    del d, d2, c, c2, st, m, r, objs, others
    for K in (ReactionS, MacrostateS, StrandS, ComplexS, DomainS):
        clear_singletons(K)
    ComplexS.ID = 1; DomainS.ID = 1
    try:
        out = runner(lines)
    except core.DriverBroken as e:
        proof.problem('driver', 'source-derived setters stream: ' + str(e))
        return
    core.compare_streams(res, 'identity-setters.source-derived', lines, impl, out)
    res.dist['source_derived_setter_calls'] = len(lines)


def run_private_driver(lines, timeout=1200):
    data = '\n'.join(lines) + '\n'
    p = subprocess.run(['lake', 'env', 'lean', '--run', 'MainSetters.lean'], cwd=core.LEAN, input=data, capture_output=True, text=True, timeout=timeout)
    if p.returncode != 0:
        raise core.DriverBroken((p.stdout + p.stderr)[-3000:])
    out = p.stdout.split('\n')
    if out and out[-1] == '':
        out.pop()
    if len(out) != len(lines):
        raise core.DriverBroken('driver returned %d lines for %d requests' % (len(out), len(lines)))
    return out


if __name__ == '__main__':
    # /venv/bin/python -m harness.props.pysetters_stream <repo>      (from the verif directory)
    import sys
    repo = sys.argv[1]
    core.use_repo(repo)
    res = core.Result('PYSETTERS', 'quick', 1, repo)
    class P:
        def problem(self, kind, detail):
            print('PROBLEM', kind, detail)
    source_derived_pysetters(res, P(), runner=run_private_driver)
    print('streams', res.streams, 'dist', res.dist, 'violations', res.violations)
    print('disagreements', len(res.disagreements))
    for x in res.disagreements[:8]:
        print(x)
    sys.exit(1 if res.disagreements else 0)
