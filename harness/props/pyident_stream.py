"""The `identifiers` class methods as TRANSLATED from the working tree (Gen/PyIdentifiers.lean) against the real ones.

`source_derived_pyident(res, proof)`: for generated complexes (every well-formed structure up to a bounded size, labelled as in C02,
plus random ones, rotationally symmetric ones, and ill-formed descriptions) in EVERY rotation, with an empty registry, with each
single rotation registered and with unrelated keys registered, `ComplexS.identifiers(sequence, structure, name, prefix)` is called
directly on the real class (registries reset with `clear_singletons`, `ComplexS.ID` set) and the translated function is run through
the driver op `pyident.cplx` (lean/DsdVerif/DriverIdent.lean) on the same arguments and the same class attributes;
`(canon, name, newargs: canon, turns, rcplxs in insertion order)` resp. the exception class must agree.  The same for
`StrandS.identifiers` (`pyident.strand`).
"""
import itertools, os, random, subprocess
from .. import core, gen, ref


def enc_opt(x):
    return 'none' if x is None else 's:' + x


def enc_seq(seq):
    return 'none' if seq is None else 's:' + ' '.join(seq)


def show_key(k):
    return 'None' if k is None else ' '.join(k[0]) + '|' + ''.join(k[1])


class _Holder:
    pass


def real_complex(K, reg, ID, seq, sst, name, prefix):
    from dsdobjects.singleton import clear_singletons
    clear_singletons(K)
    K.ID = ID
    hold = []
    for k in reg:
        h = _Holder(); hold.append(h)
        K._instanceCanon[k] = h
    try:
        canon, nm, newargs = K.identifiers(None if seq is None else list(seq), list(sst), name=name, prefix=prefix)
    except Exception as e:
        out = 'err ' + type(e).__name__
        e = None
    else:
        if newargs == {}:
            out = 'ok %s ; %s ; {}' % (show_key(canon), nm)
        else:
            assert sorted(newargs) == ['canon', 'rcplxs', 'turns'], newargs
            out = 'ok %s ; %s ; %s ; %d ; %s' % (show_key(canon), nm, show_key(newargs['canon']), newargs['turns'],
                                               ','.join(show_key(k) for k in newargs['rcplxs']))
    del hold
    clear_singletons(K)
    K.ID = 1
    return out


def real_strand(K, ID, seq, name, prefix):
    from dsdobjects.singleton import clear_singletons
    clear_singletons(K)
    K.ID = ID
    try:
        canon, nm, newargs = K.identifiers(None if seq is None else list(seq), name=name, prefix=prefix)
    except Exception as e:
        out = 'err ' + type(e).__name__
        e = None
    else:
        if newargs == {}:
            out = 'ok %s ; %s ; {}' % (show_key(canon), nm)
        else:
            assert sorted(newargs) == ['canon', 'turns'], newargs
            out = 'ok %s ; %s ; %s ; %d' % (show_key(canon), nm, show_key(newargs['canon']), newargs['turns'])
    K.ID = 1
    return out


def labelings(s, rng, quick):
    npos = sum(1 for c in s if c != '+')
    outs = []
    for alpha in (['a'], ['a', 'b'], ['b', 'a', 'c'], ['d2', 'd10'], ['x1', 'x01', 'd9']):
        if len(alpha) ** npos <= (8 if quick else 40):
            for t in itertools.product(alpha, repeat=npos):
                it = iter(t)
                outs.append([('+' if c == '+' else next(it)) for c in s])
        else:
            for _ in range(2 if quick else 6):
                outs.append(gen.label(s, rng, alpha))
    seen, res = set(), []
    for o in outs:
        if tuple(o) not in seen:
            seen.add(tuple(o)); res.append(o)
    return res


ILL_FORMED = [  # (sequence, structure): mismatched lengths, no strands, empty strands, unbalanced structures (the rotation raises)
    (['a', 'b'], '.'), (['a'], '..'), ([], ''), (['+'], '+'), (['+', '+'], '++'), (['a', '+', '+', '+', 'b'], '.+++.'),
    (['+', 'b', '+', 'a', '+'], '+.+.+'), (['a', '+', 'b'], ')+.'), (['a', '+', 'b'], '(+.'), (['a', '+', 'b'], '.+('),
    (['a', '+', 'b', '+', 'c'], '(+)+)'), (['a', '+', 'b', '+', 'c'], ')+(+.'), (['a', 'b', '+', 'c'], '.)+('), (['a', '+'], '.+'),
    (['+', 'a'], '+.'), (['a', '+', 'a'], '.+.'), (['a', '+', 'b'], '.x.'), (['a', '+', 'b'], '.+.x'),
]


def complex_inputs(rng, quick):
    """(registered keys, ID, sequence, structure, name, prefix)"""
    L = 4 if quick else 5
    structs = list(gen.wellformed_structures(L, 4))
    if quick:
        structs = [s for s in structs if len(s) <= 4 or rng.random() < 0.5]
    for _ in range(30 if quick else 150):
        structs.append(gen.random_structure(rng, rng.randint(4, 10 if quick else 20), nstrands=rng.randint(2, 6)))
    cases = []
    def variants(seq, sst, rots):
        others = [(('zz',), ('.',)), (('a', '+', 'a'), ('.', '+', '.'))]
        regs = [[]] + [[r] for r in sorted(set(rots))] + [[others[0]], others]
        if len(set(rots)) > 1:
            regs.append(list(reversed(sorted(set(rots)))))
        for reg in regs:
            name, prefix, ID = rng.choice([(None, None, 1), ('X', None, 1), (None, 'p', 12), ('X', 'p', 7), (None, None, 10), (None, '', 0)])
            cases.append((reg, ID, seq, sst, name, prefix))
    for s in structs:
        for names in labelings(s, rng, quick):
            rots = ref.rotations(names, s)
            for a, b in rots:
                variants(list(a), ''.join(b), rots)
    for names, s in gen.symmetric_complexes():
        rots = ref.rotations(names, s)
        for a, b in rots:
            variants(list(a), ''.join(b), rots)
    for seq, sst in ILL_FORMED:
        for reg in ([], [(tuple(seq), tuple(sst))]):
            for name, prefix in ((None, None), ('X', None), (None, 'q')):
                cases.append((reg, 3, seq, sst, name, prefix))
    for name, prefix in ((None, None), ('X', None), (None, 'q'), ('', None)):
        cases.append(([], 1, None, '', name, prefix))
        cases.append(([(('a',), ('.',))], 1, None, '.', name, prefix))
    return cases


def strand_inputs(rng, quick):
    cases = []
    for n in range(0, 4 if quick else 6):
        for t in itertools.product(['a', 'b*', '+'], repeat=n):
            name, prefix, ID = rng.choice([(None, None, 1), ('X', None, 1), (None, 'p', 12), ('X', 'p', 7), (None, None, 10)])
            cases.append((ID, list(t), name, prefix))
    for name, prefix in ((None, None), ('X', None), (None, 'q'), ('', None)):
        cases.append((1, None, name, prefix))
    return cases


def source_derived_pyident(res, proof, runner=None):
    from dsdobjects.base_classes import ComplexS, StrandS
    runner = runner or core.run_driver
    rng = random.Random(res.seed * 7368787 + 11)
    quick = res.tier == 'quick'
    lines, impl = [], []
    for reg, ID, seq, sst, name, prefix in complex_inputs(rng, quick):
        lines.append('\t'.join(['pyident.cplx', ';'.join(show_key(k) for k in reg), ComplexS.PREFIX, str(ID), enc_seq(seq), sst,
                                enc_opt(name), enc_opt(prefix)]))
        impl.append(real_complex(ComplexS, reg, ID, seq, sst, name, prefix))
    ncplx = len(lines)
    slines, simpl = [], []
    for ID, seq, name, prefix in strand_inputs(rng, quick):
        slines.append('\t'.join(['pyident.strand', StrandS.PREFIX, str(ID), enc_seq(seq), enc_opt(name), enc_opt(prefix)]))
        simpl.append(real_strand(StrandS, ID, seq, name, prefix))
    try:
        out = runner(lines + slines)
    except core.DriverBroken as e:
        proof.problem('driver', 'source-derived identifiers stream: ' + str(e))
        return
    core.compare_streams(res, 'ComplexS.identifiers.source-derived', lines, impl, out[:ncplx])
    core.compare_streams(res, 'StrandS.identifiers.source-derived', slines, simpl, out[ncplx:])
    res.dist['source_derived_identifiers_calls'] = len(lines) + len(slines)
    res.dist['source_derived_identifiers_break'] = sum(1 for l, o in zip(lines, impl) if o.startswith('ok') and l.split('\t')[1] and
                                                        o.split(' ; ')[0][3:] in l.split('\t')[1].split(';'))
    res.dist['source_derived_identifiers_errors'] = sum(1 for o in impl + simpl if o.startswith('err'))


def run_private_driver(lines, timeout=1200):
    """the ops of DriverIdent.lean through the stand-alone lean/MainIdent.lean (before they are wired into Driver.lean)"""
    data = '\n'.join(lines) + '\n'
    p = subprocess.run(['lake', 'env', 'lean', '--run', 'MainIdent.lean'], cwd=core.LEAN, input=data, capture_output=True, text=True, timeout=timeout)
    if p.returncode != 0:
        raise core.DriverBroken((p.stdout + p.stderr)[-3000:])
    out = p.stdout.split('\n')
    if out and out[-1] == '':
        out.pop()
    if len(out) != len(lines):
        raise core.DriverBroken('driver returned %d lines for %d requests' % (len(out), len(lines)))
    return out


if __name__ == '__main__':
    # /venv/bin/python -m harness.props.pyident_stream <repo> [quick|full]      (from the verif directory)
    import sys
    repo = sys.argv[1]
    core.use_repo(repo)
    res = core.Result('PYIDENT', sys.argv[2] if len(sys.argv) > 2 else 'quick', 1, repo)
    class P:
        def problem(self, kind, detail):
            print('PROBLEM', kind, detail)
    source_derived_pyident(res, P(), runner=run_private_driver)
    print('streams', res.streams, 'dist', res.dist)
    print('disagreements', len(res.disagreements))
    for d in res.disagreements[:8]:
        print(d)
    sys.exit(1 if res.disagreements else 0)
