"""C17 — IUPAC complement and constraint arithmetic is set-exact."""
import random
from .. import core

MODULES = ['DsdVerif.Props.C17', 'DsdVerif.Props.PyIupac']
GEN_FILES = ['IupacTables', 'PyIupac']
THEOREMS = ['Dsd.Iupac.' + t for t in [
    'wc_keys', 'wobble_keys', 'wc_exact', 'wc_involution', 'wobble_exact', 'rna_is_dna_TU', 'bin_exact',
    'bin_zero_empty', 'mapSeq_length', 'mapSeq_pointwise', 'mapSeq_none_iff', 'mapSeq_reverse',
    'reverse_variants', 'wc_sequence_exact', 'wobble_sequence_exact', 'meet_exact', 'meetSpec_none_iff',
    'add_constraints_spec', 'add_constraints_error_iff']] + ['Dsd.PyIupac.' + t for t in [
    # the five sequence functions as written in iupac_utils.py (Gen/PyIupac.lean, regenerated on every run) equal the model
    'py_complement_eq', 'py_wc_complement_eq', 'py_reverse_complement_eq', 'py_reverse_wc_complement_eq', 'py_add_constraints_eq',
    'addConstraints_returns', 'py_complement_error_kind', 'py_wc_complement_raises_iff', 'py_reverse_wc_is_reversed_wc',
    'py_reverse_is_reversed', 'py_wc_complement_exact', 'py_complement_exact', 'py_add_constraints_spec', 'py_add_constraints_length']]
ASSUMPTIONS = [
    'tables are transcribed from iupac_utils.py by translator/gen.py on every run (Gen/IupacTables.lean)',
    'the five sequence functions are hand-modelled (Model/Iupac.lean) AND transcribed statement by statement from iupac_utils.py '
    '(Gen/PyIupac.lean, translator/pyfunc.py); Props/PyIupac.lean proves the two equal for every input; both are run against the code',
    'Python str/dict semantics modelled: dict display keeps the last duplicate key; KeyError on a missing key',
]

# independent reference: IUPAC standard
BASES = {'A': 'A', 'C': 'C', 'G': 'G', 'R': 'AG', 'Y': 'CT', 'S': 'CG', 'M': 'AC', 'W': 'AT', 'K': 'GT',
         'V': 'ACG', 'H': 'ACT', 'D': 'AGT', 'B': 'CGT', 'N': 'ACGT'}
WC = {'A': 'T', 'T': 'A', 'C': 'G', 'G': 'C'}
WOB = {'A': 'T', 'C': 'G', 'G': 'CT', 'T': 'AG'}


def den(c, mat):
    t = 'T' if mat == 'DNA' else 'U'
    if c == t:
        return frozenset('T')
    if c in 'TU':
        return None
    return frozenset(BASES[c]) if c in BASES else None


def code_of(bs, mat):
    t = 'T' if mat == 'DNA' else 'U'
    if bs == frozenset('T'):
        return t
    for c, v in BASES.items():
        if frozenset(v) == bs:
            return c
    return None


def codes(mat):
    return ['A', 'C', 'G', 'T' if mat == 'DNA' else 'U'] + list('RYSMWKVHDBN')


def expect_map(fn, mat, seq):
    pm = WC if 'wc' in fn else WOB
    s = seq[::-1] if fn.startswith('r') else seq
    out = []
    for c in s:
        d = den(c, mat)
        if d is None:
            return None     # outside the property's domain
        out.append(code_of(frozenset(''.join(pm[b] for b in d)), mat))
    return ''.join(out)


def expect_add(mat, s1, s2):
    if len(s1) != len(s2):
        return None
    out = []
    for a, b in zip(s1, s2):
        # constraints may spell the fourth base either way (T or U); the RESULT is spelled in the material's alphabet
        da, db = den('T' if a == 'U' else a, 'DNA'), den('T' if b == 'U' else b, 'DNA')
        if da is None or db is None:
            return None
        i = da & db
        if not i:
            return 'err ConstraintError'
        out.append(code_of(i, mat))
    return 'ok ' + ''.join(out)


FN = {'complement': 'complement', 'wc': 'wc_complement', 'rcomplement': 'reverse_complement', 'rwc': 'reverse_wc_complement'}


_CALLS = [0]


def _fresh_str(m):
    """an equal string that is a different object (what a caller gets from a config file, argparse or str.upper()):
    every other call passes one, the rest pass the interned literal"""
    _CALLS[0] += 1
    return ''.join(list(m)) if _CALLS[0] % 2 else m


def impl_op(iu, op):
    try:
        if op[0] == 'iupac.map':
            if _CALLS[0] % 3 == 0:
                return 'ok ' + getattr(iu, FN[op[1]])(op[3], _fresh_str(op[2]))          # positional material
            return 'ok ' + getattr(iu, FN[op[1]])(op[3], material=_fresh_str(op[2]))
        if op[0] == 'iupac.add':
            r = iu.add_constraints(op[2], op[3], material=_fresh_str(op[1]))
            return 'none' if r is None else 'ok ' + r
    except Exception as e:
        return 'err ' + type(e).__name__
    return 'bad-op'


def gen_ops(res, rng, tier):
    ops = []
    for mat in ('DNA', 'RNA'):
        cs = codes(mat)
        for fn in FN:
            for c in cs + ['X', 'a', 'T', 'U']:
                ops.append(('iupac.map', fn, mat, c))
            ops.append(('iupac.map', fn, mat, ''))
            ops.append(('iupac.map', fn, mat, ''.join(cs)))
        both = cs + [x for x in 'TU' if x not in cs]
        for a in both:
            for b in both:
                ops.append(('iupac.add', mat, a, b))
        for q in ('ACGT', 'ACGU', 'TTUU', 'NTUN', 'UT'):          # equal operands, operands that differ only in the spelling of T / U
            ops.append(('iupac.add', mat, q, q))
            ops.append(('iupac.add', mat, q, q.replace('T', 'u').replace('U', 'T').replace('u', 'U')))
        ops.append(('iupac.add', mat, '', ''))
        ops.append(('iupac.add', mat, 'A', 'AA'))
        ops.append(('iupac.add', mat, 'AX', 'AA'))
    res.count('exhaustive_single_code_ops', len(ops))
    # very long sequences (whole scaffolds; lengths around powers of two): the functions are position-wise at every length
    for mat in ('DNA', 'RNA'):
        cs = codes(mat)
        for L in ((1000, 4095, 4096, 4097, 7249) if tier == 'quick' else (1000, 1023, 1024, 1025, 4095, 4096, 4097, 7249, 8193, 65536, 65537, 100003)):
            s = ''.join(cs[(i * 7 + i // 15) % len(cs)] for i in range(L))
            for fn in FN:
                ops.append(('iupac.map', fn, mat, s))
            ops.append(('iupac.add', mat, s, s[::-1]))
            ops.append(('iupac.add', mat, s[:L // 2] + 'X' + s[L // 2 + 1:], s))
            ops.append(('iupac.map', rng.choice(list(FN)), mat, s[:L - 3] + 'x' + s[L - 2:]))
            res.count('very_long_sequences', 7)
    n = 2000 if tier == 'quick' else 50000
    for _ in range(n):
        mat = rng.choice(('DNA', 'RNA'))
        cs = codes(mat)
        L = rng.choice((1, 2, 3, 5, 8, 13, 40, 200)) if rng.random() < 0.5 else rng.randint(0, 30)
        bias = rng.choice((None, 'N', 'ACG'))
        def rs():
            if bias:
                return ''.join(rng.choice(cs) if rng.random() < 0.5 else rng.choice(bias) for _ in range(L))
            return ''.join(rng.choice(cs) for _ in range(L))
        k = rng.random()
        if k < 0.5:
            s = rs()
            if rng.random() < 0.03 and s:
                i = rng.randrange(len(s)); s = s[:i] + rng.choice('XZacgt-') + s[i + 1:]
                res.count('foreign_char_seq')
            ops.append(('iupac.map', rng.choice(list(FN)), mat, s))
        else:
            s1, s2 = rs(), rs()
            if rng.random() < 0.15:
                s2 = s1; res.count('equal_operands')
            if rng.random() < 0.15:                        # the other alphabet's spelling of the fourth base
                s1 = s1.replace('T', 'U') if mat == 'DNA' else s1.replace('U', 'T'); res.count('other_alphabet_operand')
            if rng.random() < 0.03:
                s2 = s2[:-1]; res.count('unequal_len')
            ops.append(('iupac.add', mat, s1, s2))
    return ops


def run(res, proof):
    from dsdobjects import iupac_utils as iu
    rng = random.Random(res.seed * 1000003 + 17)
    ops = gen_ops(res, rng, res.tier)
    res.rule = ('all 15 codes x 4 functions x 2 materials and all 15x15 code pairs (exhaustive) plus seeded random '
                'sequences up to length 200; a case is non-trivial when its sequence is non-empty and inside the '
                'IUPAC alphabet; distinct by (function, material, sequence(s))')
    res.exhaustive = False
    impl = [impl_op(iu, op) for op in ops]
    from . import cu as _cu
    _cu.rerun_sample(res, 'iupac_utils', ops, impl, lambda op: impl_op(iu, op), rng)
    lines = ['\t'.join(op) for op in ops]
    try:
        model = core.run_driver(lines + ['iupac.failing\tDNA', 'iupac.failing\tRNA'])
        for mat, l in zip(('DNA', 'RNA'), model[-2:]):
            for r in l.split()[1:]:
                res.model_failing.append('%s %s' % (mat, r))
        core.compare_streams(res, 'iupac', lines, impl, model[:-2])
        # the source-derived functions (Gen/PyIupac.lean) on the same inputs
        plines = ['py' + l for l in lines]
        core.compare_streams(res, 'iupac.source-derived', plines, impl, core.run_driver(plines))
    except core.DriverBroken as e:
        proof.problem('driver', str(e))
    # oracle on the real code
    for op, out in zip(ops, impl):
        res.evaluations += 1
        if op[0] == 'iupac.map':
            fn, mat, s = op[1], op[2], op[3]
            exp = expect_map(fn, mat, s)
            if exp is None:
                res.count('outside_domain'); continue
            if s:
                res.nontriv(op)
            res.count('map_len_%s' % ('1' if len(s) == 1 else '0' if not s else 'n'))
            if out != 'ok ' + exp:
                # shrink to the first offending position
                key = None
                if out.startswith('ok ') and len(out) - 3 == len(exp):
                    src = s[::-1] if fn.startswith('r') else s
                    for i, (a, b) in enumerate(zip(out[3:], exp)):
                        if a != b:
                            key = '%s:%s:%s' % (FN[fn], mat, src[i]); break
                key = key or '%s:%s:%s' % (FN[fn], mat, 'seq')
                res.violation(key, {'op': list(op)}, out, 'ok ' + exp)
        else:
            mat, s1, s2 = op[1], op[2], op[3]
            exp = expect_add(mat, s1, s2)
            if exp is None:
                res.count('outside_domain'); continue
            if s1:
                res.nontriv(op)
            res.count('add_' + ('error' if exp.startswith('err') else 'ok'))
            if out != exp:
                key = 'add_constraints:returns-none' if out == 'none' else 'add_constraints:%s:%s:%s' % (mat, s1[:3], s2[:3])
                if len(s1) > 3:
                    # shrink to one position
                    for a, b in zip(s1, s2):
                        o1 = impl_op(iu, ('iupac.add', mat, a, b))
                        if o1 != expect_add(mat, a, b):
                            key = 'add_constraints:returns-none' if o1 == 'none' else 'add_constraints:%s:%s:%s' % (mat, a, b)
                            break
                res.violation(key, {'op': list(op)}, out, exp)
    reader_use(res, rng)
    for op in ops[::max(1, len(ops) // 10)]:
        res.sample('\t'.join(op))


def reader_use(res, rng):
    """the use by the reader (objectio.py): the complement of a sequenced domain carries reverse_wc_complement(sequence)"""
    import gc
    from dsdobjects import objectio, clear_singletons
    from dsdobjects.base_classes import DomainS
    seqs = ['NNNNS', 'SW', 'WS', 'SSW', 'NSN', 'NNS', 'ACGT', 'AACG', 'RYKM', 'BDHV', 'SWNNB', 'A', 'S', 'NW', 'GATTACA']
    cs = codes('DNA')
    for _ in range(25):
        seqs.append(''.join(rng.choice(cs) for _ in range(rng.randint(2, 9))))
        seqs.append(''.join(rng.choice('SWN') for _ in range(rng.randint(2, 6))))
    objectio.set_io_objects()
    for q in seqs:
        for name in ('x', 'x*'):
            clear_singletons(DomainS)
            res.evaluations += 1
            try:
                out = objectio.read_pil('sequence %s = %s\n' % (name, q))
                other = name[:-1] if name.endswith('*') else name + '*'
                got = out['domains'][other].sequence
                own = out['domains'][name].sequence
                del out
            except Exception as e:
                res.violation('reader:sequence:raises:' + type(e).__name__, {'op': ['read_pil', 'sequence %s = %s' % (name, q)]}, type(e).__name__, 'the two domains'); e = None
                continue
            want = expect_map('rwc', 'DNA', q)
            res.count('reader_complement_sequences')
            if got != want or own != q:
                res.violation('reader:complement-sequence:' + q[:6], {'op': ['read_pil', 'sequence %s = %s' % (name, q)]},
                              '%s.sequence = %r, %s.sequence = %r' % (name, own, other, got), 'the declared sequence and its reverse Watson-Crick complement %r' % want)
    clear_singletons(DomainS)
    gc.collect()


def replay(body, repo):
    from dsdobjects import iupac_utils as iu
    v = body
    op = tuple(v['input']['op'])
    if op[0] == 'read_pil':
        from dsdobjects import objectio
        objectio.set_io_objects()
        try:
            d = objectio.read_pil(op[1] + '\n')['domains']
            out = ', '.join('%s.sequence = %r' % (k, d[k].sequence) for k in sorted(d))
        except Exception as e:
            out = 'err ' + type(e).__name__
        print('op       :', op); print('observed :', out); print('required :', v.get('required'))
        return 1
    out = impl_op(iu, op)
    print('op       :', op)
    print('observed :', out)
    print('required :', v.get('required'))
    return 0 if out == v.get('required') else 1

MANIFEST = {
    'text': 'Full. Table theorems (wc_exact, wc_involution, wobble_exact, rna_is_dna_TU, bin_exact, meet_exact) are decided by the '
            'Lean kernel over tables regenerated from iupac_utils.py on every run; sequence-level theorems (mapSeq_pointwise, '
            'mapSeq_reverse, reverse_variants, wc/wobble_sequence_exact, add_constraints_spec, add_constraints_error_iff) hold for '
            'sequences of any length by induction on the hand model, which is tied to the five Python functions by a correspondence '
            'stream (all codes, all code pairs, random sequences).'
            " STATEMENT LEVEL, FROM THE SOURCE: complement, wc_complement, reverse_complement, reverse_wc_complement and add_constraints are transcribed statement by statement from iupac_utils.py on every run (Gen/PyIupac.lean; the module-level tables are the regenerated Gen/IupacTables constants) and proved equal to the model for every sequence and material (py_*_eq), so the set-exactness theorems hold of the code as written (py_wc_complement_exact, py_complement_exact, py_reverse_wc_is_reversed_wc, py_add_constraints_spec, py_add_constraints_length, addConstraints_returns: it never returns None); the reader's use of reverse_wc_complement is checked on the real code.",
    'note': 'Trusted: Lean kernel; translator/gen.py transcribes the dict/list literals, translator/pyfunc.py the five functions '
            '(its reading of Python is validated against CPython by the source-derived stream); axioms limited to propext, Classical.choice, Quot.sound.',
    'technique': 'Lean 4 theorems over tables AND functions regenerated from source (decide; equality proofs by induction) + induction on the hand model; correspondence check',
}
