"""The small members of `DomainS` as translated from the working tree (translator/pymembers.py -> Gen/PyMembers.lean) against real objects.

`source_derived_pymembers(res, proof)` creates REAL `DomainS` objects (and objects of subclasses with other `DTYPE_CUTOFF`s) over names with
zero, one and two trailing stars and lengths 0 … 20 (zero-length domains included), reads `name`, `length`, `dtype`, `is_complement`,
`cname`, `~d` (the name and length of the object that comes back), `len(d)` and `bool(d)`, and compares with the translated members through the
driver op `pym.dom` (lean/DsdVerif/DriverMembers.lean; `~d` there shows what is REQUESTED from the class) - stream `DomainS-members.source-derived`.
"""
import os
import random
from .. import core

STREAM = 'DomainS-members.source-derived'


def run_members_driver(lines):
    wired = 'stepMembers' in open(os.path.join(core.LEAN, 'DsdVerif', 'Driver.lean'), encoding='utf-8').read()
    if wired:
        return core.run_driver(lines)
    data = '\n'.join(lines) + '\n'
    rc, out, err = core.sh(['lake', 'env', 'lean', '--run', 'MainMembers.lean'], cwd=core.LEAN, input=data, timeout=1200)
    if rc != 0:
        raise core.DriverBroken((out + err)[-3000:])
    got = out.split('\n')
    if got and got[-1] == '':
        got.pop()
    if len(got) != len(lines):
        raise core.DriverBroken('driver returned %d lines for %d requests; tail: %s' % (len(got), len(lines), got[-3:]))
    return got


def field(f):
    try:
        return f()
    except Exception as e:
        return 'err ' + type(e).__name__


def source_derived_pymembers(res, proof):
    from dsdobjects import clear_singletons
    from dsdobjects.base_classes import DomainS
    rng = random.Random(res.seed * 4040409 + 44)
    classes = [DomainS] + [type('Dom%d' % c, (DomainS,), {'DTYPE_CUTOFF': c}) for c in (0, 3, 8, 12, 20)]
    bases = ['a', 'b', 'd1', 'toe', 'x_y', 'long-name', 'ä', 'A']
    lines, impl = [], []
    for K in classes:
        clear_singletons(K)
        n = 0
        for base in bases:
            for stars in ('', '*', '**'):
                for length in ([0, 1, 3, 8, 9, 20] if res.tier == 'quick' else range(0, 21)):
                    name = '%s%d%s' % (base, n, stars); n += 1          # a fresh name per object: no conflict with a registered complement
                    try:
                        d = K(name, length)
                    except Exception as e:
                        res.count('pym:unconstructible'); e = None
                        continue
                    def inv():
                        c = ~d
                        return '%s,%d' % (c.name, c.length)
                    out = 'name=%s length=%s dtype=%s iscomp=%s cname=%s inv=%s len=%s bool=%s' % (
                        field(lambda: d.name), field(lambda: d.length), field(lambda: d.dtype), field(lambda: d.is_complement),
                        field(lambda: d.cname), field(inv), field(lambda: len(d)), field(lambda: bool(d)))
                    lines.append('\t'.join(['pym.dom', name, str(length), str(K.DTYPE_CUTOFF)])); impl.append(out)
                    res.count('pym:objects'); res.count('pym:falsy' if not d else 'pym:truthy')
                    del d
    try:
        out = run_members_driver(lines)
    except core.DriverBroken as e:
        proof.problem('driver', 'pymembers stream: ' + str(e))
        return
    core.compare_streams(res, STREAM, lines, impl, out)
    res.dist['pym:ops'] = len(lines)
    for l in lines[:2]:
        res.sample(l)
