"""C10 — equality, hashing, ordering and read-only identity are coherent."""
import itertools, random
from .. import core, hist, world as W, ref
from .c01 import fix_disagreements

MODULES = ['DsdVerif.Props.C10', 'DsdVerif.Props.PySetters', 'DsdVerif.Props.PyDunders']
GEN_FILES = ['Dunders', 'PySetters', 'PyComplexS', 'PySetObjects', 'PyDunders']
THEOREM_NAMES = ['lexLt_strictTotal', 'strLt_strictTotal', 'ckeyLt_strictTotal', 'mkeyLt_strictTotal', 'memLt_strictTotal', 'rkeyLt_strictTotal_on_typed', 'le_total', 'le_trans', 'lt_iff_le_not_le', 'le_antisymm', 'dom_eq_hash', 'sortBy_perm', 'sortBy_sorted', 'sortBy_perm_invariant']
THEOREMS = ['Dsd.C11.' + t for t in THEOREM_NAMES] + ['Dsd.C10.dunders_coherent', 'Dsd.C10.dunder_keys'] + ['Dsd.PySetters.' + t for t in [
    # the identity-protecting setters of all five classes as written in the source (translator/pysetters.py -> Gen/PySetters.lean): each refuses
    # EVERY value with SingletonError and leaves the object unchanged
    'py_DomainS_name_set_refused', 'py_DomainS_length_set_refused', 'py_ComplexS_name_set_refused', 'py_ComplexS_canonical_form_set_refused',
    'py_MacrostateS_complexes_set_refused', 'py_MacrostateS_representative_set_refused', 'py_ReactionS_reactants_set_refused',
    'py_ReactionS_products_set_refused', 'py_ReactionS_rtype_set_refused', 'py_ReactionS_name_set_refused', 'rtype_in_RTYPES_refused',
    'py_DomainS_getters', 'py_identity_readonly', 'py_getters_unaffected']]
# the 28 comparison / hash methods as written in the source (translator/pydunders.py -> Gen/PyDunders.lean): == iff keys equal, <= a total preorder refined by ==, equal => equal hashes, hash never raises
THEOREMS += ['Dsd.PyDunders.' + t for t in ['coherent_of', 'py_DomainS_coherent', 'py_ComplexS_coherent', 'py_MacrostateS_coherent', 'py_ReactionS_coherent', 'py_order_coherent', 'py_order_is_model', 'py_order_foreign', 'plex_strictTotal']]
ASSUMPTIONS = [
    'the comparison operators of the five classes are functions of the canonical forms; they are modelled by strict orders on the keys '
    '(Model/Objects.lean: strLt, ckeyLt, mkeyLt, memLt, rkeyLt, leOf) and tied to __eq__/__lt__/__le__/__hash__ by the `cmp` stream',
    'reaction types are strings (a None type makes Python\'s < raise TypeError: outside the stated population)',
    'the clause "handed-out views are copies" is a Python aliasing fact that an immutable model cannot exhibit: oracle only',
]
MANIFEST = {
    'text': 'Partial (aliasing clause by oracle only). Proof for the order / equality algebra: the key orders of all five kinds are strict '
            'total orders (lexLt_strictTotal, strLt/ckeyLt/mkeyLt/memLt/rkeyLt), hence <=/>= form a total transitive preorder with '
            'lt_iff_le_not_le and antisymmetry up to equal keys, equal domains have equal hash keys, and sorting permutations of a '
            'population gives equal lists (sortBy_perm_invariant). The comparison and hashing methods AS WRITTEN in base_classes.py are '
            'translated on every run (Gen/Dunders.lean: operator and attributes per method) and proved coherent (dunders_coherent: '
            '__ne__ negates __eq__, the four order methods apply < > <= >= to one key that is part of the equality key, __hash__ hashes '
            'part of the equality key; dunder_keys). The model orders are tied to the real operators on all pairs of '
            'generated populations including objects of different subclass registries, complexes differing only in structure and '
            'reactions differing only in type; coherence laws are also checked directly on all pairs and triples; every identity '
            'attribute is assigned (must raise, object unchanged) and every handed-out view is mutated and re-read.',
    'note': 'View aliasing and setter behaviour are decided by the oracle on the real objects only.',
    'source_derived': "The clause 'name, length, canonical form and members cannot be reassigned - the attempt raises and leaves the object unchanged' is proved of the code as written: translator/pysetters.py transcribes the ten protected setters of the five classes from the working tree (Gen/PySetters.lean, on the records of the translated getters); PySetters.py_identity_readonly (for every (class, attribute) pair and EVERY value the setter raises SingletonError and the object is unchanged, so every getter answers as before: py_getters_unaffected) - a setter turned into an assignment is translated as that assignment and the proof fails; stream identity-setters.source-derived on real objects of all five classes.",
    'technique': 'Lean 4 proofs of strict-total-order laws for lexicographic key orders + coherence of the translated comparison methods; correspondence check on all pairs; oracle for setters/aliasing',
}


def population(iw, rng):
    """returns history lines creating the population and the list of handles per kind"""
    L = ['reset']
    for cls in (0, 1):
        for n, ln in (('a', 5), ('b', 5), ('ab', 9), ('a*', 5), ('B', 5), ('d2', 5), ('d9', 5), ('d10', 5), ('d2a', 5), ('d10*', 5),
                      ('x1y2', 5), ('-', 5), ('_a', 5), ('A-1', 5), ('10', 5), ('9', 5)):
            L.append('mk.dom\t%d\t%s\t%d\t-\t-' % (cls, n, ln))
    L.append('mk.dom\t3\ta\t9\t-\t-')
    L.append('mk.dom\t3\td10\t9\t-\t-')          # same name, other length, sibling class
    return L


def run(res, proof):
    rng = random.Random(res.seed * 1299709 + 10)
    iw = W.ImplWorld()
    quick = res.tier == 'quick'
    hl = population(iw, rng)
    ho = [iw.do(l) for l in hl]
    doms = sorted(iw.held)
    d = {'a': 0, 'b': 1, 'ab': 2}

    def add(l):
        o = iw.do(l); hl.append(l); ho.append(o)
        return int(o.split(' ')[1][1:]) if o.startswith('ret h') else None

    cx = []
    specs = [('h0', '.'), ('h1', '.'), ('h0 h1', '..'), ('h0 + h1', '(+)'), ('h0 + h1', '.+.'), ('h1 + h0 h0', '(+).'), ('h1 + h0 h0', '(+.)'),
             ('h0 h0 + h1', '..+.'), ('h2', '.'), ('h0 + h0', '(+)'), ('h0 + h0 + h1', '(+)+.'), ('h0 + h0 + h1', '(+.+)')]
    for i, (sq, st) in enumerate(specs):
        for cls in (0, 1):
            h = add('mk.cplx\t%d\tX%d\t-\t%s\t%s' % (cls, i, sq, st))
            if h is not None: cx.append(h)
    # two copies of one strand with an asymmetric pairing: the base class sees one rotation first, the subclass the other
    h = add('mk.cplx\t0\tP0\t-\th0 h1 + h0 h1\t(.+.)')
    if h is not None: cx.append(h)
    h = add('mk.cplx\t1\tP0\t-\th0 h1 + h0 h1\t.(+).')
    if h is not None: cx.append(h)
    strands = []
    for i, sq in enumerate(['h0', 'h0 h1', 'h1 h0', 'h2']):
        for cls in (0, 1):
            h = add('mk.strand\t%d\tS%d\t%s' % (cls, i, sq))
            if h is not None: strands.append(h)
    base_cx = [h for h in cx if type(iw.held[h]).__name__ == 'ComplexS']
    macros = []
    for sub in [(0,), (1,), (0, 1), (1, 2), (0, 1, 2), (3, 4), (2, 5), (0, 2), (0, 3), (1, 3)]:
        for cls in (0, 1, 3):
            # the same member set in every registry, each time named after another member (another representative)
            nm = iw.held[base_cx[sub[cls % len(sub)]]].name if cls else '-'
            order = list(sub) if cls != 3 else list(reversed(sub))           # the sibling class lists the members the other way round
            h = add('mk.macro\t%d\t%s\t%s' % (cls, nm, ' '.join('h%d' % base_cx[i] for i in order)))
            if h is not None: macros.append(h)
    rxns = []
    for (r, p) in [((0, 1), (2,)), ((1, 0), (3,)), ((0,), (1,)), ((0, 0), (2,)), ((2,), (0, 1))]:
        for t in ('bind21', 'open', 'condensed'):
            for cls in (0, 1):
                h = add('mk.rxn\t%d\t-\t%s\t%s\t%s' % (cls, t, ' '.join('h%d' % base_cx[i] for i in r), ' '.join('h%d' % base_cx[i] for i in p)))
                if h is not None: rxns.append(h)
    groups = {'dom': doms, 'cplx': cx, 'strand': strands, 'macro': macros, 'rxn': rxns}
    # ---- all pairs: correspondence (cmp stream) + coherence laws on the real objects
    for kind, hs in groups.items():
        objs = [iw.held[h] for h in hs]
        for i, a in enumerate(hs):
            for b in hs:
                l = 'cmp\th%d\th%d' % (a, b)
                hl.append(l); ho.append(iw.do(l))
        for x, y in itertools.product(objs, repeat=2):
            res.evaluations += 1
            cf = (lambda o: (o.name, o.length)) if kind == 'dom' else (lambda o: o.canonical_form)
            eq = cf(x) == cf(y)
            desc = {'pair': [repr(x), repr(y), type(x).__name__, type(y).__name__]}
            # judged independently of the canonical form the library computed: the same rotation class (complexes),
            # the same member set (macrostates)
            ind = None
            if kind == 'cplx' and x.structure is not None and y.structure is not None:
                ind = (tuple(str(a) for a in y.sequence), tuple(y.structure)) in set(ref.rotations([str(a) for a in x.sequence], list(x.structure)))
            elif kind == 'macro':
                ind = {c.canonical_form for c in x.complexes} == {c.canonical_form for c in y.complexes} and len(x) == len(y)
            if ind is not None and ind != (x == y):
                res.violation('eq-iff-same-object-denoted:' + kind, desc, '== is %s' % (x == y), 'denote the same %s: %s' % (kind, ind))
            if (x == y) != eq:
                res.violation('eq-iff-canonical-form:' + kind, desc, '== is %s' % (x == y), 'canonical forms equal: %s' % eq)
            if (x != y) != (not (x == y)):
                res.violation('ne-not-negation:' + kind, desc, '!=', 'not ==')
            if x == y and hash(x) != hash(y):
                res.violation('equal-unequal-hash:' + kind, desc, 'hashes differ', 'equal hashes')
            lt, le, gt, ge = x < y, x <= y, x > y, x >= y
            if not (le or ge) or lt != (le and not ge) or gt != (ge and not le) or lt != (y > x) or le != (y >= x):
                res.violation('order-incoherent:' + kind, desc, 'lt=%s le=%s gt=%s ge=%s' % (lt, le, gt, ge), 'a total preorder')
            if x == y and (lt or gt):
                res.violation('equal-not-equivalent:' + kind, desc, 'lt=%s gt=%s' % (lt, gt), 'equal objects are equivalent')
            res.nontriv((kind, id(x), id(y)))
        trip = list(itertools.product(objs, repeat=3))
        if len(trip) > (30000 if quick else 200000):
            trip = rng.sample(trip, 30000 if quick else 200000)
        for x, y, z in trip:
            res.evaluations += 1
            if x <= y and y <= z and not x <= z:
                res.violation('le-not-transitive:' + kind, {'triple': [repr(x), repr(y), repr(z)]}, 'x<=y<=z but not x<=z', 'transitive')
            if x < y and y < z and not x < z:
                res.violation('lt-not-transitive:' + kind, {'triple': [repr(x), repr(y), repr(z)]}, 'x<y<z but not x<z', 'transitive')
        # deterministic sorting / sets
        for _ in range(20):
            p1, p2 = objs[:], objs[:]
            rng.shuffle(p1); rng.shuffle(p2)
            s1, s2 = sorted(p1), sorted(p2)
            if kind != 'dom' and any(not (u == v) for u, v in zip(s1, s2)):
                res.violation('sorted-not-deterministic:' + kind, {'kind': kind}, 'two shuffles sort differently', 'lists equal under ==')
            if len(set(p1)) != len(set(p2)):
                res.violation('set-not-deterministic:' + kind, {'kind': kind}, 'set sizes differ', 'equal')
        res.count('population_' + kind, len(objs))
    # ---- read-only identity
    attrs = {'dom': ['name', 'length', 'canonical_form'], 'cplx': ['name', 'canonical_form'], 'strand': ['name', 'canonical_form'],
             'macro': ['complexes', 'representative', 'name', 'canonical_form'],
             'rxn': ['reactants', 'products', 'rtype', 'name', 'canonical_form']}
    # an untyped reaction (rtype None) takes part in the read-only checks only (types are strings in the ordered population)
    untyped = add('mk.rxn\t0\t-\t-\th%d\th%d' % (base_cx[0], base_cx[1]))
    for kind, hs in groups.items():
        for h in hs[:6] + ([untyped] if kind == 'rxn' and untyped is not None else []):
            o = iw.held[h]
            for a in attrs[kind]:
                res.evaluations += 1
                before = snapshot(o, kind)
                try:
                    # rtype: every library type is tried as well (a plausible value must be refused like an implausible one)
                    vals = (['Z'] + list(type(o).RTYPES)) if a == 'rtype' else ['Z'] if a == 'name' else [7] if a == 'length' else [[]]
                    for v in vals[:-1]:
                        try:
                            setattr(o, a, v)
                            res.violation('identity-assignable:%s.%s' % (kind, a), {'object': repr(o), 'attribute': a, 'value': repr(v)},
                                          'no exception', 'raises and leaves the object unchanged')
                        except Exception as e:
                            e = None
                    setattr(o, a, vals[-1])
                    raised = False
                except Exception as e:
                    raised = True
                    e = None
                after = snapshot(o, kind)
                if not raised or before != after:
                    res.violation('identity-assignable:%s.%s' % (kind, a), {'object': repr(o), 'attribute': a},
                                  'no exception' if not raised else 'object changed', 'raises and leaves the object unchanged')
                res.count('setter_checked')
    # ---- handed-out views are copies
    for h in cx[:12]:
        o = iw.held[h]
        res.evaluations += 1
        before = snapshot(o, 'cplx')
        s = list(o.sequence); s.append('junk'); s[:1] = []
        t = list(o.structure); t[:] = ['x']
        for row in o.strand_table: row.append('junk')
        st = list(o.strand_table); st.append(['junk'])
        for row in o.pair_table:
            row.append((9, 9))
            if row: row[0] = 'junk'
        pt = list(o.pair_table); pt.clear()
        for a, b in o.rotate(): a.append('junk'); b.append('x')
        for a, b in o.rotate_pt(): a.append(['junk']); b.append([None])
        try:
            after = snapshot(o, 'cplx')
            broke = None
        except Exception as e:
            after, broke = None, type(e).__name__
            e = None
        if before != after:
            # which view hands out a part of the object: re-read the plain attributes (no derived view can fail here)
            try:
                now = ('sequence %s / structure %s' % (' '.join(map(str, o._sequence)), ''.join(map(str, o._structure))))
            except Exception:
                now = '?'
            res.violation('view-aliases-object', {'object': 'complex %s (handle h%d)' % (o.name, h), 'mutated': 'every inner list of strand_table / pair_table / rotate() / rotate_pt() and the lists made from sequence / structure'},
                          ('reading the object afterwards raises %s; ' % broke if broke else 'object changed after mutating handed-out views; ') + 'it now holds ' + now,
                          'views are copies: the object is unchanged')
        res.count('aliasing_checked')
    # ---- equal objects of the SAME class: an object kept across clear_singletons() and the object built again afterwards
    # (both alive, same canonical form, different identity): every coherence law applies to them as well
    from dsdobjects import clear_singletons
    def rebuild(o, kind):
        K = type(o)
        if kind == 'dom':
            return K(o.name, length=o.length)
        if kind == 'cplx':
            return K(list(o.sequence), list(o.structure), name=o.name)
        if kind == 'strand':
            return K(list(o.sequence), name=o.name)
        if kind == 'macro':
            return K(list(o.complexes), name=o.name)
        return K(list(o.reactants), list(o.products), o.rtype)
    for kind in ('rxn', 'macro', 'strand', 'cplx', 'dom'):
        olds = [iw.held[h] for h in groups[kind][:10]]
        for K in {type(o) for o in olds}:
            clear_singletons(K)
        twins = []
        for o in olds:
            try:
                t = rebuild(o, kind)
            except Exception as e:
                e = None
                continue
            if t is not o:
                twins.append((o, t))
        for o, t in twins:
            res.evaluations += 1
            cf = (lambda q: (q.name, q.length)) if kind == 'dom' else (lambda q: q.canonical_form)
            desc = {'pair': [repr(o), repr(t), type(o).__name__, 'the same request after clear_singletons()']}
            if cf(o) == cf(t):
                if not (o == t) or (o != t) or hash(o) != hash(t) or not (o <= t and o >= t) or o < t or o > t or len({o, t}) != 1:
                    res.violation('stale-twin-not-equal:' + kind, desc, '==: %s, !=: %s, hashes equal: %s, set size %d' % (o == t, o != t, hash(o) == hash(t), len({o, t})),
                                  'equal canonical forms: ==, equal hashes, equivalent in the order, one set element')
                for (p, q) in twins:
                    if (o == p) != (t == q) and cf(p) == cf(q):
                        res.violation('stale-twin-eq-not-transitive:' + kind, desc, 'o == p is %s but twin == twin is %s' % (o == p, t == q), 'the same answers')
                        break
        res.count('stale_twins_' + kind, len(twins))
        del olds, twins
    from .pysetters_stream import source_derived_pysetters
    core.run_stream(source_derived_pysetters, res, proof)      # the read-only setters as translated from the working tree against the real objects
    from .pydunders_stream import source_derived_pydunders
    core.run_stream(source_derived_pydunders, res, proof)     # the comparison methods as translated from the working tree, all ordered pairs
    for l in hl[:8]:
        res.sample(l)
    res.rule = ('populations: 34 domains (incl. numbered / mixed names and other lengths in other registries), %d complexes (incl. pairs differing only in structure and copies in a subclass registry), %d '
                'strands, %d macrostates, %d reactions (incl. triples differing only in type), all ordered pairs per kind (correspondence '
                'with the model orders + coherence laws), all/sampled triples (transitivity), shuffles (sorted / set), every identity '
                'attribute assigned, every handed-out view mutated; distinct by object pair' % (len(cx), len(strands), len(macros), len(rxns)))
    res.exhaustive = True
    try:
        model = core.run_driver(hl)
        core.compare_streams(res, 'cmp', hl, ho, model)
        if res.disagreements:
            fix_disagreements(res, hl, ho, model)
    except core.DriverBroken as e:
        proof.problem('driver', str(e))
    groups.clear()
    iw.reset()


def snapshot(o, kind):
    if kind == 'dom':
        return (o.name, o.length, id(o))
    if kind in ('cplx', 'strand'):
        return (o.name, o.canonical_form, o.turns, [str(x) for x in o.sequence], list(o.structure) if o.structure is not None else None,
                [list(map(str, x)) for x in o.strand_table], [list(x) for x in o.pair_table] if kind == 'cplx' else None)
    if kind == 'macro':
        return (o.name, [id(c) for c in o.complexes], id(o.representative), tuple(id(c) for c in o.canonical_form))
    return (o.name, [id(c) for c in o.reactants], [id(c) for c in o.products], o.rtype, repr(o.canonical_form))


def replay(body, repo):
    print(body)
    return 1
