"""`ComplexS.__init__` as translated from the working tree (translator/pycomplex3.py -> Gen/PyComplexS3.lean) against the real method.

`source_derived_pycomplex3(res, proof)` calls the REAL `ComplexS.__init__` on a blank object (`object.__new__`) of a fresh subclass with
its own `PREFIX` / `ID` / `_instanceCanon` (some keys already held by other blank objects), with generated arguments - name and prefix
given or None, canonical form and turns given or None (the assertions), keys to register some of which are already in the dictionary -
and the TRANSLATED `py_ComplexS_init_full` through the driver op `pyc3.init` (lean/DsdVerif/DriverComplexS3.lean); compared: the name
stored, `cls.ID` afterwards, turns, canonical form, and the items of `_instanceCanon` in order (stream `ComplexS-init.source-derived`).
"""
import os
import random
from .. import core, gen

STREAM = 'ComplexS-init.source-derived'


def run_c3_driver(lines):
    wired = 'stepComplexS3' in open(os.path.join(core.LEAN, 'DsdVerif', 'Driver.lean'), encoding='utf-8').read()
    if wired:
        return core.run_driver(lines)
    data = '\n'.join(lines) + '\n'
    rc, out, err = core.sh(['lake', 'env', 'lean', '--run', 'MainComplexS3.lean'], cwd=core.LEAN, input=data, timeout=1200)
    if rc != 0:
        raise core.DriverBroken((out + err)[-3000:])
    got = out.split('\n')
    if got and got[-1] == '':
        got.pop()
    if len(got) != len(lines):
        raise core.DriverBroken('driver returned %d lines for %d requests; tail: %s' % (len(got), len(lines), got[-3:]))
    return got


def show_key(k):
    return ' '.join(k[0]) + ',' + ''.join(k[1])


def source_derived_pycomplex3(res, proof):
    from dsdobjects.base_classes import ComplexS
    rng = random.Random(res.seed * 3030307 + 33)
    n = 600 if res.tier == 'quick' else 6000
    lines, impl = [], []
    for i in range(n):
        s = gen.random_structure(rng, rng.randint(1, 8))
        names = gen.label(s, rng, ['a', 'b', 'a*', 'c'])
        rots, cur = [], (tuple(names), tuple(s))
        strands = s.count('+') + 1
        for _ in range(strands):                       # candidate keys: some rotations-like variants (any keys will do for __init__)
            rots.append(cur)
            cur = (cur[0][1:] + cur[0][:1], cur[1][1:] + cur[1][:1])
        keys = rots[:rng.randint(0, len(rots))]
        K = type('InitComplex%d' % i, (ComplexS,), {'PREFIX': rng.choice(['c', 'cplx', '']), 'ID': rng.randint(0, 120)})
        pfx, id0 = K.PREFIX, K.ID
        others = [object.__new__(K) for _ in range(2)]
        table = []
        for k in rng.sample(rots, rng.randint(0, len(rots))):
            o = rng.randrange(2)
            K._instanceCanon[k] = others[o]; table.append((k, o))
        name = rng.choice([None, None, 'X', 'n%d' % i])
        prefix = rng.choice([None, None, 'p', 'qq'])
        canon = rng.choice([rots[0], rots[0], rots[-1], None]) if rng.random() < 0.9 else None
        turns = rng.choice([0, 1, 2, -1]) if rng.random() < 0.9 else None
        me = 7
        obj = object.__new__(K)
        ids = {id(others[0]): 0, id(others[1]): 1, id(obj): me}
        try:
            ComplexS.__init__(obj, list(names), list(s), name=name, prefix=prefix, canon=canon, turns=turns, rcplxs=list(keys))
            out = 'ok name=%s ID=%d turns=%d canon=%s reg=%s' % (obj._name, K.ID, obj._turns, '-' if obj._canon is None else show_key(obj._canon),
                                                                 ';'.join('%s=%d' % (show_key(k), ids[id(v)]) for k, v in K._instanceCanon.items()))
        except Exception as e:
            out = 'err ' + type(e).__name__
            e = None
        opt = lambda x: '-' if x is None else '=' + x
        lines.append('\t'.join(['pyc3.init', str(me), ' '.join(names), s, opt(name), opt(prefix), '-' if canon is None else show_key(canon),
                                '-' if turns is None else str(turns), ';'.join(show_key(k) for k in keys), pfx, str(id0),
                                ';'.join('%s=%d' % (show_key(k), o) for k, o in table)]))
        impl.append(out)
        res.count('pyc3:' + out.split(' ')[0] + ('_auto' if name is None and out.startswith('ok') else ''))
        del obj, others
    try:
        out = run_c3_driver(lines)
    except core.DriverBroken as e:
        proof.problem('driver', 'pycomplex3 stream: ' + str(e))
        return
    core.compare_streams(res, STREAM, lines, impl, out)
    res.dist['pyc3:ops'] = len(lines)
    for l in lines[:2]:
        res.sample(l[:200])
