"""C01 — singleton identity: one live object per name and per canonical form (all five classes, all histories)."""
import itertools, random
from .. import core, hist, world as W

MODULES = ['DsdVerif.Props.C01', 'DsdVerif.Props.PySingleton', 'DsdVerif.Props.PyComplexS3']
GEN_FILES = ['PySingleton', 'PyComplexS3', 'PyComplexS', 'PyIdentifiers']
THEOREM_NAMES = ['wf_init', 'wf_lookup', 'wf_unique', 'wf_call', 'wf_drop', 'wf_steps', 'consistent_returns_same',
                 'conflict_raises_unchanged', 'name_only', 'refused_no_effect', 'create_only_when_free',
                 'complex_keys_admissible', 'complex_keys_unregistered', 'domain_name_only_creates_only_starred']
THEOREMS = ['Dsd.C01.' + t for t in THEOREM_NAMES] + ['Dsd.PySingleton.' + t for t in [
    # Singleton.__call__ / clear_singletons as written in the source (translator/pysingleton.py -> Gen/PySingleton.lean, regenerated on every
    # run; the class with its two dictionaries is the state) equal the statement-level model callFull; the C01 theorems for the code as written
    'py_call_eq_callFull', 'py_call_eq_call', 'py_call_empty_name', 'rep_init', 'py_consistent_returns_same', 'py_conflict_raises_unchanged',
    'py_name_only', 'py_refused_no_effect', 'py_create_only_when_free', 'py_wf_call', 'initKeys_takeover', 'py_clear_singletons_spec']]
# the whole ComplexS.__init__ as written in the source (translator/pycomplex3.py -> Gen/PyComplexS3.lean) and its composition with the translated
# identifiers and the translated Singleton.__call__: the same name at both sites, exactly the visited rotations registered, the request of the model
THEOREMS += ['Dsd.PyComplexS3.' + t for t in ['py_init_full_eq', 'py_init_full_asserts', 'py_init_attrs_eq_pymethod', 'py_init_registers_eq_construct', 'py_init_after_identifiers', 'py_complex_request_eq_full']]
ASSUMPTIONS = [
    'WeakValueDictionary semantics is modelled: an entry exists exactly while its value is strongly reachable (Model/Registry.lean, '
    'Model/World.lean: reachability from user handles through containment)',
    'the five identifiers() methods are hand-modelled (Model/Objects.lean); temporary complement domains created and dropped inside '
    'DomainS.identifiers are not modelled (net effect only)',
]
MANIFEST = {
    'text': 'Full for the model of the metaclass: wf_steps (by induction over arbitrary histories of requests and drops, the registry '
            'invariant holds: names are unique, key sets are disjoint, every object is registered under its own name and canonical '
            'form, so both keys lead to the same object), consistent_returns_same, conflict_raises_unchanged (SingletonError, '
            '`existing` is the live object with the requested canonical form, registry equal to the input registry), name_only, '
            'refused_no_effect; generic in the key type, hence for all five classes. The model (metaclass + the five identifiers '
            'methods + reachability-based liveness) is tied to the code by exhaustive histories of bounded depth per class and long '
            'random histories over all classes; the invariant is also checked directly on the real registries after every step.',
    'note': 'CPython reference counting / WeakValueDictionary are modelled, not verified; see DESIGN.md section 3.',
    'source_derived': 'STATEMENT LEVEL, FROM THE SOURCE (since batch 7): translator/pysingleton.py transcribes Singleton.__call__ and clear_singletons statement by statement from the working tree (Gen/PySingleton.lean; the class with _instanceNames / _instanceCanon as association lists of the live objects is the state; the identifiers call, the kwargs plumbing and the constructor are parameters, checked syntactically); PySingleton.py_call_eq_callFull proves result and exception equal to the statement-level model with no hypothesis and the registries related afterwards when the keys __init__ registers are free (initKeys_takeover: kernel-checked reason), and py_consistent_returns_same, py_conflict_raises_unchanged, py_name_only, py_refused_no_effect, py_create_only_when_free, py_wf_call are C01 for the code as written; stream Singleton.__call__.source-derived against the real metaclass.',
    'technique': 'Lean 4 invariant proof by induction over histories (generic registry state machine); correspondence check on histories',
}

DOM_OPS = ['mk.dom\t0\t-\t5\t\t-', 'mk.dom\t0\t1\t5\t-\t-', 'mk.dom\t0\t1*\t9\t-\t-', 'mk.dom\t0\ta\t5\t-\t-', 'mk.dom\t0\ta\t9\t-\t-', 'mk.dom\t0\ta*\t5\t-\t-', 'mk.dom\t0\ta*\t9\t-\t-',
           'mk.dom\t0\ta*\t-\t-\t-', 'mk.dom\t0\ta\t-\t-\t-', 'mk.dom\t0\t-\t5\t-\t-', 'mk.dom\t0\td1\t5\t-\t-',
           'inv\th0', 'inv\th1', 'drop\th0', 'drop\th1']
CPLX_PRE = ['mk.dom\t0\ta\t5\t-\t-', 'mk.dom\t0\tb\t5\t-\t-']
CPLX_OPS = ['mk.cplx\t0\tX\t-\th0 h1 + h0\t(.+)', 'mk.cplx\t0\tX\t-\th0 + h0 h1\t(+).', 'mk.cplx\t0\t-\t-\th0 h1 + h0\t(.+)',
            'mk.cplx\t0\t-\t-\th0 + h0 h1\t(+).', 'mk.cplx\t0\tY\t-\th0 h1 + h0\t(.+)', 'mk.cplx\t0\tX\t-\th1\t.',
            'mk.cplx\t0\tX\t-\tNONE\t', 'mk.cplx\t0\tZ\t-\tNONE\t', 'mk.cplx\t0\tc1\t-\th0 + h0\t(+)',
            'mk.cplx\t0\t-\t-\th0 + h0\t(+)', 'mk.cplx\t0\t-\t-\th1\t.', 'drop\th2', 'drop\th3',
            # periodic strand order with a structure that is NOT invariant under the period
            'mk.cplx\t0\tX\t-\th0 h1 + h0 h1\t(.+.)', 'mk.cplx\t0\tX\t-\th0 h1 + h0 h1\t.(+).', 'mk.cplx\t0\tP\t-\th0 h1 + h0 h1\t.(+).',
            # isomers over the same strands: an inter-strand pair 5' of an intra-strand hairpin, and the hairpin first
            # automatic names with an EMPTY prefix (numeric names), and a later request under the name the object reports
            'mk.cplx\t0\t-\t\th0 h1\t..', 'mk.cplx\t0\t1\t-\th0 h1\t..', 'mk.cplx\t0\t1\t-\th1\t.',
            'mk.cplx\t0\tH\t-\th0 h0 h0 + h0\t(()+)', 'mk.cplx\t0\tW\t-\th0 h0 h0 + h0\t()(+)', 'mk.cplx\t0\t-\t-\th0 + h0 h0 h0\t(+)()']
MR_PRE = CPLX_PRE + ['mk.cplx\t0\tA\t-\th0\t.', 'mk.cplx\t0\tB\t-\th1\t.', 'mk.cplx\t0\tC\t-\th0 h1\t..', 'mk.cplx\t0\tC2\t-\th0 h1\t()']
MR_OPS = ['mk.macro\t0\t-\th4 h5', 'mk.macro\t0\t-\th5 h4', 'mk.macro\t0\tC\th5 h4', 'mk.rxn\t0\t-\topen\th2 h2\th4', 'mk.rxn\t0\t-\topen\th2\th4',
          'mk.rxn\t0\tR\topen\th2\th4', 'mk.macro\t0\t-\th2 h3', 'mk.macro\t0\t-\th3 h2', 'mk.macro\t0\tB\th2 h3', 'mk.macro\t0\tA\th2', 'mk.macro\t0\tA\tNONE',
          'mk.macro\t0\tQ\tNONE', 'mk.macro\t0\tQ\th2 h3',
          'mk.rxn\t0\t-\tbind21\th2 h3\th4', 'mk.rxn\t0\t-\tbind21\th3 h2\th4', 'mk.rxn\t0\t-\topen\th2 h3\th4',
          'mk.rxn\t0\tR\tbind21\th2 h3\th4', 'mk.rxn\t0\tR\t-\tNONE\tNONE', 'drop\th6', 'drop\th7']
STRAND_OPS = ['mk.strand\t0\tS\th0 h1', 'mk.strand\t0\t-\th0 h1', 'mk.strand\t0\tS\th1', 'mk.strand\t0\tT\th0 h1', 'mk.strand\t0\tS\tNONE',
              'mk.strand\t0\ts1\th1 h1', 'mk.strand\t0\t-\th0 + h1', 'drop\th2', 'drop\th3',
              # the optional prefix of the automatic name: another prefix, an empty one, a prefix next to an explicit name
              'mk.strandp\t0\t-\tq\th0 h1', 'mk.strandp\t0\t-\t\th1', 'mk.strandp\t0\tS\tq\th0 h1']


def handles_ok(line, held):
    for f in line.split('\t')[1:]:
        for tok in f.split(' '):
            if len(tok) > 1 and tok[0] == 'h' and tok[1:].isdigit() and int(tok[1:]) not in held:
                return False
    return True


def must_be_created(iw, line):
    """independent of the registry keys: a well-formed complex none of whose rotations is live in the class, requested under a
    free name, has to be created (a refusal means some OTHER complex answers to one of its rotations)"""
    from .. import ref
    f = line.split('\t')
    if f[0] != 'mk.cplx' or f[4] == 'NONE':
        return False
    K = iw.classes['cplx'][int(f[1])]
    try:
        names = ['+' if t == '+' else str(iw.held[int(t[1:])]) for t in f[4].split(' ') if t]
        rots = set(ref.rotations(names, f[5]))
    except Exception:
        return False
    if ref.ref_pair_table(f[5]) is None or any(len(x) == 0 for x in f[5].split('+')):
        return False
    for o in list(K._instanceNames.values()):
        if o.structure is None:
            continue
        if (tuple(map(str, o.sequence)), tuple(o.structure)) in rots:
            return False
    name = f[2] if f[2] != '-' else '%s%d' % (f[3] if f[3] != '-' else K.PREFIX, K.ID)
    return name not in K._instanceNames


def exhaustive(iw, res, pre, ops, depth, lines_out, impl_out, tag):
    n = 0
    for d in range(1, depth + 1):
        for combo in itertools.product(ops, repeat=d):
            hist_lines = ['reset']
            ok = True
            for l in pre:
                hist_lines.append(l)
            outs = hist.run_checked(iw, hist_lines, res, 'C01', check_domains=True)
            unnamed = {}      # (class, set of member handles) of an unnamed macrostate request -> handle it returned
            for l in combo:
                if not handles_ok(l, iw.held):
                    ok = False
                    break
                fresh = must_be_created(iw, l)
                o = hist.run_checked(iw, [l, 'names'], res, 'C01', check_domains=True, prefix=hist_lines)
                f = l.split('\t')
                if f[0] == 'mk.macro' and f[2] == '-' and f[3] != 'NONE':
                    # independent of the registry keys: an unnamed request is the same request in every order of its members,
                    # so while the object an earlier order returned is alive, every other order returns that object
                    key = (f[1], tuple(sorted(f[3].split(' '))))
                    h = unnamed.get(key)
                    if h is not None and int(h[1:]) in iw.held and not o[0].startswith('ret %s ' % h):
                        res.violation('permuted-unnamed-macrostate-request-not-same-object', {'history': hist_lines + [l]}, o[0],
                                      'ret %s old (the live macrostate the same complexes gave in another order)' % h)
                    if o[0].startswith('ret h'):
                        unnamed[key] = o[0].split(' ')[1]
                    res.count('unnamed_macrostate_requests')
                if fresh and not (o[0].startswith('ret h') and o[0].split(' ')[2] == 'new'):
                    res.violation('fresh-complex-not-created', {'history': hist_lines + [l]}, o[0],
                                  'a new object (no rotation of this complex is live and the name is free)')
                hist_lines += [l, 'names']
                outs += o
            if not ok:
                continue
            n += 1
            res.evaluations += 1
            if any(x.startswith('err') for x in outs):
                res.nontriv((tag,) + combo)
            lines_out += hist_lines
            impl_out += outs
    res.count('exhaustive_%s_histories' % tag, n)


def random_history(iw, rng, length):
    """state-aware random history over all five kinds and the four classes per kind"""
    lines, outs = ['reset'], ['ok']
    kinds = {}          # handle -> kind
    names = ['a', 'a*', 'b', 'b*', 'x1', 'd1', 'd2', 'c1', 'c2', 'X', 'Y', 'S', 'A']
    structs = [('1', '.'), ('2', '..'), ('1+1', '(+)'), ('2+1', '(.+)'), ('1+2', '(+).'), ('1+1', '.+.'), ('1+1+1', '(+.+)'),
               ('2+2', '((+))'), ('1+1+1', '.+.+.'), ('2+2', '(.+.)'), ('2+2', '.(+).'), ('1+1+1+1', '(+)+.+.'), ('1+1+1+1', '.+.+(+)')]
    for _ in range(length):
        held = {h: kinds.get(h) for h in iw.held}
        doms = [h for h, k in held.items() if k == 'dom']
        cx = [h for h, k in held.items() if k == 'cplx']
        ms = [h for h, k in held.items() if k == 'macro']
        r = rng.random()
        cls = rng.choice((0, 0, 0, 1, 2, 3))
        if r < 0.04 and doms:
            # the automatic-name prefix of a class re-configured in the middle of a history (sub-classes inherit it unless they
            # were given their own): later unnamed requests are registered under, and carry, the name built from the NEW prefix
            l = 'cfg.prefix\t%s\t%d\t%s' % (rng.choice(('dom', 'cplx', 'cplx', 'strand')), cls, rng.choice(('m', 'x', 'c', 'd', 'q')))
            kind = None
        elif r < 0.22 or not doms:
            l = 'mk.dom\t%d\t%s\t%s\t-\t%s' % (cls, rng.choice(names[:6] + ['-']), rng.choice(['5', '9', '-', '-']), rng.choice(['-', '-', 'short', 'long']))
            kind = 'dom'
        elif r < 0.30:
            l = 'inv\th%d' % rng.choice(doms); kind = 'dom'
        elif r < 0.55:
            same = [h for h in doms if True]
            shape, sst = rng.choice(structs)
            seq = []
            for i, part in enumerate(shape.split('+')):
                if i: seq.append('+')
                seq += ['h%d' % rng.choice(same) for _ in range(int(part))]
            l = 'mk.cplx\t%d\t%s\t-\t%s\t%s' % (cls, rng.choice(['-', '-', 'X', 'Y', 'c1', 'c2']), ' '.join(seq), sst)
            kind = 'cplx'
        elif r < 0.60:
            l = 'mk.cplx\t%d\t%s\t-\tNONE\t' % (cls, rng.choice(['X', 'Y', 'c1', 'Z'])); kind = 'cplx'
        elif r < 0.66:
            l = 'mk.strand\t%d\t%s\t%s' % (cls, rng.choice(['-', 'S', 's1']), ' '.join('h%d' % rng.choice(doms) for _ in range(rng.randint(1, 3))))
            if rng.random() < 0.3:
                l = 'mk.strandp\t%d\t%s\t%s\t%s' % (cls, rng.choice(['-', '-', 'S']), rng.choice(['q', '', 's', '-']), ' '.join('h%d' % rng.choice(doms) for _ in range(rng.randint(1, 3))))
            kind = 'strand'
        elif r < 0.76 and cx:
            mem = rng.sample(cx, rng.randint(1, min(3, len(cx))))
            nm = rng.choice(['-', '-', 'X', 'Y'])
            l = 'mk.macro\t%d\t%s\t%s' % (cls, nm, ' '.join('h%d' % h for h in mem)); kind = 'macro'
        elif r < 0.86 and cx:
            pool = ms if (ms and rng.random() < 0.3) else cx
            rs = [rng.choice(pool) for _ in range(rng.randint(1, 2))]
            ps = [rng.choice(pool) for _ in range(rng.randint(1, 2))]
            l = 'mk.rxn\t%d\t%s\t%s\t%s\t%s' % (cls, rng.choice(['-', '-', 'R']), rng.choice(['bind21', 'open', 'condensed']),
                                                 ' '.join('h%d' % h for h in rs), ' '.join('h%d' % h for h in ps))
            kind = 'rxn'
        elif held:
            l = 'drop\th%d' % rng.choice(list(held)); kind = None
        else:
            continue
        lines.append(l)
        yield_l = l
        yield yield_l, kind, kinds


def run(res, proof):
    rng = random.Random(res.seed * 104729 + 1)
    iw = W.ImplWorld()
    quick = res.tier == 'quick'
    lines, impl = [], []
    exhaustive(iw, res, [], DOM_OPS, 3 if quick else 4, lines, impl, 'dom')
    exhaustive(iw, res, CPLX_PRE, CPLX_OPS, 3 if quick else 4, lines, impl, 'cplx')
    exhaustive(iw, res, MR_PRE, MR_OPS, 2 if quick else 3, lines, impl, 'macro_rxn')
    exhaustive(iw, res, CPLX_PRE, STRAND_OPS, 3 if quick else 4, lines, impl, 'strand')
    # drop-and-recreate through different rotations: state that an implementation carries between calls (memo tables keyed by
    # the presentation) survives the object; every ordered pair of rotations, named and unnamed requests
    from .. import ref as _ref
    nsc = 0
    for names, sst in ((['a', 'b', '+', 'a'], '(.+)'), (['a', '+', 'b', '+', 'a', 'b'], '(+.+).'), (['a', 'b', '+', 'a', 'b'], '(.+.)'),
                       (['a', '+', 'a', '+', 'b'], '(+)+.'), (['a', 'a', 'a', '+', 'a'], '(()+)'), (['a', 'b', 'a', '+', 'b', 'a'], '()(+.)')):
        rots = _ref.rotations(names, sst)
        def req(k, nm):
            rn, rs = rots[k]
            return 'mk.cplx\t0\t%s\t-\t%s\t%s' % (nm, ' '.join('+' if x == '+' else {'a': 'h0', 'b': 'h1'}[x] for x in rn), ''.join(rs))
        for i in range(len(rots)):
            for j in range(len(rots)):
                if i == j:
                    continue
                for nm2, nm4 in (('X', 'X'), ('X', '-'), ('-', 'X'), ('X', 'Y')):
                    hl = ['reset'] + CPLX_PRE + [req(i, 'X'), req(j, nm2), 'drop\th2', req(i, 'X'), req(j, nm4), 'names']
                    ho = hist.run_checked(iw, hl, res, 'C01', check_domains=True)
                    # the complex re-created in step 4 is h3; a consistent named request through another rotation returns it
                    if nm4 == 'X' and ho[3].startswith('ret h2 new') and ho[6].startswith('ret h3 new') and not ho[7].startswith('ret h3 old'):
                        res.violation('recreated-complex-not-found-through-rotation', {'history': hl}, ho[7], 'ret h3 old')
                    lines += hl; impl += ho
                    nsc += 1
                    if ho[3].startswith('ret h2 new') and ho[6].startswith('ret h3 new'):
                        res.count('drop_recreate_rotation_scenarios_effective')
                    res.evaluations += 1
                    res.nontriv(tuple(hl))
    res.count('drop_recreate_rotation_scenarios', nsc)
    # random long histories over all kinds and classes
    nrand = 400 if quick else 8000
    for _ in range(nrand):
        L = rng.randint(5, 40)
        g = random_history(iw, rng, L)
        iw.reset()
        hl, ho = ['reset'], ['ok']
        for l, kind, kinds in g:
            o = hist.run_checked(iw, [l], res, 'C01', check_domains=True, prefix=hl)[0]
            if o.startswith('ret h') and o.split(' ')[2] == 'new':
                kinds[int(o.split(' ')[1][1:])] = kind
            hl.append(l); ho.append(o)
            res.count('op_' + l.split('\t')[0])
            if o.startswith('err'):
                res.count('outcome_' + ' '.join(o.split(' ')[:2]))
            if rng.random() < 0.3:
                hl.append('names'); ho.append(iw.do('names'))
        res.evaluations += 1
        res.nontriv(tuple(hl))
        lines += hl; impl += ho
        if len(res.samples) < 3:
            res.sample(hl[:12])
    iw.reset()
    res.rule = ('exhaustive histories per class group (domains depth %d over 12 ops, complexes depth %d over 13 ops incl. all '
                'rotations / named / unnamed / name-only / drops, strands depth %d, macrostates+reactions depth %d) with the registry '
                'names compared after every op, plus %d seeded random histories of length <= 40 over all five kinds and four classes '
                'per kind; non-trivial = at least one refused request (exhaustive) / every random history; distinct by op sequence'
                % (3 if quick else 4, 3 if quick else 4, 3 if quick else 4, 2 if quick else 3, nrand))
    res.exhaustive = True
    try:
        model = core.run_driver(lines)
        core.compare_streams(res, 'histories', lines, impl, model)
        # attach the history prefix to disagreements
        if res.disagreements:
            fix_disagreements(res, lines, impl, model)
    except core.DriverBroken as e:
        proof.problem('driver', str(e))
    # Singleton.__call__ as translated from the working tree (Gen/PySingleton.lean) against the real metaclass on request / drop histories
    from .pysingleton_stream import source_derived_pysingleton
    core.run_stream(source_derived_pysingleton, res, proof)


def fix_disagreements(res, lines, impl, model):
    """replace single-line disagreement inputs by the whole history up to that line"""
    first = None
    for i, (a, b) in enumerate(zip(impl, model)):
        if a != b:
            first = i
            break
    if first is None:
        return
    start = max(j for j in range(first + 1) if lines[j] == 'reset')
    res.disagreements.insert(0, {'stream': 'histories', 'input': lines[start:first + 1], 'impl': impl[first], 'model': model[first]})


def replay(body, repo):
    return hist.replay_history(body, repo)
