"""C03 — a complex's views always describe its current rotation (turns)."""
import itertools, random
from .. import core, gen, ref, hist, world as W
from . import cu
from .c01 import fix_disagreements

MODULES = ['DsdVerif.Props.C03', 'DsdVerif.Props.PyComplexS']
GEN_FILES = ['PyComplexS', 'PyFuncs']
THEOREM_NAMES = ['coherent_fresh', 'query_coherent', 'setTurns_coherent', 'setTurns_rotation', 'views_refine_spec', 'stale_setter_counterexample']
# the methods of ComplexS as written in the source (Gen/PyComplexS.lean, regenerated on every run)
PY_THEOREMS = ['pyQuery_spec', 'pyQuery_eq_model', 'pySetTurns_eq_model', 'pySetTurns_hasStrand', 'py_views_refine_spec',
               'py_views_eq_model', 'py_views_from_init', 'py_rotate_pt_eq', 'pcoh_init', 'Rot.view_rotate_false']
THEOREMS = ['Dsd.C03.' + t for t in THEOREM_NAMES] + ['Dsd.PyObj.' + t for t in PY_THEOREMS]
ASSUMPTIONS = [
    'the ComplexS object is hand-modelled with its lazily filled caches and the turns setter (Model/CplxObject.lean); the specification '
    'object has no caches and computes every view from the current rotation',
    'views that hand out generators / iterators are compared after list() conversion',
    'the methods of ComplexS (turns setter, the lazily filling private getters, 17 views) are ALSO transcribed statement by statement from the '
    'working tree (translator/pymethod.py -> Gen/PyComplexS.lean: the object is the state of ExceptT Err (StateM Self), so that an exception keeps '
    'the attribute assignments made before it); the reading of Python (self attributes as record fields, generators as lists, value semantics '
    'for lists stored in attributes) is trusted and validated by the stream ComplexS-methods.source-derived',
]
MANIFEST = {
    'text': 'Full for the model: views_refine_spec (after any sequence of turns assignments - any integer - interleaved with queries that '
            'populate the lazily computed tables, every one of the 18 views answers exactly like the cache-free specification of the '
            'current rotation), query_coherent / setTurns_coherent (identity, name and canonical form never change; caches stay '
            'coherent), setTurns_rotation (turns = v moves the representation to the v-th rotation modulo the number of strands and '
            'rotate^turns(canon) is the current sequence and structure), and stale_setter_counterexample (the setter that keeps the old '
            'tables violates this on a 3-op history: the defect repaired in /repo). The model object is tied to ComplexS by '
            'correspondence over complexes x op sequences; every view of the real object is also re-derived from its current sequence '
            'and structure with reference algorithms after every step. STATEMENT LEVEL, FROM THE SOURCE: translator/pymethod.py transcribes the '
            'turns setter, __strand_table / __pair_table / __loop_index, size, rotate, rotate_pt, strand_table, pair_table, strand_length, '
            'get_domain, get_paired_loc, get_loop_index, exterior_domains, enclosed_domains, is_connected, kernel_string and the attribute '
            'initialisation of __init__ statement by statement from the working tree (Gen/PyComplexS.lean, regenerated on every run); '
            'py_views_refine_spec proves that for EVERY sequence of turns assignments and queries the translated methods, run on the '
            'translated object from a coherent state with at least one strand, answer exactly like the cache-free specification of the '
            'current rotation (py_views_from_init: from what __init__ leaves), pyQuery_spec / pySetTurns_eq_model that each view / the '
            'setter keeps the lazily filled attributes coherent - also when a view raises half way - and equals the model, so '
            'views_refine_spec, setTurns_rotation are theorems about the code as written; a one-statement change of one of these '
            'methods (a forgotten reset, a changed guard, another order) changes Gen/PyComplexS.lean and the proofs no longer elaborate.',
    'note': 'Trusted base as in DESIGN.md section 3; generators / iterators are compared after list() conversion.',
    'technique': 'Lean 4 refinement proof (cached object vs cache-free spec) by induction over op sequences; correspondence check; reference oracle',
}

VIEWS = ['sequence', 'structure', 'kernel', 'size', 'strand_table', 'pair_table', 'exterior', 'enclosed', 'is_connected',
         'rotate', 'rotate_pt', 'turns', 'canon', 'name']
LOCVIEWS = ['get_domain', 'get_paired_loc', 'get_loop_index']
TURNS = [-6, -5, -4, -3, -2, -1, 0, 1, 2, 3, 4, 5, 6]


def oracle(iw, h, res, hl, names0, s0):
    try:
        return oracle_(iw, h, res, hl, names0, s0)
    except Exception as e:
        res.violation('view-raises:' + type(e).__name__, {'history': list(hl)}, 'a view raised ' + type(e).__name__,
                      'every view describes the current rotation')


def oracle_(iw, h, res, hl, names0, s0):
    """every view of the real object against the reference algorithms, from its current sequence / structure"""
    c = iw.held[h]
    seq = [str(x) for x in c.sequence]
    sst = list(c.structure)
    rots0 = ref.rotations(names0, s0)
    n = len(rots0)
    desc = {'history': list(hl)}
    cur = (tuple(seq), tuple(sst))
    t = c.turns
    canon = min(rots0)
    crots = ref.rotations(canon[0], canon[1])
    if c.canonical_form != canon or c.name != 'X':
        res.violation('identity-changed', desc, repr((c.name, c.canonical_form)), 'name X, canonical form unchanged')
    if not (0 <= t < n) or crots[t] != cur:
        res.violation('turns-inconsistent', desc, 'turns=%r, current=%s / %s' % (t, ' '.join(seq), ''.join(sst)),
                      'rotate^turns(canonical form) = current sequence and structure')
        return
    strands = ''.join(sst).split('+')
    pt = ref.ref_pair_table(''.join(sst))
    want = {
        'size': n,
        'strand_table': [list(x) for x in cu_split(seq)],
        'pair_table': pt,
        'kernel': kernel_ref(seq, sst),
    }
    got = {'size': c.size, 'strand_table': [[str(y) for y in x] for x in c.strand_table], 'pair_table': [list(x) for x in c.pair_table],
           'kernel': c.kernel_string}
    li, ext, comps = ref.ref_loops(strands)
    if len(comps) == 1:
        want['exterior'] = [(si, di) for si, row in enumerate(pt) for di, p in enumerate(row) if p is None and li[si][di] in ext]
        want['enclosed'] = [(si, di) for si, row in enumerate(pt) for di, p in enumerate(row) if p is None and li[si][di] not in ext]
        if len(hl) % 2:
            got['enclosed'] = list(c.enclosed_domains)
            got['exterior'] = list(c.exterior_domains)
        else:
            got['exterior'] = list(c.exterior_domains)
            got['enclosed'] = list(c.enclosed_domains)
        want['loop_index'] = li
        got['loop_index'] = [[c.get_loop_index((si, di)) for di in range(len(row))] for si, row in enumerate(pt)]
    want['strand_lengths'] = [len(x) for x in strands]
    got['strand_lengths'] = [c.strand_length(k) for k in range(n)]
    want['domains'] = [[seq_at(seq, si, di) for di in range(len(row))] for si, row in enumerate(pt)]
    got['domains'] = [[str(c.get_domain((si, di))) for di in range(len(row))] for si, row in enumerate(pt)]
    want['paired'] = pt
    got['paired'] = [[c.get_paired_loc((si, di)) for di in range(len(row))] for si, row in enumerate(pt)]
    want['domain_set'] = sorted(set(seq) - {'+'})
    got['domain_set'] = sorted(str(x) for x in c.domains)
    rr = ref.rotations(seq, sst)
    want['rotate'] = rr
    got['rotate'] = [(tuple(map(str, a)), tuple(b)) for a, b in c.rotate()]
    for k in want:
        if got[k] != want[k]:
            res.violation('view-stale-or-wrong:' + k, desc, '%s = %r' % (k, got[k]), '%r (computed from the current rotation)' % (want[k],))
            break
    if n > 1 and len(hl) % 3 == 0:
        from . import cu
        cu.handed_out_rotations(res, c, 'view-stale-or-wrong:rotate', dict(desc, then='rotate(k) / rotate_pt(k) of h%d' % h))


def cu_split(seq):
    cur = []
    for x in seq:
        if x == '+':
            yield cur; cur = []
        else:
            cur.append(x)
    yield cur


def seq_at(seq, si, di):
    return list(cu_split(seq))[si][di]


def kernel_ref(seq, sst):
    out = []
    for a, b in zip(seq, sst):
        out.append('+' if b == '+' else ')' if b == ')' else a + '(' if b == '(' else a)
    return ' '.join(out)


def run(res, proof):
    rng = random.Random(res.seed * 48611 + 3)
    iw = W.ImplWorld()
    quick = res.tier == 'quick'
    structs = [s for s in gen.wellformed_structures(5 if quick else 6, 4) if '+' in s or len(s) <= 2]
    rng.shuffle(structs)
    # structures whose exterior loops hold no unpaired position while an enclosed loop does (empty-but-populated caches)
    special = []
    for st in gen.wellformed_structures(6, 3):
        if '+' not in st:
            continue
        li, ext, comps = ref.ref_loops(st.split('+'))
        if len(comps) != 1:
            continue
        pt = ref.ref_pair_table(st)
        exd = [1 for si, row in enumerate(pt) for di, p in enumerate(row) if p is None and li[si][di] in ext]
        end = [1 for si, row in enumerate(pt) for di, p in enumerate(row) if p is None and li[si][di] not in ext]
        if not exd and end:
            special.append(st)
    rng.shuffle(special)
    structs = structs[:60 if quick else 300] + ['(.+)+.', '((+))+(+)', '.+.+.', '(+)'] + special[:12 if quick else 60]
    # 5 to 8 strands: a single assignment can then move the representation by more than half a cycle but not by n-1
    many = []
    for ns in (5, 6, 7, 8):
        for _ in range(3 if quick else 20):
            many.append(gen.random_structure(rng, rng.randint(ns, ns + 6), nstrands=ns, pair_bias=0.6))
    structs += many + ['.+(+.+)+.', '(+(+(+)+)+).+.']
    res.dist['structures_with_5_to_8_strands'] = len(many) + 2
    pre = ['reset', 'mk.dom\t0\ta\t5\t-\t-', 'mk.dom\t0\tb\t5\t-\t-']
    hmap = {'a': 0, 'b': 1}
    lines, impl = [], []
    nseq = 0

    def run_seq(s, names, opseq):
        nonlocal nseq
        # one sequence in four runs on a user subclass of ComplexS (own registry, inherited methods)
        hl = list(pre) + ['mk.cplx\t%d\tX\t-\t%s\t%s' % (rng.choice((0, 0, 0, 1, 2)), ' '.join('+' if n == '+' else 'h%d' % hmap[n] for n in names), s)]
        ho = [iw.do(l) for l in hl]
        if not ho[-1].startswith('ret h2 new'):
            return
        for op in opseq:
            o = iw.do(op)
            hl.append(op); ho.append(o)
            oracle(iw, 2, res, hl, names, s)
        lines.extend(hl); impl.extend(ho)
        nseq += 1
        res.evaluations += 1
        res.nontriv((s, tuple(names), tuple(opseq)))

    for s in structs:
        names = gen.label(s, rng, ['a', 'b'])
        n = s.count('+') + 1
        nloc = [(si, di) for si, st in enumerate(s.split('+')) for di in range(len(st))]
        ops = ['set.turns\th2\t%d' % v for v in TURNS] + ['q\th2\t%s\t' % v for v in VIEWS]
        ops += ['q\th2\tstrand_length\t%d' % k for k in range(n)]
        l0 = rng.choice(nloc)
        ops += ['q\th2\t%s\t%d.%d' % (v, l0[0], l0[1]) for v in LOCVIEWS]
        ops += ['peek\th2\trotate', 'peek\th2\trotate_pt']         # abandoned iterations
        # all sequences of length <= 2 (quick: length 2 sampled), the classic stale-cache shape of length 3, random long ones
        for op in ops:
            run_seq(s, names, [op])
        pairs = list(itertools.product(ops, repeat=2))
        for combo in rng.sample(pairs, 40 if quick else 250):
            run_seq(s, names, list(combo))
        for q in ['q\th2\t%s\t' % v for v in ('pair_table', 'strand_table', 'exterior', 'enclosed', 'rotate', 'is_connected', 'size')] + ops[-5:]:
            for v in (1, -1, 2):
                run_seq(s, names, [q, 'set.turns\th2\t%d' % v, q])
        for pk in ('peek\th2\trotate', 'peek\th2\trotate_pt'):
            for v in (1, 2, -1):
                run_seq(s, names, [pk, 'q\th2\trotate\t', 'set.turns\th2\t%d' % v, pk, 'set.turns\th2\t%d' % (v + 1), 'q\th2\trotate_pt\t'])
                run_seq(s, names, [pk, 'set.turns\th2\t%d' % v, 'q\th2\tsequence\t'])
        for _ in range(3 if quick else 12):
            run_seq(s, names, [rng.choice(ops) for _ in range(rng.randint(4, 30))])
        res.count('strands_%d' % min(n, 5))
    # periodic strand orders with a structure that is NOT invariant under the period: the sequence comes back after a turn by
    # the period while the structure does not - every cached view queried before and after every turn
    periodic = [(['a', 'b', '+', 'a', 'b'], '(.+.)'), (['a', 'b', '+', 'a', 'b', '+', 'a', 'b'], '(.+.)+..'),
                (['a', '+', 'b', '+', 'a', '+', 'b'], '(+)+.+.'), (['a', '+', 'a', '+', 'a'], '(+)+.'), (['a', 'a', '+', 'a', 'a'], '.(+).')]
    for names_p, s_p in periodic:
        n_p = s_p.count('+') + 1
        for v in VIEWS:
            for t in range(1, n_p + 1):
                q = 'q\th2\t%s\t' % v
                run_seq(s_p, names_p, [q, 'set.turns\th2\t%d' % t, q, 'q\th2\tstructure\t', 'set.turns\th2\t%d' % (t + 1), q])
    res.dist['periodic_complex_scenarios'] = len(periodic)
    res.dist['shared_input_scenarios'] = shared_inputs(iw, res)
    iw.reset()
    res.dist['op_sequences'] = nseq
    res.rule = ('complexes sampled from every well-formed structure up to %d positions (2 names) x every single op, (a sample of) every '
                'pair of ops over {13 turn assignments -6..6, 14 argument-free views, strand_length of every strand, 3 locus look-ups}, '
                'the query / assign / same-query shape for cached views, and random sequences of 4-30 ops; every view of the real object '
                'is re-derived from its current sequence and structure after every op; distinct by (complex, op sequence)' % (5 if quick else 6))
    try:
        model = core.run_driver(lines)
        core.compare_streams(res, 'object.turns', lines, impl, model)
        if res.disagreements:
            fix_disagreements(res, lines, impl, model)
    except core.DriverBroken as e:
        proof.problem('driver', str(e))
    source_derived(res, proof, lines, impl)
    res.sample(lines[:10])


def source_derived(res, proof, lines, impl):
    """the methods of ComplexS as translated from the working tree (Gen/PyComplexS.lean) on the same op sequences: before every
    query / assignment of a history the twin op is run on the translated object (its own state, created by the translated
    `__init__` from the model's description at its first use) and must answer like the implementation"""
    twin, want, back = [], [], []
    for l, o in zip(lines, impl):
        f = l.split('\t')
        if f[0] in ('q', 'set.turns', 'peek') and not (f[0] == 'q' and f[2] == 'canon'):
            twin.append('py' + l); want.append(o); back.append(len(twin) - 1)
        twin.append(l); want.append(None)
    try:
        out = core.run_driver(twin)
    except core.DriverBroken as e:
        proof.problem('driver', 'source-derived object stream: ' + str(e))
        return
    tl = [twin[i] for i in back]
    core.compare_streams(res, 'ComplexS-methods.source-derived', tl, [want[i] for i in back], [out[i] for i in back])
    res.dist['source_derived_method_ops'] = len(back)


SHARED = [  # (names, structure of A, structure of B): same strands, different pairing -> two different complexes
    (['a', 'b', '+', 'a'], '(.+)', '..+.'),
    (['a', '+', 'b', '+', 'a'], '(+.+)', '.+.+.'),
    (['a', 'b', '+', 'b', 'a', '+', 'a'], '((+))+.', '(.+.)+.'),
]


def shared_inputs(iw, res, only=None):
    """two complexes built from the SAME caller-owned sequence list (different structures), resp. the same structure list
    (different sequences): assigning `turns` on one must not move the other, nor modify the caller's lists"""
    n = 0
    for idx, (names, sa, sb) in enumerate(SHARED):
        for share in ('sequence', 'structure'):
            for v in (1, 2, -1):
                key = '%d:%s:%d' % (idx, share, v)
                if only is not None and key != only:
                    continue
                iw.do('reset'); iw.do('mk.dom\t0\ta\t5\t-\t-'); iw.do('mk.dom\t0\tb\t5\t-\t-')
                K = iw.classes['cplx'][0]
                doms = {'a': iw.held[0], 'b': iw.held[1]}
                if share == 'sequence':
                    L = [('+' if x == '+' else doms[x]) for x in names]
                    S1, S2 = list(sa), list(sb)
                    A = K(L, S1, name='A'); B = K(L, S2, name='B')
                    declB = (list(names), list(sb))
                else:
                    other = [('+' if x == '+' else ('b' if x == 'a' else 'a')) for x in names]
                    S = list(sa)
                    L, L2 = [('+' if x == '+' else doms[x]) for x in names], [('+' if x == '+' else doms[x]) for x in other]
                    A = K(L, S, name='A'); B = K(L2, S, name='B')
                    declB = (list(other), list(sa))
                callerL, callerS = [str(x) for x in L], (list(S1) if share == 'sequence' else list(S))
                tB, kB = B.turns, B.kernel_string
                try:
                    _ = list(B.pair_table); _ = list(B.strand_table)
                    A.turns = v
                    nowB = ([str(x) for x in B.sequence], list(B.structure))
                    bad = []
                    if nowB != declB:
                        bad.append('B moved to %s / %s' % (' '.join(nowB[0]), ''.join(nowB[1])))
                    if B.turns != tB or B.kernel_string != kB:
                        bad.append('B.turns / kernel_string changed: %r %r' % (B.turns, B.kernel_string))
                    if [str(x) for x in L] != callerL or (S1 if share == 'sequence' else S) != callerS:
                        bad.append('the caller\'s list was modified in place')
                    pt = [list(row) for row in B.pair_table]
                    if pt != ref.ref_pair_table(''.join(declB[1])):
                        bad.append('B.pair_table no longer matches its structure')
                except Exception as e:
                    bad = ['raised ' + type(e).__name__]; e = None
                n += 1
                if only is not None:
                    print('scenario', key, '->', bad or 'ok')
                if bad:
                    res.violation('shared-input-list:' + share, {'scenario': key, 'call': 'A = ComplexS(L, S1, name="A"); B = ComplexS(%s, name="B"); '
                                  'A.turns = %d   with %s / %s / %s' % ('L, S2' if share == 'sequence' else 'L2, S1', v, ' '.join(names), sa, sb)},
                                  '; '.join(bad), 'B and the caller\'s lists are untouched by A.turns')
                del A, B
    return n


def replay(body, repo):
    if 'scenario' in body['input']:
        iw = W.ImplWorld()
        class R:
            def violation(self, *a):
                print('observed :', a[2])
        shared_inputs(iw, R(), only=body['input']['scenario'])
        print('required :', body.get('required'))
        return 1
    return hist.replay_history(body, repo)
