"""`ReactionS.reaction_string` / `__str__` as TRANSLATED from the working tree (Gen/PyStrings.lean) against real reactions.

`source_derived_pystrings(res, proof)`: real `ReactionS` objects over real complexes and macrostates (0-3 members per side, every order), with and
without a name, then WITHOUT a rate, with a ZERO rate, with integer rates with / without units and with the empty unit; `r.reaction_string` and
`str(r)` of the real object vs the translated methods (driver op `pystr`, lean/DsdVerif/DriverStrings.lean) on the stored lists / attributes.
"""
import itertools, subprocess
from .. import core
from .pyident2_stream import pool


def enc(x):
    return 'none' if x is None else 's:' + x


def source_derived_pystrings(res, proof, runner=None):
    from dsdobjects.base_classes import ComplexS, MacrostateS, ReactionS
    from dsdobjects.singleton import clear_singletons
    runner = runner or core.run_driver
    cplx, macro = pool()
    lines, impl = [], []
    sides = [[], [cplx[0]], [cplx[2], cplx[0]], [cplx[3], cplx[1], cplx[0]], [macro[0]], [macro[1], macro[0]]]
    rates = [None, 0, (0, '/M/s'), 7, (12, '/M/s'), (3, ''), (250000, '/s'), -4]
    for a, b in itertools.product(sides, sides):
        if any(x in macro for x in a) != any(x in macro for x in b) and a and b:
            pass                                             # complexes on one side, macrostates on the other: fine for reaction_string
        for rtype, name in (('open', None), ('bind21', 'r1'), ('branch-3way', None)):
            for rate in rates:
                clear_singletons(ReactionS)
                try:
                    r = ReactionS(list(a), list(b), rtype, name=name) if name else ReactionS(list(a), list(b), rtype)
                    if rate is not None:
                        r.rate_constant = rate
                    out = 'ok %s|%s' % (r.reaction_string, str(r))
                    c, u = r._const, r._units
                    line = '\t'.join(['pystr', ' '.join(x.name for x in r.reactants), ' '.join(x.name for x in r.products), enc(r.rtype), enc(r.name),
                                      'none' if c is None else str(c), enc(u)])
                    del r
                except Exception as e:
                    out, line = 'err ' + type(e).__name__, None
                    e = None
                if line is not None:
                    lines.append(line); impl.append(out)
                    res.evaluations += 1
    del cplx, macro, sides
    for K in (ReactionS, MacrostateS, ComplexS):
        clear_singletons(K)
    ComplexS.ID = 1
    try:
        out = runner(lines)
    except core.DriverBroken as e:
        proof.problem('driver', 'source-derived renderings stream: ' + str(e))
        return
    core.compare_streams(res, 'reaction_string.source-derived', lines, impl, out)
    res.dist['source_derived_reaction_strings'] = len(lines)


def run_private_driver(lines, timeout=1200):
    data = '\n'.join(lines) + '\n'
    p = subprocess.run(['lake', 'env', 'lean', '--run', 'MainStrings.lean'], cwd=core.LEAN, input=data, capture_output=True, text=True, timeout=timeout)
    if p.returncode != 0:
        raise core.DriverBroken((p.stdout + p.stderr)[-3000:])
    out = p.stdout.split('\n')
    if out and out[-1] == '':
        out.pop()
    if len(out) != len(lines):
        raise core.DriverBroken('driver returned %d lines for %d requests' % (len(out), len(lines)))
    return out


if __name__ == '__main__':
    import sys
    repo = sys.argv[1]
    core.use_repo(repo)
    res = core.Result('PYSTRINGS', 'quick', 1, repo)
    class P:
        def problem(self, kind, detail):
            print('PROBLEM', kind, detail)
    source_derived_pystrings(res, P(), runner=run_private_driver)
    print('streams', res.streams, 'dist', res.dist)
    print('disagreements', len(res.disagreements))
    for x in res.disagreements[:6]:
        print(x)
    sys.exit(1 if res.disagreements else 0)
