"""C11 — macrostates and reactions are (multi)sets, independent of argument order."""
import itertools, random
from .. import core, hist, world as W
from .c01 import fix_disagreements

MODULES = ['DsdVerif.Props.C11', 'DsdVerif.Props.PyIdent2', 'DsdVerif.Props.PySetObjects', 'DsdVerif.Props.PyStrings']
GEN_FILES = ['PyIdentifiers2', 'PySetObjects', 'PyStrings']
THEOREM_NAMES = ['sortBy_perm', 'sortBy_sorted', 'sortBy_perm_invariant', 'macro_perm_invariant', 'macro_canon_spec', 'macro_injective', 'reaction_perm_invariant', 'reaction_lists_sorted', 'reaction_canon_iff']
THEOREMS = ['Dsd.C11.' + t for t in THEOREM_NAMES] + ['Dsd.C11.macroRequestFull_eq', 'Dsd.C11.reactionRequestFull_eq'] + \
    ['Dsd.PyIdent2.' + t for t in (
        # MacrostateS.identifiers / ReactionS.identifiers as written in the source (translator/pyident2.py -> Gen/PyIdentifiers2.lean)
        'py_MacrostateS_identifiers_eq', 'macroRequestFull_eq_py', 'py_macro_request', 'py_macro_perm_invariant', 'py_macro_canon_spec',
        'py_MacrostateS_identifiers_examples', 'py_ReactionS_identifiers_eq', 'reactionRequestFull_eq_py', 'py_reaction_request',
        'py_reaction_perm_invariant', 'py_reaction_ok', 'py_reaction_canon_iff', 'py_ReactionS_identifiers_examples', 'sortedByM_eq',
        'sortedMembers_eq', 'sortedForms_eq', 'sortedByM_empty_macro', 'ckeyLt_eq', 'sortedBy_eq')] + \
    ['Dsd.PySetObj.' + t for t in (
        # MacrostateS.__init__ / ReactionS.__init__ and their views as written in the source (translator/pyident3.py -> Gen/PySetObjects.lean);
        # a constructor that stored the CALLER's list without a copy is refused by the translator (the defect repaired in 26b6d05)
        'py_MacrostateS_init_eq', 'py_MacrostateS_views', 'py_macro_members', 'py_macro_stop_iff', 'py_macro_object', 'py_ReactionS_init_eq',
        'py_ReactionS_views', 'py_reaction_lists_sorted', 'py_reaction_object', 'py_setobjects_examples')]
# ReactionS.reaction_string / __str__ as written in the source: members in the stored canonical order, a zero or missing rate omitted
THEOREMS += ['Dsd.PyStrings.' + t for t in ['py_reaction_string_eq', 'py_reaction_string_no_rate', 'py_reaction_string_rate', 'py_reaction_str', 'py_reaction_name_and_string_agree', 'name_is_not_reaction_string']]
ASSUMPTIONS = [
    'MacrostateS.identifiers / ReactionS.identifiers are hand-modelled (Model/Objects.lean: macroRequest, reactionRequest; sorted() is a '
    'stable insertion sort by canonical form); members are (name, canonical form) of live singleton complexes or macrostates',
]
MANIFEST = {
    'text': 'Full for the model: macro_perm_invariant / reaction_perm_invariant (every permutation of the arguments denotes the same '
            'request: same canonical form, same automatic name, same registry outcome), macro_canon_spec (canonical form = sorted member '
            'forms, length = number of members, automatic name = name of the canonically smallest member, a given name must be a '
            'member\'s), macro_injective and reaction_canon_iff (equal forms exactly for equal member multisets / reactant multiset, '
            'product multiset and type), reaction_lists_sorted (canonical listing, arity); for any number of members. Tied to '
            'MacrostateS / ReactionS by correspondence over all subsets x permutations and reactant / product multisets x types; the '
            'same clauses are checked directly on the real objects. ' 
            'Model/SetsFull.lean follows MacrostateS / ReactionS identifiers and __init__ statement by statement (sorted by canonical form, default names, representative look-up, Python truthiness in Singleton.__call__); macroRequestFull_eq / reactionRequestFull_eq prove this is exactly the net-effect model for non-empty names and homogeneous member lists (kernel-checked differences - a side mixing complexes and macrostates raises AssertionError in the code - are kept as findings).',
    'note': 'Members with equal canonical form are the same singleton object (hypothesis Singletons, discharged by C01); trusted base as in DESIGN.md 3.',
    'source_derived': 'STATEMENT LEVEL, FROM THE SOURCE (since batch 7): translator/pyident2.py transcribes MacrostateS.identifiers and ReactionS.identifiers from the working tree (Gen/PyIdentifiers2.lean; a member is the pair of its name and canonical form; sorted(..., key=canonical_form) is a stable sort with the comparison read off ComplexS.__lt__, which raises when a complex meets a macrostate); PyIdent2.py_MacrostateS_identifiers_eq / py_ReactionS_identifiers_eq give the closed forms for every argument, macroRequestFull_eq_py / reactionRequestFull_eq_py show the statement-level model is callFull on the translated identifiers for every registry, and py_macro_perm_invariant, py_reaction_perm_invariant, py_macro_canon_spec, py_reaction_canon_iff are C11 for the code as written (one kernel-checked corner: the empty macrostate tuple, which cannot be constructed); streams MacrostateS.identifiers.source-derived / ReactionS.identifiers.source-derived on real member objects.',
    'technique': 'Lean 4 proofs: sorted permutations under a strict total order are equal; correspondence check on histories',
}

PRE = ['reset', 'mk.dom\t0\ta\t5\t-\t-', 'mk.dom\t0\tb\t5\t-\t-',
       'mk.cplx\t0\tA\t-\th0\t.', 'mk.cplx\t0\tB\t-\th1\t.', 'mk.cplx\t0\tC\t-\th0 h1\t..', 'mk.cplx\t0\tD\t-\th1 + h0 h0\t(+).',
       'mk.cplx\t0\tE\t-\th0 + h0\t(+)', 'mk.cplx\t0\tC2\t-\th0 h1\t()']     # C2: same sequence as C, other structure
CX = [2, 3, 4, 5, 6, 7]          # handles of the complexes
RTYPES = ['bind21', 'open', 'condensed', 'branch-3way', 'k1', 'k2']       # the last two are not library types: still part of the identity


def hs(l):
    return ' '.join('h%d' % x for x in l)


def run(res, proof):
    rng = random.Random(res.seed * 2750159 + 11)
    iw = W.ImplWorld()
    quick = res.tier == 'quick'
    lines, impl = [], []
    maxk = 4 if quick else 5

    def start():
        hl = list(PRE)
        ho = [iw.do(l) for l in hl]
        return hl, ho

    def step(hl, ho, l):
        o = iw.do(l)
        hl.append(l); ho.append(o)
        return o

    # ---- macrostates: every non-empty subset, first request in every permutation (k <= 3) or a sample, named / unnamed
    for k in range(1, maxk + 1):
        for sub in itertools.combinations(CX, k):
            perms = list(itertools.permutations(sub))
            firsts = perms if k <= 3 else rng.sample(perms, 4)
            for first in firsts:
                for nm in ['-'] + (['B'] if 3 in sub else []):
                    hl, ho = start()
                    o = step(hl, ho, 'mk.macro\t0\t%s\t%s' % (nm, hs(first)))
                    res.evaluations += 1
                    if k > 1:
                        res.nontriv(('macro', first, nm))
                    if not o.startswith('ret h8 new'):
                        res.violation('macro:construction', {'history': list(hl)}, o, 'ret h8 new')
                        lines.extend(hl); impl.extend(ho); continue
                    m = iw.held[8]
                    members = [iw.held[x] for x in sub]
                    smallest = min(members, key=lambda c: c.canonical_form)
                    want_name = smallest.name if nm == '-' else nm
                    ok = (m.name == want_name and len(m) == k and set(map(id, m.complexes)) == set(map(id, members))
                          and m.representative.name == want_name
                          and list(m.canonical_form) == sorted(members, key=lambda c: c.canonical_form))
                    if not ok:
                        res.violation('macro:attributes', {'history': list(hl)}, repr((m.name, len(m), m.representative)),
                                      'name %s, %d members, representative carrying the name, members in canonical order' % (want_name, k))
                    for p in (perms if k <= 3 else rng.sample(perms, 6)):
                        o2 = step(hl, ho, 'mk.macro\t0\t%s\t%s' % (nm, hs(p)))
                        if o2 != 'ret h8 old':
                            res.violation('macro:permutation-not-identified', {'history': list(hl)}, o2, 'ret h8 old')
                    # the argument's container type is irrelevant: tuples (in any order) denote the same object
                    K = type(m)
                    for p in (perms if k <= 3 else rng.sample(perms, 3)):
                        try:
                            via = K(tuple(iw.held[x] for x in p), name=(None if nm == '-' else nm))
                        except Exception as e:
                            via = 'raised ' + type(e).__name__; e = None
                        if via is not m:
                            res.violation('macro:tuple-argument-not-identified', {'history': list(hl), 'call': 'MacrostateS(tuple of members in order %s)' % hs(p)},
                                          repr(via), 'the same object')
                            break
                        del via
                    del K
                    # a different member set denotes a different object
                    others = [c for c in CX if c not in sub]
                    if others:
                        o3 = step(hl, ho, 'mk.macro\t0\t-\t%s' % hs(list(sub[1:]) + [others[0]]))
                        if o3.startswith('ret h8'):
                            res.violation('macro:different-members-identified', {'history': list(hl)}, o3, 'another object or a refusal')
                    # ... also under the macrostate's own name: a strict subset or a superset of its members, requested with that
                    # name given explicitly, is another set under a taken name - refused, never answered with the live object
                    alts = [q for r in range(1, k) for q in itertools.combinations(sub, r)]
                    if others:
                        alts.append(tuple(sub) + (others[0],))
                    for q in (alts if len(alts) <= 6 else rng.sample(alts, 6)):
                        for qq in (q, tuple(reversed(q))):
                            o5 = step(hl, ho, 'mk.macro\t0\t%s\t%s' % (want_name, hs(qq)))
                            if o5.startswith('ret h8'):
                                res.violation('macro:other-member-set-under-its-name-identified', {'history': list(hl)}, o5,
                                              'SingletonError: %d other members under the name of a live macrostate of %d' % (len(q), k))
                    del m, members, smallest
                    lines.extend(hl); impl.extend(ho)
    # ---- an unnamed macrostate is named after (represented by) its canonically smallest member, whatever else is alive:
    #      while the one-member macrostate of that member holds the name, the request is refused - it is never renamed
    for k in (2, 3):
        for sub in itertools.combinations(CX, k):
            for order in (sub, tuple(reversed(sub))):
                hl, ho = start()
                members = [iw.held[x] for x in sub]
                smallest = min(members, key=lambda c: c.canonical_form)
                sidx = sub[members.index(smallest)]
                o1 = step(hl, ho, 'mk.macro\t0\t-\t%s' % hs([sidx]))
                o2 = step(hl, ho, 'mk.macro\t0\t-\t%s' % hs(order))
                res.evaluations += 1
                res.count('unnamed_macrostate_while_name_is_taken')
                if o2.startswith('ret h9'):
                    m2 = iw.held[9]
                    if m2.name != smallest.name or m2.representative is not smallest:
                        res.violation('macro:unnamed-not-represented-by-smallest-member', {'history': list(hl)},
                                      'name %s, representative %s' % (m2.name, m2.representative.name),
                                      'SingletonError, or a macrostate named after its canonically smallest member %s' % smallest.name)
                    del m2
                elif not o2.startswith('err SingletonError'):
                    res.violation('macro:unnamed-request:' + o2[:30], {'history': list(hl)}, o2, 'SingletonError or the macrostate')
                del members, smallest
                lines.extend(hl); impl.extend(ho)
    caller_owned_arguments(res, iw, start, rng)
    names_reused(res, iw, rng)
    user_classes(res, iw, rng)
    # ---- reactions: all multisets of reactants / products up to size 3 (sampled), all types, all permutations
    multis = [list(c) for n in (1, 2, 3) for c in itertools.combinations_with_replacement(CX[:4], n)]
    combos = [(r, p, t) for r in multis for p in multis for t in RTYPES]
    rng.shuffle(combos)
    for (r, p, t) in combos[:(150 if quick else 3000)]:
        rperms = list(set(itertools.permutations(r)))
        pperms = list(set(itertools.permutations(p)))
        r0, p0 = rng.choice(rperms), rng.choice(pperms)
        hl, ho = start()
        rname = rng.choice(['-', '-', 'R'])          # automatically named, or named by the caller
        o = step(hl, ho, 'mk.rxn\t0\t%s\t%s\t%s\t%s' % (rname, t, hs(r0), hs(p0)))
        res.evaluations += 1
        res.nontriv(('rxn', tuple(r), tuple(p), t))
        if not o.startswith('ret h8 new'):
            res.violation('reaction:construction', {'history': list(hl)}, o, 'ret h8 new')
            lines.extend(hl); impl.extend(ho); continue
        x = iw.held[8]
        rs = sorted([iw.held[i] for i in r], key=lambda c: c.canonical_form)
        ps = sorted([iw.held[i] for i in p], key=lambda c: c.canonical_form)
        want_name = ('[%s] %s -> %s' % (t, ' + '.join(c.name for c in rs), ' + '.join(c.name for c in ps))) if rname == '-' else rname
        ok = (x.name == want_name and x.arity == (len(r), len(p)) and [id(c) for c in x.reactants] == [id(c) for c in rs]
              and [id(c) for c in x.products] == [id(c) for c in ps] and x.rtype == t)
        if not ok:
            res.violation('reaction:attributes', {'history': list(hl)}, repr((x.name, x.arity)), want_name)
        for rp in rperms:
            for pp in pperms:
                o2 = step(hl, ho, 'mk.rxn\t0\t%s\t%s\t%s\t%s' % (rname, t, hs(rp), hs(pp)))
                if o2 != 'ret h8 old':
                    res.violation('reaction:permutation-not-identified', {'history': list(hl)}, o2, 'ret h8 old')
        # changing the type, a multiplicity or a member denotes a different object
        t2 = RTYPES[(RTYPES.index(t) + 1) % len(RTYPES)]
        for l in ('mk.rxn\t0\t-\t%s\t%s\t%s' % (t2, hs(r0), hs(p0)),
                  'mk.rxn\t0\t-\t%s\t%s\t%s' % (t, hs(list(r0) + [r0[0]]), hs(p0)),
                  'mk.rxn\t0\t-\t%s\t%s\t%s' % (t, hs(p0), hs(r0)) if sorted(r) != sorted(p) else None):
            if l is None:
                continue
            o3 = step(hl, ho, l)
            if o3.startswith('ret h8'):
                res.violation('reaction:different-request-identified', {'history': list(hl)}, o3, 'another object')
        # moving a species across the arrow (same concatenation of the sorted lists, other split point) denotes a
        # different reaction, which can be created next to this one
        inv = {id(v): k for k, v in iw.held.items()}
        cat = [inv[id(c)] for c in rs + ps]
        for k in range(1, len(cat)):
            if k == len(r):
                continue
            o4 = step(hl, ho, 'mk.rxn\t0\t-\t%s\t%s\t%s' % (t, hs(cat[:k]), hs(cat[k:])))
            w4 = o4.split(' ')
            if not (len(w4) >= 3 and w4[0] == 'ret' and w4[1] != 'h8' and w4[2] in ('new', 'old')):
                res.violation('reaction:species-moved-across-arrow', {'history': list(hl)}, o4, 'a reaction other than h8')
        del x, rs, ps
        lines.extend(hl); impl.extend(ho)
    # ---- reactions between overlapping macrostates that share their canonically smallest member
    import itertools as _it
    for trio in _it.permutations(CX[:4], 3):
        a, b, c = trio
        hl, ho = start()
        o1 = step(hl, ho, 'mk.macro\t0\t%s\th%d h%d' % (iw.held[b].name, a, b))
        o2 = step(hl, ho, 'mk.macro\t0\t%s\th%d h%d' % (iw.held[c].name, a, c))
        d = [x for x in CX if x not in trio][0]
        o3 = step(hl, ho, 'mk.macro\t0\t-\th%d' % d)
        if not (o1.startswith('ret h8 new') and o2.startswith('ret h9 new') and o3.startswith('ret h10 new')):
            lines.extend(hl); impl.extend(ho); continue
        res.evaluations += 1
        res.nontriv(('overlap', trio))
        for side in ('reactants', 'products'):
            fw = 'mk.rxn\t0\t-\tcondensed\t%s\t%s' % (('h8 h9', 'h10') if side == 'reactants' else ('h10', 'h8 h9'))
            bw = 'mk.rxn\t0\t-\tcondensed\t%s\t%s' % (('h9 h8', 'h10') if side == 'reactants' else ('h10', 'h9 h8'))
            x1 = step(hl, ho, bw)
            x2 = step(hl, ho, fw)
            if x1.startswith('ret h') and x2.split(' ')[:2] != x1.split(' ')[:2]:
                res.violation('reaction:overlapping-macrostates-order', {'history': list(hl)}, x2, 'the same object as the permuted request')
            if x1.startswith('ret h'):
                rx = iw.held[int(x1.split(' ')[1][1:])]
                ms = sorted([iw.held[8], iw.held[9]], key=lambda m: m.canonical_form)
                listed = list(rx.reactants if side == 'reactants' else rx.products)
                if [id(m) for m in listed] != [id(m) for m in ms]:
                    res.violation('reaction:not-in-canonical-order', {'history': list(hl)}, repr(listed), repr(ms))
                del rx, ms, listed
        lines.extend(hl); impl.extend(ho)
    # ---- reactions between macrostates
    for _ in range(20 if quick else 300):
        hl, ho = start()
        step(hl, ho, 'mk.macro\t0\t-\t%s' % hs(rng.sample(CX, 2)))
        step(hl, ho, 'mk.macro\t0\t-\t%s' % hs(rng.sample(CX, 1)))
        ms = [h for h in (8, 9) if h in iw.held]
        if len(ms) == 2:
            r = [rng.choice(ms) for _ in range(rng.randint(1, 2))]
            p = [rng.choice(ms) for _ in range(rng.randint(1, 2))]
            o = step(hl, ho, 'mk.rxn\t0\t-\tcondensed\t%s\t%s' % (hs(r), hs(p)))
            o2 = step(hl, ho, 'mk.rxn\t0\t-\tcondensed\t%s\t%s' % (hs(r[::-1]), hs(p[::-1])))
            res.evaluations += 1
            if o.startswith('ret') and o2 != o.replace('new', 'old').split(' lists')[0]:
                res.violation('reaction:macrostate-permutation', {'history': list(hl)}, o2, 'the same object')
        lines.extend(hl); impl.extend(ho)
    iw.reset()
    res.rule = ('macrostates: every non-empty subset of 5 complexes up to size %d, first request in every permutation (size <= 3) or 4 '
                'sampled ones, unnamed and named, then every permutation re-requested; reactions: sampled (reactant multiset, product '
                'multiset, type) over multisets of size <= 3 of 4 complexes x 4 types with every permutation re-requested, plus '
                'type / multiplicity / direction changes; reactions between macrostates; non-trivial = more than one member; '
                'distinct by (kind, members, type/name)' % maxk)
    try:
        model = core.run_driver(lines)
        core.compare_streams(res, 'histories.sets', lines, impl, model)
        if res.disagreements:
            fix_disagreements(res, lines, impl, model)
    except core.DriverBroken as e:
        proof.problem('driver', str(e))
    # MacrostateS.identifiers / ReactionS.identifiers as translated from the working tree (Gen/PyIdentifiers2.lean) against the real classmethods
    from .pyident2_stream import source_derived_pyident2
    core.run_stream(source_derived_pyident2, res, proof)
    from .pysetobj_stream import source_derived_pysetobj
    core.run_stream(source_derived_pysetobj, res, proof)
    from .pystrings_stream import source_derived_pystrings
    core.run_stream(source_derived_pystrings, res, proof)
    res.sample(lines[:12])


def caller_owned_arguments(res, iw, start, rng):
    """the lists passed to the constructors belong to the caller: whatever the caller does with them afterwards - reverse,
    extend, empty - the object keeps its members, their canonical order, its canonical form, name, length / arity, and the same
    request still denotes it (arguments in canonical order, in reverse order, as lists)"""
    from dsdobjects.base_classes import MacrostateS, ReactionS
    for trial in range(24):
        hl, ho = start()
        cx = [iw.held[x] for x in CX]
        k = rng.choice((1, 2, 3))
        mem = rng.sample(cx, k)
        canon = sorted(mem, key=lambda c: c.canonical_form)
        arg = list(canon) if trial % 2 == 0 else list(reversed(canon))
        desc = {'history': list(hl), 'then': 'MacrostateS(list of %s); the caller changes its list' % ' '.join(c.name for c in arg)}
        res.evaluations += 1
        try:
            m = MacrostateS(arg)
            snap = (m.name, len(m), [id(c) for c in m.complexes], [id(c) for c in m.canonical_form], id(m.representative), hash(m))
            # a reaction registered with the macrostate before the caller touches the list
            rx = ReactionS([m], [m], rtype='condensed')
            rsnap = (rx.name, rx.arity, [id(c) for c in rx.reactants], [id(c) for c in rx.products], rx.canonical_form, hash(rx))
            extra = next(c for c in cx if c not in mem)
            arg.reverse(); arg.append(extra); arg.pop(0)
            now = (m.name, len(m), [id(c) for c in m.complexes], [id(c) for c in m.canonical_form], id(m.representative), hash(m))
            if now != snap:
                res.violation('macro:changed-through-the-callers-list', desc, 'name %s, %d members, %s' % (m.name, len(m), [c.name for c in m.complexes]),
                              'unchanged: %d members %s' % (k, [c.name for c in canon]))
            elif MacrostateS(list(canon)) is not m or MacrostateS(list(reversed(canon))) is not m:
                res.violation('macro:not-found-after-the-caller-changed-its-list', desc, 'another object', 'the same object')
            else:
                again = None
                try:
                    again = ReactionS([m], [m], rtype='condensed')
                except Exception as e:
                    again = 'raised ' + type(e).__name__; e = None
                rnow = (rx.name, rx.arity, [id(c) for c in rx.reactants], [id(c) for c in rx.products], rx.canonical_form, hash(rx))
                if again is not rx or rnow != rsnap:
                    res.violation('reaction:of-a-macrostate-whose-argument-list-changed', desc, repr(again)[:80], 'the same reaction, unchanged')
                del again
            del m, rx
        except Exception as e:
            res.violation('macro:caller-owned-list:raises:' + type(e).__name__, desc, type(e).__name__, 'objects'); e = None
        # reactions of complexes, arguments in canonical order (the order the object itself uses) or not
        r = sorted(rng.choices(cx[:4], k=rng.choice((1, 2, 3))), key=lambda c: c.canonical_form)
        p = sorted(rng.choices(cx[:4], k=rng.choice((1, 2))), key=lambda c: c.canonical_form)
        ra, pa = (list(r), list(p)) if trial % 3 else (list(reversed(r)), list(reversed(p)))
        desc = {'history': list(hl), 'then': 'ReactionS(%s -> %s, open) from lists the caller changes afterwards' % (' + '.join(c.name for c in ra), ' + '.join(c.name for c in pa))}
        res.evaluations += 1
        res.count('caller_owned_argument_lists')
        try:
            x = ReactionS(ra, pa, rtype='open')
            snap = (x.name, x.arity, [id(c) for c in x.reactants], [id(c) for c in x.products], x.canonical_form, hash(x))
            ra.reverse(); ra.append(pa[0]); pa.clear()
            now = (x.name, x.arity, [id(c) for c in x.reactants], [id(c) for c in x.products], x.canonical_form, hash(x))
            if now != snap or [id(c) for c in x.reactants] != [id(c) for c in r] or [id(c) for c in x.products] != [id(c) for c in p]:
                res.violation('reaction:changed-through-the-callers-list', desc, '%s / %s, arity %r' % ([c.name for c in x.reactants], [c.name for c in x.products], x.arity),
                              '%s / %s in canonical order, arity %r' % ([c.name for c in r], [c.name for c in p], (len(r), len(p))))
            elif ReactionS(list(reversed(r)), list(p), rtype='open') is not x:
                res.violation('reaction:not-found-after-the-caller-changed-its-list', desc, 'another object', 'the same object')
            del x
        except Exception as e:
            res.violation('reaction:caller-owned-list:raises:' + type(e).__name__, desc, type(e).__name__, 'objects'); e = None
        del cx, mem, canon, r, p


def names_reused(res, iw, rng):
    """names are unique among LIVE objects only: after a generation of complexes (and everything built from them) has been
    dropped, a second generation may carry the same names with other contents, so that the canonical order of the same NAMES
    is another one - a reaction / macrostate requested with the same argument order of names must again list its members in
    canonical order, and every permutation must denote it"""
    import gc, itertools as it
    from dsdobjects.base_classes import DomainS, ComplexS, MacrostateS, ReactionS
    names = ['X', 'Y', 'Z']
    for trial in range(10):
        iw.reset()
        doms = [DomainS(n, 5) for n in 'abc']
        pool = [[doms[0]], [doms[1]], [doms[2]], [doms[0], doms[1]], [doms[1], doms[0]], [doms[2], doms[0]]]
        gen1 = rng.sample(pool, 3)
        gen2 = list(gen1)
        while gen2 == gen1:
            rng.shuffle(gen2)
        rord = rng.choice(list(it.permutations(range(3), 2)))           # reactants by NAME position, e.g. (Y, X)
        pord = [i for i in range(3) if i not in rord] or [0]
        rtype = rng.choice(['bind21', 'condensed', 'open'])
        for g, gen in enumerate((gen1, gen2)):
            desc = {'history': ['generation %d: %s' % (g + 1, '; '.join('%s = %s' % (n, ' '.join(d.name for d in q)) for n, q in zip(names, gen))),
                                'ReactionS([%s], [%s], %s); MacrostateS([%s])' % (', '.join(names[i] for i in rord), ', '.join(names[i] for i in pord),
                                                                                  rtype, ', '.join(names[i] for i in rord))] +
                    (['after generation 1 (same names, contents %s) was dropped' % '; '.join(' '.join(d.name for d in q) for q in gen1)] if g else [])}
            res.evaluations += 1
            res.count('names_reused_generations')
            try:
                cx = [ComplexS(list(q), ['.'] * len(q), name=n) for n, q in zip(names, gen)]
                ra, pa = [cx[i] for i in rord], [cx[i] for i in pord]
                x = ReactionS(list(ra), list(pa), rtype)
                rs, ps = sorted(ra, key=lambda c: c.canonical_form), sorted(pa, key=lambda c: c.canonical_form)
                if [id(c) for c in x.reactants] != [id(c) for c in rs] or [id(c) for c in x.products] != [id(c) for c in ps] \
                        or x.name != '[%s] %s -> %s' % (rtype, ' + '.join(c.name for c in rs), ' + '.join(c.name for c in ps)):
                    res.violation('reaction:not-in-canonical-order:names-reused', desc, '%s (%s -> %s)' % (x.name, [c.name for c in x.reactants], [c.name for c in x.products]),
                                  'reactants %s, products %s' % ([c.name for c in rs], [c.name for c in ps]))
                for rp in it.permutations(ra):
                    if ReactionS(list(rp), list(pa), rtype) is not x:
                        res.violation('reaction:permutation-not-identified:names-reused', desc, 'another object for reactants %s' % [c.name for c in rp], 'the same object')
                        break
                rp = None
                m = MacrostateS(list(ra))
                ms = sorted(ra, key=lambda c: c.canonical_form)
                if sorted(id(c) for c in m.complexes) != sorted(id(c) for c in ms) or [id(c) for c in m.canonical_form] != [id(c) for c in ms] \
                        or m.name != ms[0].name or m.representative is not ms[0] or len(m) != len(ms):
                    res.violation('macro:attributes:names-reused', desc, '%s %s' % (m.name, [c.name for c in m.complexes]), '%s %s' % (ms[0].name, [c.name for c in ms]))
                if MacrostateS(list(reversed(ra))) is not m:
                    res.violation('macro:permutation-not-identified:names-reused', desc, 'another object', 'the same object')
                del cx, ra, pa, x, rs, ps, m, ms
            except Exception as e:
                res.violation('names-reused:raises:' + type(e).__name__, desc, '%s: %s' % (type(e).__name__, str(e)[:100]), 'objects'); e = None
            gc.collect()
        del doms, pool, gen1, gen2
    iw.reset()


def user_classes(res, iw, rng):
    """user subclasses: (a) a reaction / macrostate class whose constructor raises on its first call - the same request, made again in
    any permutation, is then an ordinary first request (a failed construction leaves nothing behind that could refuse or redirect it);
    (b) members of a user ComplexS subclass with its OWN ordering operators - sets and multisets are still identified and listed by
    canonical form, whatever `<` the members define"""
    import gc, itertools as it
    from dsdobjects.base_classes import DomainS, ComplexS, MacrostateS, ReactionS
    from dsdobjects import clear_singletons

    class Sized(ComplexS):                      # orders by number of strands, then by name REVERSED: disagrees with the canonical order
        def _k(self): return (-self.size, tuple(reversed(self.name)))
        def __lt__(self, other): return self._k() < other._k()
        def __gt__(self, other): return self._k() > other._k()
        def __le__(self, other): return self._k() <= other._k()
        def __ge__(self, other): return self._k() >= other._k()

    class OnceR(ReactionS):
        armed = True
        def __init__(self, *a, **k):
            if OnceR.armed:
                OnceR.armed = False
                raise RuntimeError('not yet')
            super().__init__(*a, **k)

    class OnceM(MacrostateS):
        armed = True
        def __init__(self, *a, **k):
            super().__init__(*a, **k)
            if OnceM.armed:
                OnceM.armed = False
                raise RuntimeError('not yet')

    for trial in range(6):
        iw.reset()
        for K in (Sized, OnceR, OnceM):
            clear_singletons(K)
        Sized.ID = 1
        OnceR.armed = OnceM.armed = True
        doms = [DomainS(n, 5) for n in 'abc']
        pool = [([doms[0]], '.'), ([doms[1], '+', doms[2]], '.+.'), ([doms[2]], '.'), ([doms[0], '+', doms[1], '+', doms[0]], '.+.+.'), ([doms[1], doms[0]], '..')]
        picks = rng.sample(pool, 3)
        for KC in (ComplexS, Sized):
            desc = {'history': ['members of %s: %s' % (KC.__name__, '; '.join(' '.join(str(x) for x in q) for q, _ in picks))]}
            res.evaluations += 1
            res.count('user_class_scenarios')
            try:
                cx = [KC(list(q), list(st), name=n) for n, (q, st) in zip(['P', 'Q', 'R'], picks)]
                ms = sorted(cx, key=lambda c: c.canonical_form)
                # (a) failing constructors
                for KX, mk in ((OnceR, lambda order: OnceR([cx[i] for i in order], [cx[0]], 'bind21')),
                               (OnceM, lambda order: OnceM([cx[i] for i in order]))):
                    KX.armed = True
                    clear_singletons(KX)
                    orders = list(it.permutations(range(3)))
                    first = rng.choice(orders)
                    try:
                        mk(first)
                        res.violation('user-class:failing-constructor-did-not-raise', desc, 'an object', 'RuntimeError from the user constructor')
                    except RuntimeError as e:
                        e = None
                    got = []
                    for order in orders:
                        try:
                            got.append(mk(order))
                        except Exception as e:
                            res.violation('user-class:request-after-failed-construction:' + type(e).__name__, dict(desc, then='%s requested in order %s after a constructor of the same request raised' % (KX.__name__, order)),
                                          '%s: %s' % (type(e).__name__, str(e)[:80]), 'an ordinary (first or repeated) request: the object'); e = None
                            break
                    if got and any(g is not got[0] for g in got):
                        res.violation('user-class:permutation-not-identified-after-failed-construction', desc, 'different objects', 'the same object')
                    del got
                # (b) members with their own ordering
                m = MacrostateS(list(reversed(ms)))
                if [id(c) for c in m.canonical_form] != [id(c) for c in ms] or m.name != ms[0].name or any(MacrostateS(list(p)) is not m for p in it.permutations(cx)):
                    res.violation('macro:members-with-own-ordering', desc, '%s %s' % (m.name, [c.name for c in m.canonical_form]), 'canonical form %s, every permutation the same object' % [c.name for c in ms])
                x = ReactionS(list(reversed(ms)), [ms[-1], ms[0]], 'open')
                if [id(c) for c in x.reactants] != [id(c) for c in ms] or [id(c) for c in x.products] != [id(c) for c in (ms[0], ms[-1])] \
                        or any(ReactionS(list(p), [ms[0], ms[-1]], 'open') is not x for p in it.permutations(cx)):
                    res.violation('reaction:members-with-own-ordering', desc, '%s -> %s' % ([c.name for c in x.reactants], [c.name for c in x.products]),
                                  'reactants %s in canonical order, every permutation the same object' % [c.name for c in ms])
                del cx, ms, m, x
            except Exception as e:
                res.violation('user-class:raises:' + type(e).__name__, desc, '%s: %s' % (type(e).__name__, str(e)[:100]), 'objects'); e = None
            gc.collect()
            for K in (MacrostateS, ReactionS, OnceR, OnceM, KC):
                clear_singletons(K)
        del doms, pool, picks
    iw.reset()


def replay(body, repo):
    return hist.replay_history(body, repo)
