"""`Singleton.__call__` / `clear_singletons` as translated from the working tree (translator/pysingleton.py -> Gen/PySingleton.lean)
against the real metaclass.

`source_derived_pysingleton(res, proof)` drives the REAL `dsdobjects.singleton.Singleton` through a tiny class `T` defined here
(`identifiers` returns what the history says, `__init__` only stores the object under the extra keys the history says, as
`ComplexS.__init__` does with its rotations) with random histories of requests - name + canonical form, name only, canonical form
only, conflicting ones, empty names, falsy canonical forms (None, (), 0), extra keys (also keys that another live object holds) -,
reference drops (`del`: CPython's reference counting empties the weak dictionaries at once) and `clear_singletons`, and compares
after EVERY step the returned identity / the exception kind with its `existing` / both dictionaries (keys in insertion order with
the identity of their values) with the driver op `pysingleton.run` on the same history (stream `Singleton.__call__.source-derived`).
"""
import os
import random
from .. import core

STREAM = 'Singleton.__call__.source-derived'
NAMES = ['a', 'b', 'c', 'a*', '']


def hx(s):
    return ''.join('%04x' % ord(c) for c in s)


def make_class():
    from dsdobjects.singleton import Singleton

    class T(metaclass=Singleton):
        @classmethod
        def identifiers(cls, canon, name, fresh, keys):
            return canon, name, {}

        def __init__(self, canon, name, fresh, keys):
            self.name, self.oid = name, fresh
            for k in keys:                       # what ComplexS.__init__ does with the rotations
                type(self)._instanceCanon[k] = self
    return T


def show(T):
    return 'N[%s] C[%s]' % (','.join('%s>%d' % (hx(k), v.oid) for k, v in list(T._instanceNames.items())),
                            ','.join('%s>%d' % (k if type(k) is int and k else 'FALSY:%r' % (k,), v.oid) for k, v in list(T._instanceCanon.items())))


def random_history(rng, n):
    """steps: ('c', name, canon (int >= 1 or a falsy value), fresh, keys) | ('d', id) | ('x',)"""
    steps, fresh, made = [], 0, []
    for _ in range(n):
        r = rng.random()
        if r < 0.72:
            fresh += 1
            name = rng.choice(NAMES)
            canon = rng.choice([1, 2, 3, 4, 1, 2, None, (), 0])
            keys = []
            if rng.random() < 0.3:
                keys = [rng.randint(1, 8) for _ in range(rng.randint(1, 3))]
                if canon and rng.random() < 0.5:
                    keys.insert(rng.randrange(len(keys) + 1), canon)
            steps.append(('c', name, canon, fresh, keys))
            made.append(fresh)
        elif r < 0.95 and made:
            steps.append(('d', rng.choice(made)))
        else:
            steps.append(('x',))
    return steps


def encode(steps):
    out = []
    for s in steps:
        if s[0] == 'c':
            out.append('c:%s:%s:%d:%s' % (hx(s[1]), s[2] if s[2] else '-', s[3], ','.join(map(str, s[4]))))
        elif s[0] == 'd':
            out.append('d:%d' % s[1])
        else:
            out.append('x')
    return ' '.join(out)


def run_real(steps):
    from dsdobjects.singleton import SingletonError, clear_singletons
    T = make_class()
    held, out = {}, []
    for s in steps:
        if s[0] == 'c':
            try:
                o = T(s[2], s[1], s[3], s[4])
                held[o.oid] = o
                r = 'ok %d' % o.oid
                del o
            except SingletonError as e:
                r = 'err SingletonError existing=%s' % ('None' if e.existing is None else e.existing.oid)
                e = None
            except Exception as e:
                r = 'err ' + type(e).__name__
                e = None
        elif s[0] == 'd':
            held.pop(s[1], None)
            r = 'dropped'
        else:
            r = 'ok %s' % clear_singletons(T)
        out.append(r + ' ' + show(T))
    held.clear()
    return ' | '.join(out)


def run_singleton_driver(lines):
    """the driver with `stepSingleton` wired in (Main.lean); before the integration, the private loop MainSingleton.lean"""
    wired = 'stepSingleton' in open(os.path.join(core.LEAN, 'DsdVerif', 'Driver.lean'), encoding='utf-8').read()
    if wired:
        return core.run_driver(lines)
    rc, out, err = core.sh(['lake', 'env', 'lean', '--run', 'MainSingleton.lean'], cwd=core.LEAN, input='\n'.join(lines) + '\n', timeout=1200)
    if rc != 0:
        raise core.DriverBroken((out + err)[-3000:])
    got = out.split('\n')
    if got and got[-1] == '':
        got.pop()
    if len(got) != len(lines):
        raise core.DriverBroken('driver returned %d lines for %d requests; tail: %s' % (len(got), len(lines), got[-3:]))
    return got


FIXED = [
    [('c', 'a', 1, 1, []), ('c', 'a', 1, 2, []), ('c', 'b', 1, 3, []), ('c', 'a', 2, 4, []), ('c', '', 1, 5, []), ('c', 'a', None, 6, []),
     ('c', 'c', None, 7, []), ('c', '', None, 8, []), ('c', '', (), 9, []), ('c', 'b', 5, 10, [6, 7]), ('d', 1), ('c', 'a', 2, 11, []), ('x',),
     ('c', 'a', 1, 12, [])],
    [('c', 'a', 1, 1, [2, 3]), ('c', 'b', 2, 2, []), ('c', 'b', 4, 3, [1]), ('c', 'a', 1, 4, []), ('d', 1), ('c', 'a', 1, 5, [])],
    [('c', 'a', 1, 1, [1, 1, 2]), ('c', 'b', 2, 2, []), ('d', 1), ('c', 'b', 2, 3, [])],
    [('c', 'a', 0, 1, []), ('c', '', 0, 2, []), ('c', '', 3, 3, [])],
]


def source_derived_pysingleton(res, proof):
    rng = random.Random(res.seed * 5915587 + 101)
    quick = res.tier == 'quick'
    hist = list(FIXED) + [random_history(rng, rng.randint(3, 25)) for _ in range(400 if quick else 6000)]
    lines = ['pysingleton.run\t' + encode(h) for h in hist]
    impl = [run_real(h) for h in hist]
    try:
        out = run_singleton_driver(lines)
    except core.DriverBroken as e:
        proof.problem('driver', 'pysingleton stream: ' + str(e))
        return
    # one comparison per STEP: the first step of a history that differs is reported with the history up to it
    res.streams[STREAM] = res.streams.get(STREAM, 0)
    for h, l, a, b in zip(hist, lines, impl, out):
        sa, sb = a.split(' | '), b.split(' | ')
        res.streams[STREAM] += len(sa)
        res.traces += 1
        if a != b:
            k = next((i for i, (x, y) in enumerate(zip(sa, sb)) if x != y), min(len(sa), len(sb)))
            res.disagree(STREAM, 'pysingleton.run\t' + encode(h[:k + 1]), sa[k] if k < len(sa) else '<missing>', sb[k] if k < len(sb) else '<missing>')
    steps = [s for h in hist for s in h]
    res.dist['pysingleton:histories'] = len(hist)
    res.dist['pysingleton:steps'] = len(steps)
    res.dist['pysingleton:requests'] = sum(1 for s in steps if s[0] == 'c')
    res.dist['pysingleton:drops'] = sum(1 for s in steps if s[0] == 'd')
    res.dist['pysingleton:refused'] = sum(x.startswith('err SingletonError') for a in impl for x in a.split(' | '))
    res.dist['pysingleton:returned_existing_or_created'] = sum(x.startswith('ok ') for a in impl for x in a.split(' | '))
    res.dist['pysingleton:other_exceptions'] = sum(x.startswith('err ') and not x.startswith('err SingletonError') for a in impl for x in a.split(' | '))
    for l in lines[:2]:
        res.sample(l[:200])
