"""Implementation side of the complex_utils protocol ops (shared by C06–C09, C20)."""
import copy


def show_locus(x):
    return '-' if x is None else '%d.%d' % (x[0], x[1])


def show_pt(pt):
    return '|'.join(','.join(show_locus(x) for x in st) for st in pt)


def parse_pt(s):
    out = []
    for st in s.split('|'):
        row = []
        if st:
            for x in st.split(','):
                row.append(None if x == '-' else tuple(int(k) for k in x.split('.')))
        out.append(row)
    return out


def show_ll(l):
    return '|'.join(','.join(str(x) for x in st) for st in l)


def err(e):
    n = type(e).__name__
    if n in ('SecondaryStructureError', 'ObjectInitError', 'NotImplementedError', 'AssertionError', 'PilFormatError'):
        return 'err ' + n
    if n == 'SingletonError':
        return 'err SingletonError'
    if n == 'ParseException':
        return 'err ParseException'
    return 'err Fault ' + n


def impl_op(cux, op):
    try:
        k = op[0]
        if k == 'mpt':
            return 'ok ' + show_pt(cux.make_pair_table(op[1], strand_break=op[2]))
        if k == 'ptdb':
            joined = cux.pair_table_to_dot_bracket(parse_pt(op[1]), strand_break=op[2], join=True)
            aslist = cux.pair_table_to_dot_bracket(parse_pt(op[1]), strand_break=op[2])          # default: list form
            if ''.join(aslist) != joined:
                return 'list-form-differs %r vs %r' % (''.join(aslist), joined)
            return 'ok ' + joined
        if k == 'mst.str':
            return 'ok ' + '|'.join(''.join(x) for x in cux.make_strand_table(op[1], strand_break=op[2]))
        if k == 'mst.list':
            seq = op[1].split(' ') if op[1] else []
            return 'ok ' + '|'.join(' '.join(x) for x in cux.make_strand_table(seq, strand_break=op[2]))
        if k == 'stseq':
            tab = [[y for y in x.split(' ') if y] for x in op[1].split('|')] if op[1] else []
            return 'ok ' + ' '.join(cux.strand_table_to_sequence(tab, strand_break=op[2]))
        if k in ('rot1', 'rot1x'):
            seq = op[1].split(' ') if op[1] else []
            sst = list(op[2])
            seq0, sst0 = list(seq), list(sst)
            a, b = cux.rotate_complex_once(seq, sst)
            if seq != seq0 or sst != sst0:
                return 'input-modified'
            return 'ok ' + ' '.join(a) + ' / ' + ''.join(b)
        if k == 'rotdb':
            seq = op[1].split(' ') if op[1] else []
            return 'ok ' + ' ; '.join(' '.join(a) + ' / ' + ''.join(b) for a, b in cux.rotate_complex_db(seq, list(op[2])))
        if k == 'rotdb.str':
            return 'ok ' + ' ; '.join('%s / %s' % (a, b) for a, b in cux.rotate_complex_db(op[1], op[2], join=True))
        if k == 'rotpt':
            ss = op[1]
            pt = cux.make_pair_table(ss)
            stab = [list(x) for x in ss.split('+')]
            pt0, st0 = copy.deepcopy(pt), copy.deepcopy(stab)
            out = []
            for s, p in cux.rotate_complex_pt(stab, pt):
                out.append('|'.join(''.join(x) for x in s) + ' / ' + show_pt(p) + ' / ' +
                           cux.pair_table_to_dot_bracket(p, join=True))
            if pt != pt0 or stab != st0:
                return 'input-modified'
            return 'ok ' + ' ; '.join(out)
        if k == 'loop':
            pt = cux.make_pair_table(op[1])
            pt0 = copy.deepcopy(pt)
            if op[2] == '1':
                li, my = cux.make_loop_index(pt, components=True)
                r = 'ok ' + show_ll(li) + ' / ' + ' '.join('%d:%d' % (a, b) for a, b in my)
            else:
                li, ext = cux.make_loop_index(pt)
                r = 'ok ' + show_ll(li) + ' / ' + ' '.join(str(x) for x in sorted(ext))
            if pt != pt0:
                return 'input-modified'
            return r
        if k == 'loop.pt':
            pt = parse_pt(op[1])
            pt0 = copy.deepcopy(pt)
            if op[2] == '1':
                li, my = cux.make_loop_index(pt, components=True)
                r = 'ok ' + show_ll(li) + ' / ' + ' '.join(':'.join('-' if a is None else str(a) for a in e) for e in my)
            else:
                li, ext = cux.make_loop_index(pt)
                r = 'ok ' + show_ll(li) + ' / ' + ' '.join(str(x) for x in sorted(ext))
            if pt != pt0:
                return 'input-modified'
            return r
        if k == 'split':
            seq = op[1].split(' ') if op[1] else []
            parts = list(cux.split_complex_db(seq, list(op[2])))
            return 'ok ' + ' ; '.join(' '.join(a) + ' / ' + ''.join(b) for a, b in parts)
    except Exception as e:
        return err(e)
    return 'bad-op'


def _wreck(x):
    """destroy a returned value in place, as deeply as Python allows"""
    if isinstance(x, list):
        for y in x:
            _wreck(y)
        x.clear()
    elif isinstance(x, (set, dict)):
        x.clear()
    elif isinstance(x, tuple):
        for y in x:
            _wreck(y)


def _freeze(x):
    if isinstance(x, (list, tuple)):
        return tuple(_freeze(y) for y in x)
    if isinstance(x, (set, frozenset)):
        return ('set',) + tuple(sorted(_freeze(y) for y in x))
    if isinstance(x, dict):
        return ('dict',) + tuple(sorted((k, _freeze(v)) for k, v in x.items()))
    return x


def fresh_results(res, name, call, desc):
    """the value a function returns belongs to the caller: destroying it in place must not change what the same call
    returns next time (a memo table handing out its own entry would)"""
    try:
        r1 = call()
        if hasattr(r1, '__next__'):
            r1 = list(r1)
        want = _freeze(r1)
        _wreck(r1)
        r2 = call()
        if hasattr(r2, '__next__'):
            r2 = list(r2)
        got = _freeze(r2)
    except Exception as e:
        res.violation(name + ':repeated-call-raises:' + type(e).__name__, desc, type(e).__name__, 'the same result as the first call')
        return False
    if got != want:
        res.violation(name + ':result-shared-with-later-calls', desc, repr(got)[:160], repr(want)[:160] + ' (as returned by the first call)')
        return False
    return True


def rerun_sample(res, name, ops, outs, call, rng, k=300):
    """history independence: a sample of the operations is executed again after everything else (other arguments, failing
    calls) has gone through the same functions; every answer must be the one given the first time"""
    if not ops:
        return
    idx = rng.sample(range(len(ops)), min(k, len(ops)))
    for i in idx:
        again = call(ops[i])
        if again != outs[i]:
            res.violation(name + ':answer-depends-on-earlier-calls', {'op': list(ops[i]) if not isinstance(ops[i], str) else ops[i]},
                          str(again)[:200], 'the answer of the first call: ' + str(outs[i])[:160])
            return
    res.count('rerun_sample_' + name, len(idx))


def tup(x):
    return tuple(tup(y) if isinstance(y, (list, tuple)) else y for y in x)


def same_for_forms(res, name, calls, desc):
    """the container type of an argument (str / list / tuple, where the function accepts them) does not change the result"""
    outs = []
    for form, call in calls:
        try:
            r = call()
            if hasattr(r, '__next__'):
                r = list(r)
            outs.append((form, _freeze(r)))
        except Exception as e:
            outs.append((form, 'raises ' + type(e).__name__))
    if any(o[1] != outs[0][1] for o in outs):
        res.violation(name + ':argument-form-changes-result', desc, ' | '.join('%s: %r' % (f, o) for f, o in outs)[:300], 'the same result for every accepted argument form')
        return False
    return True


def object_error_kinds(res, dsdobjects, strings):
    """complex construction and structural views on ill-formed structures: only SecondaryStructureError
    (or the construction-time ObjectInitError / SingletonError families) may escape, never a table"""
    from .. import ref
    from dsdobjects.base_classes import ComplexS, DomainS
    from dsdobjects import clear_singletons, SecondaryStructureError
    cases = [(['+' if c == '+' else 'a' for c in s], s) for s in strings if s and ref.ref_pair_table(s) is None]
    _object_views_must_reject(res, cases)


def object_error_kinds_elements(res, dsdobjects):
    """the same for structure LISTS one of whose elements is not a single character of the alphabet"""
    cases = []
    for el in ['', '..', '((', '()', ' ', 'x', '(.']:
        for form in (['(', el, ')'], ['.', el], [el, '.', '.'], ['(', '+', el, ')']):
            cases.append((['+' if c == '+' else 'a' for c in form], list(form)))
    _object_views_must_reject(res, cases)


def _object_views_must_reject(res, cases):
    from dsdobjects.base_classes import ComplexS, DomainS
    from dsdobjects import clear_singletons, SecondaryStructureError
    for seq, s in cases:
        clear_singletons(ComplexS)
        res.evaluations += 1
        try:
            c = ComplexS(seq, list(s), name='X')
        except SecondaryStructureError:
            res.count('object_ctor_rejects'); continue
        except Exception as e:
            res.violation('ComplexS:ill-formed:' + type(e).__name__, {'op': ['ComplexS', ' '.join(seq), s if isinstance(s, str) else repr(s)]},
                          type(e).__name__, 'SecondaryStructureError (or a complex whose structural views raise it)')
            continue
        # every view is asked twice, the second time after all others have failed once: a failure must not leave a
        # half-initialised cache behind that answers the next query
        views = ('exterior_domains', 'pair_table', 'is_connected_raw', 'enclosed_domains', 'get_paired_loc', 'rotate_pt')
        for view in views + views:
            try:
                if view == 'pair_table':
                    list(c.pair_table)
                elif view == 'is_connected_raw':
                    c.get_loop_index((0, 0))
                elif view == 'exterior_domains':
                    c.exterior_domains
                elif view == 'enclosed_domains':
                    c.enclosed_domains
                elif view == 'get_paired_loc':
                    c.get_paired_loc((0, 0))
                elif view == 'rotate_pt':
                    list(c.rotate_pt())
                res.violation('ComplexS.%s:ill-formed:returns' % view, {'op': ['ComplexS.' + view, ' '.join(seq), s if isinstance(s, str) else repr(s)]},
                              'returned a value', 'SecondaryStructureError')
            except SecondaryStructureError:
                res.count('object_view_rejects')
            except Exception as e:
                res.violation('ComplexS.%s:ill-formed:%s' % (view, type(e).__name__),
                              {'op': ['ComplexS.' + view, ' '.join(seq), s if isinstance(s, str) else repr(s)]}, type(e).__name__, 'SecondaryStructureError')
        del c
    clear_singletons(ComplexS)


def replay(body, repo):
    from dsdobjects import complex_utils as cux
    op = tuple(body['input']['op'])
    if op[0] == 'make_pair_table:list-form':
        import ast as _ast
        try:
            out = 'returns %r' % (cux.make_pair_table(_ast.literal_eval(op[1])),)
        except Exception as e:
            out = err(e)
    elif op[0].startswith('ComplexS'):
        from dsdobjects.base_classes import ComplexS
        import ast as _ast
        try:
            c = ComplexS(op[1].split(' '), _ast.literal_eval(op[2]) if op[2].startswith('[') else list(op[2]), name='X')
            v = op[0].split('.', 1)[1] if '.' in op[0] else None
            out = 'constructed'
            if v == 'pair_table':
                out = repr(list(c.pair_table))
            elif v:
                out = repr(getattr(c, v))
        except Exception as e:
            out = 'err ' + type(e).__name__
    else:
        out = impl_op(cux, op)
    print('op       :', op)
    print('observed :', out)
    print('required :', body.get('required'))
    return 0 if out == body.get('required') else 1


def handed_out_rotations(res, c, key, desc, request=False, ks=None):
    """rotate(k) / rotate_pt(k) with an explicit number of turns: k entries, entry e is the e-th rotation of the CURRENT
    representation (mod the number of strands), the same from both generators; with request=True, asking for the complex each
    entry describes (under the object's name) gives the object itself (C02)."""
    from .. import ref
    import dsdobjects.utils as U
    seq = [str(x) for x in c.sequence]
    base = [(list(a), list(b)) for a, b in ref.rotations(seq, list(c.structure))]
    n = len(base)
    for k in (ks if ks is not None else sorted({2, n - 1, n + 1, n + 2, 2 * n + 1} - {0, -1})):
        try:
            g1 = [([str(x) for x in a], list(b)) for a, b in c.rotate(k)]
            tabs = [(a, b) for a, b in c.rotate_pt(k)]
            g2 = [([str(x) for x in U.strand_table_to_sequence(a)], list(U.pair_table_to_dot_bracket(b))) for a, b in tabs]
        except Exception as e:
            res.violation(key + ':explicit-turn-count-raises:' + type(e).__name__, dict(desc, turns=k), type(e).__name__, '%d rotations' % k); e = None
            return False
        want = [base[e % n] for e in range(k)]
        if g1 != want or g2 != want:
            res.violation(key + ':explicit-turn-count', dict(desc, turns=k),
                          'rotate(%d) right: %s, rotate_pt(%d) right: %s' % (k, g1 == want, k, g2 == want),
                          '%d entries, entry e = rotation e mod %d of the current representation, from both generators' % (k, n))
            return False
        if request:
            for (a, b) in g1 + g2:
                try:
                    o = type(c)([x for x in _objs(c, a)], list(b), name=c.name)
                except Exception as e:
                    res.violation(key + ':handed-out-rotation-refused:' + type(e).__name__, dict(desc, turns=k), type(e).__name__, 'the object itself'); e = None
                    return False
                if o is not c:
                    res.violation(key + ':handed-out-rotation-is-another-object', dict(desc, turns=k), repr(o), 'the object itself')
                    return False
    res.count('explicit_turn_counts_checked')
    return True


def _objs(c, names):
    """the domain objects of complex c for a list of names ('+' kept)"""
    d = {str(x): x for x in c.sequence if x != '+'}
    return [x if x == '+' else d[x] for x in names]


# ---- the functions translated from the source (Gen/PyFuncs.lean) are driven with the same inputs ---------------------------
PY_TWIN = {'split': ('pysplit', 'pysplitdb'), 'rotdb': 'pyrotdb', 'mst.str': 'pystab.str', 'mst.list': 'pystab', 'stseq': 'pystseq',
           'rotpt': 'pyrotpt', 'rot1x': 'pyrot1', 'mpt': 'pympt', 'ptdb': 'pyptdb', 'rot1': 'pyrot1', 'loop': 'pyloop', 'loop.pt': 'pyloop.pt'}


def source_derived_stream(res, proof, name, ops, impl):
    """the statement-level translation of complex_utils.py (regenerated from the working tree) against the implementation:
    a disagreement means the translator's reading of Python is wrong for that statement - or the code changed under it"""
    from .. import core
    sel = [(tw, op, out) for op, out in zip(ops, impl) if op[0] in PY_TWIN
           for tw in (PY_TWIN[op[0]] if isinstance(PY_TWIN[op[0]], tuple) else (PY_TWIN[op[0]],))]
    lines = ['\t'.join((tw,) + tuple(op[1:])) for tw, op, _ in sel]
    try:
        model = core.run_driver(lines)
        core.compare_streams(res, name, lines, [o for _, _, o in sel], model)
    except core.DriverBroken as e:
        proof.problem('driver', str(e))
    res.dist['source_derived_ops:' + name] = len(lines)


def object_tables_follow_structure(res, dsdobjects, rng, n=150):
    """C06 at object level: whatever was asked before and however the object was turned, the tables a complex hands out are
    the conversions of its CURRENT sequence and structure (pair table = make_pair_table(structure), strand table = split of
    the sequence), judged with the reference matcher"""
    from .. import gen, ref
    from dsdobjects.base_classes import ComplexS, DomainS
    from dsdobjects import clear_singletons
    for it in range(n):
        clear_singletons(ComplexS); clear_singletons(DomainS)
        ns = rng.choice((2, 3, 3, 4, 5))
        s = gen.random_structure(rng, rng.randint(ns, 12), nstrands=ns, pair_bias=0.7, depth_bias=0.5)
        if ref.ref_pair_table(s) is None or any(len(x) == 0 for x in s.split('+')):
            continue
        names, k = [], 0
        for ch in s:
            if ch == '+':
                names.append('+')
            else:
                names.append('d%d' % k); k += 1
        try:
            c = ComplexS([DomainS(x, 5) if x != '+' else '+' for x in names], list(s), name='X')
        except Exception:
            continue
        desc = {'op': ['ComplexS.tables-after-turns', ' '.join(names), s]}
        for step in range(3):
            if rng.random() < 0.8:
                list(c.pair_table); list(c.strand_table)
            if rng.random() < 0.5:
                c.get_paired_loc((0, 0))
            t = rng.choice((1, 1, 2, -1, ns - 1, ns + 1))
            c.turns = c.turns + t
            cur = ''.join(c.structure)
            want_pt = ref.ref_pair_table(cur)
            got_pt = [list(x) for x in c.pair_table]
            got_st = [[str(y) for y in x] for x in c.strand_table]
            res.evaluations += 1
            if want_pt is None or got_pt != [list(x) for x in want_pt]:
                res.violation('ComplexS.pair_table:not-the-table-of-its-structure', dict(desc, turns_added=t, step=step),
                              'structure %s, pair_table %r' % (cur, got_pt), 'make_pair_table(structure) = %r' % (want_pt,))
                break
            seqs = [str(y) for y in c.sequence]
            flat = []
            for i, x in enumerate(got_st):
                if i: flat.append('+')
                flat += x
            if flat != seqs:
                res.violation('ComplexS.strand_table:not-the-table-of-its-sequence', dict(desc, turns_added=t, step=step),
                              'sequence %s, strand_table %r' % (' '.join(seqs), got_st), 'the sequence split at its strand breaks')
                break
        del c
    clear_singletons(ComplexS); clear_singletons(DomainS)
