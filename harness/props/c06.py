"""C06 — dot-bracket / pair-table / strand-table conversions are exact and validating."""
import random
from .. import core, gen, ref
from . import cu

MODULES = ['DsdVerif.Props.C06', 'DsdVerif.Props.PyFuncs']
GEN_FILES = ['PyFuncs']
THEOREMS = ['Dsd.' + t for t in [
    'Bracket.matchW_sound', 'Bracket.matchW_complete', 'Bracket.matching_unique', 'Bracket.matching_accepted',
    'C06.mpt_shape', 'C06.mpt_involution_nested', 'C06.mpt_rejects_iff', 'C06.mpt_accepts_iff', 'C06.db_of_mpt',
    'C06.strand_table_roundtrip_str', 'C06.sequence_roundtrip_str', 'C06.strand_table_roundtrip_list',
    'C06.sequence_roundtrip_list', 'C06.rotateOnce_error_kind', 'C06.mpt_error_kind',
    # the functions as written in the source (Gen/PyFuncs.lean, regenerated on every run) equal the model, for every input
    'PyFuncs.py_make_pair_table_eq', 'PyFuncs.py_pair_table_to_dot_bracket_eq', 'PyFuncs.py_mpt_rejects_iff',
    'PyFuncs.py_mpt_error_kind', 'PyFuncs.py_mpt_accepts_iff', 'PyFuncs.py_mpt_shape', 'PyFuncs.py_db_of_mpt',
    'PyFuncs.py_rotate_error_kind', 'PyFuncs.py_rotate_short_structure_faults',
    'PyFuncs.py_make_strand_table_list_eq', 'PyFuncs.py_make_strand_table_list_default', 'PyFuncs.py_make_strand_table_str_eq',
    'PyFuncs.py_strand_table_to_sequence_list_eq', 'PyFuncs.py_strand_table_to_sequence_str_eq']]
ASSUMPTIONS = [
    'make_pair_table is modelled as the linear stack matcher followed by re-indexing to loci (Model/Complex.lean); '
    'the re-indexing and the error kinds are tied to the code by the correspondence stream',
    'only the default ignore set {"."} is modelled',
]
MANIFEST = {
    'text': 'Full for the model: mpt_involution_nested (symmetric, fixed-point free, properly nested, oriented like the brackets), '
            'mpt_shape, mpt_rejects_iff (rejected exactly when not WellFormed, an independent height-counting definition), '
            'db_of_mpt (exact round trip for non-empty strands and any break character), strand_table_roundtrip_* and '
            'rotateOnce_error_kind are proved for strings of any length; the model is tied to complex_utils.py by an exhaustive '
            'correspondence stream over every string up to a bounded length plus random long/deep/many-stranded structures, and an '
            'independent quadratic matcher checks the real code directly.'
            ' STATEMENT LEVEL, FROM THE SOURCE: translator/pyfunc.py transcribes make_pair_table and pair_table_to_dot_bracket statement by statement from the working tree into Gen/PyFuncs.lean on every run (locals as a record, every for-loop a fold over a named step function, Python primitives from Model/PyPrelude); py_make_pair_table_eq and py_pair_table_to_dot_bracket_eq prove the transcriptions equal to the model for EVERY text, break character and table, so py_mpt_rejects_iff, py_mpt_accepts_iff, py_mpt_shape, py_mpt_error_kind and the exact round trip py_db_of_mpt are theorems about the code as written; the transcriptions are also run against the implementation on every generated input (stream complex_utils.source-derived).',
    'note': 'The Lean model re-indexes linear positions to loci instead of carrying loci through the loop; Python list/str/dict '
            'semantics are modelled; trusted base as in DESIGN.md section 3.',
    'technique': 'Lean 4 invariant proof of the stack matcher (induction over the word) + uniqueness of non-crossing matchings; correspondence check',
}

BREAKS = ['+', ' ', '&', '|', '.', '(']


def gen_ops(res, rng):
    quick = res.tier == 'quick'
    L = 7 if quick else 9
    ops = []
    for s in gen.all_strings('().+x', L):
        ops.append(('mpt', s, '+'))
    for s in gen.all_strings('().+*', 5):            # '*' (the structure placeholder of strands) is a foreign character too
        if '*' in s:
            ops.append(('mpt', s, '+'))
    res.dist['exhaustive_len_le'] = L
    for s in gen.all_strings('().+&', 5):
        for b in BREAKS[1:]:
            ops.append(('mpt', s, b))
    n = 1500 if quick else 30000
    for _ in range(n):
        npos = rng.choice((10, 20, 50, 120, 400)) if rng.random() < 0.4 else rng.randint(1, 40)
        s = gen.random_structure(rng, npos, nstrands=rng.choice((None, 1, 2, 40)), pair_bias=rng.choice((0.3, 0.6, 0.9)),
                                 depth_bias=rng.choice((0.2, 0.5, 0.95)))
        k = rng.random()
        if k < 0.25:     # one mutation -> mostly ill-formed
            i = rng.randrange(len(s))
            s = s[:i] + rng.choice('().+x') + s[i + 1:]
            res.count('random_mutated')
        else:
            res.count('random_wellformed')
        ops.append(('mpt', s, '+'))
    return ops


def quick_tier(res):
    return res.tier == 'quick'


def run(res, proof):
    from dsdobjects import complex_utils as cux
    import dsdobjects
    rng = random.Random(res.seed * 99991 + 6)
    ops = gen_ops(res, rng)
    res.rule = ('every string over ( ) . + x up to length %d (exhaustive) with the default break, every string up to length 5 with '
                '5 other break characters, seeded random structures up to 400 positions / depth 150 / 40 strands, a quarter of '
                'them mutated; non-trivial = contains at least one bracket; distinct by (string, break)' % res.dist['exhaustive_len_le'])
    res.exhaustive = True
    impl, extra_ops, extra_impl = [], [], []
    for op in ops:
        out = cu.impl_op(cux, op)
        impl.append(out)
        res.evaluations += 1
        s, b = op[1], op[2]
        if '(' in s or ')' in s:
            res.nontriv((s, b))
        # ---- oracle: independent matcher
        exp = ref.ref_pair_table(s, b)
        if exp is None:
            res.count('illformed')
            if out != 'err SecondaryStructureError':
                res.violation('make_pair_table:accepts:' + s[:20] + ':' + b, {'op': list(op)}, out, 'err SecondaryStructureError')
        else:
            res.count('wellformed')
            want = 'ok ' + cu.show_pt(exp)
            if out != want:
                res.violation('make_pair_table:' + s[:20] + ':' + b, {'op': list(op)}, out, want)
            elif all(len(x) > 0 for x in s.split(b)):
                if len(s) <= 8 and b == '+':
                    # results belong to the caller: wrecking them must not change what the next call returns
                    d = {'op': list(op)}
                    if cu.fresh_results(res, 'make_pair_table', lambda: cux.make_pair_table(s), d):
                        cu.fresh_results(res, 'pair_table_to_dot_bracket', lambda: cux.pair_table_to_dot_bracket(cux.make_pair_table(s)), d)
                        cu.fresh_results(res, 'make_strand_table', lambda: cux.make_strand_table(list(s)), d)
                        cu.fresh_results(res, 'strand_table_to_sequence', lambda: cux.strand_table_to_sequence(cux.make_strand_table(list(s))), d)
                if len(s) <= 8 and b == '+':
                    d = {'op': list(op)}
                    cu.same_for_forms(res, 'make_pair_table', [('str', lambda: cux.make_pair_table(s)), ('list', lambda: cux.make_pair_table(list(s))),
                                                               ('tuple', lambda: cux.make_pair_table(tuple(s)))], d)
                    cu.same_for_forms(res, 'pair_table_to_dot_bracket', [('lists', lambda: cux.pair_table_to_dot_bracket(cux.make_pair_table(s))),
                                                                         ('tuples', lambda: cux.pair_table_to_dot_bracket(cu.tup(cux.make_pair_table(s))))], d)
                    cu.same_for_forms(res, 'make_strand_table', [('str', lambda: cux.make_strand_table(s.replace('(', 'a').replace(')', 'b').replace('.', 'c'))),
                                                                 ('list', lambda: cux.make_strand_table(list(s.replace('(', 'a').replace(')', 'b').replace('.', 'c'))))], d)
                # round trip on the real code (non-empty strands)
                o2 = ('ptdb', cu.show_pt(exp), b)
                r2 = cu.impl_op(cux, o2)
                extra_ops.append(o2); extra_impl.append(r2)
                if r2 != 'ok ' + s:
                    res.violation('pair_table_to_dot_bracket:' + s[:20] + ':' + b, {'op': list(o2)}, r2, 'ok ' + s)
                res.count('roundtrip_checked')
            elif len(s) <= 6:
                o2 = ('ptdb', cu.show_pt(exp), b)       # empty strands: correspondence only
                extra_ops.append(o2); extra_impl.append(cu.impl_op(cux, o2))
    # ---- strand tables
    st_ops = []
    for s in gen.all_strings('ab+', 6):
        st_ops.append(('mst.str', s, '+'))
        st_ops.append(('mst.list', ' '.join(s), '+'))
    for s in gen.all_strings('ab&', 4):
        st_ops.append(('mst.str', s, '&'))
        st_ops.append(('mst.list', ' '.join(s), '&'))
    for _ in range(300):
        n = rng.randint(1, 30)
        names = [rng.choice(['a', 'b*', 'x12', 'long_name-1', '+']) for _ in range(n)]
        st_ops.append(('mst.list', ' '.join(names), '+'))
    st_impl = []
    for op in st_ops:
        out = cu.impl_op(cux, op)
        st_impl.append(out)
        res.evaluations += 1
        seq, b = op[1], op[2]
        if op[0] == 'mst.str':
            parts = seq.split(b)
            want = 'ok ' + '|'.join(parts)
            if out != want:
                res.violation('make_strand_table:str:' + seq, {'op': list(op)}, out, want)
            # inverse direction
            back = cux.strand_table_to_sequence([list(p) for p in parts], strand_break=b, join=True)
            if back != seq:
                res.violation('strand_table_to_sequence:join:' + seq, {'op': ['stseq.join', seq, b]}, repr(back), repr(seq))
        else:
            names = seq.split(' ') if seq else []
            strands = ref.parse_struct([('+' if x == b else '.') for x in names], '+')
            ne = all(len(x) > 0 for x in strands) and names
            if ne:
                # non-empty strands: exact split, and the inverse restores the list
                tab = cux.make_strand_table(list(names), strand_break=b)
                tab0 = [list(x) for x in tab]
                back = cux.strand_table_to_sequence(tab, strand_break=b)
                back = list(back)
                again = cux.strand_table_to_sequence(tab, strand_break=b)
                res.count('list_roundtrip')
                if tab != tab0 or list(again) != back:
                    res.violation('strand_table_to_sequence:modifies-input', {'op': list(op)}, 'table after the call: %r' % (tab,),
                                  'the table is unchanged and a second conversion gives the same sequence')
                if back != names:
                    res.violation('strand_table:list-roundtrip:' + seq[:20], {'op': list(op)}, repr(back), repr(names))
                o2 = ('stseq', '|'.join(' '.join(x) for x in tab), b)
                extra_ops.append(o2); extra_impl.append(cu.impl_op(cux, o2))
    extra_ops.append(('stseq', '', '+')); extra_impl.append(cu.impl_op(cux, ('stseq', '', '+')))
    # ---- other operations that detect imbalance must use the same error type
    rot_ops = []
    for s in gen.all_strings('().+', 6):
        if '+' in s:
            rot_ops.append(('rot1', ' '.join('+' if c == '+' else 'a' for c in s), s))
    rot_impl = []
    for op in rot_ops:
        out = cu.impl_op(cux, op)
        rot_impl.append(out)
        res.evaluations += 1
        if out.startswith('err') and out != 'err SecondaryStructureError':
            res.violation('rotate_complex_once:error-kind:' + out[4:], {'op': list(op)}, out, 'ok … or err SecondaryStructureError')
        res.count('rot1_' + ('err' if out.startswith('err') else 'ok'))
    cu.object_error_kinds(res, dsdobjects, gen.all_strings('().+', 5))
    # ---- correspondence
    allops = ops + extra_ops + st_ops + rot_ops
    allimpl = impl + extra_impl + st_impl + rot_impl
    lines = ['\t'.join(op) for op in allops]
    try:
        model = core.run_driver(lines)
        core.compare_streams(res, 'complex_utils.tables', lines, allimpl, model)
    except core.DriverBroken as e:
        proof.problem('driver', str(e))
    # ---- the source-derived functions (Gen/PyFuncs.lean) on the same inputs, plus inputs on which the net-effect model is
    #      totalised (sequence and structure of different lengths: the source raises IndexError there)
    xops = []
    for s in gen.all_strings('().+', 4):
        for q in (['a', '+', 'b'], ['a', 'b', '+', 'c'], ['+', 'a'], ['a', 'b', 'c', '+', 'd', '+', 'e'], ['a']):
            if len(q) != len(s):
                xops.append(('rot1x', ' '.join(q), s))
    ximpl = [cu.impl_op(cux, op) for op in xops]
    res.evaluations += len(xops)
    cu.source_derived_stream(res, proof, 'complex_utils.source-derived', allops + xops, allimpl + ximpl)
    # ---- list-form structures whose elements are not single characters are foreign characters too
    for el in ['', '..', '((', '()', '.(', ' ', 'x', '(.', '))', '+.', '++']:
        for form in ([el], ['(', el, ')'], ['.', el], [el, '+', '.'], ['(', '+', el, ')']):
            d = {'op': ['make_pair_table:list-form', repr(form)]}
            try:
                got = cux.make_pair_table(list(form))
                res.violation('make_pair_table:accepts:list-element:' + repr(el), d, 'returns %r' % (got,), 'err SecondaryStructureError')
            except Exception as e:
                if type(e).__name__ != 'SecondaryStructureError':
                    res.violation('make_pair_table:list-element:raises:' + type(e).__name__, d, cu.err(e), 'err SecondaryStructureError')
            res.evaluations += 1
    cu.object_error_kinds_elements(res, dsdobjects)
    cu.object_tables_follow_structure(res, dsdobjects, rng, 150 if quick_tier(res) else 1500)
    for op in ops[::max(1, len(ops) // 8)]:
        res.sample('\t'.join(op))


def replay(body, repo):
    return cu.replay(body, repo)
