"""C07 — strand rotation is a structure-preserving relabelling."""
import copy, random
from .. import core, gen, ref
from . import cu

MODULES = ['DsdVerif.Props.C07', 'DsdVerif.Props.PyFuncs', 'DsdVerif.Lemmas.PyObjRot']
GEN_FILES = ['PyExprs', 'PyFuncs', 'PyComplexS']
THEOREMS = []          # filled below from THEOREM_NAMES that exist in Props/C07.lean
THEOREM_NAMES = ['rotateOnce_pairs', 'rotateOnce_single', 'rotateOnce_strands', 'rotate_period', 'rotatePtOnce_spec',
                 'rotationsPt_length', 'wrap_eq_emod', 'rotateOnce_pairtable', 'rotatePtOnce_inverts',
                 'connected_rotation_invariant']
THEOREMS = ['Dsd.C07.' + t for t in THEOREM_NAMES] + ['Dsd.PyExprs.py_wrap_eq_model', 'Dsd.PyExprs.py_wrap_spec',
                                                         'Dsd.PyExprs.py_rotate_pairtable_loc_eq',
                                                         # rotate_complex_once as written in the source (Gen/PyFuncs.lean)
                                                         'Dsd.PyFuncs.py_rotate_complex_once_eq', 'Dsd.PyFuncs.py_rotate_single',
                                                         'Dsd.PyFuncs.py_rotate_pairs', 'Dsd.PyFuncs.py_rotate_error_kind',
                                                         'Dsd.PyFuncs.py_rotate_short_structure_faults',
                                                         # rotate_complex_pt (recursive generator) as written in the source
                                                         'Dsd.PyFuncs.py_rotate_complex_pt_eq', 'Dsd.PyFuncs.py_rotate_empty_stab_faults',
                                                         'Dsd.PyFuncs.py_rotate_complex_db_eq_pt', 'Dsd.PyFuncs.py_rotate_complex_db_eq',
                                                         'Dsd.PyFuncs.py_rotate_complex_db_wellformed', 'Dsd.PyFuncs.py_rotate_complex_db_no_strand',
                                                         # ComplexS.rotate / rotate_pt / the turns setter as written in the source (Gen/PyComplexS.lean)
                                                         'Dsd.PyObj.Rot.view_rotate_of_strands', "Dsd.PyObj.Rot.view_rotate'", 'Dsd.PyObj.Rot.view_rotate_false',
                                                         'Dsd.PyObj.Rot.exec_rotate_pt', 'Dsd.PyObj.Rot.pySetTurns_spec']
ASSUMPTIONS = [
    'rotate_complex_once / rotate_complex_pt are hand-modelled (Model/Complex.lean: rotateOnce, rotatePtOnce, rotationsPt) and tied '
    'to the code by the correspondence streams rot1 / rotpt',
    'rotateOnce_pairs is stated on list positions (break tokens carried as unpaired symbols); rotateOnce_pairtable lifts it to pair '
    'tables over (strand, index) loci with the re-indexing rotate_pairtable_loc(., 1); the implementation of rotate_pairtable_loc '
    'itself is compared with that mapping by the oracle on the real objects',
]
MANIFEST = {
    'text': 'Full for the model of the fast rotation: rotateOnce_pairs (well-formed in => succeeds, stays balanced, every name and '
            'unpaired character moves along the strand shift sigma, and the new pairing is the old pairing transported along sigma), '
            'rotateOnce_strands, rotate_period (n rotations restore the lists), rotatePtOnce_spec / rotationsPt_length for the '
            'pair-table generator, wrap_eq_emod; all for structures of any size. Tied to rotate_complex_once / rotate_complex_pt by '
            'exhaustive correspondence over every well-formed structure up to a bounded size; the generators, the object methods '
            'rotate()/rotate_pt(), rotate_pairtable_loc and input immutability are checked on the real code by an independent '
            'label-transport oracle.'
            ' STATEMENT LEVEL, FROM THE SOURCE: rotate_complex_once is transcribed statement by statement from the working tree (Gen/PyFuncs.lean, translator/pyfunc.py) and proved equal to the model for all sequence / structure pairs of equal length (py_rotate_complex_once_eq), so rotateOnce_pairs holds of the code as written (py_rotate_pairs); for unequal lengths the transcription, unlike the net-effect model, raises IndexError like the code (py_rotate_short_structure_faults, and the source-derived stream on mismatched inputs).'
            ' rotate_complex_pt (recursive generator, nested rotate_locus, wrap) is transcribed from the source as well and equals rotationsPt for every non-empty strand table (py_rotate_complex_pt_eq).',
    'note': 'wrap and ComplexS.rotate_pairtable_loc are TRANSLATED from the source on every run (Gen/PyExprs.lean) and proved equal to the '
            'model\'s wrap / rotLoc (py_wrap_eq_model, py_rotate_pairtable_loc_eq); '
            'trusted base as in DESIGN.md section 3.',
    'source_derived': 'The object methods rotate / rotate_pt / the turns setter are transcribed from the working tree too (Gen/PyComplexS.lean): PyObj.Rot.view_rotate_of_strands (rotate() of an object with a strand is exactly rotationsFrom over the number of strands), exec_rotate_pt, pySetTurns_spec.',
    'technique': 'Lean 4 proof: cyclic shift of a non-crossing involution + uniqueness of matchings; correspondence check',
}


def structures(res, rng):
    quick = res.tier == 'quick'
    L = 7 if quick else 9
    out = list(gen.wellformed_structures(L, 4))
    res.dist['exhaustive_positions_le'] = L
    res.dist['exhaustive_structures'] = len(out)
    for _ in range(300 if quick else 6000):
        npos = rng.choice((12, 30, 80, 200)) if rng.random() < 0.4 else rng.randint(2, 25)
        out.append(gen.random_structure(rng, npos, pair_bias=rng.choice((0.4, 0.7, 0.9)), depth_bias=rng.choice((0.3, 0.6))))
    return out


_SUB = {}


def _sub(base):
    if base not in _SUB:
        _SUB[base] = type('My' + base.__name__, (base,), {})
    return _SUB[base]


def oracle(res, cux, ComplexS, s, rng):
    """label-transport oracle on the real code"""
    n = s.count('+') + 1
    seq = gen.label(s, unique=True)
    sst = list(s)
    pairs0 = ref.pair_label_set(seq, sst)
    cur_seq, cur_sst = list(seq), list(sst)
    objrots = [(list(cur_seq), list(cur_sst))]
    for k in range(n):
        a, b = list(cur_seq), list(cur_sst)
        try:
            nseq, nsst = cux.rotate_complex_once(cur_seq, cur_sst)
        except Exception as e:
            res.violation('rotate_complex_once:raises:' + type(e).__name__, {'op': ['rot1', ' '.join(a), ''.join(b)]}, type(e).__name__, 'a rotation')
            return
        if cur_seq != a or cur_sst != b:
            res.violation('rotate_complex_once:modifies-input', {'op': ['rot1', ' '.join(a), ''.join(b)]}, 'input changed', 'inputs untouched')
        nseq, nsst = list(nseq), list(nsst)
        want_seq = ref.rotate_names(a, 1)
        ps = ref.pair_label_set(nseq, nsst)
        if nseq != want_seq or ps is None or ps != pairs0 and {tuple(sorted(x)) for x in ps} != {tuple(sorted(x)) for x in pairs0}:
            res.violation('rotate_complex_once:relabelling', {'op': ['rot1', ' '.join(a), ''.join(b)]},
                          'ok ' + ' '.join(nseq) + ' / ' + ''.join(nsst), 'strands shifted by one, same label pairs, balanced')
            return
        cur_seq, cur_sst = nseq, nsst
        if k < n - 1:
            objrots.append((list(cur_seq), list(cur_sst)))
    if (cur_seq, cur_sst) != (seq, sst):
        res.violation('rotate_complex_once:period', {'op': ['rotN', ' '.join(seq), s]}, ' '.join(cur_seq) + ' / ' + ''.join(cur_sst), 'original after n rotations')
    # results belong to the caller (wrecking them must not change later calls)
    if n > 1:
        d = {'op': ['rot1', ' '.join(seq), s]}
        cu.fresh_results(res, 'rotate_complex_once', lambda: cux.rotate_complex_once(list(seq), list(sst)), d)
        cu.fresh_results(res, 'rotate_complex_db', lambda: cux.rotate_complex_db(list(seq), list(sst)), d)
        cu.fresh_results(res, 'rotate_complex_pt', lambda: cux.rotate_complex_pt(cux.make_strand_table(list(seq)), cux.make_pair_table(s)), d)
    if n > 1:
        cu.same_for_forms(res, 'rotate_complex_once', [('structure as list', lambda: cux.rotate_complex_once(list(seq), list(sst))),
                                                       ('structure as str', lambda: cux.rotate_complex_once(list(seq), s))], {'op': ['rot1', ' '.join(seq), s]})
    # the two utility generator families (no explicit turn count)
    stab = cux.make_strand_table(seq)
    ptab = cux.make_pair_table(s)
    st0, pt0 = copy.deepcopy(stab), copy.deepcopy(ptab)
    ptrots = [(copy.deepcopy(a), copy.deepcopy(b)) for a, b in cux.rotate_complex_pt(stab, ptab)]
    dbrots = [(list(a), list(b)) for a, b in cux.rotate_complex_db(list(seq), list(sst))]
    if stab != st0 or ptab != pt0:
        res.violation('rotate_complex_pt:modifies-input', {'op': ['rotpt', s]}, 'input changed', 'inputs untouched')
    ok = len(ptrots) == n and len(dbrots) == n
    if ok:
        for k in range(n):
            # pt family: k-th entry, as dot-bracket, equals the db family's k-th entry and the object family's (n-k)%n-th
            a = (cux.strand_table_to_sequence(ptrots[k][0]), cux.pair_table_to_dot_bracket(ptrots[k][1]))
            if (list(a[0]), list(a[1])) != dbrots[k] or dbrots[k] != objrots[(n - k) % n]:
                ok = False
    if ok:
        # the documented use of the turn count: "turns = 1 for a single forced rotation"; and join=True is the joined list form
        try:
            d1 = [(list(a), list(b)) for a, b in cux.rotate_complex_db(list(seq), list(sst), turns=1)]
            p1 = [(copy.deepcopy(a), copy.deepcopy(b)) for a, b in cux.rotate_complex_pt(copy.deepcopy(st0), copy.deepcopy(pt0), turns=1)]
            jn = [(a, b) for a, b in cux.rotate_complex_db(list(seq), list(sst), join=True)]; res.count('join_form_checked')
            if d1 != [dbrots[1 % n]] or p1 != [ptrots[1 % n]] or (jn is not None and jn != [(''.join(a), ''.join(b)) for a, b in dbrots]):
                res.violation('rotation-generators:turns-or-join-argument', {'op': ['rotpt', s]},
                              'turns=1: %r' % (d1,), 'one forced rotation; join=True gives the joined list form')
        except Exception as e:
            res.violation('rotation-generators:turns-argument-raises:' + type(e).__name__, {'op': ['rotpt', s]}, type(e).__name__, 'one forced rotation')
    if ok and len(s) <= 26:
        # the same complex described by STRINGS (one letter per position): str inputs, joined and list output forms
        letters = ''.join('+' if ch == '+' else chr(97 + i) for i, ch in enumerate(s))
        try:
            base = [(''.join(a), ''.join(b)) for a, b in cux.rotate_complex_db(list(letters), list(s))]
            forms = {'str,join': [(a, b) for a, b in cux.rotate_complex_db(letters, s, join=True)],
                     'str,list': [(''.join(a), ''.join(b)) for a, b in cux.rotate_complex_db(letters, s)],
                     'list,join': [(a, b) for a, b in cux.rotate_complex_db(list(letters), list(s), join=True)]}
            want = [(''.join('+' if x == '+' else x for x in cux.strand_table_to_sequence([list(y) for y in a])),
                     ''.join(cux.pair_table_to_dot_bracket(b))) for a, b in
                    cux.rotate_complex_pt([list(x) for x in letters.split('+')], cux.make_pair_table(s))]
            res.count('string_form_checked')
            for nm, got in forms.items():
                if got != base or got != want:
                    res.violation('rotate_complex_db:string-form:' + nm, {'op': ['rotdb.str', letters, s]}, repr(got)[:200],
                                  'the same rotations in the same order as the list form and as rotate_complex_pt: %r' % (want,))
                    break
        except Exception as e:
            res.violation('rotate_complex_db:string-form:raises:' + type(e).__name__, {'op': ['rotdb.str', letters, s]}, type(e).__name__, 'the rotations')
    if not ok:
        res.violation('rotation-generators:disagree', {'op': ['rotpt', s]},
                      'pt=%d db=%d entries' % (len(ptrots), len(dbrots)), 'n rotations starting with the current one; db[k] = once^((n-k) mod n)')
    # object methods
    from dsdobjects import clear_singletons
    clear_singletons(ComplexS)
    K = ComplexS if rng.random() < 0.7 else _sub(ComplexS)          # sometimes a user subclass
    clear_singletons(K)
    shared = list(seq)                   # the caller's list: also handed to a second complex further down
    c = K(shared, list(sst), name='X')
    r1 = [(list(a), list(b)) for a, b in c.rotate()]
    r2 = [(a, b) for a, b in c.rotate_pt()]
    if r1 != objrots or [(cux.strand_table_to_sequence(a), cux.pair_table_to_dot_bracket(b)) for a, b in r2] != objrots:
        res.violation('ComplexS.rotate:enumeration', {'op': ['ComplexS.rotate', ' '.join(seq), s]}, repr(r1)[:200], 'the n rotations starting with the current one')
    # rotate_pairtable_loc: pair table of the k-th rotation is the relabelled pair table
    pt = [list(x) for x in c.pair_table]
    for k, (a, b) in enumerate(r2):
        for si, row in enumerate(pt):
            for di, pr in enumerate(row):
                l2 = c.rotate_pairtable_loc((si, di), k)
                got = b[l2[0]][l2[1]] if l2[0] < len(b) and l2[1] < len(b[l2[0]]) else 'out-of-range'
                want = None if pr is None else c.rotate_pairtable_loc(pr, k)
                if got != want:
                    res.violation('rotate_pairtable_loc:mapping', {'op': ['ComplexS.rotate_pt', ' '.join(seq), s]},
                                  'rotation %d locus %r -> %r: %r' % (k, (si, di), l2, got), repr(want))
                    break
    # rotate_pairtable_loc for EVERY turn count, also negative and beyond one full turn: (strand - k) mod size, position kept
    for k in range(-2 * n - 1, 2 * n + 2):
        for si, row in enumerate(pt):
            for di in range(len(row)):
                got = c.rotate_pairtable_loc((si, di), k)
                if tuple(got) != ((si - k) % n, di):
                    res.violation('rotate_pairtable_loc:turn-count', {'op': ['ComplexS.rotate_pairtable_loc', ' '.join(seq), s], 'turns': k},
                                  'locus %r, %d turns -> %r' % ((si, di), k, got), repr(((si - k) % n, di)))
                    break
    # the generators with an explicit turn count: k entries, entry e is the e-th rotation (mod the number of strands)
    base = [(list(a), list(b)) for a, b in ref.rotations([str(x) for x in c.sequence], list(c.structure))]
    for k in sorted({1, 2, n, n + 1, n + 2, 2 * n + 1}):
        g1 = [([str(x) for x in a], list(b)) for a, b in c.rotate(k)]
        g2 = [([str(x) for x in cux.strand_table_to_sequence(a)], list(cux.pair_table_to_dot_bracket(b))) for a, b in c.rotate_pt(k)]
        want = [base[e % n] for e in range(k)]
        if g1 != want or g2 != want:
            res.violation('ComplexS.rotate:explicit-turn-count', {'op': ['ComplexS.rotate', ' '.join(seq), s], 'turns': k},
                          'rotate(%d): %s, rotate_pt(%d): %s' % (k, g1 == want, k, g2 == want), 'k entries, entry e = rotation e mod %d' % n)
            break
    # the generators follow the object: after every `turns` assignment both start with the current representation
    if n > 1:
        for v in ([1, n - 1, 0] if n > 2 else [1, 0]):
            c.turns = v
            cur = ([str(x) for x in c.sequence], list(c.structure))
            want = [(list(a), list(b)) for a, b in ref.rotations(cur[0], cur[1])]
            g1 = [([str(x) for x in a], list(b)) for a, b in c.rotate()]
            g2 = [([str(x) for x in cux.strand_table_to_sequence(a)], list(cux.pair_table_to_dot_bracket(b))) for a, b in c.rotate_pt()]
            if g1 != want or g2 != want:
                res.violation('ComplexS.rotate:after-turns', {'op': ['ComplexS.rotate', ' '.join(seq), s], 'turns': v},
                              'rotate(): %s, rotate_pt(): %s' % (g1 == want, g2 == want), 'both generators start with the current representation')
                break
    # a second complex described with the SAME list object (same strands, no pairs): turning one of them moves neither the other
    # nor the caller's list - the other's generators still enumerate ITS rotations from ITS current representation
    dots = ['+' if x == '+' else '.' for x in sst]
    if n > 1 and dots != list(sst):
        try:
            c2 = K(shared, list(dots), name='Y')
            c.turns = c.turns + 1
            want = [(list(a), list(b)) for a, b in ref.rotations(list(seq), dots)]
            k2 = c2.turns
            g = [([str(x) for x in a], list(b)) for a, b in c2.rotate()]
            cur2 = ([str(x) for x in c2.sequence], list(c2.structure))
            if [str(x) for x in shared] != [str(x) for x in seq] or cur2 != (list(map(str, seq)), dots) or g != want or c2.turns != k2:
                res.violation('ComplexS.rotate:after-turning-a-complex-built-from-the-same-list', {'op': ['ComplexS.turns', ' '.join(seq), s, 'twin: no pairs']},
                              'caller list %s, twin %s / %s' % (' '.join(map(str, shared)), ' '.join(cur2[0]), ''.join(cur2[1])),
                              'the caller\'s list and the twin unchanged; the twin enumerates its own %d rotations' % n)
            del c2
        except Exception as e:
            res.violation('ComplexS.rotate:shared-list:raises:' + type(e).__name__, {'op': ['ComplexS.turns', ' '.join(seq), s, 'twin: no pairs']},
                          '%s: %s' % (type(e).__name__, str(e)[:80]), 'two complexes'); e = None
    del c, r1, r2
    clear_singletons(ComplexS)


def run(res, proof):
    from dsdobjects import complex_utils as cux
    from dsdobjects.base_classes import ComplexS
    rng = random.Random(res.seed * 31337 + 7)
    structs = structures(res, rng)
    res.rule = ('every well-formed structure with non-empty strands up to %d positions and 4 strands (exhaustive) with unique and '
                'with repeated labels, plus seeded random structures up to 200 positions; non-trivial = at least two strands; '
                'distinct by structure string' % res.dist['exhaustive_positions_le'])
    res.exhaustive = True
    ops = []
    for s in structs:
        res.evaluations += 1
        n = s.count('+') + 1
        res.count('strands_%d' % min(n, 5))
        if n > 1:
            res.nontriv(s)
        ops.append(('rot1', ' '.join(gen.label(s, unique=True)), s))
        ops.append(('rot1', ' '.join(gen.label(s, rng, ['a', 'b'])), s))
        ops.append(('rotpt', s))
        if len(s) <= 60:
            try:
                oracle(res, cux, ComplexS, s, rng)
            except Exception as e:
                res.violation('rotation-api-raises:' + type(e).__name__, {'op': ['rot1', ' '.join(gen.label(s, unique=True)), s]},
                              type(e).__name__ + ' while rotating / constructing the well-formed complex', 'rotations of a well-formed complex never raise')
    # rotationally symmetric / periodic complexes with their own (repeated) labels: the object generators must still
    # enumerate exactly n rotations and agree with the utility generators
    from dsdobjects import clear_singletons
    from dsdobjects.base_classes import DomainS
    clear_singletons(DomainS)
    dd = {}
    for names, s in gen.symmetric_complexes():
        res.evaluations += 1
        res.nontriv(('symmetric', tuple(names), s))
        for n_ in names:
            if n_ != '+' and n_ not in dd:
                b_ = n_[:-1] if n_.endswith('*') else n_
                dd[b_] = dd.get(b_) or DomainS(b_, 5)
                dd[b_ + '*'] = ~dd[b_]
        want = [(list(a), list(b)) for a, b in ref.rotations(names, s)]
        clear_singletons(ComplexS)
        try:
            c = ComplexS([dd[x] if x != '+' else '+' for x in names], list(s), name='SYM')
            r1 = [([str(x) for x in a], list(b)) for a, b in c.rotate()]
            r2 = [([str(x) for x in cux.strand_table_to_sequence(a)], cux.pair_table_to_dot_bracket(b)) for a, b in c.rotate_pt()]
            dbr = [([str(x) for x in a], list(b)) for a, b in cux.rotate_complex_db(list(names), list(s))]
        except Exception as e:
            res.violation('rotation-api-raises:' + type(e).__name__, {'op': ['ComplexS.rotate', ' '.join(names), s]},
                          type(e).__name__ + ' while rotating / constructing the well-formed complex', 'rotations of a well-formed complex never raise')
            e = None
            continue
        nn = len(want)
        if r1 != want or r2 != want or len(dbr) != nn or any(dbr[k] != want[(nn - k) % nn] for k in range(nn)):
            res.violation('rotation-enumeration:symmetric-complex', {'op': ['ComplexS.rotate', ' '.join(names), s]},
                          'rotate(): %d entries, rotate_pt(): %d, rotate_complex_db: %d' % (len(r1), len(r2), len(dbr)),
                          'exactly the %d rotations starting with the current one, in both families' % nn)
        ops.append(('rot1', ' '.join(names), s)); ops.append(('rotpt', s))
        del c
    clear_singletons(ComplexS)
    impl = [cu.impl_op(cux, op) for op in ops]
    cu.rerun_sample(res, 'complex_utils', ops, impl, lambda op: cu.impl_op(cux, op), rng)
    lines = ['\t'.join(op) for op in ops]
    try:
        model = core.run_driver(lines)
        core.compare_streams(res, 'complex_utils.rotation', lines, impl, model)
    except core.DriverBroken as e:
        proof.problem('driver', str(e))
    # rotate_complex_db (list form) on the same complexes, for the source-derived generator
    dbops = [('rotdb', op[1], op[2]) for op in ops if op[0] == 'rot1']
    dbimpl = [cu.impl_op(cux, op) for op in dbops]
    res.evaluations += len(dbops)
    cu.source_derived_stream(res, proof, 'complex_utils.rotation.source-derived', ops + dbops, impl + dbimpl)
    for op in ops[::max(1, len(ops) // 8)]:
        res.sample('\t'.join(op))


def replay(body, repo):
    return cu.replay(body, repo)
