"""C16 — bad input is rejected with declared errors; ignorable lines are survived; no NameError by construction."""
import random
from .. import core, sysgen, reader, gen

MODULES = ['DsdVerif.Props.C16', 'DsdVerif.Props.PyReaderFns', 'DsdVerif.Props.PyReadLine', 'DsdVerif.Props.PyReadLine2', 'DsdVerif.Props.PyReadLine3']
GEN_FILES = ['Symbols', 'Grammars', 'PyReaderFns', 'GrammarUnits', 'PyReadLine']
THEOREMS = ['Dsd.Symbols.no_unresolved_global', 'Dsd.C16.reader_never_faults', 'Dsd.C16.readLine_never_faults_fresh',
            'Dsd.C16.typed_lineOK', 'Dsd.C16.resolveKernel_ok', 'Dsd.C16.resolveKernel_total',
            'Dsd.C16.pil_lines_typed', 'Dsd.C16.read_text_faults_only_recursion', 'Dsd.C16.read_text_never_faults',
            'Dsd.C16.ssw_lines_shape', 'Dsd.PP.run_shape', 'Dsd.PP.parseDoc_shape',
            'Dsd.C16.read_short_text_never_faults', 'Dsd.C16.kernel_pattern_lt_length', 'Dsd.C16F.readLineFull_eq', 'Dsd.C16F.readDocFull_eq',
            'Dsd.C16F.typed_fullLine', 'Dsd.C16F.Ex.finding_empty_composite']
# read_reaction as written in the source (translator/pyreaderfn.py -> Gen/PyReaderFns.lean): equal to the reader model on typed lines, an ignored
# reaction returns six Nones and never raises
THEOREMS += ['Dsd.PyReaderFns.' + t for t in [
    'py_read_reaction_eq_model', 'py_read_reaction_short_line', 'model_differs_on_str_info', 'py_accepts_str_rate', 'py_read_reaction_outcome',
    'py_ignored_reaction_six_nones', 'py_accepted_reaction', 'py_ignored_reaction_survives', 'py_no_info_box_six_nones']]
# read_pil_line as written in the source (translator/pyreaderfn3.py -> Gen/PyReadLine.lean; constructions are request parameters; PARTIAL: strand-complex / kernel-complex are raising stubs, only the dl-domain branch is proved equal to the model, no stream yet)
THEOREMS += ['Dsd.PyReadLine.' + t for t in ['py_unconfigured_hands_back', 'py_dl_domain_eq_model', 'py_dl_domain_no_own_fault']]
# read_pil_line: the sl-domain and composite-domain branches equal the reader model
THEOREMS += ['Dsd.PyReadLine2.' + t for t in ['py_sl_domain_eq_model', 'py_composite_domain_eq_model', 'py_comprehension_is_listComp']]
# read_pil_line: the resting-macrostate branch and the ignored-reaction case equal the reader model
THEOREMS += ['Dsd.PyReadLine3.' + t for t in ['py_resting_macrostate_eq_model', 'py_ignored_reaction_hands_back_eq_model', 'py_try_keeps_world']]
ASSUMPTIONS = [
    'static part: the global-name reference table of every function / method / lambda / comprehension / class body of the package is '
    'regenerated with symtable by translator/gen.py; a name bound anywhere at module level (incl. inside if/try, via import or import *) '
    'counts as defined; attribute look-ups and dynamically built names are out of scope',
    'dynamic part: which exception kinds read_pil raises is observed on the real reader over single-fault corruptions of generated valid '
    'documents, random multi-fault documents and random text; the same texts are handed to an unconfigured reader (read_pil_line '
    'after set_io_objects / clear_io_objects) and the module namespaces are inspected in every reader state (import, set, clear, '
    'clear twice) for names that functions reference but that are no longer defined',
    'read_text_faults_only_recursion is about the model (Model/Pyparsing + regenerated grammar + Model/Reader); RecursionError on '
    'deeply nested kernel patterns is a resource limit of CPython (the real parser raises it from about 200 nested loops) and is '
    'outside the property as read here (DESIGN.md section 8)',
]
MANIFEST = {
    'text': 'Partial. Full (translator-based) for the static clause: no_unresolved_global is decided by the Lean kernel over the symbol '
            'table regenerated from the working tree on every run, so no function of the package can reference an undefined global '
            'name. Dynamic clauses: the Lean reader model (Model/Reader.lean) returns for every document either the dictionary, a '
            'declared error kind or an explicit `fault`; its outcome KIND is compared with the real reader on every single-fault '
            'corruption (15 kinds) of generated valid documents and on multi-fault documents; reader_never_faults proves that reading '
            'ANY document whose lines have the shapes the grammar produces (any length, names other than "" and "*", kernel patterns '
            'within the recursion budget), with any ignore list and slot configuration, into a fresh world never ends in a fault '
            '(world invariant WOK preserved by every request, by collect, by every readLine branch); the shape hypothesis is itself a '
            'theorem about the parser model: run_shape / parseDoc_shape (input-independent shape soundness of the pyparsing '
            'interpreter for every grammar term) and pil_lines_typed (whatever text parses, every line has a shape PilLine the reader '
            'handles), hence read_text_faults_only_recursion: FOR ANY TEXT, slot configuration and ignore list, parse-then-read returns '
            'the dictionary, a parse error or a declared error, and the only possible fault is the RecursionError of a kernel pattern '
            'nested deeper than the recursion budget (read_text_never_faults: none at all when the parsed patterns fit the budget; '
            'read_short_text_never_faults: none at all for texts of at most 1000 characters - input accounting bounds the pattern '
            'size by the text length); readLineFull_eq / readDocFull_eq: a second, independent statement-by-statement transcription '
            'of objectio.py (Model/ReaderFull.lean: Python indexing with IndexError, comprehensions that abort, the fallback loop over '
            'the growing list, the four conditional expressions of read_reaction) computes exactly what Model/Reader computes on '
            'every grammar-shaped line and document (one kernel-checked difference outside the grammar: a composite domain with no '
            'domains); '
            'C14.failed_read_restores covers the state after a failed read. On the real code: only parse '
            'errors or declared errors escape, ignored reactions do not abort the read, a failed read leaves previously held objects '
            'valid singletons; faults are shrunk to minimal documents. When the symbol theorem breaks, the corpora are driven to the '
            'offending function to obtain a concrete NameError replay.',
    'note': 'Python name resolution is modelled by symtable; exception kinds outside the modelled partial operations are covered by '
            'correspondence and exploration only.',
    'source_derived': "read_reaction is transcribed from the working tree (translator/pyreaderfn.py -> Gen/PyReaderFns.lean; token trees with Python's duck typing - x[i] of a str is a character -, float(s) kept as the literal): PyReaderFns.py_read_reaction_eq_model (equal to the reader model on typed lines, same exception kind), py_ignored_reaction_six_nones / py_ignored_reaction_survives / py_no_info_box_six_nones (a reaction without rate, without type or with a type outside RTYPES returns six Nones and never raises - the clause 'lines announced as ignored do not abort the read' for the code as written), with two kernel-checked witnesses that the typing hypothesis is needed; streams read_reaction.source-derived / read_reaction.model.",
    'technique': 'Lean 4 decide over a symbol table regenerated from source + reader model with explicit fault outcomes; fault-injection correspondence',
}


def name_error_search(res, unresolved):
    """drive corpora at functions that reference an undefined global, to obtain a concrete NameError"""
    from dsdobjects import complex_utils as cux
    from dsdobjects.base_classes import ComplexS
    from dsdobjects import clear_singletons
    found = False
    for s in gen.all_strings('().+', 5):
        if '+' not in s:
            continue
        seq = ['+' if c == '+' else 'a' for c in s]
        try:
            cux.rotate_complex_once(seq, list(s))
        except NameError as e:
            res.violation('NameError:rotate_complex_once', {'call': 'rotate_complex_once(%r, list(%r))' % (seq, s)}, 'NameError: %s' % e,
                          'SecondaryStructureError or a rotation')
            found = True
            break
        except Exception:
            pass
    return found


def _global_refs(mod):
    """(qualified function name, global name) for every LOAD_GLOBAL / LOAD_NAME of every code object defined in `mod`"""
    import dis, types
    out = []
    def walk(code, qual):
        for ins in dis.get_instructions(code):
            if ins.opname in ('LOAD_GLOBAL', 'LOAD_NAME') and code.co_name != '<module>':
                out.append((qual, ins.argval))
        for c in code.co_consts:
            if isinstance(c, types.CodeType):
                walk(c, qual + '.' + c.co_name)
    seen = set()
    def visit(obj, qual):
        if id(obj) in seen:
            return
        seen.add(id(obj))
        if isinstance(obj, types.FunctionType) and obj.__module__ == mod.__name__:
            walk(obj.__code__, qual)
        elif isinstance(obj, (classmethod, staticmethod)):
            visit(obj.__func__, qual)
        elif isinstance(obj, property):
            for f in (obj.fget, obj.fset, obj.fdel):
                if f is not None:
                    visit(f, qual)
        elif isinstance(obj, type) and obj.__module__ == mod.__name__:
            for k, v in list(vars(obj).items()):
                visit(v, qual + '.' + k)
    for k, v in list(vars(mod).items()):
        visit(v, mod.__name__ + '.' + k)
    return out


def globals_defined_in_every_reader_state(res):
    """every global a function of the package references is defined in the module namespace at import time, after
    set_io_objects() and after clear_io_objects() (a name that is *deleted* at run time is as fatal as a misspelt one)"""
    import builtins, importlib, pkgutil, dsdobjects
    from dsdobjects import objectio
    mods = [dsdobjects]
    for m in pkgutil.walk_packages(dsdobjects.__path__, 'dsdobjects.'):
        try:
            mods.append(importlib.import_module(m.name))
        except Exception:
            pass
    refs = [(m, q, n) for m in mods for (q, n) in _global_refs(m)]
    res.dist['global_references_checked_dynamically'] = len(refs)
    def missing(state):
        for m, q, n in refs:
            if n not in vars(m) and not hasattr(builtins, n):
                res.violation('global-undefined:%s:%s' % (q, n), {'call': 'state of the reader: %s' % state, 'function': q, 'name': n},
                              '%s is not defined in %s (%s)' % (n, m.__name__, state), 'every referenced global name is defined')
    missing('after import')
    objectio.set_io_objects(); missing('after set_io_objects()')
    objectio.clear_io_objects(); missing('after set_io_objects(); clear_io_objects()')
    objectio.clear_io_objects(); missing('after a second clear_io_objects()')


def run(res, proof):
    rng = random.Random(res.seed * 32452843 + 16)
    quick = res.tier == 'quick'
    globals_defined_in_every_reader_state(res)
    # ---- static part: names the regenerated model says are unresolved
    try:
        out = core.run_driver(['symbols.unresolved'])
        unresolved = out[0].split()[1:]
        res.model_failing += unresolved
        if unresolved:
            name_error_search(res, unresolved)
    except core.DriverBroken as e:
        proof.problem('driver', str(e))
    # ---- dynamic part
    jobs, labels = [], []
    nsys = 120 if quick else 2500
    for _ in range(nsys):
        S = sysgen.gen_system(rng)
        valid = sysgen.render(S, rng)
        jobs.append({'text': valid, 'mode': 'outcome', 'again': True}); labels.append(('valid', valid))
        for kind, txt in sysgen.corruptions(S, rng, 8 if quick else 14):
            jobs.append({'text': txt, 'mode': 'outcome', 'pre': valid if rng.random() < 0.3 else None, 'again': rng.random() < 0.5})
            labels.append(('fault:' + kind, txt))
        # multi-fault
        multi = valid
        for kind, txt in sysgen.corruptions(S, rng, 3):
            extra = [l for l in txt.split('\n') if l and l not in valid.split('\n')]
            multi += '\n'.join(extra) + '\n'
        jobs.append({'text': multi, 'mode': 'outcome'}); labels.append(('multi-fault', multi))
        if rng.random() < 0.3:
            # ignore lists that name other statement kinds, names, or nothing that occurs; and the file entry point
            ign = rng.choice([['dl-domain'], ['nonsense'], ['kernel-complex', 'strand-complex'], ['resting-macrostate'], list(S.domains)[:1] or ['x']])
            jobs.append({'text': valid, 'mode': 'outcome', 'ignore': ign}); labels.append(('valid-with-ignore-list', valid))
            jobs.append({'text': multi, 'mode': 'outcome', 'as_file': True}); labels.append(('multi-fault-as-file', multi))
        if rng.random() < 0.25:
            # the same texts read by an unconfigured reader (after set_io_objects / clear_io_objects)
            jobs.append({'text': valid, 'mode': 'outcome', 'config': 'cleared'}); labels.append(('valid-cleared-reader', valid))
            jobs.append({'text': multi, 'mode': 'outcome', 'config': 'cleared'}); labels.append(('multi-fault-cleared-reader', multi))
    for _ in range(100 if quick else 3000):
        n = rng.randint(0, 40)
        txt = ''.join(rng.choice('ab=:()+*[]@ \n#length sequence state reaction->./5') for _ in range(n))
        jobs.append({'text': txt, 'mode': 'outcome'}); labels.append(('random-text', txt))
        if rng.random() < 0.3:
            jobs.append({'text': txt, 'mode': 'outcome', 'as_file': True}); labels.append(('random-text-as-file', txt))
    for txt in ('', '\n', ' ', '#', '# only a comment', '\n\n', '\t'):
        jobs.append({'text': txt, 'mode': 'outcome', 'as_file': True}); labels.append(('degenerate-file', txt))
        jobs.append({'text': txt, 'mode': 'outcome'}); labels.append(('degenerate-text', txt))
    results = reader.run_jobs(jobs)
    faults = []
    for (lab, txt), r in zip(labels, results):
        res.evaluations += 1
        res.nontriv(txt)
        o = r['outcome']
        res.count(lab)
        res.count('outcome_' + o)
        if o != 'ok':
            kind = o[4:]
            if kind not in reader.DECLARED:
                faults.append((kind, txt, lab))
        a = r.get('again')
        if a is not None:
            res.count('second_read_' + ('ok' if a == 'ok' else 'refused'))
            if a != 'ok' and a[4:] not in reader.DECLARED:
                res.violation('interpreter-fault:%s:second-read-of-the-same-text' % a[4:], {'text': txt, 'again': True}, 'first read: %s, second read: %s' % (o, a),
                              'the result dictionary or a declared error, also when the same text is read again in the same session')
            elif o == 'ok' and a != 'ok':
                res.violation('second-read-of-an-accepted-text-refused:' + a[4:], {'text': txt, 'again': True}, 'first read: ok, second read: %s' % a,
                              'an accepted text is accepted again while its objects are alive (they are the consistent singletons)')
            elif o == 'ok' and r.get('again_line') != r.get('line'):
                res.violation('second-read-differs', {'text': txt, 'again': True}, str(r.get('again_line'))[:300], str(r.get('line'))[:300])
        if lab == 'valid' and o != 'ok' and o[4:] in reader.DECLARED:
            res.violation('valid-document-rejected:' + o[4:], {'text': txt}, o, 'ok')
        if r.get('registry'):
            res.violation('registry-corrupted-after-read', {'text': txt}, '; '.join(r['registry'][:3]), 'all held objects remain valid singletons')
    # ---- correspondence of the exception KIND with the Lean reader model on every corrupted document
    lines, impl = [], []
    for (lab, txt), r, job in zip(labels, results, jobs):
        if job.get('pre') or lab.startswith(('random-text', 'degenerate')) or job.get('config') or job.get('ignore') or job.get('as_file'):
            continue
        lines.append('reset'); impl.append('ok')
        lines.append('read.doc\t%s\t\t0 0 0 0 0\t0' % sysgen.PG.hx(txt)); impl.append(r.get('line', '?'))
    try:
        model = [reader.canon_model_line(l) for l in core.run_driver(lines)]
        core.compare_streams(res, 'reader.corruptions', lines, impl, model)
        for d in res.disagreements:
            if isinstance(d['input'], str) and d['input'].startswith('read.doc'):
                d['text'] = bytes.fromhex(d['input'].split('\t')[1]).decode('utf-16-be', 'replace')
    except core.DriverBroken as e:
        proof.problem('driver', str(e))
    # shrink interpreter-level faults to a minimal set of lines; one finding per (exception kind, last statement shape)
    seen = set()
    import gc
    gc.collect(); gc.freeze()           # the reader calls gc.collect(): keep this process's large lists out of its way
    faults.sort(key=lambda f: len(f[1]))
    tried = set()
    for kind, txt, lab in faults:
        if len(seen) >= 8 or len(tried) >= 16:
            break
        if (kind, lab) in tried:
            continue
        tried.add((kind, lab))
        cfg = 'cleared' if lab.endswith('cleared-reader') else None
        small = shrink_lines(txt, 'err ' + kind, config=cfg)
        last = [l for l in small.split('\n') if l.strip()]
        shape = ' '.join(last[-1].split()[:1]) if last else 'empty'
        if last and shape not in sysgen.PG.KEYWORDS:
            shape = 'kernel'
        key = 'interpreter-fault:%s:%s%s' % (kind, shape, ':cleared-reader' if cfg else '')
        if key in seen:
            continue
        seen.add(key)
        res.violation(key, {'text': small, 'config': cfg}, 'err ' + kind, 'the result dictionary, a parse error or a declared error')
    gc.unfreeze()
    import random as _r
    from .pyreaderfn_stream import stream_read_reaction
    core.run_stream(stream_read_reaction, res, proof, _r.Random(res.seed * 5915587 + 1416), res.tier == 'quick')     # read_reaction as translated from the working tree
    from .pyreadline_stream import source_derived_pyreadline
    core.run_stream(source_derived_pyreadline, res, proof)      # read_pil_line (six branches) as translated from the working tree, requests recorded by proxy classes
    for (lab, txt) in labels[::max(1, len(labels) // 8)]:
        res.sample({'label': lab, 'text': txt})
    res.rule = ('%d generated valid systems, each with single-fault corruptions of 15 kinds (dropped / undeclared object, conflicting '
                'redeclaration, wrong explicit length, structure of wrong length or balance, reaction without rate / unknown type / '
                'unusual units, degenerate complexes, duplicates, non-IUPAC sequences, reordering, macrostate naming, empty strand list) '
                'at random positions, a multi-fault document, and random text; 30%% of the corrupted reads happen while a valid system is '
                'held; distinct by text' % nsys)


def shrink_lines(txt, outcome, budget=60, config=None):
    """delta debugging over lines (chunks first), bounded number of reads"""
    lines = [l for l in txt.split('\n')]
    n = 2
    while len(lines) >= 2 and budget > 0:
        chunk = max(1, len(lines) // n)
        reduced = False
        for start in range(0, len(lines), chunk):
            cand = lines[:start] + lines[start + chunk:]
            budget -= 1
            if cand and reader.read_job({'text': '\n'.join(cand), 'mode': 'outcome', 'config': config})['outcome'] == outcome:
                lines = cand
                n = max(n - 1, 2)
                reduced = True
                break
            if budget <= 0:
                break
        if not reduced:
            if chunk == 1:
                break
            n = min(len(lines), n * 2)
    return '\n'.join(lines)


def replay(body, repo):
    txt = body['input'].get('text')
    if txt is None and 'function' in body['input']:
        class R:                      # re-run the dynamic name check and print what is undefined now
            dist = {}
            def violation(self, key, inp, obs, req):
                print('observed :', obs)
        globals_defined_in_every_reader_state(R())
        print('required :', body.get('required')); return 1
    if txt is None:
        print(body['input']); return 1
    r = reader.read_job({'text': txt, 'mode': 'outcome', 'config': body['input'].get('config'), 'again': body['input'].get('again')})
    print('text     :', repr(txt)); print('observed :', r['outcome'], ('| second read: %s' % r.get('again')) if 'again' in r else '')
    print('required :', body.get('required'))
    return 1
