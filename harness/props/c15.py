"""C15 — subclass registries are independent and the reader honours configured classes."""
import gc, itertools, random
from .. import core, hist, world as W, sysgen, ref
from .c01 import random_history, fix_disagreements

MODULES = ['DsdVerif.Props.C15', 'DsdVerif.Props.PyReaderFns']
GEN_FILES = ['PyReaderFns']
THEOREM_NAMES = ['withClass_frame', 'mkDom_frame', 'mkCplx_frame', 'failed_request_no_trace', 'refused_adds_no_edges']
READER_THEOREMS = ['readerWorld_fresh', 'readLine_frame', 'slotStrands_needed', 'readDoc_frame', 'reader_objects_in_slot_class',
                   'reader_objects_in_slot_class_fresh', 'failed_read_no_trace', 'failed_read_from_nothing']
THEOREMS = ['Dsd.C05.' + t for t in THEOREM_NAMES] + ['Dsd.C15.' + t for t in READER_THEOREMS] + ['Dsd.PyReaderFns.' + t for t in [
    # set_io_objects / clear_io_objects as written in the source (translator/pyreaderfn.py -> Gen/PyReaderFns.lean; the five module globals are the state)
    'py_set_io_objects_spec', 'py_set_io_objects_independent', 'py_set_io_objects_honours', 'py_set_io_objects_default', 'py_clear_io_objects_spec',
    'py_set_twice', 'py_set_io_objects_slots', 'py_clear_io_objects_slots']]
ASSUMPTIONS = [
    'every class of the metaclass has its own pair of weak dictionaries (Singleton.__init__); the model keeps one registry per class '
    'index (Model/World.lean) and the inherited ID counter semantics (own attribute after the first increment)',
    'the reader slots and user constructors that raise are observed on the real code (the model has no user code)',
]
MANIFEST = {
    'text': 'Partial. Proved on the model: requests to one class leave the registries of every other class untouched (withClass_frame, '
            'mkDom_frame, mkCplx_frame; failed_request_no_trace, refused_adds_no_edges); for the READER (Model/Reader): readLine_frame '
            '(any line, success or failure: the registered objects of every class other than the configured slot of its kind are '
            'unchanged - in worlds where the configured strand class holds domains of the configured domain class, a hypothesis shown '
            'necessary by the kernel-checked counterexample slotStrands_needed), readDoc_frame (a whole document adds nothing to a '
            'non-slot class and keeps what is held there), reader_objects_in_slot_class (every object in the result dictionary has its '
            'node in, and is registered in, exactly the configured class of its kind and in no other class), failed_read_no_trace / '
            'failed_read_from_nothing (after a failed read every registered identity existed before; read into nothing, nothing is '
            'left). The per-class registries of the Lean World are tied to the code by histories that interleave equal requests across '
            'a base class, a subclass, a sub-subclass and a sibling for all five kinds (identity, refusal, names of all 20 registries '
            'after every step); on the real code: objects of different classes never alias although they compare equal, all 32 '
            'assignments of base / user subclasses to the five reader slots produce objects of exactly the configured class that live '
            'only in that class\\u2019s registry, and user constructors raising before or after delegating leave the name and canonical '
            'form free (after the exception is released).',
    'note': 'The "leaves no trace" clause depends on CPython releasing the half-built object (reference counting): modelled, not verified.',
    'source_derived': "The reader's slot functions set_io_objects / clear_io_objects are transcribed from the working tree (translator/pyreaderfn.py -> Gen/PyReaderFns.lean; the five module globals are the state): PyReaderFns.py_set_io_objects_spec (each slot is the argument, or the base class where the argument is None), py_set_io_objects_independent (the outcome does not depend on the previous configuration: an 'already configured' early exit or a kept slot breaks the proof), py_clear_io_objects_spec, py_set_io_objects_slots (relation to the Slots of the reader model); stream io_objects.source-derived.",
    'technique': 'Lean 4 frame theorems over per-class registries and the reader model + history correspondence; configuration enumeration and fault injection on the real code',
}


def run(res, proof):
    rng = random.Random(res.seed * 67867967 + 15)
    quick = res.tier == 'quick'
    iw = W.ImplWorld()
    lines, impl = [], []
    # ---- 1. equal requests interleaved across the classes of each kind
    base_ops = {
        'dom': ['mk.dom\t%d\ta\t5\t-\t-', 'mk.dom\t%d\ta\t9\t-\t-', 'mk.dom\t%d\ta*\t-\t-\t-', 'mk.dom\t%d\t-\t5\t-\t-', 'mk.dom\t%d\ta\t-\t-\t-'],
        'cplx': ['mk.cplx\t%d\tX\t-\th0 h1 + h0\t(.+)', 'mk.cplx\t%d\t-\t-\th0 + h0 h1\t(+).', 'mk.cplx\t%d\tX\t-\tNONE\t', 'mk.cplx\t%d\tY\t-\th0 h1 + h0\t(.+)',
                 # two copies of one strand with an asymmetric pairing, in both rotations (equal sequences, different structures)
                 'mk.cplx\t%d\tP\t-\th0 h1 + h0 h1\t(.+.)', 'mk.cplx\t%d\tP\t-\th0 h1 + h0 h1\t.(+).'],
        'strand': ['mk.strand\t%d\tS\th0 h1', 'mk.strand\t%d\t-\th0 h1', 'mk.strand\t%d\tS\tNONE'],
    }
    pre = ['reset', 'mk.dom\t0\tp\t5\t-\t-', 'mk.dom\t0\tq\t5\t-\t-']
    for kind, ops in base_ops.items():
        allops = [o % c for o in ops for c in (0, 1, 2, 3)]
        depth = 2 if quick else 3
        combos = list(itertools.product(allops, repeat=depth))
        if len(combos) > (600 if quick else 8000):
            combos = rng.sample(combos, 600 if quick else 8000)
        # an object of one class alive while another class of the kind is asked twice (what lives in the first class must not
        # steer, block or alias the second): every (op in class c0; op, op in class c1)
        for c0 in (0, 1):
            for c1 in (0, 1, 2, 3):
                if c1 != c0:
                    combos += [(a % c0, b % c1, c % c1) for a in ops for b in ops for c in ops]
        for combo in combos:
            hl = list(pre)
            ho = hist.run_checked(iw, hl, res, 'C15')
            for l in combo:
                o = hist.run_checked(iw, [l, 'names'], res, 'C15', prefix=hl)
                hl += [l, 'names']; ho += o
            # objects of different classes never alias, although they compare equal (and hash equal) whenever they denote
            # the same thing - judged independently of the canonical form the library computed: same name and length for
            # domains, the same rotation class for complexes, the same domain list for strands
            objs = list(iw.held.values())
            for a, b in itertools.combinations(objs, 2):
                if a is b or type(a) is type(b):
                    continue
                same = None
                try:
                    if kind == 'dom' and type(a) in iw.classes['dom'] and type(b) in iw.classes['dom']:
                        same = (a.name, a.length) == (b.name, b.length)
                    elif kind == 'cplx' and type(a) in iw.classes['cplx'] and type(b) in iw.classes['cplx']:
                        ra = set(ref.rotations([str(x) for x in a.sequence], list(a.structure)))
                        same = ([str(x) for x in b.sequence] and (tuple(str(x) for x in b.sequence), tuple(b.structure)) in ra)
                    elif kind == 'strand' and type(a) in iw.classes['strand'] and type(b) in iw.classes['strand']:
                        same = [str(x) for x in a.sequence] == [str(x) for x in b.sequence]
                except Exception:
                    same = None
                if same is None:
                    continue
                if same and (not (a == b) or (a != b) or hash(a) != hash(b)):
                    res.violation('cross-class-equality:' + kind, {'history': list(hl)}, '%r (%s) and %r (%s): == is %s, hashes equal: %s' % (
                        a, type(a).__name__, b, type(b).__name__, a == b, hash(a) == hash(b)), 'objects of different classes denoting the same thing compare equal and hash equal')
                if not same and a == b:
                    res.violation('cross-class-equality:' + kind, {'history': list(hl)}, '%r == %r' % (a, b), 'different things compare unequal')
            # what a live object says about itself does not depend on what lives in the other classes: its canonical form
            # can be read (it is recomputed on every read for domains) and is the object's own name and length
            for o in objs:
                try:
                    cf = o.canonical_form
                    if type(o) in iw.classes['dom'] and o.length is not None and tuple(cf[:2]) != ((o.name, o.length), o.name):
                        res.violation('canonical-form-of-live-object-wrong:' + kind, {'history': list(hl)}, repr(cf), repr(((o.name, o.length), o.name)))
                except Exception as e:
                    res.violation('canonical-form-of-live-object-raises:%s:%s' % (kind, type(e).__name__), {'history': list(hl)},
                                  '%r (%s).canonical_form raises %s: %s' % (o, type(o).__name__, type(e).__name__, str(e)[:80]), 'the canonical form of the object')
                    e = None
                res.count('canonical_forms_read')
            del objs
            a = b = o = None
            res.evaluations += 1
            res.nontriv(tuple(hl))
            lines += hl; impl += ho
    for _ in range(100 if quick else 2000):
        iw.reset()
        hl, ho = ['reset'], ['ok']
        for l, kind, kinds in random_history(iw, rng, rng.randint(5, 30)):
            o = hist.run_checked(iw, [l], res, 'C15', prefix=hl)[0]
            if o.startswith('ret h') and o.split(' ')[2] == 'new':
                kinds[int(o.split(' ')[1][1:])] = kind
            hl.append(l); ho.append(o)
            hl.append('names'); ho.append(iw.do('names'))
        res.evaluations += 1
        lines += hl; impl += ho
    iw.reset()
    # ---- 1b. two distinct subclasses with the SAME module and qualified name (a class factory called twice): own registries
    from dsdobjects import base_classes as _bc, clear_singletons as _clear, SingletonError as _SE
    def _two_by_factory(Base):
        def factory():
            return type('Twin', (Base,), {})
        return factory(), factory(), 'two classes created by type("Twin", (%s,), {}) called twice' % Base.__name__
    def _copy_of_namespace(Base):
        # what class decorators that rebuild a class do (dataclass(slots=True), attrs): the same metaclass called with a COPY of
        # the original's namespace - the copy is a class of its own, with registries of its own
        class Mine(Base):
            pass
        twin = type(Mine)(Mine.__name__, Mine.__bases__, dict(Mine.__dict__))
        return Mine, twin, 'class Mine(%s) and type(Mine)(name, bases, dict(Mine.__dict__))' % Base.__name__
    def _copy_after_use(Base):
        class Mine(Base):
            pass
        _keep.append(Mine('u', 4) if Base is _bc.DomainS else None)          # the original already holds an object when it is copied
        twin = type(Mine)('MineToo', Mine.__bases__, dict(Mine.__dict__))
        return Mine, twin, 'class Mine(%s), used, then rebuilt from a copy of its namespace under another name' % Base.__name__
    _keep = []
    for kind, Base, maker in [(k, B, m) for (k, B) in (('dom', _bc.DomainS), ('cplx', _bc.ComplexS), ('strand', _bc.StrandS))
                              for m in (_two_by_factory, _copy_of_namespace, _copy_after_use)]:
        del _keep[:]
        _clear(_bc.DomainS)
        K1, K2, how = maker(Base)
        da, db = _bc.DomainS('a', 5), _bc.DomainS('b', 5)
        desc = {'scenario': how}
        res.evaluations += 1
        try:
            if kind == 'dom':
                x = K1('t', 5); y = K2('t', 7)          # same name, other length: independent registries accept both
                ok = x is not y and type(x) is K1 and type(y) is K2 and len(y) == 7
            elif kind == 'cplx':
                x = K1([da, db, '+', da], list('(.+)'), name='X'); y = K2([db], list('.'), name='X')
                ok = x is not y and type(x) is K1 and type(y) is K2 and y.size == 1
            else:
                x = K1([da, db], name='S'); y = K2([db], name='S')
                ok = x is not y and type(x) is K1 and type(y) is K2
            n1 = len([n for n in K1._instanceNames if n != 'u'])
            if not ok or K1._instanceNames is K2._instanceNames or n1 != 1 or len([n for n in K2._instanceNames if n != 'u']) != 1 \
                    or ('u' in K2._instanceNames and K1 is not K2):
                res.violation('same-name-sibling-classes-share-registry:' + kind, desc, 'objects alias or registries shared', 'independent registries')
            del x, y
        except _SE as e:
            res.violation('same-name-sibling-classes-share-registry:' + kind, desc, 'SingletonError: an object of the sibling blocks the request', 'independent registries')
            e = None
        del da, db
        res.count('same_name_sibling_scenarios')
    # ---- 1c. clearing the registry of ONE class (clear_singletons(cls)) is not a statement about any other class: objects of a
    #          subclass, sub-subclass or of the base class that the caller holds stay the registered singletons of their class
    for Base, mk in ((_bc.DomainS, lambda K: K('w', 6)), (_bc.ComplexS, lambda K: K([_bc.DomainS('a', 5)], list('.'), name='W')),
                     (_bc.StrandS, lambda K: K([_bc.DomainS('a', 5), _bc.DomainS('b', 5)], name='W'))):
        class Child(Base):
            pass
        class GrandChild(Child):
            pass
        for cleared, holders in ((Base, (Child, GrandChild)), (Child, (Base, GrandChild)), (GrandChild, (Base, Child))):
            for K in (Base, Child, GrandChild):
                _clear(K)
            held = {K: mk(K) for K in holders}
            _clear(cleared)
            res.evaluations += 1
            res.count('clear_one_class_scenarios')
            lost = [K.__name__ for K, o in held.items() if K._instanceNames.get(o.name) is not o]
            again = []
            for K, o in held.items():
                try:
                    if mk(K) is not o:
                        again.append(K.__name__)
                except Exception as e:
                    again.append('%s raises %s' % (K.__name__, type(e).__name__)); e = None
            if lost or again:
                res.violation('clear-of-one-class-touches-another', {'scenario': 'objects of %s held; clear_singletons(%s)' % (', '.join(K.__name__ for K in holders), cleared.__name__)},
                              'no longer registered: %s; the same request no longer returns the held object: %s' % (lost, again),
                              'every held object of another class is still the registered singleton of its class')
            del held
        for K in (Base, Child, GrandChild):
            _clear(K)
    _clear(_bc.DomainS)
    # ---- 2. reader slots: all 32 assignments
    import dsdobjects
    from dsdobjects import objectio, base_classes as bc, clear_singletons
    kinds = ['dom', 'strand', 'cplx', 'macro', 'rxn']
    bases = {'dom': bc.DomainS, 'strand': bc.StrandS, 'cplx': bc.ComplexS, 'macro': bc.MacrostateS, 'rxn': bc.ReactionS}
    subs = {k: [iw.classes[k][1], iw.classes[k][2], iw.classes[k][3]] for k in kinds}
    S = None
    while S is None or not (S.reactions and S.macrostates and S.strands):
        S = sysgen.gen_system(rng)
    text = sysgen.render(S)
    for mask in itertools.product((0, 1), repeat=5):
        for variant in range(1 if quick else 3):
            chosen = {k: (bases[k] if not m else subs[k][variant]) for k, m in zip(kinds, mask)}
            for k in kinds:
                for c in iw.classes[k]:
                    clear_singletons(c)
            objectio.set_io_objects(D=chosen['dom'], S=chosen['strand'], C=chosen['cplx'], M=chosen['macro'], R=chosen['rxn'])
            res.evaluations += 1
            res.nontriv(('slots', mask, variant))
            desc = {'slots': {k: chosen[k].__name__ for k in kinds}, 'text': text}
            try:
                out = objectio.read_pil(text)
            except Exception as e:
                res.violation('reader-slots:raises:' + type(e).__name__, desc, type(e).__name__, 'the result dictionary')
                continue
            bad = None
            for key, k in (('domains', 'dom'), ('strands', 'strand'), ('complexes', 'cplx'), ('macrostates', 'macro')):
                for n, o in out[key].items():
                    if type(o) is not chosen[k]:
                        bad = '%s %r is a %s' % (key, n, type(o).__name__)
            for r in list(out['det_reactions']) + list(out['con_reactions']):
                if type(r) is not chosen['rxn']:
                    bad = 'reaction %r is a %s' % (r.name, type(r).__name__)
            for k in kinds:
                for c in iw.classes[k]:
                    if c is not chosen[k] and len(c._instanceNames):
                        bad = 'registry of %s is not empty: %s' % (c.__name__, sorted(c._instanceNames.keys())[:4])
            if bad:
                res.violation('reader-slots:wrong-class', desc, bad, 'instances of exactly the configured class, living only in its registry')
            out = None
            objectio.clear_io_objects()
            res.count('slot_assignments')
    # the configured reaction class decides which reaction types it admits (its own RTYPES), not the library class
    rtext = ('length a = 5\nA = a\nB = a a\nC = a a a\nstate A = [A]\nstate B = [B]\nreaction [fold = 3 /s] A -> B\nreaction [open = 4 /s] B -> A\n'
             'reaction [bind11 = 5 /s] A -> C\nreaction [condensed = 6 /s] A -> B\n')
    for rt in (('fold', 'open'), ('fold', 'open', 'bind11', 'condensed'), ('condensed',), tuple(bc.ReactionS.RTYPES)):
        for via in ('subclass', 'sub-subclass'):
            RK = type('OwnTypes', (bc.ReactionS,), {'RTYPES': set(rt)})
            if via == 'sub-subclass':
                RK = type('OwnTypesChild', (RK,), {})
            for k in kinds:
                for c in iw.classes[k]:
                    clear_singletons(c)
            objectio.set_io_objects(R=RK)
            res.evaluations += 1
            desc = {'slots': {'rxn': '%s of ReactionS with RTYPES = %r' % (via, sorted(rt))}, 'text': rtext}
            try:
                out = objectio.read_pil(rtext)
                got = sorted((type(r) is RK, r.rtype) for r in list(out['det_reactions']) + list(out['con_reactions']))
                handed_back = sorted(l[1][0][0] for l in out['other'] if l[0] == 'reaction')
                all_t = ['fold', 'open', 'bind11', 'condensed']
                want = sorted((True, t) for t in all_t if t in rt)
                if got != want or handed_back != sorted(t for t in all_t if t not in rt) or len(bc.ReactionS._instanceNames):
                    res.violation('reader-slots:reaction-types-of-configured-class', desc,
                                  'reactions built: %r, lines handed back: %r, library-class registry: %d' % (got, handed_back, len(bc.ReactionS._instanceNames)),
                                  'exactly the types in the configured class RTYPES become its instances, the other lines are handed back')
                out = None
            except Exception as e:
                res.violation('reader-slots:raises:' + type(e).__name__, desc, type(e).__name__, 'the result dictionary'); e = None
            objectio.clear_io_objects()
            clear_singletons(RK)
            res.count('own_reaction_types_cases')
    # re-configuration without clear_io_objects() in between: an omitted slot means the library class again
    for mask1 in [(1, 1, 1, 1, 1), (1, 0, 1, 0, 1), (0, 1, 0, 1, 0)]:
        for mask2 in [(0, 0, 0, 0, 0), (0, 1, 0, 0, 0), (1, 0, 0, 0, 1)]:
            for k in kinds:
                for c in iw.classes[k]:
                    clear_singletons(c)
            c1 = {k: (None if not m else subs[k][0]) for k, m in zip(kinds, mask1)}
            c2 = {k: (None if not m else subs[k][2]) for k, m in zip(kinds, mask2)}
            objectio.set_io_objects(D=c1['dom'], S=c1['strand'], C=c1['cplx'], M=c1['macro'], R=c1['rxn'])
            objectio.set_io_objects(D=c2['dom'], S=c2['strand'], C=c2['cplx'], M=c2['macro'], R=c2['rxn'])
            want = {k: (c2[k] or bases[k]) for k in kinds}
            res.evaluations += 1
            res.nontriv(('reconfigure', mask1, mask2))
            try:
                out = objectio.read_pil(text)
                bad = None
                for key, k in (('domains', 'dom'), ('strands', 'strand'), ('complexes', 'cplx'), ('macrostates', 'macro')):
                    for n, o in out[key].items():
                        if type(o) is not want[k]:
                            bad = '%s %r is a %s, configured %s' % (key, n, type(o).__name__, want[k].__name__)
                for r in list(out['det_reactions']) + list(out['con_reactions']):
                    if type(r) is not want['rxn']:
                        bad = 'reaction %r is a %s' % (r.name, type(r).__name__)
                if bad:
                    res.violation('reader-slots:stale-configuration', {'first': mask1, 'second': mask2, 'text': text}, bad,
                                  'every slot of the second set_io_objects call: the given class, or the library class when omitted')
                out = None
            except Exception as e:
                res.violation('reader-slots:reconfigure-raises:' + type(e).__name__, {'first': mask1, 'second': mask2}, type(e).__name__, 'the result dictionary')
            objectio.clear_io_objects()
            res.count('reconfigurations')
    for k in kinds:
        for c in iw.classes[k]:
            clear_singletons(c)
    # ---- 3. user constructors that raise before / after delegating
    class Boom(Exception):
        pass
    for kind, base, mk in (('dom', bc.DomainS, lambda cls: cls('zz', 5)),
                           ('cplx', bc.ComplexS, None), ('strand', bc.StrandS, None), ('macro', bc.MacrostateS, None), ('rxn', bc.ReactionS, None)):
        for when in ('before', 'after'):
            for depth in (1, 2):
                parent = base if depth == 1 else type(base.__name__ + 'Mid', (base,), {})
                def init(self, *a, _when=when, _parent=parent, **kw):
                    if _when == 'before':
                        raise Boom()
                    _parent.__init__(self, *a, **kw)
                    raise Boom()
                cls = type(base.__name__ + 'Failing', (parent,), {'__init__': init})
                d1, d2 = bc.DomainS('ua', 5), bc.DomainS('ub', 5)
                cA = bc.ComplexS([d1], ['.'], name='uA'); cB = bc.ComplexS([d2], ['.'], name='uB')
                calls = {'dom': lambda: cls('zz', 7), 'cplx': lambda: cls([d1, '+', d2], list('.+.'), name='zz'),
                         'strand': lambda: cls([d1, d2], name='zz'), 'macro': lambda: cls([cA, cB], name='uA'),
                         'rxn': lambda: cls([cA], [cB], 'open')}
                res.evaluations += 1
                res.nontriv(('failing-ctor', kind, when, depth))
                try:
                    calls[kind]()
                    res.violation('failing-ctor:no-exception', {'kind': kind, 'when': when}, 'returned', 'the user exception')
                except Boom as e:
                    # while the exception (and with it the half-built object) is still alive: the name was never bound, and
                    # no canonical form is registered unless the library constructor itself stored rotation keys (complexes)
                    inside = (sorted(cls._instanceNames.keys()), len(cls._instanceCanon))
                    if inside[0] or (inside[1] and not (kind == 'cplx' and when == 'after')):
                        res.violation('failing-ctor:registered-before-init', {'kind': kind, 'when': when, 'depth': depth},
                                      'inside the handler the registry holds %r' % (inside,), 'name and canonical form remain free')
                    e = None
                except Exception as e:
                    res.violation('failing-ctor:other-exception:' + type(e).__name__, {'kind': kind, 'when': when}, type(e).__name__, 'the user exception')
                    e = None
                left = (sorted(cls._instanceNames.keys()), len(cls._instanceCanon))
                if left != ([], 0):
                    gc.collect()
                    left2 = (sorted(cls._instanceNames.keys()), len(cls._instanceCanon))
                    res.violation('failing-ctor:trace-left', {'kind': kind, 'when': when, 'depth': depth}, 'registry after the failure: %r (after gc: %r)' % (left, left2),
                                  'name and canonical form remain free')
                # the same request with a working constructor of the same class family must now succeed
                ok_cls = type(base.__name__ + 'Working', (parent,), {})
                try:
                    calls_ok = {'dom': lambda: ok_cls('zz', 7), 'cplx': lambda: ok_cls([d1, '+', d2], list('.+.'), name='zz'),
                                'strand': lambda: ok_cls([d1, d2], name='zz'), 'macro': lambda: ok_cls([cA, cB], name='uA'),
                                'rxn': lambda: ok_cls([cA], [cB], 'open')}
                    o = calls_ok[kind]()
                    del o
                except Exception as e:
                    res.violation('failing-ctor:blocks-later-request', {'kind': kind, 'when': when}, type(e).__name__, 'construction succeeds')
                    e = None
                del d1, d2, cA, cB
                res.count('failing_ctor_cases')
    for c in (bc.DomainS, bc.ComplexS, bc.StrandS, bc.MacrostateS, bc.ReactionS):
        clear_singletons(c)
    res.rule = ('histories: sampled / all op pairs-triples over {5 domain, 4 complex, 3 strand request shapes} x 4 classes per kind with '
                'registry names of all 20 classes after every step, random long histories over all classes; reader: all 32 base/subclass '
                'slot assignments (x3 subclass shapes in the thorough tier) on a generated system with every object kind; failing user '
                'constructors: 5 kinds x {before, after delegation} x {direct subclass, sub-subclass}; distinct by configuration / history')
    res.exhaustive = True
    try:
        model = core.run_driver(lines)
        core.compare_streams(res, 'histories.classes', lines, impl, model)
        if res.disagreements:
            fix_disagreements(res, lines, impl, model)
    except core.DriverBroken as e:
        proof.problem('driver', str(e))
    # set_io_objects / clear_io_objects as translated from the working tree against the real module globals
    import random as _r
    from .pyreaderfn_stream import stream_io_objects
    core.run_stream(stream_io_objects, res, proof, _r.Random(res.seed * 5915587 + 1415), res.tier == 'quick')
    res.sample(lines[:10])


def replay(body, repo):
    if 'history' in body.get('input', {}):
        return hist.replay_history(body, repo)
    print(body['input']); print('required :', body.get('required'))
    return 1
