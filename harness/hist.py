"""History execution with invariants checked on the real registries after every step (oracle for C01/C04/C05/C15)."""
import gc
from . import world as W


def registry_snapshot(iw):
    snap = []
    for kind in W.KINDS:
        for c in iw.classes[kind]:
            snap.append((tuple(sorted((n, id(o)) for n, o in c._instanceNames.items())),
                         tuple(sorted((repr(k), id(o)) for k, o in c._instanceCanon.items())),
                         c.__dict__.get('ID', None)))
    return tuple(snap)


def check_invariants(iw):
    """at most one live object per name and per canonical form; both keys lead to the same object.
    Returns a description of the first problem or None."""
    live = []
    for h, r in iw.weak.items():
        o = r()
        if o is not None:
            live.append((h, o))
    seen_name, seen_canon = {}, {}
    for h, o in live:
        cls = type(o)
        try:
            name = o.name
            canon = (o.name, o.length) if hasattr(o, 'dtype') and hasattr(o, 'cname') else o.canonical_form
        except Exception as e:
            return 'h%d: name/canonical_form raised %s' % (h, type(e).__name__)
        if (cls, name) in seen_name:
            return 'two live %s objects named %r (h%d, h%d)' % (cls.__name__, name, seen_name[(cls, name)], h)
        seen_name[(cls, name)] = h
        ck = (cls, repr(canon))
        if hasattr(o, 'rotate_pt') and getattr(o, 'structure', None) is not None:
            # independent notion of "the same complex": the smallest rotation computed by the reference algorithm
            try:
                from . import ref
                ik = (cls, 'rotation-class', min(ref.rotations([str(x) for x in o.sequence], list(o.structure))))
                if ik in seen_canon:
                    return 'two live %s objects for one rotation class (h%d, h%d)' % (cls.__name__, seen_canon[ik], h)
                seen_canon[ik] = h
            except Exception:
                pass
        if ck in seen_canon:
            return 'two live %s objects with canonical form %r (h%d, h%d)' % (cls.__name__, canon, seen_canon[ck], h)
        seen_canon[ck] = h
        # macrostates and reactions: the canonical form is the sorted (multi)set of the members' canonical forms
        if hasattr(o, 'representative'):
            want = tuple(sorted(o.complexes, key=lambda c: c.canonical_form))
            if tuple(o.canonical_form) != want or any(a is not b for a, b in zip(o.canonical_form, want)):
                return 'h%d (%s %r): canonical form is not its members in canonical order' % (h, cls.__name__, name)
        if hasattr(o, 'reactants') and hasattr(o, 'rtype'):
            want = (tuple(sorted(x.canonical_form for x in o.reactants)), tuple(sorted(x.canonical_form for x in o.products)), o.rtype)
            if o.canonical_form != want:
                return 'h%d (%s %r): canonical form is not (sorted reactant forms, sorted product forms, type)' % (h, cls.__name__, name)
            ik = (cls, 'reaction-class', repr(want))
            if ik in seen_canon:
                return 'two live %s objects for one (reactants, products, type) (h%d, h%d)' % (cls.__name__, seen_canon[ik], h)
            seen_canon[ik] = h
        if cls._instanceNames.get(name) is not o:
            return 'live h%d (%s %r) is not the object registered under its name' % (h, cls.__name__, name)
        if cls._instanceCanon.get(canon) is not o:
            return 'live h%d (%s %r) is not the object registered under its canonical form' % (h, cls.__name__, name)
    # every registered entry points to a live, known object
    for kind in W.KINDS:
        for c in iw.classes[kind]:
            for n, o in list(c._instanceNames.items()):
                if o.name != n:
                    return '%s name entry %r points to an object named %r' % (c.__name__, n, o.name)
    return None


def domain_lengths_agree(iw):
    for c in iw.classes['dom']:
        for n, o in list(c._instanceNames.items()):
            cn = n[:-1] if n.endswith('*') else n + '*'
            p = c._instanceNames.get(cn)
            if p is not None and p.length != o.length:
                return '%s: %r has length %r but %r has length %r' % (c.__name__, n, o.length, cn, p.length)
    return None


def run_checked(iw, lines, res, prop, check_domains=False, prefix=()):
    """run a history on the implementation; after every op check the invariants and 'refused => unchanged'.
    Returns outputs (list of str)."""
    outs = []
    for k, l in enumerate(lines):
        cmd = l.split('\t', 1)[0]
        watch = cmd.startswith('mk.') or cmd == 'inv'
        before = registry_snapshot(iw) if watch else None
        o = iw.do(l)
        outs.append(o)
        if cmd in ('names', 'live', 'reset'):
            continue
        if watch and o.startswith('err'):
            after = registry_snapshot(iw)
            if after != before:
                res.violation('refused-request-changed-registry:' + cmd, {'history': list(prefix) + lines[:k + 1]}, o + ' and the registries changed',
                              'a refused request leaves every live object and every name binding unchanged')
        bad = check_invariants(iw)
        if bad:
            res.violation('singleton-invariant:' + __import__('re').sub(r'h\d+', 'hN', bad.split(': ', 1)[-1] if bad.startswith('h') else bad.split(' (h')[0])[:70], {'history': list(prefix) + lines[:k + 1]}, bad,
                          'one live object per name and per canonical form; both keys lead to it')
        if check_domains:
            bad = domain_lengths_agree(iw)
            if bad:
                res.violation('complement-length-mismatch', {'history': list(prefix) + lines[:k + 1]}, bad, 'a domain and its complement have equal length')
    return outs


def replay_history(body, repo):
    iw = W.ImplWorld()
    lines = body['input']['history']
    for l in lines:
        print('%-60s -> %s' % (l.replace('\t', ' | '), iw.do(l)))
    print('invariants:', check_invariants(iw), '| domain lengths:', domain_lengths_agree(iw))
    print('required :', body.get('required'))
    return 1
