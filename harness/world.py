"""Implementation side of the history protocol: the same ops the Lean World executes, run on the real library.

Hygiene (see DESIGN 2.2): every op runs in its own frame, no exception object or loop variable survives
an op, registries and ID counters are reset at the start of every history.
"""
import gc, weakref

KINDS = ('dom', 'strand', 'cplx', 'macro', 'rxn')


def _err(e):
    n = type(e).__name__
    if n == 'SingletonError':
        ex = getattr(e, 'existing', None)
        h = getattr(ex, '_vh', None) if ex is not None else None
        return 'err SingletonError existing=' + ('none' if ex is None else ('h%d' % h if h is not None else 'unknown'))
    if n in ('ObjectInitError', 'SecondaryStructureError', 'NotImplementedError', 'AssertionError', 'PilFormatError'):
        return 'err ' + n
    return 'err Fault ' + n


class ImplWorld:
    def __init__(self):
        import dsdobjects
        from dsdobjects import base_classes as bc
        self.bc = bc
        self.clear = dsdobjects.clear_singletons
        self.classes = {}
        for kind, base in (('dom', bc.DomainS), ('strand', bc.StrandS), ('cplx', bc.ComplexS),
                           ('macro', bc.MacrostateS), ('rxn', bc.ReactionS)):
            c1 = type(base.__name__ + 'Sub1', (base,), {})
            c2 = type(base.__name__ + 'Sub2', (c1,), {})
            c3 = type(base.__name__ + 'Sub3', (base,), {})
            self.classes[kind] = [base, c1, c2, c3]
        self.defaults = {'dom': ('d', 1), 'strand': ('s', 1), 'cplx': ('c', 1)}
        self.reset()

    def reset(self):
        self.held = {}
        self.weak = {}
        self.next = 0
        self.resets = getattr(self, 'resets', 0) + 1
        if self.resets % 500 == 0:
            gc.collect()
        for kind in KINDS:
            for i, c in enumerate(self.classes[kind]):
                self.clear(c)
                for attr in ('ID', 'PREFIX', 'DTYPE_CUTOFF', 'SHORT_DOM_LEN', 'LONG_DOM_LEN'):
                    if i > 0 and attr in c.__dict__:
                        delattr(c, attr)
            if kind in self.defaults:
                b = self.classes[kind][0]
                b.PREFIX, b.ID = self.defaults[kind]
        d = self.classes['dom'][0]
        d.DTYPE_CUTOFF, d.SHORT_DOM_LEN, d.LONG_DOM_LEN = 8, 5, 15
        return 'ok'

    # ---- handles
    def _take(self, obj):
        """register the result of a request; returns ('h3', created?)"""
        h = getattr(obj, '_vh', None)
        created = h is None
        if created:
            h = self.next
            self.next += 1
            obj._vh = h
            self.weak[h] = weakref.ref(obj)
        self.held[h] = obj
        return h, created

    def _obj(self, tok):
        return self.held[int(tok[1:])]

    def _seq(self, s):
        if s == 'NONE':
            return None
        return [('+' if t == '+' else self._obj(t)) for t in s.split(' ') if t]

    def _hs(self, s):
        if s == 'NONE':
            return None
        return [self._obj(t) for t in s.split(' ') if t]

    @staticmethod
    def _opt(s):
        return None if s == '-' else s

    def _ret(self, obj, extra=''):
        h, created = self._take(obj)
        return 'ret h%d %s%s' % (h, 'new' if created else 'old', extra)

    # ---- ops
    def do(self, line):
        f = line.split('\t')
        try:
            return getattr(self, 'op_' + f[0].replace('.', '_'))(*f[1:])
        except Exception as e:
            r = _err(e)
            e = None
            return r

    def op_reset(self):
        return self.reset()

    def op_cfg_dom(self, c, cutoff, sh, lo):
        k = self.classes['dom'][int(c)]
        k.DTYPE_CUTOFF, k.SHORT_DOM_LEN, k.LONG_DOM_LEN = int(cutoff), int(sh), int(lo)
        return 'ok'

    def op_cfg_prefix(self, kind, c, p):
        self.classes[kind][int(c)].PREFIX = p
        return 'ok'

    def op_mk_dom(self, c, name, length, pfx, dt):
        k = self.classes['dom'][int(c)]
        kw = {}
        if name != '-': kw['name'] = name
        # 'N' = the keyword is passed explicitly with the value None (a wrapper forwarding its own defaults)
        if length != '-': kw['length'] = None if length == 'N' else int(length)
        if pfx != '-': kw['prefix'] = pfx
        if dt != '-': kw['dtype'] = None if dt == 'N' else dt
        # every other request that gives a length is made with POSITIONAL arguments (name, length, prefix, dtype)
        self.ncalls = getattr(self, 'ncalls', 0) + 1
        if 'length' in kw and kw['length'] is not None and self.ncalls % 2:
            return self._ret(k(kw.get('name'), kw['length'], kw.get('prefix'), kw.get('dtype')))
        return self._ret(k(**kw))

    def op_inv(self, h):
        return self._ret(~self._obj(h))

    def _cx(self, obj):
        return ' canon=%s/%s turns=%d' % (' '.join(obj.canonical_form[0]), ''.join(obj.canonical_form[1]), obj.turns)

    def op_mk_cplx(self, c, name, pfx, seq, sst):
        k = self.classes['cplx'][int(c)]
        s = self._seq(seq)
        kw = {}
        if pfx != '-': kw['prefix'] = pfx
        o = k(s, (list(sst) if s is not None else None), name=self._opt(name), **kw)
        return self._ret(o, self._cx(o))

    def op_mk_strand(self, c, name, seq):
        k = self.classes['strand'][int(c)]
        return self._ret(k(self._seq(seq), name=self._opt(name)))

    def op_mk_strandp(self, c, name, pfx, seq):
        # a strand request with the optional prefix argument ('-' = not given, empty = prefix='')
        k = self.classes['strand'][int(c)]
        kw = {}
        if pfx != '-': kw['prefix'] = pfx
        return self._ret(k(self._seq(seq), name=self._opt(name), **kw))

    def op_mk_macro(self, c, name, ms):
        k = self.classes['macro'][int(c)]
        return self._ret(k(self._hs(ms), name=self._opt(name)))

    def op_mk_rxn(self, c, name, rtype, rs, ps):
        k = self.classes['rxn'][int(c)]
        o = k(self._hs(rs), self._hs(ps), self._opt(rtype), name=self._opt(name))
        created = getattr(o, '_vh', None) is None
        extra = ''
        if created:
            extra = ' lists=' + ' + '.join(x.name for x in o.reactants) + ' -> ' + ' + '.join(x.name for x in o.products)
        return self._ret(o, extra)

    def op_split(self, h):
        c = self._obj(h)
        try:
            parts = list(c.split())
        except Exception as e:
            r = _err(e)
            e = None
            return 'split ' + r
        out = []
        for p in parts:
            hh, created = self._take(p)
            out.append('h%d:%s' % (hh, 'new' if created else 'old'))
        return 'split ' + ' '.join(out)

    def op_drop(self, h):
        self.held.pop(int(h[1:]), None)
        return 'ok'

    def op_gc(self):
        gc.collect()
        return 'ok'

    def op_names(self):
        out = []
        for kind in KINDS:
            for c in self.classes[kind]:
                out.append(','.join(sorted(c._instanceNames.keys())))
        return 'names ' + '|'.join(out)

    def op_live(self, hs):
        out = []
        for t in hs.split(' '):
            if not t:
                continue
            r = self.weak.get(int(t[1:]))
            out.append('1' if (r is not None and r() is not None) else '0')
        return 'live ' + ' '.join(out)

    def op_cmp(self, h1, h2):
        a, b = self._obj(h1), self._obj(h2)
        kinds = []
        for o in (a, b):
            for kind in KINDS:
                if isinstance(o, self.classes[kind][0]) and not (kind == 'cplx' and isinstance(o, self.classes['strand'][0])):
                    kinds.append(kind)
                    break
        if len(kinds) != 2 or ({'cplx', 'strand'} >= set(kinds)) is False and kinds[0] != kinds[1]:
            return 'cmp incomparable'
        t = lambda x: 'true' if x else 'false'
        return 'cmp eq=%s lt=%s gt=%s le=%s ge=%s hash=%s' % (t(a == b), t(a < b), t(a > b), t(a <= b), t(a >= b), t(hash(a) == hash(b)))

    def op_peek(self, h, which):
        o = self._obj(h)
        if which == 'rotate':
            a, b = next(o.rotate())
            return 'peek ' + ' '.join(map(str, a)) + ' / ' + ''.join(b)
        from dsdobjects import complex_utils as cx
        a, b = next(o.rotate_pt())
        return 'peek ' + ' '.join(map(str, cx.strand_table_to_sequence(a))) + ' / ' + cx.pair_table_to_dot_bracket(b, join=True)

    def op_set_turns(self, h, v):
        self._obj(h).turns = int(v)
        return 'ok'

    def op_q(self, h, view, arg):
        o = self._obj(h)
        from .props import cu
        if view == 'sequence': return 'names ' + ' '.join(map(str, o.sequence))
        if view == 'structure': return 'chars ' + ''.join(o.structure)
        if view == 'kernel': return 'str ' + o.kernel_string
        if view == 'size': return 'nat %d' % o.size
        if view == 'strand_table': return 'stab ' + '|'.join(' '.join(map(str, s)) for s in o.strand_table)
        if view == 'pair_table': return 'ptab ' + cu.show_pt(list(o.pair_table))
        if view == 'strand_length': return 'nat %d' % o.strand_length(int(arg))
        loc = tuple(int(x) for x in arg.split('.')) if arg and view.startswith('get_') else None
        if view == 'get_domain': return 'str ' + str(o.get_domain(loc))
        if view == 'get_paired_loc': return 'oloc ' + cu.show_locus(o.get_paired_loc(loc))
        if view == 'get_loop_index': return 'nat %d' % o.get_loop_index(loc)
        if view == 'exterior': return 'locs ' + ' '.join('%d.%d' % l for l in o.exterior_domains)
        if view == 'enclosed': return 'locs ' + ' '.join('%d.%d' % l for l in o.enclosed_domains)
        if view == 'is_connected': return 'bool %s' % o.is_connected
        if view == 'rotate':
            return 'rots ' + ' ; '.join(' '.join(map(str, a)) + ' / ' + ''.join(b) for a, b in o.rotate())
        if view == 'rotate_pt':
            from dsdobjects import complex_utils as cx
            return 'rots ' + ' ; '.join(' '.join(map(str, cx.strand_table_to_sequence(a))) + ' / ' +
                                        cx.pair_table_to_dot_bracket(b, join=True) for a, b in o.rotate_pt())
        if view == 'turns': return 'nat %d' % o.turns
        if view == 'canon': return 'key %s/%s' % (' '.join(o.canonical_form[0]), ''.join(o.canonical_form[1]))
        if view == 'name': return 'str ' + o.name
        return 'bad-op'


def run_history(world, lines):
    """execute one history; returns the list of outputs"""
    out = []
    for l in lines:
        out.append(world.do(l))
    return out
