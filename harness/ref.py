"""Independent reference algorithms for the oracles (share nothing with the Lean model or the library)."""


def parse_struct(ss, brk='+'):
    """-> (strands: list of str) or None when a foreign character occurs"""
    strands = ss.split(brk) if isinstance(ss, str) else None
    if strands is None:
        strands, cur = [], []
        for ch in ss:
            if ch == brk:
                strands.append(''.join(cur)); cur = []
            else:
                cur.append(ch)
        strands.append(''.join(cur))
    for s in strands:
        for ch in s:
            if ch not in '().':
                return None
    return strands


def ref_partner(word):
    """quadratic height-counting matcher on a linear word over ( ) . ; None if unbalanced"""
    n = len(word)
    h = 0
    for ch in word:
        if ch == '(':
            h += 1
        elif ch == ')':
            h -= 1
            if h < 0:
                return None
    if h != 0:
        return None
    part = [None] * n
    for i, ch in enumerate(word):
        if ch == '(':
            h = 0
            for j in range(i, n):
                if word[j] == '(':
                    h += 1
                elif word[j] == ')':
                    h -= 1
                    if h == 0:
                        part[i] = j; part[j] = i
                        break
    return part


def loci(strands):
    out = []
    for si, s in enumerate(strands):
        for di in range(len(s)):
            out.append((si, di))
    return out


def ref_pair_table(ss, brk='+'):
    """-> pair table (list of lists of locus|None) or None if ill-formed"""
    strands = parse_struct(ss, brk)
    if strands is None:
        return None
    word = ''.join(strands)
    part = ref_partner(word)
    if part is None:
        return None
    L = loci(strands)
    pt, k = [], 0
    for s in strands:
        row = []
        for _ in s:
            row.append(None if part[k] is None else L[part[k]])
            k += 1
        pt.append(row)
    return pt


def ref_loops(strands):
    """reference loop decomposition: (loop index table, exterior set, components as list of sets of strands)"""
    word = ''.join(strands)
    part = ref_partner(word)
    n = len(word)
    opens = [i for i in range(n) if word[i] == '(']
    num = {i: k + 1 for k, i in enumerate(opens)}      # loop enclosed by the k-th opening bracket

    def enclosing(x):
        """innermost pair (i, j) with i < x < j, as its loop number; 0 if none"""
        best = None
        for i in opens:
            j = part[i]
            if i < x < j and (best is None or i > best):
                best = i
        return 0 if best is None else num[best]

    li = []
    for x in range(n):
        if word[x] == '(':
            li.append(num[x])
        elif word[x] == ')':
            li.append(num[part[x]])
        else:
            li.append(enclosing(x))
    # strand boundaries: position b is the first position of a later strand
    bounds, acc = [], 0
    for s in strands[:-1]:
        acc += len(s); bounds.append(acc)
    ext = {0}
    for b in bounds:
        best = None
        for i in opens:
            j = part[i]
            if i < b <= j and (best is None or i > best):
                best = i
        ext.add(0 if best is None else num[best])
    # reshape
    out, k = [], 0
    for s in strands:
        out.append(li[k:k + len(s)]); k += len(s)
    # union-find over strands
    owner = []
    for si, s in enumerate(strands):
        owner += [si] * len(s)
    parent = list(range(len(strands)))

    def find(a):
        while parent[a] != a:
            parent[a] = parent[parent[a]]
            a = parent[a]
        return a
    for i in opens:
        a, b = find(owner[i]), find(owner[part[i]])
        if a != b:
            parent[a] = b
    comps = {}
    for si in range(len(strands)):
        comps.setdefault(find(si), set()).add(si)
    return out, ext, sorted(comps.values(), key=min)


def rotate_names(seq, k=1):
    """reference rotation of a '+'-separated name list by k strands (first strand goes to the end)"""
    strands, cur = [], []
    for x in seq:
        if x == '+':
            strands.append(cur); cur = []
        else:
            cur.append(x)
    strands.append(cur)
    k %= len(strands)
    strands = strands[k:] + strands[:k]
    out = []
    for i, s in enumerate(strands):
        if i:
            out.append('+')
        out += s
    return out


def pair_label_set(seq, sst):
    """with unique labels: the set of unordered label pairs that are bound, plus the list of strands"""
    strands = parse_struct(''.join(sst))
    if strands is None:
        return None
    word = ''.join(strands)
    part = ref_partner(word)
    if part is None:
        return None
    names = [x for x in seq if x != '+']
    pairs = set()
    for i, j in enumerate(part):
        if j is not None and i < j:
            pairs.add((names[i], names[j]))
    return pairs


def rotations(seq, sst):
    """all n strand rotations of (names with '+', structure chars with '+'), computed from the partner table"""
    seq, sst = list(seq), list(sst)
    strands = parse_struct(''.join(sst))
    word = ''.join(strands)
    part = ref_partner(word)
    names = [x for x in seq if x != '+']
    lens = [len(s) for s in strands]
    starts = [sum(lens[:i]) for i in range(len(lens))]
    n = len(strands)
    out = []
    for k in range(n):
        order = list(range(k, n)) + list(range(0, k))
        newpos = {}
        p = 0
        for si in order:
            for d in range(lens[si]):
                newpos[starts[si] + d] = p; p += 1
        rs, rt = [], []
        for j, si in enumerate(order):
            if j:
                rs.append('+'); rt.append('+')
            for d in range(lens[si]):
                i = starts[si] + d
                rs.append(names[i])
                if part[i] is None:
                    rt.append('.')
                else:
                    rt.append('(' if newpos[i] < newpos[part[i]] else ')')
        out.append((tuple(rs), tuple(rt)))
    return out
