#!/venv/bin/python
"""tools/route_coverage.py [Cxx ...] — which public routes of dsdobjects do the explorations of the checks reach?

For every function / method / property defined in /repo/dsdobjects (the deprecated package included) the quick-tier exploration of
every check is run under sys.setprofile and two things are recorded per code object:
  * was it called at all, and by which checks;
  * for every parameter that has a default: was it ever given a value different from the default.
The result (route_coverage.json + a table on stdout) is an inventory for the generators: a public route nobody calls, or an
optional argument nobody varies, is a place where a change cannot be noticed by the failing-input search. It decides nothing by
itself and is not part of any registered command.
"""
import importlib, inspect, json, multiprocessing, os, shutil, sys, tempfile, types

HERE = os.path.dirname(os.path.dirname(os.path.abspath(__file__)))
sys.path.insert(0, HERE)
os.environ.setdefault('PYTHONDONTWRITEBYTECODE', '1')
sys.dont_write_bytecode = True
REPO = os.environ.get('VERIF_REPO', '/repo')
MODS = ['dsdobjects', 'dsdobjects.base_classes', 'dsdobjects.singleton', 'dsdobjects.complex_utils', 'dsdobjects.iupac_utils', 'dsdobjects.utils',
        'dsdobjects.objectio', 'dsdobjects.dsdparser', 'dsdobjects.dsdparser.pil_parser', 'dsdobjects.dsdparser.seesaw_parser',
        'dsdobjects.core', 'dsdobjects.core.deprecated', 'dsdobjects.parser']


def inventory():
    """code object -> (qualified name, {param: default})"""
    inv = {}

    def add(fn, owner):
        fn = inspect.unwrap(fn) if callable(fn) else fn
        code = getattr(fn, '__code__', None)
        if code is None or not os.path.realpath(code.co_filename).startswith(os.path.realpath(REPO) + os.sep):
            return
        try:
            sig = inspect.signature(fn)
            defaults = {n: p.default for n, p in sig.parameters.items() if p.default is not inspect.Parameter.empty}
        except (TypeError, ValueError):
            defaults = {}
        mod = os.path.relpath(code.co_filename, REPO)[:-3].replace(os.sep, '.')
        inv[code] = ('%s:%s' % (mod, code.co_qualname), defaults)

    for mn in MODS:
        try:
            m = importlib.import_module(mn)
        except Exception:
            continue
        for n, o in vars(m).items():
            if isinstance(o, types.FunctionType):
                add(o, m)
            elif isinstance(o, type):
                for an, a in vars(o).items():
                    if isinstance(a, (staticmethod, classmethod)):
                        add(a.__func__, o)
                    elif isinstance(a, property):
                        for f in (a.fget, a.fset, a.fdel):
                            if f is not None:
                                add(f, o)
                    elif isinstance(a, types.FunctionType):
                        add(a, o)
    return inv


def one(prop):
    import warnings
    warnings.simplefilter('ignore')
    from harness import core
    core.use_repo(REPO)
    inv = inventory()
    called, varied = {}, set()

    main_pid = os.getpid()
    side_dir = tempfile.mkdtemp(prefix='route_cov_')

    def side(line):
        # first sightings inside forked workers of the check (reader jobs, parser pools) are written to a side file
        if os.getpid() != main_pid:
            with open(os.path.join(side_dir, '%d.txt' % os.getpid()), 'a') as f:
                f.write(line + '\n')

    def prof(frame, event, arg):
        if event != 'call':
            return
        ent = inv.get(frame.f_code)
        if ent is None:
            return
        name, defaults = ent
        if name not in called:
            side('C ' + name)
        called[name] = called.get(name, 0) + 1
        loc = frame.f_locals
        for p, d in defaults.items():
            if p in loc:
                v = loc[p]
                try:
                    same = v is d or (type(v) is type(d) and v == d)
                except Exception:
                    same = False
                if not same and (name + ' ' + p) not in varied:
                    varied.add(name + ' ' + p)
                    side('V ' + name + ' ' + p)

    class P:
        ok = True
        problems = []
        def problem(self, *a):
            pass
    mod = importlib.import_module('harness.props.' + prop.lower())
    res = core.Result(prop, 'quick', 0, REPO)
    sys.setprofile(prof)
    err = None
    try:
        mod.run(res, P())
    except BaseException as e:
        err = '%s: %s' % (type(e).__name__, e)
    finally:
        sys.setprofile(None)
    for fn in os.listdir(side_dir):
        for line in open(os.path.join(side_dir, fn)):
            k, rest = line.rstrip('\n').split(' ', 1)
            if k == 'C':
                called[rest] = called.get(rest, 0) + 1
            else:
                varied.add(rest)
    shutil.rmtree(side_dir, ignore_errors=True)
    return prop, called, sorted(varied), err


def main():
    props = sys.argv[1:] or ['C%02d' % i for i in range(1, 21)]
    from concurrent.futures import ProcessPoolExecutor          # its workers may have children (the checks use pools)
    with ProcessPoolExecutor(min(8, len(props)), mp_context=multiprocessing.get_context('spawn'), max_tasks_per_child=1) as pool:
        results = list(pool.map(one, props))
    from harness import core
    core.use_repo(REPO)
    inv = inventory()
    table = {}
    for name, defaults in inv.values():
        table[name] = {'called_by': [], 'calls': 0, 'optional': {p: [] for p in defaults}}
    for prop, called, varied, err in results:
        if err:
            print('note: exploration of %s ended with %s' % (prop, err), file=sys.stderr)
        for n, k in called.items():
            table[n]['called_by'].append(prop); table[n]['calls'] += k
        for v in varied:
            n, p = v.rsplit(' ', 1)
            table[n]['optional'][p].append(prop)
    json.dump(table, open(os.path.join(HERE, 'route_coverage.json'), 'w'), indent=1, sort_keys=True)
    never = sorted(n for n, t in table.items() if not t['called_by'])
    unvaried = sorted('%s(%s=)' % (n, p) for n, t in table.items() if t['called_by'] for p, by in t['optional'].items() if not by)
    print('%d routes, %d reached; never reached: %d; optional arguments never varied on reached routes: %d' % (
        len(table), len(table) - len(never), len(never), len(unvaried)))
    print('--- never reached'); print('\n'.join(never))
    print('--- optional argument always at its default'); print('\n'.join(unvaried))


if __name__ == '__main__':
    main()
