#!/bin/bash
# usage: tools/batch7.sh C04 C06 ...   — confirms and tries the two changes (A, B) each batch-8 agent left in /tmp/wt8/<prop>
cd /verif
for p in "$@"; do
  for x in A B; do
    if [ -f /tmp/wt8/$p/$x.diff ]; then
      echo "=== $p-b8$x"
      tools/try_mutant.sh /tmp/wt8/$p $p $p-b8$x $x.diff ${x}_demo.py ${x}_note.md 2>&1 | grep -v conda
    else
      echo "=== $p-b8$x MISSING"
    fi
  done
done
