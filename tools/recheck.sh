#!/bin/bash
# usage: tools/recheck.sh <seeded-id> [property]   — applies one seeded change, runs the property's quick check, reverts; prints the verdict
cd /verif
id=$1; prop=${2:-${id%%-*}}
git -C /repo apply /verif/seeded/$id/patch.diff || { echo "$id PATCH-FAILS"; exit 3; }
cp evidence/$prop.json /tmp/evidence_$prop.bak 2>/dev/null
timeout 1800 ./check $prop --tier quick > /tmp/seeded_$id.log 2>&1; rc=$?
git -C /repo checkout -- .
cp /tmp/evidence_$prop.bak evidence/$prop.json 2>/dev/null
first=$(grep -m1 "^VIOLATION" /tmp/seeded_$id.log | sed 's/.*replay=//')
key=""
if [ -n "$first" ]; then f=${first%% *}; key=$(python3 -c "import json,sys; print(json.load(open('/verif/$f')).get('key'))" 2>/dev/null); fi
echo "$id [$prop] exit=$rc $first key=$key"
