#!/usr/bin/env python3
"""Regenerates MANIFEST.json from the per-property metadata in harness/props/cXX.py (MANIFEST dict)."""
import ast, json, os, sys
HERE = os.path.dirname(os.path.dirname(os.path.abspath(__file__)))
props = [json.loads(l) for l in open(os.path.join(HERE, 'properties.jsonl'))]
checks, na = [], []
all_modules = set()
for p in props:
    pid = p['id']
    path = os.path.join(HERE, 'harness', 'props', pid.lower() + '.py')
    meta = None
    if os.path.exists(path):
        tree = ast.parse(open(path).read())
        for node in tree.body:
            if isinstance(node, ast.Assign) and getattr(node.targets[0], 'id', None) == 'MANIFEST':
                meta = ast.literal_eval(node.value)
            if isinstance(node, ast.Assign) and getattr(node.targets[0], 'id', None) == 'MODULES':
                all_modules |= set(ast.literal_eval(node.value))
    if meta is None:
        na.append({'property_id': pid, 'reason': 'check not built yet in this revision (planned, see DESIGN.md section 5)'})
        continue
    checks.append({
        'property_id': pid,
        'quick_cmd': './check %s --tier quick' % pid,
        'thorough_cmd': './check %s --tier thorough' % pid,
        'evidence_file': 'evidence/%s.json' % pid,
        'replay_cmd_template': './check %s --replay {path}' % pid,
        'engine': 'lean4-model+correspondence',
        'level_claimed': {'category': 'proof', 'text': meta['text'] + (' ' + meta['source_derived'] if meta.get('source_derived') else ''), 'design_ref': meta.get('design_ref', 'DESIGN.md section 5, ' + pid)},
        'level_note': meta['note'],
        'technique': meta['technique'],
    })
man = {
    'version': 1,
    # regenerate Gen/ from the working tree, then build the driver and every module a check audits once, in parallel (the modules
    # cannot be imported into one aggregate: some lemma files that are never used together define the same names)
    'setup_cmd': '/venv/bin/python translator/gen.py /repo lean/DsdVerif/Gen >/dev/null && cd lean && lake build DsdVerif.Driver ' + ' '.join(sorted(all_modules)),
    'hooks': {'guard': 'DSDOBJECTS_VERIF', 'enable': 'no source hooks are needed: every observation uses the public API (DESIGN.md 2.7)',
              'baseline_off_cmd': 'cd /repo && /venv/bin/python -m pytest -ra -q -p no:cacheprovider --timeout=900 --continue-on-collection-errors',
              'source_commits': [], 'add_only': True},
    'engines': [{'name': 'lean4-model+correspondence', 'path': 'lean/',
                 'serves_properties': [c['property_id'] for c in checks],
                 'kind_free_text': 'Lean 4 model + kernel-checked property theorems (lean/DsdVerif), tables regenerated from /repo by '
                                   'translator/gen.py, differential correspondence harness (harness/) through a line-protocol driver, '
                                   'independent Python oracles for the failing-input search'}],
    'checks': checks,
    'not_applicable': na,
    'notes': 'Genuine defects repaired in /repo are listed as fixed: lines in known_findings.txt; see DESIGN.md section 6.',
}
json.dump(man, open(os.path.join(HERE, 'MANIFEST.json'), 'w'), indent=1)
print('checks:', [c['property_id'] for c in checks], 'not_applicable:', len(na))
