#!/bin/bash
# Re-runs every seeded change against the quick check of its property (applies the patch to /repo, runs, reverts).
# usage: [VERIF_REPO=<checkout of dsdobjects>] tools/run_seeded.sh [id-glob]     (default: /repo, every seeded change)
cd "$(dirname "$0")/.."
V=$(pwd)
REPO=${VERIF_REPO:-/repo}
T=$V/.seeded_tmp; mkdir -p $T
for d in seeded/${1:-*}/; do
  id=$(basename $d); prop=${id%%-*}
  if grep -q '"status": "obsolete-after-fix"' $d/meta.json 2>/dev/null; then echo "$id obsolete-after-fix (skipped)"; continue; fi
  if grep -q '"status": "outside-reading"' $d/meta.json 2>/dev/null; then echo "$id outside-reading (skipped)"; continue; fi
  git -C $REPO apply $V/$d/patch.diff || { echo "$id PATCH-FAILS"; continue; }
  cp evidence/$prop.json $T/evidence_$prop.bak 2>/dev/null   # the evidence of the unchanged tree must survive this run
  timeout 1800 ./check $prop --tier quick --repo $REPO > $T/seeded_$id.log 2>&1; rc=$?
  git -C $REPO checkout -- .
  cp $T/evidence_$prop.bak evidence/$prop.json 2>/dev/null
  kind=$(grep -m1 "^VIOLATION" $T/seeded_$id.log | sed 's/.*replay=//')
  echo "$id exit=$rc $kind"
  python3 - "$d" "$rc" "$kind" <<'PY'
import json,sys,os
d,rc,kind=sys.argv[1],int(sys.argv[2]),sys.argv[3]
p=os.path.join(d,'meta.json'); m=json.load(open(p))
m['final_check_exit']=rc; m['final_first_violation']=kind
m['caught']= (rc==1); m['concrete_replay']=(rc==1 and 'no-failing-input-found' not in kind)
json.dump(m,open(p,'w'),indent=1)
PY
done
