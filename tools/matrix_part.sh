#!/bin/bash
# usage (inside a `vp run --with-repo` snapshot): tools/matrix_part.sh <glob> [<glob> …] — re-runs the seeded changes matching the globs against the run's own
# repository snapshot, reusing the build output of /verif
cd "$(dirname "$0")/.."
mkdir -p lean/.lake lean/DsdVerif/Gen
cp -r /verif/lean/.lake/. lean/.lake/
cp /verif/lean/DsdVerif/Gen/*.lean lean/DsdVerif/Gen/
for g in "$@"; do VERIF_REPO=$VP_RUN_REPO tools/run_seeded.sh "$g"; done
