#!/bin/bash
# clean-tree sweep: every check, several seeds; prints only non-zero exits and timings
cd /verif
for seed in "$@"; do
  for p in C01 C02 C03 C04 C05 C06 C07 C08 C09 C10 C11 C12 C13 C14 C15 C16 C17 C18 C19 C20; do
    s=$(date +%s); VERIF_SEED=$seed ./check $p --tier quick > /tmp/sweep_${p}_$seed.log 2>&1; rc=$?; e=$(date +%s)
    echo "seed=$seed $p exit=$rc $((e-s))s $(grep -c '^VIOLATION' /tmp/sweep_${p}_$seed.log) violations"
  done
done
