#!/bin/bash
# usage: tools/try_mutant.sh <worktree> <property> <seeded-id>
# Confirms a seeded change (tests pass with it, demo fails with / passes without), runs the property's quick check
# against /repo with the change applied, reverts /repo, and stores the change under seeded/<id>/.
set -u
WT=$1; PROP=$2; ID=$3; PATCH=${4:-}; DEMO=${5:-DEMO.py}; NOTE=${6:-NOTE.md}
cd /verif
if [ -n "$PATCH" ]; then cp $WT/$PATCH /tmp/try_mutant_patch.diff; else git -C $WT diff -- dsdobjects > /tmp/try_mutant_patch.diff; fi
if [ ! -s /tmp/try_mutant_patch.diff ]; then echo "EMPTY PATCH (nothing stored)"; exit 3; fi
mkdir -p seeded/$ID
cp /tmp/try_mutant_patch.diff seeded/$ID/patch.diff
cp $WT/$DEMO seeded/$ID/demo.py 2>/dev/null
cp $WT/$NOTE seeded/$ID/note.md 2>/dev/null
if [ ! -s seeded/$ID/patch.diff ]; then echo "EMPTY PATCH"; exit 3; fi
# demo without the change (pristine /repo)
( cd /repo && PYTHONPATH=/repo timeout 300 /venv/bin/python /verif/seeded/$ID/demo.py >/tmp/demo_without.log 2>&1 ); D0=$?
git -C /repo apply /verif/seeded/$ID/patch.diff || { echo "PATCH DOES NOT APPLY"; exit 3; }
( cd /repo && timeout 900 /venv/bin/python -m pytest -q -p no:cacheprovider 2>&1 | tail -1 ) > /tmp/tests_with.log
( cd /repo && PYTHONPATH=/repo timeout 300 /venv/bin/python /verif/seeded/$ID/demo.py >/tmp/demo_with.log 2>&1 ); D1=$?
cp evidence/$PROP.json /tmp/evidence_$PROP.bak 2>/dev/null   # the evidence of the unchanged tree must survive this run
timeout 1800 ./check $PROP --tier quick > /tmp/check_with.log 2>&1; C1=$?
git -C /repo checkout -- .
cp /tmp/evidence_$PROP.bak evidence/$PROP.json 2>/dev/null
echo "tests with change : $(cat /tmp/tests_with.log)"
echo "demo without/with : exit $D0 / exit $D1"
echo "check $PROP with change: exit $C1"
grep -E "VIOLATION|KNOWN" /tmp/check_with.log | head -5
tail -1 /tmp/check_with.log
python3 - <<PY
import json,glob,os
v=[l.strip() for l in open('/tmp/check_with.log') if l.startswith('VIOLATION')]
rep=None
if v:
    p=v[0].split('replay=')[1].split()[0]
    try: rep=json.load(open('/verif/'+p))
    except Exception: pass
meta={'property':'$PROP','id':'$ID','tests_with_change':open('/tmp/tests_with.log').read().strip(),
      'demo_exit_without_change':$D0,'demo_exit_with_change':$D1,'check_exit_with_change':$C1,
      'violation_lines':v[:5],'first_replay_key':(rep or {}).get('key'),'first_replay_kind':(rep or {}).get('kind'),
      'ran':['git -C /repo apply seeded/$ID/patch.diff','pytest (baseline suite)','demo.py','./check $PROP --tier quick','git -C /repo checkout -- .']}
old={}
if os.path.exists('/verif/seeded/$ID/meta.json'):
    old=json.load(open('/verif/seeded/$ID/meta.json'))
old.update(meta)
json.dump(old,open('/verif/seeded/$ID/meta.json','w'),indent=1)
print('replay key:', meta['first_replay_key'], '| kind:', meta['first_replay_kind'])
PY
