import DsdVerif.DriverMembers
/-! private driver loop for `pym.dom` until `stepMembers` is wired into DsdVerif/Driver.lean (see INTEGRATION_Members.md) -/

partial def loop (h : IO.FS.Stream) (out : IO.FS.Stream) : IO Unit := do
  let line ← h.getLine
  if line.isEmpty then return ()
  let l := if line.back == '\n' then String.ofList line.toList.dropLast else line
  out.putStrLn ((Dsd.DriverMembers.stepMembers l).getD "bad-op")
  loop h out

def main : IO Unit := do
  loop (← IO.getStdin) (← IO.getStdout)
