import DsdVerif.DriverSetters
/-! Private stand-alone driver for the op of DriverSetters.lean (testing before it is wired into Driver.lean / Main.lean). -/

partial def loopSetters (h : IO.FS.Stream) (out : IO.FS.Stream) : IO Unit := do
  let line ← h.getLine
  if line.isEmpty then return ()
  let l := if line.back == '\n' then String.ofList line.toList.dropLast else line
  out.putStrLn ((Dsd.DriverSetters.stepSetters l).getD "bad-op")
  loopSetters h out

def main : IO Unit := do
  loopSetters (← IO.getStdin) (← IO.getStdout)
