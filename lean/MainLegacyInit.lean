/- private test driver around `stepLegacyInit` (see INTEGRATION_LegacyInit.md) -/
import DsdVerif.DriverLegacyInit

partial def loop (h : IO.FS.Stream) (out : IO.FS.Stream) (w : Dsd.DriverLegacyReg.LegacyRegDState) : IO Unit := do
  let line ← h.getLine
  if line.isEmpty then return ()
  let l := if line.back == '\n' then String.ofList line.toList.dropLast else line
  match Dsd.DriverLegacyInit.stepLegacyInit w l with
  | some (w', r) => out.putStrLn r; loop h out w'
  | none => out.putStrLn "bad-op"; loop h out w

def main : IO Unit := do
  let out ← IO.getStdout
  loop (← IO.getStdin) out {}
