/- private test driver around `stepLegacySeq` (see INTEGRATION_LegacySeq.md) -/
import DsdVerif.DriverLegacySeq

partial def loop (h : IO.FS.Stream) (out : IO.FS.Stream) (w : Dsd.DriverLegacySeq.LegacySeqDState) : IO Unit := do
  let line ← h.getLine
  if line.isEmpty then return ()
  let l := if line.back == '\n' then String.ofList line.toList.dropLast else line
  match Dsd.DriverLegacySeq.stepLegacySeq w l with
  | some (w', r) => out.putStrLn r; loop h out w'
  | none => out.putStrLn "bad-op"; loop h out w

def main : IO Unit := do
  let out ← IO.getStdout
  loop (← IO.getStdin) out {}
