import DsdVerif.DriverSetObjects
/-! Private stand-alone driver for the ops of DriverSetObjects.lean (testing before they are wired into Driver.lean / Main.lean). -/

partial def loopSetObjects (h : IO.FS.Stream) (out : IO.FS.Stream) : IO Unit := do
  let line ← h.getLine
  if line.isEmpty then return ()
  let l := if line.back == '\n' then String.ofList line.toList.dropLast else line
  out.putStrLn ((Dsd.DriverSetObjects.stepSetObjects l).getD "bad-op")
  loopSetObjects h out

def main : IO Unit := do
  loopSetObjects (← IO.getStdin) (← IO.getStdout)
