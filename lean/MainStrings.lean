import DsdVerif.DriverStrings
/-! Private stand-alone driver for the op of DriverStrings.lean. -/

partial def loopStrings (h : IO.FS.Stream) (out : IO.FS.Stream) : IO Unit := do
  let line ← h.getLine
  if line.isEmpty then return ()
  let l := if line.back == '\n' then String.ofList line.toList.dropLast else line
  out.putStrLn ((Dsd.DriverStrings.stepStrings l).getD "bad-op")
  loopStrings h out

def main : IO Unit := do
  loopStrings (← IO.getStdin) (← IO.getStdout)
