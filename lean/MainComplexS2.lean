import DsdVerif.DriverComplexS2
/-! private driver loop for the `pyc2.*` ops until `stepComplexS2` is wired into DsdVerif/Driver.lean (see INTEGRATION_ComplexS2.md) -/

partial def loop (h : IO.FS.Stream) (out : IO.FS.Stream) : IO Unit := do
  let line ← h.getLine
  if line.isEmpty then return ()
  let l := if line.back == '\n' then String.ofList line.toList.dropLast else line
  out.putStrLn ((Dsd.DriverComplexS2.stepComplexS2 l).getD "bad-op")
  loop h out

def main : IO Unit := do
  loop (← IO.getStdin) (← IO.getStdout)
