/-
Line-protocol driver around the executable model (no Mathlib, no Props).
One request per line, TAB separated; one response line per request.
-/
import DsdVerif.Spec.Iupac
import DsdVerif.Model.Units
import DsdVerif.Spec.Symbols
import DsdVerif.Model.Complex

namespace Dsd.Driver
open Dsd

def parseMat (s : String) : Option Iupac.Material :=
  if s == "DNA" then some .dna else if s == "RNA" then some .rna else none

def showRat (q : Rat) : String := s!"{q.num}/{q.den}"

def parseRat (s : String) : Option Rat :=
  match s.splitOn "/" with
  | [n, d] => do
    let n ← n.toInt?
    let d ← d.toNat?
    if d = 0 then none else some ((n : Rat) / (d : Rat))
  | [n] => do let n ← n.toInt?; some (n : Rat)
  | _ => none

def words (s : String) : List String := (s.splitOn " ").filter (· ≠ "")

def showUnitsErr : Units.Err → String
  | .valueError => "err ValueError" | .keyError => "err KeyError"
  | .objectInit => "err ObjectInitError" | .notImplemented => "err NotImplementedError"

def showErr : Err → String
  | .secondaryStructure => "err SecondaryStructureError"
  | .objectInit => "err ObjectInitError"
  | .singleton none => "err SingletonError existing=none"
  | .singleton (some h) => s!"err SingletonError existing=h{h}"
  | .notImplemented => "err NotImplementedError"
  | .assertion => "err AssertionError"
  | .pilFormat => "err PilFormatError"
  | .parse => "err ParseException"
  | .fault k => "err Fault " ++ k

def showLocus : Option Locus → String
  | none => "-"
  | some (s, d) => s!"{s}.{d}"

def showPt (pt : PairTable) : String :=
  "|".intercalate (pt.map (fun st => ",".intercalate (st.map showLocus)))

def parseLocus (s : String) : Option (Option Locus) :=
  if s == "-" then some none else
  match s.splitOn "." with
  | [a, b] => do let a ← a.toNat?; let b ← b.toNat?; some (some (a, b))
  | _ => none

def parsePt (s : String) : Option PairTable :=
  (s.splitOn "|").mapM (fun st => if st == "" then some [] else (st.splitOn ",").mapM parseLocus)

def showNatLL (l : List (List Nat)) : String :=
  "|".intercalate (l.map (fun st => ",".intercalate (st.map toString)))

def showNames (l : List String) : String := " ".intercalate l

def firstChar (s : String) : Char := s.toList.headD '+'

def showSplit (parts : List (List (List String) × PairTable)) : String :=
  " ; ".intercalate (parts.map (fun p =>
    (match strandTableToSequence "+" p.1 with | .ok s => showNames s | .error _ => "<empty>")
      ++ " / " ++ String.ofList (ptToDb p.2)))

def step (line : String) : String :=
  match line.splitOn "\t" with
  | ["iupac.map", fn, mat, seq] =>
    match parseMat mat with
    | none => "bad-op"
    | some m =>
      let r := match fn with
        | "complement" => some (Iupac.complement m seq.toList)
        | "wc" => some (Iupac.wcComplement m seq.toList)
        | "rcomplement" => some (Iupac.reverseComplement m seq.toList)
        | "rwc" => some (Iupac.reverseWcComplement m seq.toList)
        | _ => none
      match r with
      | none => "bad-op"
      | some none => "err KeyError"
      | some (some o) => "ok " ++ String.ofList o
  | ["iupac.add", mat, s1, s2] =>
    match parseMat mat with
    | none => "bad-op"
    | some m =>
      match Iupac.addConstraints m s1.toList s2.toList with
      | .ok c => "ok " ++ String.ofList c
      | .constraintError => "err ConstraintError"
      | .keyError => "err KeyError"
      | .lengthAssert => "err AssertionError"
      | .returnsNone => "none"
  | ["iupac.failing", mat] =>
    match parseMat mat with
    | none => "bad-op"
    | some m => "rows " ++ " ".intercalate ((Iupac.failingRows m).map (fun r => r.1 ++ ":" ++ String.singleton r.2))
  | ["units.conv", v, uin, uout] =>
    match parseRat v with
    | none => "bad-op"
    | some q =>
      match Units.convert q uin uout with
      | .ok r => "ok " ++ showRat r
      | .error e => showUnitsErr e
  | ["units.rate", v, old, new, n] =>
    match parseRat v, n.toNat? with
    | some q, some k =>
      match Units.rateformat q (words old) (words new) k with
      | .ok r => "ok " ++ showRat r
      | .error e => showUnitsErr e
    | _, _ => "bad-op"
  | ["mpt", ss, brk] =>
    match makePairTable ss.toList (firstChar brk) with
    | .ok pt => "ok " ++ showPt pt
    | .error e => showErr e
  | ["ptdb", pt, brk] =>
    match parsePt pt with
    | some pt => "ok " ++ String.ofList (ptToDb pt (firstChar brk))
    | none => "bad-op"
  | ["mst.str", seq, brk] =>
    "ok " ++ "|".intercalate ((makeStrandTableStr (firstChar brk) seq.toList).map String.ofList)
  | ["mst.list", seq, brk] =>
    "ok " ++ "|".intercalate ((makeStrandTableList brk (words seq)).map showNames)
  | ["stseq", st, brk] =>
    let tab := if st == "" then [] else (st.splitOn "|").map words
    match strandTableToSequence brk tab with
    | .ok s => "ok " ++ showNames s
    | .error e => showErr e
  | ["rot1", seq, sst] =>
    match rotateOnce (words seq) sst.toList with
    | .ok (a, b) => "ok " ++ showNames a ++ " / " ++ String.ofList b
    | .error e => showErr e
  | ["rotpt", ss] =>
    match makePairTable ss.toList with
    | .error e => showErr e
    | .ok pt =>
      let stab := (splitOn '+' ss.toList)
      "ok " ++ " ; ".intercalate ((rotationsPt stab pt).map (fun r =>
        "|".intercalate (r.1.map String.ofList) ++ " / " ++ showPt r.2 ++ " / " ++ String.ofList (ptToDb r.2)))
  | ["loop", ss, comp] =>
    match makePairTable ss.toList with
    | .error e => showErr e
    | .ok pt =>
      match makeLoopIndex pt (comp == "1") with
      | .error e => showErr e
      | .ok lo =>
        if comp == "1" then "ok " ++ showNatLL lo.loopIndex ++ " / " ++
          " ".intercalate (lo.myext.map (fun p => s!"{p.1}:{p.2}"))
        else "ok " ++ showNatLL lo.loopIndex ++ " / " ++
          " ".intercalate ((lo.exterior.mergeSort (· ≤ ·)).map toString)
  | ["split", seq, ss] =>
    match makePairTable ss.toList with
    | .error e => showErr e
    | .ok pt =>
      let stab := makeStrandTableList "+" (words seq)
      match splitPt (pt.length + 1) stab pt with
      | .ok parts => "ok " ++ showSplit parts
      | .error e => showErr e
  | ["symbols.unresolved"] =>
    "refs " ++ " ".intercalate (Symbols.unresolved.map (fun r => r.1 ++ ":" ++ r.2.1 ++ ":" ++ r.2.2))
  | _ => "bad-op"

end Dsd.Driver
