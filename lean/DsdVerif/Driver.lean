/-
Line-protocol driver around the executable model (no Mathlib, no Props).
One request per line, TAB separated; one response line per request.
-/
import DsdVerif.Spec.Iupac
import DsdVerif.Model.Units

namespace Dsd.Driver
open Dsd

def parseMat (s : String) : Option Iupac.Material :=
  if s == "DNA" then some .dna else if s == "RNA" then some .rna else none

def showRat (q : Rat) : String := s!"{q.num}/{q.den}"

def parseRat (s : String) : Option Rat :=
  match s.splitOn "/" with
  | [n, d] => do
    let n ← n.toInt?
    let d ← d.toNat?
    if d = 0 then none else some ((n : Rat) / (d : Rat))
  | [n] => do let n ← n.toInt?; some (n : Rat)
  | _ => none

def words (s : String) : List String := (s.splitOn " ").filter (· ≠ "")

def showUnitsErr : Units.Err → String
  | .valueError => "err ValueError" | .keyError => "err KeyError"
  | .objectInit => "err ObjectInitError" | .notImplemented => "err NotImplementedError"

def step (line : String) : String :=
  match line.splitOn "\t" with
  | ["iupac.map", fn, mat, seq] =>
    match parseMat mat with
    | none => "bad-op"
    | some m =>
      let r := match fn with
        | "complement" => some (Iupac.complement m seq.toList)
        | "wc" => some (Iupac.wcComplement m seq.toList)
        | "rcomplement" => some (Iupac.reverseComplement m seq.toList)
        | "rwc" => some (Iupac.reverseWcComplement m seq.toList)
        | _ => none
      match r with
      | none => "bad-op"
      | some none => "err KeyError"
      | some (some o) => "ok " ++ String.ofList o
  | ["iupac.add", mat, s1, s2] =>
    match parseMat mat with
    | none => "bad-op"
    | some m =>
      match Iupac.addConstraints m s1.toList s2.toList with
      | .ok c => "ok " ++ String.ofList c
      | .constraintError => "err ConstraintError"
      | .keyError => "err KeyError"
      | .lengthAssert => "err AssertionError"
      | .returnsNone => "none"
  | ["iupac.failing", mat] =>
    match parseMat mat with
    | none => "bad-op"
    | some m => "rows " ++ " ".intercalate ((Iupac.failingRows m).map (fun r => r.1 ++ ":" ++ String.singleton r.2))
  | ["units.conv", v, uin, uout] =>
    match parseRat v with
    | none => "bad-op"
    | some q =>
      match Units.convert q uin uout with
      | .ok r => "ok " ++ showRat r
      | .error e => showUnitsErr e
  | ["units.rate", v, old, new, n] =>
    match parseRat v, n.toNat? with
    | some q, some k =>
      match Units.rateformat q (words old) (words new) k with
      | .ok r => "ok " ++ showRat r
      | .error e => showUnitsErr e
    | _, _ => "bad-op"
  | _ => "bad-op"

end Dsd.Driver
