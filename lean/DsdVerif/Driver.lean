/-
Line-protocol driver around the executable model (no Mathlib, no Props).
One request per line, TAB separated; one response line per request.
-/
import DsdVerif.Spec.Iupac
import DsdVerif.Model.Units
import DsdVerif.Spec.Symbols
import DsdVerif.Model.Complex
import DsdVerif.Model.World
import DsdVerif.Gen.Grammars
import DsdVerif.Model.Kernel
import DsdVerif.Model.Reader
import DsdVerif.Gen.PyFuncs
import DsdVerif.Gen.PyIupac
import DsdVerif.Spec.PyComplexS
import DsdVerif.DriverKernel
import DsdVerif.DriverIdent
import DsdVerif.DriverIdent2
import DsdVerif.DriverSingleton
import DsdVerif.DriverUnits
import DsdVerif.DriverSetObjects
import DsdVerif.DriverComplexS2
import DsdVerif.DriverReaderFns
import DsdVerif.DriverSetters
import DsdVerif.DriverComplexS3
import DsdVerif.DriverReadPil
import DsdVerif.DriverDunders
import DsdVerif.DriverMembers
import DsdVerif.DriverMembers2
import DsdVerif.DriverStrings
import DsdVerif.DriverReadLine
import DsdVerif.DriverDomain
import DsdVerif.DriverLegacySeq
import DsdVerif.Model.Dlc

namespace Dsd.Driver
open Dsd

def parseMat (s : String) : Option Iupac.Material :=
  if s == "DNA" then some .dna else if s == "RNA" then some .rna else none

def showRat (q : Rat) : String := s!"{q.num}/{q.den}"

def parseRat (s : String) : Option Rat :=
  match s.splitOn "/" with
  | [n, d] => do
    let n ← n.toInt?
    let d ← d.toNat?
    if d = 0 then none else some ((n : Rat) / (d : Rat))
  | [n] => do let n ← n.toInt?; some (n : Rat)
  | _ => none

def words (s : String) : List String := (s.splitOn " ").filter (· ≠ "")

def showUnitsErr : Units.Err → String
  | .valueError => "err ValueError" | .keyError => "err KeyError"
  | .objectInit => "err ObjectInitError" | .notImplemented => "err NotImplementedError"

def showErr : Err → String
  | .secondaryStructure => "err SecondaryStructureError"
  | .objectInit => "err ObjectInitError"
  | .singleton none => "err SingletonError existing=none"
  | .singleton (some h) => s!"err SingletonError existing=h{h}"
  | .notImplemented => "err NotImplementedError"
  | .assertion => "err AssertionError"
  | .pilFormat => "err PilFormatError"
  | .parse => "err ParseException"
  | .fault k => "err Fault " ++ k

def showLocus : Option Locus → String
  | none => "-"
  | some (s, d) => s!"{s}.{d}"

def showPt (pt : PairTable) : String :=
  "|".intercalate (pt.map (fun st => ",".intercalate (st.map showLocus)))

def parseLocus (s : String) : Option (Option Locus) :=
  if s == "-" then some none else
  match s.splitOn "." with
  | [a, b] => do let a ← a.toNat?; let b ← b.toNat?; some (some (a, b))
  | _ => none

def parsePt (s : String) : Option PairTable :=
  (s.splitOn "|").mapM (fun st => if st == "" then some [] else (st.splitOn ",").mapM parseLocus)

def showNatLL (l : List (List Nat)) : String :=
  "|".intercalate (l.map (fun st => ",".intercalate (st.map toString)))

def showNames (l : List String) : String := " ".intercalate l

def firstChar (s : String) : Char := s.toList.headD '+'

def showSplit (parts : List (List (List String) × PairTable)) : String :=
  " ; ".intercalate (parts.map (fun p =>
    (match strandTableToSequence "+" p.1 with | .ok s => showNames s | .error _ => "<empty>")
      ++ " / " ++ String.ofList (ptToDb p.2)))

partial def showTree : PP.Tree → String
  | .tok s => "\"" ++ String.join (s.toList.map (fun c =>
      if c == '\\' then "\\\\" else if c == '"' then "\\\"" else if c == '\n' then "\\n" else String.singleton c)) ++ "\""
  | .grp ts => "[" ++ ", ".intercalate (ts.map showTree) ++ "]"

def showTrees (ts : List PP.Tree) : String := "[" ++ ", ".intercalate (ts.map showTree) ++ "]"

def hexVal (c : Char) : Nat :=
  if '0' ≤ c ∧ c ≤ '9' then c.toNat - '0'.toNat
  else if 'a' ≤ c ∧ c ≤ 'f' then c.toNat - 'a'.toNat + 10 else 0

/-- text is sent as hex of its code points (4 hex digits each) -/
def unhex : List Char → List Char
  | a :: b :: c :: d :: rest => Char.ofNat (((hexVal a * 16 + hexVal b) * 16 + hexVal c) * 16 + hexVal d) :: unhex rest
  | _ => []

def showPyLoop (r : Except Err (List (List Nat) × List Nat × List (List (Option Nat)))) (comp : Bool) : String :=
  match r with
  | .error e => showErr e
  | .ok (li, ext, my) =>
    if comp then "ok " ++ showNatLL li ++ " / " ++
      " ".intercalate (my.map (fun p => ":".intercalate (p.map (fun o => match o with | some n => toString n | none => "-"))))
    else "ok " ++ showNatLL li ++ " / " ++ " ".intercalate ((ext.mergeSort (· ≤ ·)).map toString)

def step (line : String) : String :=
  match line.splitOn "\t" with
  | ["iupac.map", fn, mat, seq] =>
    match parseMat mat with
    | none => "bad-op"
    | some m =>
      let r := match fn with
        | "complement" => some (Iupac.complement m seq.toList)
        | "wc" => some (Iupac.wcComplement m seq.toList)
        | "rcomplement" => some (Iupac.reverseComplement m seq.toList)
        | "rwc" => some (Iupac.reverseWcComplement m seq.toList)
        | _ => none
      match r with
      | none => "bad-op"
      | some none => "err KeyError"
      | some (some o) => "ok " ++ String.ofList o
  | ["iupac.add", mat, s1, s2] =>
    match parseMat mat with
    | none => "bad-op"
    | some m =>
      match Iupac.addConstraints m s1.toList s2.toList with
      | .ok c => "ok " ++ String.ofList c
      | .constraintError => "err ConstraintError"
      | .keyError => "err KeyError"
      | .lengthAssert => "err AssertionError"
      | .returnsNone => "none"
  | ["iupac.failing", mat] =>
    match parseMat mat with
    | none => "bad-op"
    | some m => "rows " ++ " ".intercalate ((Iupac.failingRows m).map (fun r => r.1 ++ ":" ++ String.singleton r.2))
  | ["units.conv", v, uin, uout] =>
    match parseRat v with
    | none => "bad-op"
    | some q =>
      match Units.convert q uin uout with
      | .ok r => "ok " ++ showRat r
      | .error e => showUnitsErr e
  | ["units.rate", v, old, new, n] =>
    match parseRat v, n.toNat? with
    | some q, some k =>
      match Units.rateformat q (words old) (words new) k with
      | .ok r => "ok " ++ showRat r
      | .error e => showUnitsErr e
    | _, _ => "bad-op"
  | ["mpt", ss, brk] =>
    match makePairTable ss.toList (firstChar brk) with
    | .ok pt => "ok " ++ showPt pt
    | .error e => showErr e
  | ["ptdb", pt, brk] =>
    match parsePt pt with
    | some pt => "ok " ++ String.ofList (ptToDb pt (firstChar brk))
    | none => "bad-op"
  -- the same operations on the functions that are TRANSLATED from the source text (Gen/PyFuncs.lean)
  | ["pympt", ss, brk] =>
    match Gen.py_make_pair_table ss.toList (firstChar brk) ['.'] with
    | .ok pt => "ok " ++ showPt pt
    | .error e => showErr e
  | ["pyptdb", pt, brk] =>
    match parsePt pt with
    | some pt =>
      match Gen.py_pair_table_to_dot_bracket pt (firstChar brk) true with
      | .ok s => "ok " ++ String.ofList s
      | .error e => showErr e
    | none => "bad-op"
  | ["pyrot1", seq, sst] =>
    match Gen.py_rotate_complex_once (words seq) sst.toList with
    | .ok (a, b) => "ok " ++ showNames a ++ " / " ++ String.ofList b
    | .error e => showErr e
  | ["pyloop", ss, comp] =>
    match makePairTable ss.toList with
    | .error e => showErr e
    | .ok pt => showPyLoop (Gen.py_make_loop_index pt (comp == "1")) (comp == "1")
  | ["pyloop.pt", pt, comp] =>
    match parsePt pt with
    | some pt => showPyLoop (Gen.py_make_loop_index pt (comp == "1")) (comp == "1")
    | none => "bad-op"
  | ["pysplit", seq, ss] =>
    match makePairTable ss.toList with
    | .error e => showErr e
    | .ok pt =>
      let stab := makeStrandTableList "+" (words seq)
      match Gen.py_split_complex_pt (pt.length + 1) stab pt with
      | .ok parts => "ok " ++ showSplit parts
      | .error e => showErr e
  | ["pyrotpt", ss] =>
    match makePairTable ss.toList with
    | .error e => showErr e
    | .ok pt =>
      let stab := (splitOn '+' ss.toList).map (fun st => st.map String.singleton)
      match Gen.py_rotate_complex_pt (pt.length + 2) stab pt none with
      | .error e => showErr e
      | .ok rs => "ok " ++ " ; ".intercalate (rs.map (fun r =>
          "|".intercalate (r.1.map String.join) ++ " / " ++ showPt r.2 ++ " / " ++ String.ofList (ptToDb r.2)))
  -- the rest of complex_utils.py and the sequence-level functions of iupac_utils.py, TRANSLATED from the source text
  | ["pystab", seq, brk] =>
    match Gen.py_make_strand_table_list (words seq) brk with
    | .ok t => "ok " ++ "|".intercalate (t.map showNames)
    | .error e => showErr e
  | ["pystseq", st, brk] =>
    let tab := if st == "" then [] else (st.splitOn "|").map words
    match Gen.py_strand_table_to_sequence_list tab brk with
    | .ok l => "ok " ++ showNames l
    | .error e => showErr e
  | ["pystab.str", seq, brk] =>
    match Gen.py_make_strand_table_str seq.toList (firstChar brk) with
    | .ok t => "ok " ++ "|".intercalate (t.map String.ofList)
    | .error e => showErr e
  | ["pysts", seq, brk] =>
    -- strand_table_to_sequence(make_strand_table(seq), brk, join=False)
    match Gen.py_strand_table_to_sequence_list (makeStrandTableList "+" (words seq)) brk with
    | .ok l => "ok " ++ showNames l
    | .error e => showErr e
  | ["pysts.str", seq, brk] =>
    match Gen.py_strand_table_to_sequence_str (makeStrandTableStr '+' seq.toList) (firstChar brk) with
    | .ok l => "ok " ++ String.ofList l
    | .error e => showErr e
  | ["pysplitdb", seq, ss] =>
    match Gen.py_split_complex_db (ss.length + 2) (words seq) ss.toList with
    | .ok parts => "ok " ++ " ; ".intercalate (parts.map (fun p => showNames p.1 ++ " / " ++ String.ofList p.2))
    | .error e => showErr e
  | ["pyrotdb", seq, ss] =>
    match Gen.py_rotate_complex_db (ss.length + 2) (words seq) ss.toList none with
    | .ok parts => "ok " ++ " ; ".intercalate (parts.map (fun p => showNames p.1 ++ " / " ++ String.ofList p.2))
    | .error e => showErr e
  | ["pyiupac.map", fn, mat, seq] =>
    let r := match fn with
      | "complement" => some (Gen.py_complement seq.toList mat)
      | "wc" => some (Gen.py_wc_complement seq.toList mat)
      | "rcomplement" => some (Gen.py_reverse_complement seq.toList mat)
      | "rwc" => some (Gen.py_reverse_wc_complement seq.toList mat)
      | _ => none
    match r with
    | none => "bad-op"
    | some (.ok o) => "ok " ++ String.ofList o
    | some (.error (.fault k)) => "err " ++ k
    | some (.error e) => showErr e
  | ["pyiupac.add", mat, s1, s2] =>
    match Gen.py_add_constraints s1.toList s2.toList mat with
    | .ok c => "ok " ++ String.ofList c
    | .error (.fault k) => "err " ++ k
    | .error e => showErr e
  | ["dlc", seq, ss] =>
    -- ComplexS.is_domainlevel_complement; every domain has length 5 in this stream
    match makePairTable ss.toList with
    | .error e => showErr e
    | .ok pt =>
      let stab := (makeStrandTableList "+" (words seq)).map (fun st => st.map (fun n => ({ name := n, len := 5 } : Dom)))
      match isDomainLevelComplement stab pt with
      | .ok b => if b then "ok True" else "ok False"
      | .error e => showErr e
  | ["mst.str", seq, brk] =>
    "ok " ++ "|".intercalate ((makeStrandTableStr (firstChar brk) seq.toList).map String.ofList)
  | ["mst.list", seq, brk] =>
    "ok " ++ "|".intercalate ((makeStrandTableList brk (words seq)).map showNames)
  | ["stseq", st, brk] =>
    let tab := if st == "" then [] else (st.splitOn "|").map words
    match strandTableToSequence brk tab with
    | .ok s => "ok " ++ showNames s
    | .error e => showErr e
  | ["rot1", seq, sst] =>
    match rotateOnce (words seq) sst.toList with
    | .ok (a, b) => "ok " ++ showNames a ++ " / " ++ String.ofList b
    | .error e => showErr e
  | ["rotpt", ss] =>
    match makePairTable ss.toList with
    | .error e => showErr e
    | .ok pt =>
      let stab := (splitOn '+' ss.toList)
      "ok " ++ " ; ".intercalate ((rotationsPt stab pt).map (fun r =>
        "|".intercalate (r.1.map String.ofList) ++ " / " ++ showPt r.2 ++ " / " ++ String.ofList (ptToDb r.2)))
  | ["loop", ss, comp] =>
    match makePairTable ss.toList with
    | .error e => showErr e
    | .ok pt =>
      match makeLoopIndex pt (comp == "1") with
      | .error e => showErr e
      | .ok lo =>
        if comp == "1" then "ok " ++ showNatLL lo.loopIndex ++ " / " ++
          " ".intercalate (lo.myext.map (fun p => s!"{p.1}:{p.2}"))
        else "ok " ++ showNatLL lo.loopIndex ++ " / " ++
          " ".intercalate ((lo.exterior.mergeSort (· ≤ ·)).map toString)
  | ["split", seq, ss] =>
    match makePairTable ss.toList with
    | .error e => showErr e
    | .ok pt =>
      let stab := makeStrandTableList "+" (words seq)
      match splitPt (pt.length + 1) stab pt with
      | .ok parts => "ok " ++ showSplit parts
      | .error e => showErr e
  | ["pil.parse", hex] =>
    match PP.parseDoc Gen.pil_env Gen.pil_grammar (String.ofList (unhex hex.toList)) with
    | some ts => "ok " ++ showTrees ts
    | none => "err ParseException"
  | ["ssw.parse", hex] =>
    match PP.parseDoc Gen.ssw_env Gen.ssw_grammar (String.ofList (unhex hex.toList)) with
    | some ts => "ok " ++ showTrees ts
    | none => "err ParseException"
  | ["kernel.resolve", hex] =>
    -- parse `X = <pattern>` with the PIL grammar, then translate the pattern like the reader does
    match PP.parseDoc Gen.pil_env Gen.pil_grammar (String.ofList (unhex hex.toList)) with
    | some [.grp (.tok "kernel-complex" :: .tok _ :: .grp pat :: _)] =>
      match resolveKernel (4 * hex.length + 8) pat with
      | .ok (se, ss) => "ok " ++ showNames se ++ " / " ++ String.ofList ss
      | .error e => showErr e
    | some _ => "err not-a-kernel-complex"
    | none => "err ParseException"
  | ["kernel.string", seq, sst] =>
    "ok " ++ kernelString (words seq) sst.toList
  | ["symbols.unresolved"] =>
    "refs " ++ " ".intercalate (Symbols.unresolved.map (fun r => r.1 ++ ":" ++ r.2.1 ++ ":" ++ r.2.2))
  | _ => "bad-op"


/-! ### stateful part: histories of requests against the object world -/

def optS (s : String) : Option String := if s == "-" then none else some s
def optN (s : String) : Option Nat := if s == "-" then none else s.toNat?

def parseHandle (s : String) : Option Nat := if s.startsWith "h" then (s.drop 1).toString.toNat? else none

def parseSeq (s : String) : Option (List (Option Nat)) :=
  if s == "NONE" then none else
  some ((words s).map (fun t => if t == "+" then none else parseHandle t))

def parseHandles (s : String) : Option (List Nat) :=
  if s == "NONE" then none else some ((words s).filterMap parseHandle)

def showOut : Out → String
  | .ret id true => s!"ret h{id} new"
  | .ret id false => s!"ret h{id} old"
  | .singletonErr none => "err SingletonError existing=none"
  | .singletonErr (some id) => s!"err SingletonError existing=h{id}"
  | .objectInitErr => "err ObjectInitError"
  | .ssErr => "err SecondaryStructureError"
  | .notImplemented => "err NotImplementedError"
  | .assertion => "err AssertionError"
  | .fault k => "err Fault " ++ k

def showKey (k : CKey) : String := showNames k.1 ++ "/" ++ String.ofList k.2
def showLoc (l : Locus) : String := s!"{l.1}.{l.2}"

def showAns : Ans → String
  | .names l => "names " ++ showNames l
  | .chars l => "chars " ++ String.ofList l
  | .nat n => s!"nat {n}"
  | .str s => "str " ++ s
  | .stab t => "stab " ++ "|".intercalate (t.map showNames)
  | .ptab t => "ptab " ++ showPt t
  | .oloc l => "oloc " ++ showLocus l
  | .locs l => "locs " ++ " ".intercalate (l.map showLoc)
  | .bool b => if b then "bool True" else "bool False"
  | .rots l => "rots " ++ " ; ".intercalate (l.map (fun r => showNames r.1 ++ " / " ++ String.ofList r.2))
  | .key k => "key " ++ showKey k
  | .err e => showErr e

def parseLoc (s : String) : Option Locus :=
  match s.splitOn "." with
  | [a, b] => do let a ← a.toNat?; let b ← b.toNat?; some (a, b)
  | _ => none

def parseView (v : String) (arg : String) : Option View :=
  match v with
  | "sequence" => some .sequence | "structure" => some .structure | "kernel" => some .kernel
  | "size" => some .size | "strand_table" => some .strandTable | "pair_table" => some .pairTable
  | "strand_length" => arg.toNat?.map .strandLength
  | "get_domain" => (parseLoc arg).map .getDomain
  | "get_paired_loc" => (parseLoc arg).map .getPairedLoc
  | "get_loop_index" => (parseLoc arg).map .getLoopIndex
  | "exterior" => some .exterior | "enclosed" => some .enclosed | "is_connected" => some .isConnected
  | "rotate" => some .rotate | "rotate_pt" => some .rotatePt | "turns" => some .turns
  | "canon" => some .canon | "name" => some .name
  | _ => none

def cplxSuffix (w : World) (out : Out) : String :=
  match out with
  | .ret id _ =>
    match w.cstate.lookup id with
    | some o => " canon=" ++ showKey o.canon ++ s!" turns={o.turns}"
    | none => ""
  | _ => ""

def parseDType (s : String) : Option (Option DType) :=
  if s == "-" then some none else if s == "short" then some (some .short) else if s == "long" then some (some .long) else none

def stepW (w : World) (line : String) : World × String :=
  match line.splitOn "\t" with
  | ["reset"] => ({}, "ok")
  | ["cfg.dom", c, cutoff, sh, lo] =>
    match c.toNat?, cutoff.toNat?, sh.toNat?, lo.toNat? with
    | some c, some a, some b, some d =>
      ({ w with cfg := w.cfg.set c { cutoff := a, shortLen := b, longLen := d } }, "ok")
    | _, _, _, _ => (w, "bad-op")
  | ["cfg.prefix", kind, c, p] =>
    match c.toNat? with
    | none => (w, "bad-op")
    | some c =>
      let upd {κ} (cs : List (ClassReg κ)) : List (ClassReg κ) :=
        match cs[c]? with | some cr => cs.set c { cr with prefix_ := some p } | none => cs
      match kind with
      | "dom" => ({ w with doms := upd w.doms }, "ok")
      | "cplx" => ({ w with cplxs := upd w.cplxs }, "ok")
      | "strand" => ({ w with strands := upd w.strands }, "ok")
      | _ => (w, "bad-op")
  | ["mk.dom", c, name, len, pfx, dt] =>
    match c.toNat?, parseDType dt with
    | some c, some dt =>
      let (w', out) := w.mkDom c { name := optS name, length := optN len, prefix_ := optS pfx, dtype := dt }
      (w', showOut out)
    | _, _ => (w, "bad-op")
  | ["inv", h] =>
    match parseHandle h with
    | some id => let (w', out) := w.invert id; (w', showOut out)
    | none => (w, "bad-op")
  | ["mk.cplx", c, name, pfx, seq, sst] =>
    match c.toNat? with
    | some c =>
      let (w', out, _) := w.mkCplx c (parseSeq seq) sst.toList (optS name) (optS pfx)
      (w', showOut out ++ cplxSuffix w' out)
    | none => (w, "bad-op")
  | ["mk.strand", c, name, seq] =>
    match c.toNat? with
    | some c => let (w', out) := w.mkStrand c (parseSeq seq) (optS name); (w', showOut out)
    | none => (w, "bad-op")
  | ["mk.strandp", c, name, pfx, seq] =>
    match c.toNat? with
    | some c => let (w', out) := w.mkStrandP c (parseSeq seq) (optS name) (optS pfx); (w', showOut out)
    | none => (w, "bad-op")
  | ["mk.macro", c, name, ms] =>
    match c.toNat? with
    | some c => let (w', out) := w.mkMacro c (parseHandles ms) (optS name); (w', showOut out)
    | none => (w, "bad-op")
  | ["mk.rxn", c, name, rtype, rs, ps] =>
    match c.toNat? with
    | some c =>
      let (w', out, lists) := w.mkRxn c (parseHandles rs) (parseHandles ps) (optS rtype) (optS name)
      (w', showOut out ++ (match out, lists with
        | .ret _ true, some l => " lists=" ++ " + ".intercalate l.1 ++ " -> " ++ " + ".intercalate l.2
        | _, _ => ""))
    | none => (w, "bad-op")
  | ["split", h] =>
    match parseHandle h with
    | some id =>
      let (w', outs) := w.splitC id
      (w', "split " ++ " ".intercalate (outs.map (fun o => match o with
        | .ret i true => s!"h{i}:new" | .ret i false => s!"h{i}:old" | e => showOut e)))
    | none => (w, "bad-op")
  | ["gc"] => (w, "ok")
  | ["drop", h] =>
    match parseHandle h with
    | some id => (w.drop id, "ok")
    | none => (w, "bad-op")
  | ["names"] => (w, "names " ++ "|".intercalate (w.allNames.map (fun l => ",".intercalate l)))
  | ["live", hs] => (w, "live " ++ " ".intercalate ((words hs).map (fun h =>
      match parseHandle h with | some id => if w.isLive id then "1" else "0" | none => "?")))
  | ["cmp", h1, h2] =>
    match parseHandle h1, parseHandle h2 with
    | some a, some b =>
      let flags (eq lt gt : Bool) : String :=
        s!"eq={eq} lt={lt} gt={gt} le={eq || lt} ge={eq || gt}"
      match w.domObj a, w.domObj b with
      | some (_, x), some (_, y) =>
        (w, "cmp eq=" ++ toString (domEq x.canon y.canon) ++ s!" lt={domLt x.canon y.canon} gt={domLt y.canon x.canon}" ++
          s!" le={leOf strLt x.canon.1 y.canon.1} ge={leOf strLt y.canon.1 x.canon.1} hash={x.canon.1 == y.canon.1}")
      | _, _ =>
        match w.cplxObj a, w.cplxObj b with
        | some (_, x), some (_, y) =>
          (w, "cmp " ++ flags (x.canon == y.canon) (ckeyLt x.canon y.canon) (ckeyLt y.canon x.canon) ++ s!" hash={x.canon == y.canon}")
        | _, _ =>
          match w.macroObj a, w.macroObj b with
          | some (_, x), some (_, y) =>
            (w, "cmp " ++ flags (x.canon == y.canon) (mkeyLt x.canon y.canon) (mkeyLt y.canon x.canon) ++ s!" hash={x.canon == y.canon}")
          | _, _ =>
            let rx (id : Nat) : Option (Obj RKey) :=
              (w.node id).bind (fun n => if n.kind = .rxn then (w.rxns[n.cls]?).bind (fun cr => cr.reg.findId id) else none)
            match rx a, rx b with
            | some x, some y =>
              (w, "cmp " ++ flags (x.canon == y.canon) (rkeyLt x.canon y.canon) (rkeyLt y.canon x.canon) ++ s!" hash={x.canon == y.canon}")
            | _, _ => (w, "cmp incomparable")
    | _, _ => (w, "bad-op")
  | ["peek", h, _which] =>
    -- `next(c.rotate())` / `next(c.rotate_pt())`: the first item of an abandoned iteration is the current representation
    match parseHandle h with
    | some id =>
      match w.cstate.lookup id with
      | some o => (w, "peek " ++ showNames o.seq ++ " / " ++ String.ofList o.sst)
      | none => (w, "err Fault dead-handle")
    | none => (w, "bad-op")
  | ["set.turns", h, v] =>
    match parseHandle h, v.toInt? with
    | some id, some v =>
      let (w', e) := w.setTurns id v
      (w', match e with | none => "ok" | some e => showErr e)
    | _, _ => (w, "bad-op")
  | ["q", h, v, arg] =>
    match parseHandle h, parseView v arg with
    | some id, some v => let (w', a) := w.queryC id v; (w', showAns a)
    | _, _ => (w, "bad-op")
  | _ => (w, step line)


/-! ### the reader -/

def showRErr : RErr → String
  | .singleton => "err SingletonError" | .objectInit => "err ObjectInitError"
  | .secondaryStructure => "err SecondaryStructureError" | .notImplemented => "err NotImplementedError"
  | .assertion => "err AssertionError" | .pilFormat => "err PilFormatError"
  | .fault k => "err Fault " ++ k

def sortStr (l : List String) : List String := l.mergeSort (fun a b => !strLt b a)

def summary (s : RState) (sl : Slots) (d : RDict) (members : List (Nat × (List String × List String))) : String :=
  let doms := (d.domains.map (fun (p : String × Nat) =>
    let len := ((s.w.doms[sl.dom]?).bind (fun cr => cr.reg.findId p.2)).map (fun o => toString o.canon.2) |>.getD "?"
    p.1 ++ ":" ++ len ++ ":" ++ ((s.dseq.lookup p.2).getD "-")))
  let strands := d.strands.map (fun (p : String × Nat) =>
    p.1 ++ "=" ++ showNames (((s.w.node p.2).map (·.children)).getD [] |>.filterMap (fun c => (s.w.domObj c).map (·.2.name))))
  let cplxs := d.complexes.map (fun (p : String × Nat) =>
    match s.w.cstate.lookup p.2 with
    | some o => p.1 ++ "=" ++ showNames o.seq ++ "/" ++ String.ofList o.sst ++ "@" ++
        (match s.conc.lookup p.2 with | some (m, v, u) => m ++ "," ++ v ++ "," ++ u | none => "-")
    | none => p.1 ++ "=?")
  let macs := d.macrostates.map (fun (p : String × Nat) =>
    p.1 ++ "=" ++ ",".intercalate (sortStr (((s.w.node p.2).map (·.children)).getD [] |>.filterMap (fun c => (s.w.cplxObj c).map (·.2.name)))))
  let rx (id : Nat) : String :=
    let (rs, ps) := (members.lookup id).getD ([], [])
    let ty := ((s.w.rxns[sl.rxn]?).bind (fun cr => cr.reg.findId id)).map (fun o => o.canon.2.2.getD "None") |>.getD "?"
    let (ra, un) := (s.rate.lookup id).getD ("-", none)
    "+".intercalate (sortStr rs) ++ "->" ++ "+".intercalate (sortStr ps) ++ ":" ++ ty ++ ":" ++ ra ++ ":" ++ un.getD "None"
  "D[" ++ " ".intercalate (sortStr doms) ++ "] S[" ++ " ".intercalate (sortStr strands) ++ "] C[" ++ " ; ".intercalate (sortStr cplxs) ++
  "] M[" ++ " ".intercalate (sortStr macs) ++ "] DET[" ++ " ".intercalate (sortStr (d.det.map rx)) ++ "] CON[" ++
  " ".intercalate (sortStr (d.con.map rx)) ++ s!"] other={d.other}"

/-- reaction member names per reaction id, recovered from the parsed lines (the model stores ids only) -/
def rxnMembers (s : RState) (sl : Slots) (trees : List PP.Tree) (d : RDict) : List (Nat × (List String × List String)) :=
  -- every reaction object in the dictionary: match its canonical form against the lines' members
  (d.det ++ d.con).filterMap (fun id =>
    let found := trees.findSome? (fun t => match t with
      | .grp (.tok "reaction" :: .grp _ :: .grp rs :: .grp ps :: _) =>
        let r := tokList rs; let p := tokList ps
        -- compare through a look-up of the members' canonical forms
        let keyC (n : String) : Option MemKey :=
          ((s.w.cplxs[sl.cplx]?).bind (fun cr => cr.reg.findName n)).map (fun o => MemKey.c o.canon)
        let keyM (n : String) : Option MemKey :=
          ((s.w.macros[sl.macr]?).bind (fun cr => cr.reg.findName n)).map (fun o => MemKey.m o.canon)
        let canonC (l : List String) := (sortBy memLt (l.filterMap keyC))
        let canonM (l : List String) := (sortBy memLt (l.filterMap keyM))
        match ((s.w.rxns[sl.rxn]?).bind (fun cr => cr.reg.findId id)) with
        | some o =>
          let fullC := (r ++ p).all (fun n => (keyC n).isSome)
          let fullM := (r ++ p).all (fun n => (keyM n).isSome)
          if (fullC && o.canon.1 == canonC r && o.canon.2.1 == canonC p) || (fullM && o.canon.1 == canonM r && o.canon.2.1 == canonM p)
          then some (r, p) else none
        | none => none
      | _ => none)
    found.map (fun m => (id, m)))

def stepR (s : RState) (line : String) : RState × String :=
  match line.splitOn "\t" with
  | ["read.doc", hex, ign, slots, keep] =>
    let sl : Slots := match (words slots).map String.toNat? with
      | [some a, some b, some c, some d, some e] => { dom := a, strand := b, cplx := c, macr := d, rxn := e }
      | _ => {}
    match PP.parseDoc Gen.pil_env Gen.pil_grammar (String.ofList (unhex hex.toList)) with
    | none => (s, "read err ParseException")
    | some trees =>
      let before := s.w.held
      match s.readDoc sl (words ign) before trees {} with
      | (s1, .error e) => (s1, "read " ++ showRErr e)
      | (s1, .ok d) =>
        let out := "read ok " ++ summary s1 sl d (rxnMembers s1 sl trees d)
        if keep == "1" then (s1, out) else (s1.keepOnly before {}, out)
  | ["reset"] => ({}, "ok")
  | _ => let (w', r) := stepW s.w line; ({ s with w := w' }, r)

/-! ### the methods of `ComplexS` as translated from the source (Gen/PyComplexS.lean), executed on their own object states -/

structure DState where
  r : RState := {}
  py : List (Nat × Gen.ComplexS.Self) := []        -- handle ↦ the object as the translated methods left it
  ls : DriverLegacySeq.LegacySeqDState := {}       -- the translated legacy objects, class registry and sequence constraints (Gen/PyLegacy*.lean)
  dom : DriverDomain.DomainDState := {}            -- the class state of the translated DomainS request (Gen/PyDomain.lean); ops prefixed `pydom.`

/-- the translated object of a handle: as it was left, or (first use) as `__init__` leaves it for the model's description -/
def pyObj (d : DState) (id : Nat) : Option Gen.ComplexS.Self :=
  match d.py.lookup id with
  | some s => some s
  | none => (d.r.w.cstate.lookup id).map (fun o => Gen.py_ComplexS_init o.seq o.sst o.name (Int.ofNat o.turns))

def pySet (d : DState) (id : Nat) (s : Gen.ComplexS.Self) : DState := { d with py := (id, s) :: d.py.filter (fun p => p.1 != id) }

def stepD (d : DState) (line : String) : DState × String :=
  match line.splitOn "\t" with
  | ["reset"] => ({}, "ok")
  | ["pyq", h, v, arg] =>
    match parseHandle h, parseView v arg with
    | some id, some v =>
      match pyObj d id with
      | some s =>
        let (r, s') := (PyObj.pyAnswer v).exec s
        (pySet d id s', showAns (match r with | .ok a => a | .error e => .err e))
      | none => (d, "err Fault dead-handle")
    | _, _ => (d, "bad-op")
  | ["pyset.turns", h, v] =>
    match parseHandle h, v.toInt? with
    | some id, some v =>
      match pyObj d id with
      | some s =>
        let (r, s') := (Gen.py_ComplexS_set_turns v).exec s
        (pySet d id s', match r with | .ok _ => "ok" | .error e => showErr e)
      | none => (d, "err Fault dead-handle")
    | _, _ => (d, "bad-op")
  | ["pypeek", h, which] =>
    -- `next(c.rotate())` / `next(c.rotate_pt())` read through the list the generator is translated to: its first item
    match parseHandle h with
    | some id =>
      match pyObj d id with
      | some s =>
        let m : Gen.ComplexS.M (List (List String × List Char)) :=
          if which == "rotate_pt" then do let l ← Gen.py_ComplexS_rotate_pt none; PyObj.rotsOfPt l else Gen.py_ComplexS_rotate none
        let (r, s') := m.exec s
        (pySet d id s', match r with
          | .ok (x :: _) => "peek " ++ showNames x.1 ++ " / " ++ String.ofList x.2
          | .ok [] => "err Fault StopIteration"
          | .error e => showErr e)
      | none => (d, "err Fault dead-handle")
    | none => (d, "bad-op")
  | _ =>
    if line.startsWith "pydom." then
      match DriverDomain.stepDomain d.dom (line.drop 6).toString with
      | some (dom', out) => ({ d with dom := dom' }, out)
      | none => (d, "bad-op")
    else
    match (((DriverKernel.stepKernel line).orElse (fun _ => DriverIdent.stepIdent line)).orElse (fun _ => DriverIdent2.stepIdent2 line)).orElse
        (fun _ => ((DriverSingleton.stepSingleton line).orElse (fun _ => DriverUnits.stepUnits line)).orElse (fun _ => ((DriverSetObjects.stepSetObjects line).orElse (fun _ => DriverComplexS2.stepComplexS2 line)).orElse (fun _ => (DriverReaderFns.stepReaderFns line).orElse (fun _ => (DriverSetters.stepSetters line).orElse (fun _ => (DriverComplexS3.stepComplexS3 line).orElse (fun _ => ((DriverReadPil.stepReadPil line).orElse (fun _ => DriverDunders.stepDunders line)).orElse (fun _ => (((DriverMembers.stepMembers line).orElse (fun _ => DriverMembers2.stepMembers2 line)).orElse (fun _ => DriverStrings.stepStrings line)).orElse (fun _ => DriverReadLine.stepReadLine line)))))))) with
    | some out => (d, out)
    | none =>
      match DriverLegacySeq.stepLegacySeq d.ls line with
      | some (ls', out) => ({ d with ls := ls' }, out)
      | none => let (r', out) := stepR d.r line; ({ d with r := r' }, out)

end Dsd.Driver
