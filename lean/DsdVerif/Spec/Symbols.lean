/-
C16 (static part): every global name referenced from a function, method, lambda, comprehension
or class body of the package is bound at module level of its module, or is a Python builtin.
The reference table is regenerated from the working tree by translator/gen.py (symtable).
-/
import DsdVerif.Gen.Symbols

namespace Dsd.Symbols

def defsOf (m : String) : List String :=
  match Gen.module_defs.find? (fun r => r.1 == m) with
  | some r => r.2
  | none => []

def resolved (r : String × String × String) : Bool :=
  (defsOf r.1).contains r.2.2 || Gen.py_builtins.contains r.2.2

/-- the references that would raise NameError when executed -/
def unresolved : List (String × String × String) := Gen.global_refs.filter (fun r => !resolved r)

end Dsd.Symbols
