/-
The whole request `DomainS(name, length, prefix, dtype)` = `Singleton.__call__(cls, …)` for `cls = DomainS`, assembled from the
GENERATED translations `Gen.py_DomainS_identifiers` (translator/pydomain.py) and `Gen.py_Singleton_call` (translator/pysingleton.py)
and a hand-transcribed attribute part of `DomainS.__init__`.  A copy of the definitions of lean/DsdVerif/DriverDomain.lean outside the
driver, so that proofs can import it (`Lemmas/PyDomainEqReq.lean` shows the two equal by `rfl`); DriverDomain could import this file.
-/
import DsdVerif.Gen.PyDomain
import DsdVerif.Gen.PySingleton

namespace Dsd.PyDomainRequest
open Dsd

/-- run a method of the metaclass on the two dictionaries of the class -/
def zoom {α} (m : Py.SM (String × Nat) α) : Py.Dom.M α := do
  let s ← get
  let (r, reg') := Py.MS.exec m s.reg
  set { s with reg := reg' }
  match r with
  | .ok a => pure a
  | .error e => throw e

/-- the attribute part of `DomainS.__init__(self, name, length, prefix, dtype)` for the new object `id` (by hand) -/
def initObj (shortLen longLen : Nat) (pfx : String) (id : Nat) (q : Py.Dom.Req) : Py.Dom.M Unit := do
  let s ← get
  let name := match q.name with
    | some n => n
    | none => (q.prefix_.getD pfx) ++ toString s.ID
  let length := match q.length with
    | some l => some l
    | none => if q.dtype == some "short" then some shortLen else if q.dtype == some "long" then some longLen else none
  set { s with ID := if q.name.isNone then s.ID + 1 else s.ID, heap := s.heap ++ [(id, ({ _name := name, _length := length } : Py.Dom.Obj))] }

/-- `Singleton.__call__(cls, name, length, prefix, dtype)` for `cls = DomainS`; `fuel` bounds the nesting of requests -/
def requestPy (cutoff shortLen longLen : Nat) (pfx : String) : Nat → Nat → Nat → Py.Dom.Req → Py.Dom.M Nat
  | 0, _, _, _ => throw (.fault "RecursionError")
  | fuel + 1, fresh, tmp, q => do
    let (canon, name, kwadd) ← Gen.py_DomainS_identifiers (requestPy cutoff shortLen longLen pfx fuel tmp tmp) tmp
      cutoff shortLen longLen pfx q.name q.length q.prefix_ q.dtype
    let q' := match kwadd with
      | some l => { q with length := some l }
      | none => q
    match (← zoom (Gen.py_Singleton_call canon name fresh [])) with
    | some id =>
      if id == fresh then initObj shortLen longLen pfx id q'
      pure id
    | none => throw (.fault "translator:None")

end Dsd.PyDomainRequest
