/-
Independent specification of the IUPAC nucleotide codes (the standard, as in the module's
docstring) and the executable row checks (`…RowOk`) whose universal closure is proved in
Props/C17.  The driver evaluates the same checks to name failing rows when a proof breaks.
-/
import DsdVerif.Model.Iupac

namespace Dsd.Iupac

inductive Base | A | C | G | T     -- `T` stands for thymine (DNA) or uracil (RNA)
deriving DecidableEq, Repr

/-- the character that denotes the fourth base -/
def tChar : Material → Char | .dna => 'T' | .rna => 'U'

/-- denotation of a code: the set of bases it allows (IUPAC standard). -/
def den (m : Material) (c : Char) : Option (List Base) :=
  if c = tChar m then some [.T] else
  match c with
  | 'A' => some [.A] | 'C' => some [.C] | 'G' => some [.G]
  | 'R' => some [.A, .G] | 'Y' => some [.C, .T] | 'S' => some [.C, .G] | 'M' => some [.A, .C]
  | 'W' => some [.A, .T] | 'K' => some [.G, .T]
  | 'V' => some [.A, .C, .G] | 'H' => some [.A, .C, .T] | 'D' => some [.A, .G, .T] | 'B' => some [.C, .G, .T]
  | 'N' => some [.A, .C, .G, .T]
  | _ => none

def codes (m : Material) : List Char :=
  ['A', 'C', 'G', tChar m, 'R', 'Y', 'S', 'M', 'W', 'K', 'V', 'H', 'D', 'B', 'N']

def bit : Base → Nat | .A => 8 | .C => 4 | .G => 2 | .T => 1
/-- a set of bases as a 4-bit mask (order-insensitive, duplicate-insensitive) -/
def mask (bs : List Base) : Nat := bs.foldl (fun a b => a ||| bit b) 0

def wcPartner : Base → List Base | .A => [.T] | .T => [.A] | .C => [.G] | .G => [.C]
def wobblePartners : Base → List Base | .A => [.T] | .C => [.G] | .G => [.C, .T] | .T => [.A, .G]

def image (f : Base → List Base) (bs : List Base) : List Base := bs.flatMap f

/-- row check: the table maps `c` to a code denoting exactly the image of `c`'s bases -/
def rowOk (tbl : List (Char × Char)) (f : Base → List Base) (m : Material) (c : Char) : Bool :=
  match lookup tbl c, den m c with
  | some d, some bs =>
    match den m d with
    | some ds => mask ds == mask (image f bs)
    | none => false
  | _, _ => false

def wcRowOk (m : Material) (c : Char) : Bool := rowOk (wcTable m) wcPartner m c
def wobbleRowOk (m : Material) (c : Char) : Bool := rowOk (wobbleTable m) wobblePartners m c

/-- the table has exactly the 15 codes of its material as keys -/
def keysOk (tbl : List (Char × Char)) (m : Material) : Bool :=
  tbl.map (·.1) == codes m

def binRowOk (c : Char) : Bool :=
  match lookup Gen.iupac_bin c with
  | some b => (den .dna c).map mask == some b || (den .rna c).map mask == some b
  | none => false

def binInvOk (m : Material) (c : Char) : Bool :=
  match lookup Gen.iupac_bin c with
  | some b => (binTable m)[b]? == some (String.singleton c)
  | none => false

def swapTU (c : Char) : Char := if c = 'T' then 'U' else c

def failingRows (m : Material) : List (String × Char) :=
  ((codes m).filter (fun c => !wcRowOk m c)).map (fun c => ("wc", c)) ++
  ((codes m).filter (fun c => !wobbleRowOk m c)).map (fun c => ("wobble", c)) ++
  ((codes m).filter (fun c => !binRowOk c)).map (fun c => ("bin", c)) ++
  ((codes m).filter (fun c => !binInvOk m c)).map (fun c => ("bininv", c))

end Dsd.Iupac
