/-
The methods of `ComplexS` as translated from the source (Gen/PyComplexS.lean, regenerated on every run): the views rendered
as the model's `Ans`, the cache-free description of a translated object, and the coherence invariant of its lazily filled
attributes.  Props/PyComplexS.lean proves that every translated view of a coherent object answers like the cache-free
specification of its current representation and that the translated `turns` setter is the model's.
-/
import DsdVerif.Gen.PyComplexS
import DsdVerif.Model.CplxObject

namespace Dsd.PyObj
open Dsd

def noneErr : Err := .fault "None"

def rotsOfPt (l : List (List (List String) × PairTable)) : Except Err (List (List String × List Char)) :=
  l.mapM (fun p => do
    let seq ← Gen.py_strand_table_to_sequence_list p.1 "+"
    let sst ← Gen.py_pair_table_to_dot_bracket p.2 '+' true
    pure (seq, sst))

/-- a view of the translated object, rendered like the model's answers -/
def pyAnswer (v : View) : Gen.ComplexS.M Ans :=
  match v with
  | .sequence => do return .names (← Gen.py_ComplexS_sequence)
  | .structure => do return .chars (← Gen.py_ComplexS_structure)
  | .kernel => do return .str (String.ofList (← Gen.py_ComplexS_kernel_string))
  | .size => do return .nat (← Gen.py_ComplexS_size)
  | .strandTable => do return .stab (← Gen.py_ComplexS_strand_table)
  | .pairTable => do return .ptab (← Gen.py_ComplexS_pair_table)
  | .strandLength k => do return .nat (← Gen.py_ComplexS_strand_length k)
  | .getDomain l => do return .str (← Gen.py_ComplexS_get_domain l)
  | .getPairedLoc l => do return .oloc (← Gen.py_ComplexS_get_paired_loc l)
  | .getLoopIndex l => do return .nat (← Gen.py_ComplexS_get_loop_index l)
  | .exterior => do
    match (← Gen.py_ComplexS_exterior_domains) with
    | some l => return .locs l
    | none => throw noneErr
  | .enclosed => do
    match (← Gen.py_ComplexS_enclosed_domains) with
    | some l => return .locs l
    | none => throw noneErr
  | .isConnected => do return .bool (← Gen.py_ComplexS_is_connected)
  | .rotate => do return .rots (← Gen.py_ComplexS_rotate none)
  | .rotatePt => do
    let l ← Gen.py_ComplexS_rotate_pt none
    return .rots (← rotsOfPt l)
  | .turns => do return .nat (← Gen.py_ComplexS_turns).toNat
  | .canon => throw (.fault "not-translated")
  | .name => do return .str (← Gen.py_ComplexS_name)


/-- an operation on the translated object: the answer, and the object afterwards -/
def pyQuery (s : Gen.ComplexS.Self) (v : View) : Gen.ComplexS.Self × Ans :=
  let r := (pyAnswer v).exec s
  (r.2, match r.1 with | .ok a => a | .error e => .err e)

def pySetTurns (s : Gen.ComplexS.Self) (v : Int) : Gen.ComplexS.Self × Option Err :=
  let r := (Gen.py_ComplexS_set_turns v).exec s
  (r.2, match r.1 with | .ok _ => none | .error e => some e)

/-- the model object with the same representation and no caches (the canonical form is not part of the translated object) -/
def toObj (s : Gen.ComplexS.Self) (canon : CKey) : CplxObj :=
  { seq := s._sequence, sst := s._structure, turns := s._turns.toNat, canon := canon, name := s._name }

/-- truth value of a None-able list attribute -/
abbrev truthy {α} (o : Option (List α)) : Bool := Py.truthyOL o

end Dsd.PyObj
