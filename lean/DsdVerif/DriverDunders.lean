/-
Stateless driver op for the comparison methods as TRANSLATED from the source text (Gen/PyDunders.lean):

  pydunder  <family>  <a>  <b>        family: dom | cplx | macro | rxn;  `<b>` may be `foreign`

dom: `<name>:<length>`; cplx: `<names separated by blanks>|<structure>`; macro: keys separated by `/`; rxn: `<keys / …>><keys / …>><type>`.
Answer: the results of `== != < > <= >=` (T / F / the exception) and whether `hash` agrees (for the sample hash: the length of the name / of the key's text).
-/
import DsdVerif.Gen.PyDunders

namespace Dsd.DriverDunders
open Dsd Dsd.Py.Dunder

abbrev Key := List String × List Char

def words (s : String) : List String := (s.splitOn " ").filter (· ≠ "")
def parseKey (s : String) : Option Key := match s.splitOn "|" with | [a, b] => some (words a, b.toList) | _ => none
def parseKeys (s : String) : Option (List Key) := if s == "" then some [] else (s.splitOn "/").mapM parseKey
def parseDom (s : String) : Option (String × Nat) := match s.splitOn ":" with | [n, l] => l.toNat?.map (fun l => (n, l)) | _ => none
def parseRxn (s : String) : Option RKeyC :=
  match s.splitOn ">" with
  | [r, p, t] => do let r ← parseKeys r; let p ← parseKeys p; some (r, p, t)
  | _ => none

def showR (r : Py.M Bool) : String :=
  match r with
  | .ok true => "T" | .ok false => "F"
  | .error .assertion => "AssertionError" | .error (.fault k) => k | .error _ => "err"

def six {κ} (eq ne lt gt le ge : κ → Operand κ → Py.M Bool) (a : κ) (b : Operand κ) : String :=
  " ".intercalate [showR (eq a b), showR (ne a b), showR (lt a b), showR (gt a b), showR (le a b), showR (ge a b)]

def operandOf {κ} (p : String → Option κ) (s : String) : Option (Operand κ) :=
  if s == "foreign" then some .foreign else (p s).map .same

def stepDunders (line : String) : Option String :=
  match line.splitOn "\t" with
  | ["pydunder", "dom", a, b] =>
    some (match parseDom a, operandOf parseDom b with
    | some a, some b => six Gen.py_DomainS___eq__ Gen.py_DomainS___ne__ Gen.py_DomainS___lt__ Gen.py_DomainS___gt__ Gen.py_DomainS___le__ Gen.py_DomainS___ge__ a b
    | _, _ => "bad-op")
  | ["pydunder", "cplx", a, b] =>
    some (match parseKey a, operandOf parseKey b with
    | some a, some b => six Gen.py_ComplexS___eq__ Gen.py_ComplexS___ne__ Gen.py_ComplexS___lt__ Gen.py_ComplexS___gt__ Gen.py_ComplexS___le__ Gen.py_ComplexS___ge__ a b
    | _, _ => "bad-op")
  | ["pydunder", "macro", a, b] =>
    some (match parseKeys a, operandOf parseKeys b with
    | some a, some b => six Gen.py_MacrostateS___eq__ Gen.py_MacrostateS___ne__ Gen.py_MacrostateS___lt__ Gen.py_MacrostateS___gt__ Gen.py_MacrostateS___le__ Gen.py_MacrostateS___ge__ a b
    | _, _ => "bad-op")
  | ["pydunder", "rxn", a, b] =>
    some (match parseRxn a, operandOf parseRxn b with
    | some a, some b => six Gen.py_ReactionS___eq__ Gen.py_ReactionS___ne__ Gen.py_ReactionS___lt__ Gen.py_ReactionS___gt__ Gen.py_ReactionS___le__ Gen.py_ReactionS___ge__ a b
    | _, _ => "bad-op")
  | _ => none

end Dsd.DriverDunders
