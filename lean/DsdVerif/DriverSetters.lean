/-
Stateless driver op for the identity-protecting property setters as TRANSLATED from the source text (Gen/PySetters.lean):

  pysetter  <Class>.<attribute>  <value>

runs the translated setter on a sample object of the class with the value (the translation is polymorphic in it: sent as text) and
answers `err SingletonError existing=None unchanged` / `… changed`, resp. `ok unchanged` / `ok changed` if the setter returns.
-/
import DsdVerif.Gen.PySetters

namespace Dsd.DriverSetters
open Dsd

def report {σ} [DecidableEq σ] (m : Py.MS σ Unit) (s : σ) : String :=
  let (r, s') := m.exec s
  (match r with
   | .ok _ => "ok"
   | .error (.singleton none) => "err SingletonError existing=None"
   | .error (.singleton (some _)) => "err SingletonError existing=obj"
   | .error (.fault k) => "err " ++ k
   | .error _ => "err other") ++ (if s' = s then " unchanged" else " changed")

def dom : Gen.DomainSObj.Self := { _name := "a", _length := 5 }
def cplx : Gen.ComplexS.Self := Gen.py_ComplexS_init ["a", "+", "b"] ['(', '+', ')'] "X" 0
def macroObj : Gen.MacrostateSObj.Self :=
  { _complexes := [("A", (["a"], ['.']))], _representative := ("A", (["a"], ['.'])), _canonical_form := some [("A", (["a"], ['.']))] }
def rxn : Gen.ReactionSObj.Self :=
  { _reactants := [("A", .c (["a"], ['.']))], _products := [], _rtype := some "open", _const := none, _units := none, _name := some "r",
    _canonical_form := some ([.c (["a"], ['.'])], [], some "open") }

def stepSetters (line : String) : Option String :=
  match line.splitOn "\t" with
  | ["pysetter", what, v] =>
    some (match what with
    | "DomainS.name" => report (Gen.py_DomainS_name_set v) dom
    | "DomainS.length" => report (Gen.py_DomainS_length_set v) dom
    | "ComplexS.name" => report (Gen.py_ComplexS_name_set v) cplx
    | "ComplexS.canonical_form" => report (Gen.py_ComplexS_canonical_form_set v) cplx
    | "MacrostateS.complexes" => report (Gen.py_MacrostateS_complexes_set v) macroObj
    | "MacrostateS.representative" => report (Gen.py_MacrostateS_representative_set v) macroObj
    | "ReactionS.reactants" => report (Gen.py_ReactionS_reactants_set v) rxn
    | "ReactionS.products" => report (Gen.py_ReactionS_products_set v) rxn
    | "ReactionS.rtype" => report (Gen.py_ReactionS_rtype_set v) rxn
    | "ReactionS.name" => report (Gen.py_ReactionS_name_set v) rxn
    | _ => "bad-op")
  | _ => none

end Dsd.DriverSetters
