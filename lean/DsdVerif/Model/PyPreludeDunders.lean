/-
Python primitives used by the comparison / hash methods of dsdobjects/base_classes.py as `translator/pydunders.py` transcribes them
into `Gen/PyDunders.lean` (namespace `Dsd.Py.Dunder`).  Same discipline as Model/PyPrelude.lean.
-/
import DsdVerif.Model.PyPreludeIdent2

namespace Dsd.Py.Dunder

/-- the second operand of a comparison method, as far as the method can tell: an object of the method's own kind (an instance of
    the class named in its `isinstance` guard, subclasses included), read through the attributes `κ` the methods read — or anything else -/
inductive Operand (κ : Type)
  | same (k : κ)
  | foreign
deriving Repr, DecidableEq

/-- `isinstance(other, <the class>)` -/
def isSame {κ} : Operand κ → Bool
  | .same _ => true
  | .foreign => false

/-- reading a library attribute (`other.name`, `other.canonical_form`) of the operand: AttributeError for anything that is not an
    object of the kind (an object of another library class may have an attribute of that name; such operands are outside this typing) -/
def attrs {κ} : Operand κ → Py.M κ
  | .same k => pure k
  | .foreign => throw (.fault "AttributeError")

/-- `a <= b` on strs / tuples of strs / tuples of such tuples, for their `<` given as `lt`: equal, or smaller -/
def le {κ} [BEq κ] (lt : κ → κ → Bool) (a b : κ) : Bool := a == b || lt a b

/-- `a >= b`: equal, or greater -/
def ge {κ} [BEq κ] (lt : κ → κ → Bool) (a b : κ) : Bool := a == b || lt b a

/-- canonical form of a reaction among complexes whose type is a str: `(reactant forms, product forms, type)`.  (Typing: members
    that are macrostates and a `None` type make Python's tuple comparison raise — AssertionError / TypeError; outside this reading, as
    in Model/Objects.lean `optStrLt`.) -/
abbrev RKeyC := List (List String × List Char) × List (List String × List Char) × String

/-- `a < b` on such triples: the first component that differs (by `==`) decides -/
def rkeyLt (a b : RKeyC) : Bool :=
  if a.1 == b.1 then (if a.2.1 == b.2.1 then Py.strLt a.2.2 b.2.2 else Py.seqLt Py.ckeyLt a.2.1 b.2.1)
  else Py.seqLt Py.ckeyLt a.1 b.1

end Dsd.Py.Dunder
