/-
Linear bracket words and the stack matcher — the algorithm of `make_pair_table`
(dsdobjects/complex_utils.py) on a word without strand breaks.
-/
namespace Dsd.Bracket

inductive Sym | op | cl | dot
deriving DecidableEq, Repr

/-- loop state of `make_pair_table`: the table built so far and the stack of open positions -/
structure St where
  tbl : List (Option Nat)
  stack : List Nat
deriving Repr

def step (s : St) : Sym → Option St
  | .dot => some { s with tbl := s.tbl ++ [none] }
  | .op  => some { tbl := s.tbl ++ [none], stack := s.tbl.length :: s.stack }
  | .cl  => match s.stack with
    | [] => none
    | t :: rest => some { tbl := (s.tbl.set t (some s.tbl.length)) ++ [some t], stack := rest }

def run (s : St) : List Sym → Option St
  | [] => some s
  | c :: cs => (step s c).bind (fun s' => run s' cs)

/-- the linear pair table of a word, `none` if the word is unbalanced -/
def matchW (w : List Sym) : Option (List (Option Nat)) :=
  match run ⟨[], []⟩ w with
  | some ⟨t, []⟩ => some t
  | _ => none

/-- partner of position `i` in a linear table -/
def P (t : List (Option Nat)) (i : Nat) : Option Nat := (t[i]?).join

end Dsd.Bracket
