/-
Python primitives used by `DSD_Complex.__init__` as `translator/pylegacy3.py` transcribes it (Gen/PyLegacyInit.lean).  Tag `LegI_`.
-/
import DsdVerif.Model.PyPreludeLegacyReg

namespace Dsd.Py

/-- `s[-1]` of a str: its last character, IndexError for the empty str -/
def LegI_lastChar (s : String) : M Char :=
  match s.toList.getLast? with
  | some c => pure c
  | none => throw (.fault "IndexError")

/-- `c.isdigit()` of a one-character str, on ASCII digits (as Model/LegacyFull.lean; other Unicode digits are outside this reading) -/
def LegI_isdigit (c : Char) : Bool := c.isDigit

/-- `str(n)` of a non-negative int: its decimal numeral -/
def LegI_strNat (n : Nat) : String := toString n

end Dsd.Py
