/-
Full model of `DomainS.identifiers` + `Singleton.__call__` (dsdobjects/base_classes.py, singleton.py), including the
NESTED requests `identifiers` makes and the temporary objects these create.

`Model/Objects.lean: domainRequest` models the net effect only.  Here the Python text is followed statement by
statement:

    canon, name, kwadd = cls.identifiers(*args, **kwargs)        -- may call `cls(...)` again
    kwargs.update(kwadd); … look-up / refusal / creation …        -- `Reg.call`

A nested `cls(...)` that *creates* an object registers it (`Reg.call` → `Reg.register`); nobody but the expression
under evaluation holds it, so it dies — both weak dictionary entries vanish (`Reg.drop`) — as soon as that
expression's value has been consumed (`len(...)`) or discarded (the bare statement `cls(cname, length = length)`).
At most one temporary is alive at any time and it is dead before the enclosing request creates its own object, so
all temporaries take the single identity `tmp` (a supply separate from `fresh`, the identity of the object the
outermost request may create).  Temporaries are always named, so they never consume an automatic name
(`DomainS.__init__` increments `ID` only when `name is None`): they are registered with `autoNamed = false`.
-/
import DsdVerif.Model.Objects

namespace Dsd
namespace DomFull

/-- `(canon, name, kwadd.get('length'))` -/
abbrev Idents := Option DKey × String × Option Nat

/-- the first lines of `identifiers`: default length from `dtype`, or the dtype/length consistency check -/
def lengthArg (cfg : DomCfg) (q : DomReq) : Except Unit (Option Nat) :=
  match q.length with
  | none => .ok (match q.dtype with | some .short => some cfg.shortLen | some .long => some cfg.longLen | none => none)
  | some l => match q.dtype with
    | some d => if (d == .short) == (decide (l ≤ cfg.cutoff)) then .ok (some l) else .error ()
    | none => .ok (some l)

/-- `len(obj)` of the object a nested request returned, and the registry after that object's last reference is gone
    (it dies only if the nested request created it: otherwise somebody else holds it) -/
def lenAndRelease (r1 : Reg DKey) (id : Nat) (created : Bool) : Option Nat × Reg DKey :=
  ((r1.findId id).map (fun o => o.canon.2), if created then r1.drop id else r1)

/-- the body of `identifiers` once `name` and `length` are settled: the complement checks with their nested
    requests; `nested r q` is `cls(**q)` evaluated in registry `r` -/
def identTail (nested : Reg DKey → DomReq → Reg DKey × Out) (r : Reg DKey) (name : String) (length : Option Nat) :
    Reg DKey × Except Out Idents :=
  -- cname = name[:-1] if name[-1] == '*' else name + '*'
  let cname := cnameOf name
  match length with
  | none =>
    if isStarred name then
      -- try: length = len(cls(cname, length = None)); newargs = {'length': length}
      -- except SingletonError: pass
      match nested r { name := some cname, length := none } with
      | (r1, .ret id created) =>
        match lenAndRelease r1 id created with
        | (some l, r2) => (r2, .ok (some (name, l), name, some l))
        | (none, r2) => (r2, .error (.fault "TypeError"))
      | (r1, .singletonErr _) => (r1, .ok (none, name, none))
      | (r1, e) => (r1, .error e)
    else (r, .ok (none, name, none))
  | some l =>
    -- `elif length is not None and name[-1] != '*'` (before the repair of C04: `elif length and …`, which skipped both
    -- checks for length 0)
    if !isStarred name then
      -- clength = length
      -- try: clength = len(cls(cname)); cls(cname, length = length)
      -- except SingletonError: if clength != length: raise SingletonError(…wrong length…)
      match nested r { name := some cname } with
      | (r1, .ret id1 c1) =>
        match lenAndRelease r1 id1 c1 with
        | (some clength, r2) =>
          match nested r2 { name := some cname, length := some l } with
          | (r3, .ret id2 c2) => ((lenAndRelease r3 id2 c2).2, .ok (some (name, l), name, none))
          | (r3, .singletonErr _) =>
            if clength ≠ l then (r3, .error (.singletonErr none)) else (r3, .ok (some (name, l), name, none))
          | (r3, e) => (r3, .error e)
        | (none, r2) => (r2, .error (.fault "TypeError"))
      | (r1, .singletonErr _) => (r1, .ok (some (name, l), name, none))     -- clength = length
      | (r1, e) => (r1, .error e)
    else
      -- try: clength = len(cls(cname))
      -- except SingletonError: clength = length
      -- if clength != length: raise SingletonError(…wrong length…)
      match nested r { name := some cname } with
      | (r1, .ret id1 c1) =>
        match lenAndRelease r1 id1 c1 with
        | (some clength, r2) =>
          if clength ≠ l then (r2, .error (.singletonErr none)) else (r2, .ok (some (name, l), name, none))
        | (none, r2) => (r2, .error (.fault "TypeError"))
      | (r1, .singletonErr _) => (r1, .ok (some (name, l), name, none))
      | (r1, e) => (r1, .error e)

/-- `DomainS.identifiers(name, length, prefix, dtype)` -/
def identifiers (nested : Reg DKey → DomReq → Reg DKey × Out) (cfg : DomCfg) (r : Reg DKey) (q : DomReq) :
    Reg DKey × Except Out Idents :=
  -- if name is None: name = f'{prefix}{cls.ID}'
  let name := match q.name with
    | some n => n
    | none => (q.prefix_.getD cfg.prefix_) ++ toString r.autoId
  -- if length is None: length = default of dtype;  elif dtype and …: raise ObjectInitError
  match lengthArg cfg q with
  | .error _ => (r, .error .objectInitErr)
  | .ok length =>
    -- `name[-1]` raises IndexError on the empty name
    if name.isEmpty then (r, .error (.fault "IndexError")) else identTail nested r name length

/-- `Singleton.__call__(cls, name, length, prefix, dtype)` with `depth` levels of nesting available; an object it
    creates gets identity `fresh`, temporaries of nested requests get identity `tmp` -/
def callF : Nat → DomCfg → Reg DKey → Nat → Nat → DomReq → Reg DKey × Out
  | 0, _, r, _, _, _ => (r, .fault "RecursionError")
  | depth + 1, cfg, r, fresh, tmp, q =>
    match identifiers (fun r' q' => callF depth cfg r' tmp tmp q') cfg r q with
    | (r1, .error e) => (r1, e)
    | (r1, .ok (canon, name, _)) =>
      -- kwargs.update(kwadd): the new object is initialised with the inherited length, i.e. with `canon`'s length
      r1.call canon (some name) fresh canon.toList q.name.isNone

end DomFull

/-- the name `identifiers` works with -/
def DomReq.effName (cfg : DomCfg) (r : Reg DKey) (q : DomReq) : String :=
  match q.name with
  | some n => n
  | none => (q.prefix_.getD cfg.prefix_) ++ toString r.autoId

/-- the full request; the nesting depth of `identifiers` is at most (number of trailing stars) + 2 -/
def domainRequestFullT (cfg : DomCfg) (r : Reg DKey) (fresh tmp : Nat) (q : DomReq) : Reg DKey × Out :=
  DomFull.callF ((q.effName cfg r).length + 3) cfg r fresh tmp q

/-- temporaries take the identity after `fresh` -/
def domainRequestFull (cfg : DomCfg) (r : Reg DKey) (fresh : Nat) (q : DomReq) : Reg DKey × Out :=
  domainRequestFullT cfg r fresh (fresh + 1) q

end Dsd
