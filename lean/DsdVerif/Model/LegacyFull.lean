/-
Statement-by-statement model of the legacy class `DSD_Complex` (dsdobjects/core/deprecated.py, from line 623) and of
its class-level registry state

    ID      — counter for automatic names
    NAMES   — dict  name ↦ canonical form
    MEMORY  — dict  canonical form ↦ object          (a plain dict: the objects stay alive until `clear_memory()`)

Modelled: `__init__` (naming with prefix / ID, the length check, `memorycheck`, the two registry writes in the order of
the code), `do_memorycheck`, the `canonical_form` property with its loop over the generator `rotate()`, `size`,
`rotate_once` with its OWN bracket-flipping loops (index loops over `range(p)` / `reversed(range(p + 1, len))` with a
Python list as stack), `rotate_pairtable_loc` with its own `wrap`, `kernel_string`, the lazily filled views
(`pair_table`, `loop_index`, `lol_sequence`, `get_loop_index`, `get_domain`, `get_paired_loc`, `exterior_domains`,
`enclosed_domains`, `is_connected`, `strand_length`), the comparison methods, and `clear_memory()`.

`make_lol_sequence`, `make_pair_table`, `make_loop_index` are reached through the deprecated wrappers, which are pure
delegations to the modelled utility functions (Props/C20Wrappers.lean): `makeStrandTableList`, `makePairTable`,
`makeLoopIndex`.

Conventions.  Sequence elements are names (the code maps `str` over them), structure elements are characters.  Python
exceptions are values of `LErr`.  Object identity is a handle number (`id`); `MEMORY` stores the object as it is at
registration time — of the registered object the code only ever reads its identity and `_rotations` afterwards, and
these never change once `canonical_form` has been computed.  `str.isdigit` is modelled on ASCII digits.
-/
import DsdVerif.Model.Objects

namespace Dsd.Lg
open Dsd

/-- the exceptions the legacy class raises or lets through -/
inductive LErr
  | objects (msg : String)                            -- DSDObjectsError(message, …)
  | duplication (existing : Nat) (rotations : Int)    -- DSDDuplicationError with `.existing`, `.rotations`
  | secondaryStructure                                -- SecondaryStructureError of the utility functions
  | notImplemented
  | fault (kind : String)                             -- IndexError, TypeError, KeyError, ZeroDivisionError
deriving DecidableEq, Repr

/-- a `DSD_Complex` instance: the fields `__init__` sets, in its order -/
structure LObj where
  id : Nat
  name : String                                         -- `_name`
  seq : List String                                     -- `_sequence`
  sst : List Char                                       -- `_structure`
  canon : Option CKey := none                           -- `_canonical_form`
  rotations : Option Nat := none                        -- `_rotations`
  strandLengths : Option (List Nat) := none             -- `_strand_lengths`
  pairTable : Option PairTable := none                  -- `_pair_table`
  loopIndex : Option (List (List Nat)) := none          -- `_loop_index`
  exteriorLoops : Option (List Nat) := none             -- `_exterior_loops`
  lolSequence : Option (List (List String)) := none     -- `_lol_sequence`
  exteriorDomains : Option (List Locus) := none         -- `_exterior_domains`
  enclosedDomains : Option (List Locus) := none         -- `_enclosed_domains`
  memorycheck : Bool := true                            -- `_memorycheck`
deriving Repr, DecidableEq

/-- the class variables -/
structure LReg where
  ID : Nat := 0
  NAMES : List (String × CKey) := []
  MEMORY : List (CKey × LObj) := []
deriving Repr, DecidableEq

/-- `clear_memory()` (the part that concerns `DSD_Complex`) -/
def clearMemory (_ : LReg) : LReg := {}

/-- `d[k] = v` on an insertion-ordered dict -/
def dictPut {κ ν} [DecidableEq κ] : List (κ × ν) → κ → ν → List (κ × ν)
  | [], k, v => [(k, v)]
  | (k', v') :: rest, k, v => if k' = k then (k', v) :: rest else (k', v') :: dictPut rest k v

/-- Python truthiness of an optional list attribute: `None` and `[]` are falsy -/
def truthy {α} : Option (List α) → Bool
  | some (_ :: _) => true
  | _ => false

/-! ### `rotate_once` -/

/-- one of the two bracket loops of `rotate_once`: `for i in <indices>:` with `stack.append(i)` on `push`,
    `stack.pop()` on `pop` (IndexError → DSDObjectsError).  The stack is a Python list: the top is its END. -/
def bracketLoop (push pop : Char) (tmp : List Char) : List Nat → List Nat → Except LErr (List Nat)
  | [], stack => .ok stack
  | i :: is, stack =>
    match tmp[i]? with
    | none => .error (.fault "IndexError")                 -- `tmpstruct[i]` out of range
    | some c =>
      if c = push then bracketLoop push pop tmp is (stack ++ [i])
      else if c = pop then
        (if stack.isEmpty then .error (.objects "Unbalanced parenthesis in secondary structure.")
         else bracketLoop push pop tmp is stack.dropLast)
      else bracketLoop push pop tmp is stack

/-- `for i in stack: tmpstruct[i] = v` -/
def assignAll (tmp : List Char) (stack : List Nat) (v : Char) : List Char := stack.foldl (fun t i => t.set i v) tmp

/-- the structure part of `rotate_once` for `p = self._sequence.index('+')` -/
def flipStructure (sst : List Char) (p : Nat) : Except LErr (List Char) :=
  -- tmpstruct = self.structure                            (a copy)
  -- stack = []; for i in range(p): …
  match bracketLoop '(' ')' sst (List.range p) [] with
  | .error e => .error e
  | .ok stack =>
    -- for i in stack: tmpstruct[i] = ")"
    let tmp1 := assignAll sst stack ')'
    -- stack = []; for i in reversed(range(p + 1, len(tmpstruct))): …
    match bracketLoop ')' '(' tmp1 (List.range' (p + 1) (tmp1.length - (p + 1))).reverse [] with
    | .error e => .error e
    | .ok stack2 =>
      -- for i in stack: tmpstruct[i] = "("
      let tmp2 := assignAll tmp1 stack2 '('
      -- self._structure = tmpstruct[p + 1:] + ["+"] + tmpstruct[:p]
      .ok (tmp2.drop (p + 1) ++ ['+'] ++ tmp2.take p)

/-- `rotate_once` on the two lists: the new `_sequence` (assigned BEFORE the bracket loops run, so it is rotated
    even when they raise) and the new `_structure` or the exception -/
def rotateOnceLists (seq : List String) (sst : List Char) : List String × Except LErr (List Char) :=
  -- if "+" in self._sequence:
  match seq.idxOf? "+" with
  | none => (seq, .ok sst)
  | some p => (seq.drop (p + 1) ++ ["+"] ++ seq.take p, flipStructure sst p)

namespace LObj

/-- `self.rotate_once()`: on success the caches `_pair_table`, `_loop_index`, `_lol_sequence`, `_strand_lengths`,
    `_exterior_domains`, `_enclosed_domains` are reset (since the repair c1d6792 in /repo; before it `_strand_lengths` and
    `_enclosed_domains` survived a turn - Props/C20FullViews `Findings`); `_exterior_loops` is recomputed with `_loop_index` -/
def rotateOnce (o : LObj) : LObj × Option LErr :=
  match rotateOnceLists o.seq o.sst with
  | (seq', .error e) => ({ o with seq := seq' }, some e)
  | (seq', .ok sst') =>
    ({ o with seq := seq', sst := sst', pairTable := none, loopIndex := none, lolSequence := none,
              strandLengths := none, exteriorDomains := none, enclosedDomains := none }, none)

/-- the shared prologue of `size` / `strand_length`:
    `if not self._strand_lengths: (if not self._lol_sequence: self._lol_sequence = make_lol_sequence(self._sequence));
     self._strand_lengths = list(map(len, self._lol_sequence))` -/
def fillStrandLengths (o : LObj) : LObj × List Nat :=
  if truthy o.strandLengths then (o, o.strandLengths.getD [])
  else
    let o1 := if truthy o.lolSequence then o else { o with lolSequence := some (makeStrandTableList "+" o.seq) }
    let lens := (o1.lolSequence.getD []).map List.length
    ({ o1 with strandLengths := some lens }, lens)

/-- `self.size` -/
def size (o : LObj) : LObj × Nat := let (o', l) := o.fillStrandLengths; (o', l.length)

/-- `self.strand_length(pos)` for a non-negative `pos` -/
def strandLength (o : LObj) (pos : Nat) : LObj × Except LErr Nat :=
  let (o', l) := o.fillStrandLengths
  (o', match l[pos]? with | some n => .ok n | none => .error (.fault "IndexError"))

/-- `self.do_memorycheck(current, rotations)` with both arguments given (the call inside `canonical_form`);
    `rotations = None` makes `abs(rotations - self.size)` a TypeError.  Returns the raised exception, if any. -/
def doMemorycheck (R : LReg) (o : LObj) (current : CKey) (rotations : Option Nat) : LObj × Option LErr :=
  -- if current in DSD_Complex.MEMORY:
  match R.MEMORY.lookup current with
  | none => (o, none)
  | some other =>
    -- error.existing = other; error.rotations = abs(rotations - self.size) - other._rotations
    match rotations with
    | none => (o, some (.fault "TypeError"))
    | some e =>
      let (o1, n) := o.size
      match other.rotations with
      | none => (o1, some (.fault "TypeError"))
      | some ro => (o1, some (.duplication other.id ((((e : Int) - (n : Int)).natAbs : Int) - (ro : Int))))

/-- the `for e, new in enumerate(self.rotate(), 1)` loop of `canonical_form`: `k` iterations are left, `e` is the
    current count, `vars` the dict `all_variants` (insertion ordered; a key keeps its FIRST `e`) -/
def canonLoop (R : LReg) : Nat → Nat → LObj → List (CKey × Nat) → LObj × Except LErr (List (CKey × Nat))
  | 0, _, o, vars => (o, .ok vars)
  | k + 1, e, o, vars =>
    -- new = self.rotate_once()
    match o.rotateOnce with
    | (o1, some err) => (o1, .error err)
    | (o1, none) =>
      -- canon = tuple((tuple(map(str, self._sequence)), tuple(self._structure)))
      let canon : CKey := (o1.seq, o1.sst)
      -- if canon not in all_variants:
      if (vars.lookup canon).isSome then canonLoop R k (e + 1) o1 vars
      else
        -- all_variants[canon] = e
        let vars' := vars ++ [(canon, e)]
        -- if self._memorycheck: self.do_memorycheck(canon, e)
        if o1.memorycheck then
          match doMemorycheck R o1 canon (some e) with
          | (o2, some err) => (o2, .error err)
          | (o2, none) => canonLoop R k (e + 1) o2 vars'
        else canonLoop R k (e + 1) o1 vars'

/-- the `canonical_form` property -/
def canonicalForm (R : LReg) (o : LObj) : LObj × Except LErr CKey :=
  -- if not self._canonical_form:          (a pair of tuples is always truthy)
  match o.canon with
  | some c => (o, .ok c)
  | none =>
    -- `range(self.size)` is evaluated once, when the generator starts
    let (o0, n) := o.size
    match canonLoop R n 1 o0 [] with
    | (o1, .error e) => (o1, .error e)
    | (o1, .ok vars) =>
      -- self._canonical_form = sorted(list(all_variants.keys()), key = lambda x: (x[0], x[1]))[0]
      match (sortBy ckeyLt (vars.map (·.1))).head? with
      | none => (o1, .error (.fault "IndexError"))
      | some c =>
        let o2 := { o1 with canon := some c }
        -- self._rotations = abs(all_variants[self._canonical_form] - self.size)
        match vars.lookup c with
        | none => (o2, .error (.fault "KeyError"))
        | some e =>
          let (o3, n') := o2.size
          ({ o3 with rotations := some ((e : Int) - (n' : Int)).natAbs }, .ok c)

/-- the public call `self.do_memorycheck()` (both arguments `None`): `current = self.canonical_form` -/
def doMemorycheckDefault (R : LReg) (o : LObj) : LObj × Option LErr :=
  match o.canonicalForm R with
  | (o1, .error e) => (o1, some e)
  | (o1, .ok c) => doMemorycheck R o1 c none

end LObj

/-! ### `__init__` -/

/-- `prefix[-1].isdigit()` (ASCII) -/
def endsWithDigit (p : String) : Bool :=
  match p.toList.getLast? with
  | some c => c.isDigit
  | none => false

/-- `DSD_Complex(sequence, structure, name, prefix, memorycheck)`.  `name = None` and `name = ''` are both falsy.
    `fresh` is the identity of the new instance.  Returns the class state afterwards and the instance or the
    exception. -/
def construct (R : LReg) (fresh : Nat) (sequence : List String) (struct : List Char)
    (name : Option String := some "") (pfx : String := "cplx") (memorycheck : Bool := true) :
    LReg × Except LErr LObj :=
  -- if name: self._name = name
  -- else: (prefix checks); self._name = prefix + str(DSD_Complex.ID); DSD_Complex.ID += 1
  let naming : Except LErr (LReg × String) :=
    match name with
    | some n =>
      if n ≠ "" then .ok (R, n)
      else if pfx = "" then .error (.objects "DSD_Complex prefix must not be empty!")
      else if endsWithDigit pfx then .error (.objects "DSD_Complex prefix must not end with a digit!")
      else .ok ({ R with ID := R.ID + 1 }, pfx ++ toString R.ID)
    | none =>
      if pfx = "" then .error (.objects "DSD_Complex prefix must not be empty!")
      else if endsWithDigit pfx then .error (.objects "DSD_Complex prefix must not end with a digit!")
      else .ok ({ R with ID := R.ID + 1 }, pfx ++ toString R.ID)
  match naming with
  | .error e => (R, .error e)
  | .ok (R1, nm) =>
    -- if len(sequence) != len(structure): raise DSDObjectsError(…)
    if sequence.length ≠ struct.length then
      (R1, .error (.objects "DSD_Complex() sequence and structure must have same length"))
    else
      let o : LObj := { id := fresh, name := nm, seq := sequence, sst := struct, memorycheck := memorycheck }
      -- if self._memorycheck:
      if memorycheck then
        -- canon = self.canonical_form                       (raises the duplication error)
        match o.canonicalForm R1 with
        | (_, .error e) => (R1, .error e)
        | (o1, .ok canon) =>
          -- if self._name not in DSD_Complex.NAMES: DSD_Complex.NAMES[self._name] = canon
          -- else: raise DSDObjectsError('Duplicate DSD_Complex name!', self._name)
          if (R1.NAMES.lookup nm).isSome then (R1, .error (.objects "Duplicate DSD_Complex name!"))
          else
            let R2 := { R1 with NAMES := dictPut R1.NAMES nm canon }
            -- DSD_Complex.MEMORY[self.canonical_form] = self
            match o1.canonicalForm R2 with
            | (_, .error e) => (R2, .error e)
            | (o2, .ok c2) => ({ R2 with MEMORY := dictPut R2.MEMORY c2 o2 }, .ok o2)
      else (R1, .ok o)

/-! ### views -/

/-- the loop of `kernel_string`: `for i in range(len(seq))` with `sst[i]`, `seq[i]` -/
def kernelLoop (seq : List String) (sst : List Char) : List Nat → String → Except LErr String
  | [], knl => .ok knl
  | i :: is, knl =>
    match sst[i]? with
    | none => .error (.fault "IndexError")
    | some c =>
      if c = '+' then kernelLoop seq sst is (knl ++ String.singleton c ++ " ")
      else if c = ')' then kernelLoop seq sst is (knl ++ String.singleton c ++ " ")
      else if c = '(' then kernelLoop seq sst is (knl ++ (seq[i]?.getD "") ++ String.singleton c ++ " ")
      else kernelLoop seq sst is (knl ++ (seq[i]?.getD "") ++ " ")

/-- the legacy `wrap(x, m) = (x % m + m) % m` of `rotate_pairtable_loc` (Python `%`; `m = 0` raises) -/
def lwrap (x : Int) (m : Nat) : Except LErr Nat :=
  if m = 0 then .error (.fault "ZeroDivisionError")
  else .ok (((x % (m : Int)) + (m : Int)) % (m : Int)).toNat

namespace LObj

/-- `self.kernel_string`; `knl[:-1]` drops the trailing blank -/
def kernelString (o : LObj) : Except LErr String :=
  match kernelLoop o.seq o.sst (List.range o.seq.length) "" with
  | .error e => .error e
  | .ok knl => .ok (String.ofList knl.toList.dropLast)

/-- `if not self._pair_table: self._pair_table = make_pair_table(self.structure)` -/
def fillPairTable (o : LObj) : LObj × Except LErr PairTable :=
  if truthy o.pairTable then (o, .ok (o.pairTable.getD []))
  else match makePairTable o.sst with
    | .ok pt => ({ o with pairTable := some pt }, .ok pt)
    | .error .secondaryStructure => (o, .error .secondaryStructure)
    | .error _ => (o, .error (.fault "make_pair_table"))

/-- `make_loop_index(self._pair_table)` as the legacy code unpacks it: `(loop_index, exterior)` -/
def runLoopIndex (pt : PairTable) : Except LErr (List (List Nat) × List Nat) :=
  match makeLoopIndex pt false with
  | .ok lo => .ok (lo.loopIndex, lo.exterior)
  | .error .secondaryStructure => .error .secondaryStructure
  | .error _ => .error (.fault "make_loop_index")

/-- the `pair_table` property: a new table every time, nothing cached -/
def pairTableView (o : LObj) : Except LErr PairTable :=
  match makePairTable o.sst with
  | .ok pt => .ok pt
  | .error .secondaryStructure => .error .secondaryStructure
  | .error _ => .error (.fault "make_pair_table")

/-- the `loop_index` property: the pair `(loop_index, exterior)`; only the pair table is cached -/
def loopIndexView (o : LObj) : LObj × Except LErr (List (List Nat) × List Nat) :=
  match o.fillPairTable with
  | (o1, .error e) => (o1, .error e)
  | (o1, .ok pt) => (o1, runLoopIndex pt)

/-- the `lol_sequence` property -/
def lolSequenceView (o : LObj) : List (List String) := makeStrandTableList "+" o.seq

/-- `get_loop_index(loc)` for a locus with non-negative entries -/
def getLoopIndex (o : LObj) (loc : Locus) : LObj × Except LErr Nat :=
  match o.fillPairTable with
  | (o1, .error e) => (o1, .error e)
  | (o1, .ok pt) =>
    -- if not self._loop_index: self._loop_index, self._exterior_loops = make_loop_index(self._pair_table)
    let step : LObj × Except LErr (List (List Nat)) :=
      if truthy o1.loopIndex then (o1, .ok (o1.loopIndex.getD []))
      else match runLoopIndex pt with
        | .error e => (o1, .error e)
        | .ok (li, ext) => ({ o1 with loopIndex := some li, exteriorLoops := some ext }, .ok li)
    match step with
    | (o2, .error e) => (o2, .error e)
    | (o2, .ok li) =>
      (o2, match (li[loc.1]?).bind (fun s => s[loc.2]?) with
        | some x => .ok x
        | none => .error (.fault "IndexError"))

/-- `get_domain(loc)` for a locus with non-negative entries -/
def getDomain (o : LObj) (loc : Locus) : LObj × Except LErr String :=
  let o1 := if truthy o.lolSequence then o else { o with lolSequence := some (makeStrandTableList "+" o.seq) }
  (o1, match ((o1.lolSequence.getD [])[loc.1]?).bind (fun s => s[loc.2]?) with
    | some d => .ok d
    | none => .error (.fault "IndexError"))

/-- `get_paired_loc(loc)`; negative entries are an explicit IndexError -/
def getPairedLoc (o : LObj) (loc : Int × Int) : LObj × Except LErr (Option Locus) :=
  if loc.1 < 0 ∨ loc.2 < 0 then (o, .error (.fault "IndexError"))
  else match o.fillPairTable with
    | (o1, .error e) => (o1, .error e)
    | (o1, .ok pt) =>
      (o1, match (pt[loc.1.toNat]?).bind (fun s => s[loc.2.toNat]?) with
        | some x => .ok x
        | none => .error (.fault "IndexError"))

/-- the `exterior_domains` property (fills `_enclosed_domains` too) -/
def exteriorDomainsView (o : LObj) : LObj × Except LErr (List Locus) :=
  -- if not self._exterior_domains:
  if truthy o.exteriorDomains then (o, .ok (o.exteriorDomains.getD []))
  else match o.fillPairTable with
    | (o1, .error e) => (o1, .error e)
    | (o1, .ok pt) =>
      -- if not self._loop_index or self._exterior_loops:
      let step : LObj × Except LErr (List (List Nat) × List Nat) :=
        if !truthy o1.loopIndex || truthy o1.exteriorLoops then
          match runLoopIndex pt with
          | .error e => (o1, .error e)
          | .ok (li, ext) => ({ o1 with loopIndex := some li, exteriorLoops := some ext }, .ok (li, ext))
        else (o1, .ok (o1.loopIndex.getD [], o1.exteriorLoops.getD []))
      match step with
      | (o2, .error e) => (o2, .error e)
      | (o2, .ok (li, ext)) =>
        let loci : List Locus :=
          (li.zipIdx.map (fun (p : List Nat × Nat) => p.1.zipIdx.map (fun (q : Nat × Nat) => (p.2, q.2)))).flatten
        let unpaired := loci.filter (fun l => ((pt[l.1]?).bind (fun s => s[l.2]?)).join.isNone)
        let liAt (l : Locus) : Nat := ((li[l.1]?).bind (fun s => s[l.2]?)).getD 0
        let exd := unpaired.filter (fun l => ext.contains (liAt l))
        let end_ := unpaired.filter (fun l => !ext.contains (liAt l))
        ({ o2 with exteriorDomains := some exd, enclosedDomains := some end_ }, .ok exd)

/-- the `enclosed_domains` property -/
def enclosedDomainsView (o : LObj) : LObj × Except LErr (List Locus) :=
  -- if not self._enclosed_domains: _ = self.exterior_domains
  if truthy o.enclosedDomains then (o, .ok (o.enclosedDomains.getD []))
  else match o.exteriorDomainsView with
    | (o1, .error e) => (o1, .error e)
    | (o1, .ok _) => (o1, .ok (o1.enclosedDomains.getD []))

/-- the `is_connected` property: only `make_loop_index`'s SecondaryStructureError is caught -/
def isConnected (o : LObj) : LObj × Except LErr Bool :=
  match o.fillPairTable with
  | (o1, .error e) => (o1, .error e)
  | (o1, .ok pt) =>
    if truthy o1.loopIndex then (o1, .ok true)
    else match runLoopIndex pt with
      | .error .secondaryStructure => (o1, .ok false)
      | .error e => (o1, .error e)
      | .ok (li, ext) => ({ o1 with loopIndex := some li, exteriorLoops := some ext }, .ok true)

/-- `rotate_pairtable_loc(loc, n)`; `n = None` stands for `self.size` -/
def rotatePairtableLoc (o : LObj) (loc : Int × Nat) (n : Option Int) : LObj × Except LErr (Nat × Nat) :=
  let (o1, sz) := o.size
  let n' : Int := match n with | some v => v | none => (sz : Int)
  (o1, match lwrap (loc.1 + n') sz with
    | .ok s => .ok (s, loc.2)
    | .error e => .error e)

end LObj

/-- `a == b`, `a < b` of two instances: comparisons of the canonical forms (computed on demand) -/
def objEq (R : LReg) (a b : LObj) : Except LErr Bool :=
  match (a.canonicalForm R).2, (b.canonicalForm R).2 with
  | .ok x, .ok y => .ok (x == y)
  | .error e, _ => .error e
  | _, .error e => .error e

def objLt (R : LReg) (a b : LObj) : Except LErr Bool :=
  match (a.canonicalForm R).2, (b.canonicalForm R).2 with
  | .ok x, .ok y => .ok (ckeyLt x y)
  | .error e, _ => .error e
  | _, .error e => .error e

end Dsd.Lg
