/-
Model of dsdobjects/singleton.py: the `Singleton` metaclass.

A class registry holds the *live* objects.  The two `WeakValueDictionary`s of the code are
modelled as "an entry exists exactly while its value is alive": `_instanceNames` is the map
`o.name ↦ o`, `_instanceCanon` the map `k ↦ o` for every key `k ∈ o.keys` (a complex registers
all of its rotations).  Dropping the last reference removes the object (`drop`).
-/
namespace Dsd

structure Obj (κ : Type) where
  id : Nat             -- identity (harness handle number)
  name : String
  canon : κ            -- canonical form
  keys : List κ        -- keys registered in `_instanceCanon` for this object
deriving Repr

structure Reg (κ : Type) where
  objs : List (Obj κ) := []
  autoId : Nat := 1    -- `cls.ID`
deriving Repr

/-- outcome of a constructor / look-up request -/
inductive Out
  | ret (id : Nat) (created : Bool)
  | singletonErr (existing : Option Nat)
  | objectInitErr
  | ssErr                  -- SecondaryStructureError
  | notImplemented
  | assertion
  | fault (kind : String)
deriving DecidableEq, Repr

namespace Reg
variable {κ : Type} [DecidableEq κ]

/-- `cls._instanceNames.get(name)` -/
def findName (r : Reg κ) (n : String) : Option (Obj κ) := r.objs.find? (fun o => o.name == n)

/-- `cls._instanceCanon.get(canon)` -/
def findCanon (r : Reg κ) (k : κ) : Option (Obj κ) := r.objs.find? (fun o => o.keys.contains k)

def findId (r : Reg κ) (id : Nat) : Option (Obj κ) := r.objs.find? (fun o => o.id == id)

/-- what `Singleton.__call__` decides before any object is created -/
inductive Decision (κ : Type)
  | existing (o : Obj κ)       -- return this live object
  | create                      -- call the class's `__init__`, then register name and canonical form
  | refuse (existing : Option Nat)   -- raise SingletonError(existing = …)

/-- the three-way analysis of `Singleton.__call__`; `none` stands for a falsy name / canonical form -/
def decide (r : Reg κ) (canon : Option κ) (name : Option String) : Decision κ :=
  match name, canon with
  | some n, some k =>
    match r.findName n, r.findCanon k with
    | none, none => .create
    | none, some oc => .refuse (some oc.id)
    | some _, none => .refuse none
    | some on, some oc => if on.id = oc.id then .existing on else .refuse none
  | some n, none =>
    match r.findName n with
    | some o => .existing o
    | none => .refuse none
  | none, some k =>
    match r.findCanon k with
    | some o => .existing o
    | none => .refuse none
  | none, none => .refuse none

/-- register a freshly initialised object (`_instanceNames[name] = _instanceCanon[canon] = Sobj`,
    plus the extra keys a complex stores from inside `__init__`) -/
def register (r : Reg κ) (o : Obj κ) (autoNamed : Bool) : Reg κ :=
  { objs := r.objs ++ [o], autoId := if autoNamed then r.autoId + 1 else r.autoId }

/-- the last strong reference to object `id` is dropped: both weak dictionaries lose its entries -/
def drop (r : Reg κ) (id : Nat) : Reg κ := { r with objs := r.objs.filter (fun o => o.id != id) }

/-- `Singleton.__call__` for a request whose identifiers are `(canon, name)`.
    `fresh` is the identity the new object would get, `keys` the canonical-form keys it would register
    (just `[canon]` except for complexes), `autoNamed` whether `__init__` consumes an automatic name. -/
def call (r : Reg κ) (canon : Option κ) (name : Option String) (fresh : Nat) (keys : List κ) (autoNamed : Bool) :
    Reg κ × Out :=
  match r.decide canon name with
  | .existing o => (r, .ret o.id false)
  | .refuse e => (r, .singletonErr e)
  | .create =>
    match name, canon with
    | some n, some k => (r.register { id := fresh, name := n, canon := k, keys := keys } autoNamed, .ret fresh true)
    | _, _ => (r, .fault "unreachable")

/-- sorted list of bound names — the observable content of `show_singletons(cls)` -/
def names (r : Reg κ) : List String := r.objs.map (·.name)

end Reg
end Dsd
