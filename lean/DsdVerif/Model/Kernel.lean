/-
Model of `resolve_kernel_loops` (dsdobjects/objectio.py) — the reader's translation of a parsed kernel
pattern (pyparsing token list: names, "+", and a nested list after the name that opens a loop) into a
(sequence, structure) pair — and of `kernel_string` at token level.
-/
import DsdVerif.Model.Pyparsing
import DsdVerif.Model.Objects

namespace Dsd
open Dsd.PP

/-- `old + '*' if old[-1] != '*' else old[:-1]` -/
def compName (n : String) : String := cnameOf n

/-- `resolve_kernel_loops(loop)`; `fuel` bounds the nesting depth (the size of the token list suffices).
    A nested list that is not preceded by a name is an IndexError in the code (`struct[-1]`). -/
def resolveKernel : Nat → List Tree → Except Err (List String × List Char)
  | 0, _ => .error (.fault "RecursionError")
  | fuel + 1, toks =>
    toks.foldlM (fun (acc : List String × List Char) (t : Tree) =>
      match t with
      | .tok s => .ok (acc.1 ++ [s], acc.2 ++ [if s == "+" then '+' else '.'])
      | .grp inner =>
        match acc.1.getLast? with
        | none => .error (.fault "IndexError")
        | some old =>
          match resolveKernel fuel inner with
          | .error e => .error e
          | .ok (se, ss) =>
            .ok (acc.1 ++ se ++ [compName old], (acc.2.dropLast ++ ['(']) ++ ss ++ [')'])) ([], [])

/-- the token list pyparsing yields for the kernel string of `(seq, sst)`: a name for every unpaired or
    opening position (the opening one followed by the nested list of its loop), "+" for a break, nothing
    for a closing position.  `stack` holds the partial lists of the enclosing loops, innermost first. -/
def nestGo : List (String × Char) → List Tree → List (List Tree) → Option (List Tree)
  | [], cur, [] => some cur
  | [], _, _ :: _ => none
  | (n, c) :: rest, cur, stack =>
    if c = '(' then nestGo rest [] ((cur ++ [.tok n]) :: stack)
    else if c = ')' then
      match stack with
      | [] => none
      | outer :: stack' => nestGo rest (outer ++ [.grp cur]) stack'
    else if c = '+' then nestGo rest (cur ++ [.tok "+"]) stack
    else nestGo rest (cur ++ [.tok n]) stack

def kernelTokens (seq : List String) (sst : List Char) : Option (List Tree) := nestGo (seq.zip sst) [] []

/-- size of a token forest (fuel that certainly suffices for `resolveKernel`) -/
def treeSize : Nat → List Tree → Nat
  | 0, _ => 0
  | _ + 1, [] => 1
  | f + 1, .tok _ :: r => 1 + treeSize f r
  | f + 1, .grp ts :: r => 1 + treeSize f ts + treeSize f r

end Dsd
