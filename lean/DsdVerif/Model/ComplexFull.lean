/-
Full model of `ComplexS.identifiers` + `Singleton.__call__` + `ComplexS.__init__`, and of `StrandS`
(dsdobjects/base_classes.py), statement by statement: the `for … break … else` loop over the rotations with a
genuine dictionary `cdict` (a repeated key keeps its position and takes the LAST value), `sorted(cdict, …)[0]`,
`cdict.keys()` as the `rcplxs` that `__init__` registers, Python truthiness in `Singleton.__call__`.
-/
import DsdVerif.Model.Objects
import DsdVerif.Model.SingletonFull

namespace Dsd
namespace CplxFull

/-- a Python `dict` (insertion ordered) -/
abbrev Dict := List (CKey × Nat)

/-- `d[k] = v` -/
def dictSet : Dict → CKey → Nat → Dict
  | [], k, v => [(k, v)]
  | (k', v') :: rest, k, v => if k' = k then (k', v) :: rest else (k', v') :: dictSet rest k v

/-- `d.keys()` -/
def dictKeys (d : Dict) : List CKey := d.map (·.1)

/-- `d[k]` -/
def dictGet : Dict → CKey → Option Nat
  | [], _ => none
  | (k', v') :: rest, k => if k' = k then some v' else dictGet rest k

/-- how the loop over the rotations ends -/
inductive LoopEnd
  | brk (canon : CKey) (turns : Nat) (cdict : Dict)      -- `break`: a rotation is registered
  | els (cdict : Dict)                                    -- the `else:` branch: no rotation is registered

/-- `for e in range(...)`: the remaining values of `e`, the current `rseq, rstr`, the dictionary so far -/
def forLoop (r : Reg CKey) : List Nat → List String → List Char → Dict → Except Out LoopEnd
  | [], _, _, cdict => .ok (.els cdict)
  | e :: es, rseq, rstr, cdict =>
    -- rcplx = (tuple(map(str, rseq)), tuple(rstr))
    let rcplx : CKey := (rseq, rstr)
    -- if rcplx in cls._instanceCanon: canon = rcplx; turns = e; break
    if (r.findCanon rcplx).isSome then .ok (.brk rcplx e cdict)
    else
      -- cdict[rcplx] = e
      let cdict' := dictSet cdict rcplx e
      -- rseq, rstr = rotate_complex_once(rseq, rstr)      (exceptions propagate)
      match rotateOnce rseq rstr with
      | .error .secondaryStructure => .error .ssErr
      | .error _ => .error (.fault "rotate")
      | .ok nx => forLoop r es nx.1 nx.2 cdict'

/-- `ComplexS.identifiers(sequence, structure, name, prefix)`: `(canon, name, kwadd)` with
    `kwadd = {canon, turns, rcplxs}` as `CplxIds` -/
def identifiers (pfx : String) (r : Reg CKey) (q : CplxReq) : Except Out (Option CKey × String × Option CplxIds) :=
  match q.seq with
  | none =>
    match q.name with
    | none => .error .objectInitErr
    | some n => .ok (none, n, none)
  | some sequence =>
    -- if name is None: name = f'{cls.PREFIX}{cls.ID}' if prefix is None else f'{prefix}{cls.ID}'
    let name := match q.name with
      | some n => n
      | none => (match q.prefix_ with | none => pfx | some p => p) ++ toString r.autoId
    if sequence.length ≠ q.sst.length then .error .objectInitErr
    else
      let tot := (makeStrandTableList "+" sequence).length
      if tot = 0 then .error .objectInitErr
      else
        match forLoop r (List.range tot) sequence q.sst [] with
        | .error e => .error e
        | .ok (.brk canon turns cdict) =>
          .ok (some canon, name, some { canon := canon, turns := wrap (-(turns : Int)) tot, keys := dictKeys cdict })
        | .ok (.els cdict) =>
          -- canon = sorted(cdict, key = lambda x: (x[0], x[1]))[0]; turns = cdict[canon]
          match (sortBy ckeyLt (dictKeys cdict)).head? with
          | none => .error (.fault "IndexError")
          | some canon =>
            match dictGet cdict canon with
            | none => .error (.fault "KeyError")
            | some turns =>
              .ok (some canon, name,
                   some { canon := canon, turns := wrap (-(turns : Int)) tot, keys := dictKeys cdict })

end CplxFull

/-- `ComplexS(sequence, structure, name, prefix)`: `identifiers`, then `Singleton.__call__`, whose creation step runs
    `ComplexS.__init__` (registers `rcplxs`; `cls.ID += 1` only if `name is None`) -/
def complexRequestFull (pfx : String) (r : Reg CKey) (fresh : Nat) (q : CplxReq) : Reg CKey × Out × Option CplxIds :=
  match CplxFull.identifiers pfx r q with
  | .error e => (r, e, none)
  | .ok (canon, name, kwadd) =>
    let x := r.callFull canon name fresh ((kwadd.map (·.keys)).getD []) q.name.isNone
    (x.1, x.2, kwadd)

/-- `StrandS(sequence, name, prefix)`: `StrandS.identifiers`, `Singleton.__call__`, `StrandS.__init__` (registers
    nothing itself) -/
def strandRequestFull (pfx : String) (r : Reg CKey) (fresh : Nat) (seq : Option (List String)) (name prefix_ : Option String) :
    Reg CKey × Out :=
  match seq with
  | none =>
    match name with
    | none => (r, .objectInitErr)
    | some n => r.callFull none n fresh [] false
  | some sequence =>
    -- elif '+' in sequence: raise NotImplementedError
    if sequence.contains "+" then (r, .notImplemented)
    else
      let nm := match name with
        | some n => n
        | none => (match prefix_ with | none => pfx | some p => p) ++ toString r.autoId
      -- sstr = tuple('*' for _ in range(len(sequence))); canon = (tuple(map(str, sequence)), sstr)
      let canon : CKey := (sequence, (List.range sequence.length).map (fun _ => '*'))
      r.callFull (some canon) nm fresh [] name.isNone

end Dsd
