/-
Model of dsdobjects/base_classes.py: the `identifiers` class methods of the five singleton classes,
canonical forms, and the requests they make to the metaclass (Model/Registry.lean).

Requests carry *names* for domains inside complexes (the code maps `str` over the domain objects) and
object identities for the members of macrostates / reactions.
-/
import DsdVerif.Model.Registry
import DsdVerif.Model.Complex

namespace Dsd

/-! ### lexicographic order used by Python's tuple / str comparison -/

/-- Python `a < b` on tuples, given the element order -/
def lexLt {α} [DecidableEq α] (lt : α → α → Bool) : List α → List α → Bool
  | [], [] => false
  | [], _ :: _ => true
  | _ :: _, [] => false
  | a :: as, b :: bs => if a = b then lexLt lt as bs else lt a b

def strLt (a b : String) : Bool := lexLt (fun (x y : Char) => x.toNat < y.toNat) a.toList b.toList

/-! ### domains -/

abbrev DKey := String × Nat           -- canonical form of a domain: (name, length)

structure DomCfg where
  cutoff : Nat := 8                   -- DTYPE_CUTOFF
  shortLen : Nat := 5                 -- SHORT_DOM_LEN
  longLen : Nat := 15                 -- LONG_DOM_LEN
  prefix_ : String := "d"             -- PREFIX
deriving Repr

inductive DType | short | long
deriving DecidableEq, Repr

def isStarred (n : String) : Bool := n.toList.getLast? == some '*'
def cnameOf (n : String) : String := if isStarred n then String.ofList n.toList.dropLast else n ++ "*"

structure DomReq where
  name : Option String := none
  length : Option Nat := none
  prefix_ : Option String := none
  dtype : Option DType := none
deriving Repr

def DomCfg.dtypeOf (c : DomCfg) (len : Nat) : DType := if len ≤ c.cutoff then .short else .long

/-- `DomainS.identifiers` followed by `Singleton.__call__` (net effect: the temporary complement objects the
    length check creates and drops again are not modelled).  Lengths are positive. -/
def domainRequest (cfg : DomCfg) (r : Reg DKey) (fresh : Nat) (q : DomReq) : Reg DKey × Out :=
  let autoNamed := q.name.isNone
  let name := match q.name with
    | some n => n
    | none => (q.prefix_.getD cfg.prefix_) ++ toString r.autoId
  if name.isEmpty then (r, .fault "IndexError") else
  let length? : Except Unit (Option Nat) := match q.length with
    | none => .ok (match q.dtype with | some .short => some cfg.shortLen | some .long => some cfg.longLen | none => none)
    | some l => match q.dtype with
      | some d => if (d == .short) == (decide (l ≤ cfg.cutoff)) then .ok (some l) else .error ()
      | none => .ok (some l)
  match length? with
  | .error _ => (r, .objectInitErr)
  | .ok length =>
    let cname := cnameOf name
    match length with
    | none =>
      if isStarred name then
        -- a complement may be requested without length: it takes the length of its live partner
        match r.findName cname with
        | some o => r.call (some (name, o.canon.2)) (some name) fresh [(name, o.canon.2)] autoNamed
        | none => r.call none (some name) fresh [] autoNamed
      else r.call none (some name) fresh [] autoNamed
    | some l =>
      -- a domain and its complement must agree in length, whichever exists first
      match r.findName cname with
      | some o => if o.canon.2 ≠ l then (r, .singletonErr none)
                  else r.call (some (name, l)) (some name) fresh [(name, l)] autoNamed
      | none => r.call (some (name, l)) (some name) fresh [(name, l)] autoNamed

/-- `~d`: `cls(self.cname, self.length)` -/
def domainInvert (cfg : DomCfg) (r : Reg DKey) (fresh : Nat) (id : Nat) : Reg DKey × Out :=
  match r.findId id with
  | none => (r, .fault "dead-handle")
  | some o => domainRequest cfg r fresh { name := some (cnameOf o.name), length := some o.canon.2 }

/-! ### complexes -/

abbrev CKey := List String × List Char        -- (names incl. "+", structure characters)

def ckeyLt (a b : CKey) : Bool :=
  if a.1 = b.1 then lexLt (fun (x y : Char) => x.toNat < y.toNat) a.2 b.2 else lexLt strLt a.1 b.1

/-- the rotations `[x, r x, r² x, …]` (`n` of them) as the loop in `ComplexS.identifiers` visits them;
    an error of the rotation aborts -/
def rotationsOnce : Nat → List String → List Char → Except Err (List CKey)
  | 0, _, _ => .ok []
  | k + 1, seq, sst =>
    match k with
    | 0 => .ok [(seq, sst)]
    | _ + 1 =>
      match rotateOnce seq sst with
      | .error e => .error e
      | .ok r => (rotationsOnce k r.1 r.2).map (fun rest => (seq, sst) :: rest)

/-- minimum of a non-empty list w.r.t. `ckeyLt` (first minimal element, like `sorted(...)[0]`) -/
def minKey : List CKey → Option CKey
  | [] => none
  | k :: ks => some (ks.foldl (fun m x => if ckeyLt x m then x else m) k)

/-- index of the last occurrence (the dictionary `cdict[rcplx] = e` keeps the last `e`) -/
def lastIdxOf (ks : List CKey) (k : CKey) : Nat :=
  (ks.zipIdx.foldl (fun acc (p : CKey × Nat) => if p.1 = k then some p.2 else acc) none).getD 0

structure CplxIds where
  canon : CKey
  turns : Nat
  keys : List CKey          -- `rcplxs`: the rotations to be registered for a new object
deriving Repr

/-- the canonical-form part of `ComplexS.identifiers(sequence, structure)`.  `seq` are the names. -/
def complexIdentifiers (r : Reg CKey) (seq : List String) (sst : List Char) : Except Out CplxIds :=
  if seq.length ≠ sst.length then .error .objectInitErr else
  let n := (makeStrandTableList "+" seq).length
  -- the loop with early exit on a registered rotation
  let rec loop : Nat → Nat → List String → List Char → List CKey → Except Out CplxIds
    | 0, _, _, _, seen =>
      match minKey seen with
      | none => .error .objectInitErr               -- a complex without strands is rejected
      | some c => .ok { canon := c, turns := wrap (-(lastIdxOf seen c : Int)) n, keys := seen.eraseDups }
    | k + 1, e, s, t, seen =>
      if (r.findCanon (s, t)).isSome then
        .ok { canon := (s, t), turns := wrap (-(e : Int)) n, keys := seen.eraseDups }
      else match rotateOnce s t with
        | .error .secondaryStructure => .error .ssErr
        | .error _ => .error (.fault "rotate")
        | .ok nx => loop k (e + 1) nx.1 nx.2 (seen ++ [(s, t)])
  loop n 0 seq sst []

structure CplxReq where
  seq : Option (List String) := none
  sst : List Char := []
  name : Option String := none
  prefix_ : Option String := none
deriving Repr

/-- `ComplexS(sequence, structure, name, prefix)`; returns the identifiers of a created object as well -/
def complexRequest (pfx : String) (r : Reg CKey) (fresh : Nat) (q : CplxReq) : Reg CKey × Out × Option CplxIds :=
  match q.seq with
  | none =>
    match q.name with
    | none => (r, .objectInitErr, none)
    | some n => let x := r.call none (some n) fresh [] false; (x.1, x.2, none)
  | some seq =>
    let autoNamed := q.name.isNone
    let name := q.name.getD ((q.prefix_.getD pfx) ++ toString r.autoId)
    match complexIdentifiers r seq q.sst with
    | .error e => (r, e, none)
    | .ok ids =>
      let x := r.call (some ids.canon) (some name) fresh ids.keys autoNamed
      (x.1, x.2, some ids)

/-- `StrandS(sequence, name)`: the canonical form is the sequence with a structure of `*` -/
def strandRequest (pfx : String) (r : Reg CKey) (fresh : Nat) (seq : Option (List String)) (name : Option String) :
    Reg CKey × Out :=
  match seq with
  | none =>
    match name with
    | none => (r, .objectInitErr)
    | some n => r.call none (some n) fresh [] false
  | some seq =>
    if seq.contains "+" then (r, .notImplemented) else
    let autoNamed := name.isNone
    let nm := name.getD (pfx ++ toString r.autoId)
    let canon : CKey := (seq, seq.map (fun _ => '*'))
    r.call (some canon) (some nm) fresh [canon] autoNamed

/-! ### macrostates and reactions -/

abbrev MKey := List CKey              -- the member complexes' canonical forms, sorted

def insertSorted {α} (lt : α → α → Bool) (x : α) : List α → List α
  | [] => [x]
  | y :: ys => if lt x y then x :: y :: ys else y :: insertSorted lt x ys

/-- `sorted(xs, key = …)`: a stable sort -/
def sortBy {α} (lt : α → α → Bool) (xs : List α) : List α := xs.foldr (fun x acc => insertSorted (fun a b => !lt b a) x acc) []

/-- `MacrostateS(complexes, name)`; members are given as (name, canonical form) of live complexes -/
def macroRequest (r : Reg MKey) (fresh : Nat) (members : Option (List (String × CKey))) (name : Option String) :
    Reg MKey × Out :=
  match members with
  | none =>
    match name with
    | none => (r, .assertion)
    | some n => r.call none (some n) fresh [] false
  | some ms =>
    let sorted := sortBy (fun a b => ckeyLt a.2 b.2) ms
    let canon : MKey := sorted.map (·.2)
    match name with
    | none =>
      match sorted with
      | [] => (r, .fault "IndexError")
      | m :: _ => r.call (if canon.isEmpty then none else some canon) (some m.1) fresh [canon] false
    | some n =>
      if (ms.map (·.1)).contains n then r.call (if canon.isEmpty then none else some canon) (some n) fresh [canon] false
      else (r, .assertion)

/-- canonical form of a reaction member: a complex's form or a macrostate's tuple of forms -/
inductive MemKey
  | c (k : CKey)
  | m (k : MKey)
deriving DecidableEq, Repr

def memLt : MemKey → MemKey → Bool
  | .c a, .c b => ckeyLt a b
  | .m a, .m b => lexLt ckeyLt a b
  | .c _, .m _ => true
  | .m _, .c _ => false

abbrev RKey := List MemKey × List MemKey × Option String

/-- `ReactionS(reactants, products, rtype, name)`; members as (name, canonical form) -/
def reactionRequest (r : Reg RKey) (fresh : Nat) (reactants products : Option (List (String × MemKey)))
    (rtype : Option String) (name : Option String) : Reg RKey × Out × Option (List String × List String) :=
  match reactants, products with
  | some rs, some ps =>
    let rs' := sortBy (fun a b => memLt a.2 b.2) rs
    let ps' := sortBy (fun a b => memLt a.2 b.2) ps
    let canon : RKey := (rs'.map (·.2), ps'.map (·.2), rtype)
    let auto := "[" ++ (rtype.getD "None") ++ "] " ++ " + ".intercalate (rs'.map (·.1)) ++ " -> " ++
      " + ".intercalate (ps'.map (·.1))
    let x := r.call (some canon) (some (name.getD auto)) fresh [canon] false
    (x.1, x.2, some (rs'.map (·.1), ps'.map (·.1)))
  | none, none =>
    match name, rtype with
    | some n, none => let x := r.call none (some n) fresh [] false; (x.1, x.2, none)
    | _, _ => (r, .fault "TypeError", none)
  | _, _ => (r, .fault "TypeError", none)

/-! ### comparison of objects (`__lt__`, `__eq__`, `__hash__` are all functions of these keys) -/

/-- domains: `==` compares (name, length), `<` and `hash` use the name only -/
def domEq (a b : DKey) : Bool := a == b
def domLt (a b : DKey) : Bool := strLt a.1 b.1
def domHashKey (a : DKey) : String := a.1

/-- macrostates: tuple of member complexes, compared member-wise by canonical form -/
def mkeyLt (a b : MKey) : Bool := lexLt ckeyLt a b

/-- reaction types are strings (a `None` type makes Python's `<` raise TypeError: outside the stated population) -/
def optStrLt : Option String → Option String → Bool
  | some a, some b => strLt a b
  | _, _ => false

/-- reactions: `(reactant forms, product forms, type)` compared as a tuple -/
def rkeyLt (a b : RKey) : Bool :=
  if a.1 = b.1 then (if a.2.1 = b.2.1 then optStrLt a.2.2 b.2.2 else lexLt memLt a.2.1 b.2.1)
  else lexLt memLt a.1 b.1

/-- Python's `a <= b` on tuples / strings for a strict order `lt` -/
def leOf {α} [DecidableEq α] (lt : α → α → Bool) (a b : α) : Bool := a = b || lt a b

end Dsd
