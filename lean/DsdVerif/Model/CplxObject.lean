/-
Model of a `ComplexS` object's mutable part: the current representation (`_sequence`, `_structure`,
`_turns`), the lazily filled caches, the `turns` setter and every public view.
A `Spec` object (no caches) gives the reference answers; Props/C03 proves that the cached object
always answers like the spec of its current rotation.
-/
import DsdVerif.Model.Objects

namespace Dsd

structure CplxObj where
  seq : List String            -- `_sequence` (names)
  sst : List Char              -- `_structure`
  turns : Nat                  -- `_turns`
  canon : CKey                 -- `_canon`
  name : String
  -- initialised on demand
  strandTable : Option (List (List String)) := none
  pairTable : Option PairTable := none
  loopIndex : Option (List (List Nat) × List Nat) := none     -- `_loop_index`, `_exterior_loops`
  extDomains : Option (List Locus × List Locus) := none       -- `_exterior_domains`, `_enclosed_domains`
deriving Repr

inductive View
  | sequence | structure | kernel | size | strandTable | pairTable
  | strandLength (k : Nat) | getDomain (l : Locus) | getPairedLoc (l : Locus) | getLoopIndex (l : Locus)
  | exterior | enclosed | isConnected | rotate | rotatePt | turns | canon | name
deriving Repr, DecidableEq

/-- canonical text of an answer (what the harness compares) -/
inductive Ans
  | names (l : List String)
  | chars (l : List Char)
  | nat (n : Nat)
  | str (s : String)
  | stab (t : List (List String))
  | ptab (t : PairTable)
  | oloc (l : Option Locus)
  | locs (l : List Locus)
  | bool (b : Bool)
  | rots (l : List (List String × List Char))
  | key (k : CKey)
  | err (e : Err)
deriving Repr, DecidableEq

/-- `kernel_string` -/
def kernelString (seq : List String) (sst : List Char) : String :=
  let toks := (seq.zip sst).map (fun (p : String × Char) =>
    if p.2 = '+' then "+" else if p.2 = ')' then ")" else if p.2 = '(' then p.1 ++ "(" else p.1)
  " ".intercalate toks

/-- all `n` rotations starting with the current representation (`rotate()` without `turns`) -/
def rotationsFrom : Nat → List String → List Char → Except Err (List (List String × List Char))
  | 0, _, _ => .ok []
  | 1, seq, sst => .ok [(seq, sst)]
  | k + 2, seq, sst =>
    match rotateOnce seq sst with
    | .error e => .error e
    | .ok r => (rotationsFrom (k + 1) r.1 r.2).map (fun rest => (seq, sst) :: rest)

namespace CplxObj

def getStrandTable (o : CplxObj) : CplxObj × List (List String) :=
  match o.strandTable with
  | some t => if t.isEmpty then let t' := makeStrandTableList "+" o.seq; ({ o with strandTable := some t' }, t') else (o, t)
  | none => let t := makeStrandTableList "+" o.seq; ({ o with strandTable := some t }, t)

def getPairTable (o : CplxObj) : CplxObj × Except Err PairTable :=
  match o.pairTable with
  | some t => if t.isEmpty then
      (match makePairTable o.sst with | .ok t' => ({ o with pairTable := some t' }, .ok t') | .error e => (o, .error e))
    else (o, .ok t)
  | none =>
    match makePairTable o.sst with
    | .ok t => ({ o with pairTable := some t }, .ok t)
    | .error e => (o, .error e)

def getLoopIndex (o : CplxObj) : CplxObj × Except Err (List (List Nat) × List Nat) :=
  match o.loopIndex with
  | some l => (o, .ok l)
  | none =>
    let (o1, pt) := o.getPairTable
    match pt with
    | .error e => (o1, .error e)
    | .ok pt =>
      match makeLoopIndex pt false with
      | .error e => (o1, .error e)
      | .ok lo => ({ o1 with loopIndex := some (lo.loopIndex, lo.exterior) }, .ok (lo.loopIndex, lo.exterior))

def size (o : CplxObj) : CplxObj × Nat := let (o', t) := o.getStrandTable; (o', t.length)

def getExtDomains (o : CplxObj) : CplxObj × Except Err (List Locus × List Locus) :=
  match o.extDomains with
  | some d => (o, .ok d)
  | none =>
    let (o1, li) := o.getLoopIndex
    match li with
    | .error e => (o1, .error e)
    | .ok (li, ext) =>
      let pt := o1.pairTable.getD []
      let loci : List Locus := (li.zipIdx.map (fun (p : List Nat × Nat) => p.1.zipIdx.map (fun (q : Nat × Nat) => (p.2, q.2)))).flatten
      let unpaired := loci.filter (fun l => ((pt[l.1]?).bind (fun s => s[l.2]?)).join.isNone)
      let liAt (l : Locus) : Nat := ((li[l.1]?).bind (fun s => s[l.2]?)).getD 0
      let exd := unpaired.filter (fun l => ext.contains (liAt l))
      let end_ := unpaired.filter (fun l => !ext.contains (liAt l))
      ({ o1 with extDomains := some (exd, end_) }, .ok (exd, end_))

/-- the `turns` setter (with the lazily built tables reset, so that they describe the new rotation) -/
def setTurns (o : CplxObj) (v : Int) : CplxObj × Option Err :=
  let (o1, tot) := o.size
  if tot = 0 then (o1, some (.fault "ZeroDivisionError")) else
  let t := wrap (-(o1.turns : Int) + v) tot
  match rotationsFrom tot o1.seq o1.sst with
  | .error e => (o1, some e)
  | .ok rots =>
    match rots[t]? with
    | none => (o1, some .objectInit)
    | some (s, st) =>
      ({ o1 with seq := s, sst := st, turns := wrap v tot,
                 strandTable := none, pairTable := none, loopIndex := none, extDomains := none }, none)

def query (o : CplxObj) (v : View) : CplxObj × Ans :=
  match v with
  | .sequence => (o, .names o.seq)
  | .structure => (o, .chars o.sst)
  | .kernel => (o, .str (kernelString o.seq o.sst))
  | .size => let (o', n) := o.size; (o', .nat n)
  | .strandTable => let (o', t) := o.getStrandTable; (o', .stab t)
  | .pairTable => let (o', t) := o.getPairTable; (o', match t with | .ok t => .ptab t | .error e => .err e)
  | .strandLength k =>
    let (o', t) := o.getStrandTable
    (o', match t[k]? with | some s => .nat s.length | none => .err (.fault "IndexError"))
  | .getDomain l =>
    let (o', t) := o.getStrandTable
    (o', match (t[l.1]?).bind (fun s => s[l.2]?) with | some d => .str d | none => .err (.fault "IndexError"))
  | .getPairedLoc l =>
    let (o', t) := o.getPairTable
    (o', match t with
      | .error e => .err e
      | .ok t => match (t[l.1]?).bind (fun s => s[l.2]?) with | some x => .oloc x | none => .err (.fault "IndexError"))
  | .getLoopIndex l =>
    let (o', t) := o.getLoopIndex
    (o', match t with
      | .error e => .err e
      | .ok (li, _) => match (li[l.1]?).bind (fun s => s[l.2]?) with | some x => .nat x | none => .err (.fault "IndexError"))
  | .exterior => let (o', d) := o.getExtDomains; (o', match d with | .ok d => .locs d.1 | .error e => .err e)
  | .enclosed => let (o', d) := o.getExtDomains; (o', match d with | .ok d => .locs d.2 | .error e => .err e)
  | .isConnected =>
    let (o', t) := o.getLoopIndex
    (o', match t with | .ok _ => .bool true | .error .secondaryStructure => .bool false | .error e => .err e)
  | .rotate =>
    let (o', n) := o.size
    (o', match rotationsFrom n o'.seq o'.sst with | .ok r => .rots r | .error e => .err e)
  | .rotatePt =>
    let (o', n) := o.size
    (o', match rotationsFrom n o'.seq o'.sst with | .ok r => .rots r | .error e => .err e)
  | .turns => (o, .nat o.turns)
  | .canon => (o, .key o.canon)
  | .name => (o, .str o.name)

end CplxObj

/-- the specification object: no caches; every view is computed from the current rotation -/
structure CplxSpec where
  seq : List String
  sst : List Char
  turns : Nat
  canon : CKey
  name : String

def CplxObj.spec (o : CplxObj) : CplxSpec := { seq := o.seq, sst := o.sst, turns := o.turns, canon := o.canon, name := o.name }

/-- answers of the specification: a fresh (cache-free) object of the same representation -/
def CplxSpec.answer (s : CplxSpec) (v : View) : Ans :=
  (CplxObj.query { seq := s.seq, sst := s.sst, turns := s.turns, canon := s.canon, name := s.name } v).2

end Dsd
