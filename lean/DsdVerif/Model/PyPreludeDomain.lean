/-
The reading of Python used by the statement-level translation of `DomainS.identifiers` (translator/pydomain.py -> Gen/PyDomain.lean):
the class `DomainS` as a record (the metaclass's two dictionaries, the counter `ID`, the attributes of the live objects), nested
requests, and temporaries that die when their value has been consumed.  All names are under `Py.Dom`.
-/
import DsdVerif.Model.PyPreludeSingleton
import DsdVerif.Model.PyPreludeKernel

namespace Dsd.Py.Dom

/-- the attributes `DomainS.__init__` assigns -/
structure Obj where
  _name : String
  _length : Option Nat
deriving Repr, DecidableEq

/-- the class: `reg` = `_instanceNames` / `_instanceCanon` (keys `(name, length)`), `ID`, and the live objects by identity -/
structure Cls where
  reg : SingletonCls (String × Nat) := {}
  ID : Nat := 1
  heap : List (Nat × Obj) := []
deriving Repr

abbrev M := MS Cls

/-- the arguments of `cls(name, length, prefix, dtype)`; an omitted one is `None` -/
structure Req where
  name : Option String := none
  length : Option Nat := none
  prefix_ : Option String := none
  dtype : Option String := none
deriving Repr

/-- truth value of a None-able str -/
def truthyOS (s : Option String) : Bool :=
  match s with
  | some x => !x.isEmpty
  | none => false

/-- the object `id` dies: the weak dictionaries lose the entries whose value it is, its attributes are gone -/
def drop (id : Nat) : M Unit :=
  modify (fun s => { s with
    reg := { _instanceNames := s.reg._instanceNames.filter (fun p => p.2 != id),
             _instanceCanon := s.reg._instanceCanon.filter (fun p => p.2 != id) },
    heap := s.heap.filter (fun p => p.1 != id) })

/-- the value `o` of a nested request is discarded: it dies iff it is the object `tmp` that this request created -/
def release (tmp o : Nat) : M Unit := if o == tmp then drop tmp else pure ()

/-- `len(o)` for the value `o` of a nested request, which is then released: `o.__len__()` is `o._length`; TypeError for None
    (and for an identity without attributes: does not happen) -/
def lenTemp (tmp o : Nat) : M Nat := do
  let l := ((← get).heap.lookup o).bind (·._length)
  release tmp o
  match l with
  | some n => pure n
  | none => throw (.fault "TypeError")

/-- run `m`; a SingletonError is caught (`none`), its effects on the class stay; other exceptions pass -/
def tryS {α} (m : M α) : M (Option α) :=
  tryCatch (some <$> m) (fun e => match e with | .singleton _ => pure none | e => throw e)

end Dsd.Py.Dom
