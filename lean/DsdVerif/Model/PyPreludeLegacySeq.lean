/-
Python primitives used by the legacy `SequenceConstraint` as `translator/pylegacy4.py` transcribes it (Gen/PyLegacySeq.lean).  Tag `LegS_`.
-/
import DsdVerif.Model.PyPrelude

namespace Dsd.Py

/-- a dict display `{k1: v1, k2: v2, …}` whose keys are evaluated at run time: the items are inserted left to right, a repeated
    key keeps its FIRST position and takes the LAST value (Python) -/
def LegS_dictOf {κ β} [BEq κ] (items : List (κ × β)) : List (κ × β) := items.foldl (fun d p => dictSet d p.1 p.2) []

end Dsd.Py
