/-
Python primitives used by the statement-level translation of `read_pil_line` (dsdobjects/objectio.py; translator/pyreaderfn3.py ->
Gen/PyReadLine.lean), in addition to Model/PyPrelude.lean, Model/PyPreludeReaderFns.lean, Model/PyPreludeReadPil.lean.

An object of the reader's classes is an opaque HANDLE (`RL.Handle`); every construction `Domain(…)`, `Strand(…)`, `Complex(…)`, `Macrostate(…)`,
`Reaction(…)`, every attribute read / assignment on such an object is a REQUEST to the object world: a field of `RL.Env ω`, a computation in
`Py.MS ω = ExceptT Err (StateM ω)` (the world survives an exception, as in Python).  `read_pil_line` returns `RL.Val`: an object or the parsed line.
-/
import DsdVerif.Model.PyPreludeReadPil

namespace Dsd.Py
open Dsd.PP

/-- `x == 'lit'` for a token tree: a list equals no str -/
def treeEqStr (x : Tree) (s : String) : Bool :=
  match x with
  | .tok t => t == s
  | .grp _ => false

/-- `x == 'lit'` for a value that may be `None` -/
def otreeEqStr (x : Option Tree) (s : String) : Bool :=
  match x with
  | some t => treeEqStr t s
  | none => false

/-- `int(x)`: TypeError for a list; for a str of decimal digits its value; any other str: ValueError.  (Python's `int` also accepts
    signs, blanks and underscores: NOT modelled, the grammar's tokens are `Word(nums)`.) -/
def treeInt (x : Tree) : M Nat :=
  match x with
  | .tok s => match s.toNat? with | some n => pure n | none => throw (.fault "ValueError")
  | .grp _ => throw (.fault "TypeError")

/-- `x.replace(a, b)` for a token tree: a str method (all occurrences of `a` replaced); a list has no such attribute: AttributeError -/
def treeReplace (x : Tree) (a b : String) : M Tree :=
  match x with
  | .tok s => pure (.tok (s.replace a b))
  | .grp _ => throw (.fault "AttributeError")

/-- the items `for y in x` visits: the items of a list, the one-character strs of a str -/
def treeItems (x : Tree) : List Tree :=
  match x with
  | .grp ts => ts
  | .tok s => s.toList.map (fun c => .tok (String.singleton c))

end Dsd.Py

namespace Dsd.RL
open Dsd

/-- an object of one of the reader's classes: an opaque identity -/
abbrev Handle := Nat

/-- what `read_pil_line` returns -/
inductive Val
  | obj (h : Handle)
  | raw (line : List PP.Tree)
deriving Repr, Inhabited

/-- the module-level names `read_pil_line` reads: the slots, the constructor requests of the classes they hold, the attribute accesses on their
    objects, and the parameters of the translated `read_reaction` -/
structure Env (ω : Type) where
  g : Gen.objectio.Globals
  Domain : PP.Tree → Option Nat → Py.MS ω Handle                                   -- Domain(name, length = n) / Domain(d)
  Strand : Option (List Handle) → PP.Tree → Py.MS ω Handle                        -- Strand(sequence, name) / Strand(None, name = s)
  Complex : Option (List Handle) → PP.Tree → Py.MS ω Handle                       -- Complex(None, None, x)   (look-up by name)
  Macrostate : Option (List Handle) → PP.Tree → Py.MS ω Handle                    -- Macrostate(complexes = cs, name = n) / Macrostate(None, x)
  Reaction : List Handle → List Handle → PP.Tree → Py.MS ω Handle                 -- Reaction(reactants, products, rtype)
  set_sequence : Handle → PP.Tree → Py.MS ω Unit                                  -- anon.sequence = line[2]
  set_rate_constant : Handle → Py.FloatLit → Option PP.Tree → Py.MS ω Unit        -- anon.rate_constant = (rate, units)
  RTYPES : Py.StrSet
  g12 : Py.FloatLit → String
  strL : List PP.Tree → String
  -- requests of the `strand-complex` branch (defaults: an environment that does not provide them refuses)
  strand_sequence : Handle → Py.MS ω (List Handle) := fun _ => throw (.fault "no-request:strand_sequence")   -- list(x.sequence) of a strand object
  strand_table_to_sequence : List (List Handle) → Py.MS ω (List (Option Handle)) := fun st =>           -- the imported function (complex_utils):
    match st.map (fun l => l.map some) with                                                              -- reduce(lambda a, b: a + ['+'] + b, st)
    | [] => throw (.fault "TypeError")
    | a :: rest => pure (rest.foldl (fun acc b => acc ++ [none] ++ b) a)
  ComplexNew : List (Option Handle) → List PP.Tree → PP.Tree → Py.MS ω Handle :=                         -- Complex(sequence, list(structure), name = n)
    fun _ _ _ => throw (.fault "no-request:ComplexNew")

/-- `G(args)` for a slot `G`: the arguments have been evaluated; calling `None` is a TypeError ("'NoneType' object is not callable"), otherwise
    the request is made -/
def call {ω α} (slot : Option Py.ClassId) (request : Py.MS ω α) : Py.MS ω α :=
  match slot with
  | none => throw (.fault "TypeError")
  | some _ => request

@[simp] theorem call_some {ω α} (k : Py.ClassId) (request : Py.MS ω α) : call (some k) request = request := rfl
@[simp] theorem call_none {ω α} (request : Py.MS ω α) : call none request = throw (.fault "TypeError") := rfl

end Dsd.RL
