/-
Python primitives used by the object parts of `MacrostateS` / `ReactionS` as `translator/pyident3.py` transcribes them into
`Gen/PySetObjects.lean` (namespace `Dsd.Py.Ident3`).  Same discipline as Model/PyPrelude.lean.
-/
import DsdVerif.Model.PyPreludeIdent2

namespace Dsd.Py.Ident3

/-- `next(g)` without default for a generator expression read as the list of its items: the first item, StopIteration if there is
    none (the rest of the generator is never run: its items are computed without effects, so the list reading is exact) -/
def nextOf {α} (l : List α) : Py.M α :=
  match l with
  | x :: _ => pure x
  | [] => throw (.fault "StopIteration")

end Dsd.Py.Ident3
