/-
The reading of Python used by the statement-level translation of `Singleton.__call__` / `clear_singletons`
(translator/pysingleton.py -> Gen/PySingleton.lean), in addition to Model/PyPrelude.lean: the class as a record of its two
dictionaries, dictionary operations with a None-able / possibly falsy key, and the abstract constructor.

Together with the rules at the top of translator/pysingleton.py these lines are the trusted reading of Python for that method.
-/
import DsdVerif.Model.PyPrelude

namespace Dsd.Py

/-- the part of a class with metaclass `Singleton` that `Singleton.__call__` reads or writes: the two `WeakValueDictionary`s as the
    association lists (key ↦ object id) of their live entries; `κ` is the type of the TRUTHY canonical forms -/
structure SingletonCls (κ : Type) where
  _instanceNames : List (String × Nat) := []
  _instanceCanon : List (κ × Nat) := []
deriving Repr

/-- a method of the metaclass: the class is the state -/
abbrev SM (κ : Type) := MS (SingletonCls κ)

/-- `d.get(k, None)` -/
def dictGetOpt {κ β} [BEq κ] (d : List (κ × β)) (k : κ) : Option β := d.lookup k

/-- `k in d` for a key that may be falsy (`none`): a falsy value is never a key of `d` -/
def dictHasO {κ β} [BEq κ] (d : List (κ × β)) (k : Option κ) : Bool :=
  match k with
  | some k => dictHas d k
  | none => false

/-- `d.get(k, None)` for a key that may be falsy -/
def dictGetOptO {κ β} [BEq κ] (d : List (κ × β)) (k : Option κ) : Option β :=
  match k with
  | some k => d.lookup k
  | none => none

/-- `d[k]` for a key that may be falsy: KeyError -/
def dictGetKO {κ β} [BEq κ] (d : List (κ × β)) (k : Option κ) : M β :=
  match k with
  | some k => dictGet d k
  | none => throw (.fault "KeyError")

/-- the key of `d[k] = v` for a key that may be falsy: storing under a falsy canonical form is outside the typing of the
    dictionary (keys `κ`) and is reported as an explicit translator fault, never silently -/
def keyOf {κ} (k : Option κ) : M κ :=
  match k with
  | some k => pure k
  | none => throw (.fault "translator:falsy-key")

/-- `x.name` (any attribute) of a None-able object reference: AttributeError for None -/
def attrOf (x : Option Nat) : M Unit :=
  match x with
  | some _ => pure ()
  | none => throw (.fault "AttributeError")

/-- `super(Singleton, cls).__call__(*args, **kwargs)` as an abstract constructor: the new object is `fresh`; its `__init__` stored it
    in `_instanceCanon` under each of `initKeys`, in order (`cls._instanceCanon[k] = self`) -/
def construct {κ} [BEq κ] (fresh : Nat) (initKeys : List κ) : SM κ Nat := do
  modify (fun s => { s with _instanceCanon := initKeys.foldl (fun d k => dictSet d k fresh) s._instanceCanon })
  pure fresh

end Dsd.Py
