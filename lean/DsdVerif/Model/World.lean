/-
The whole object world driven by the history protocol: per kind four classes
(0 = library class, 1 = subclass of 0, 2 = subclass of 1, 3 = another subclass of 0), each with its
own registry (Singleton.__init__ gives every class its own dictionaries), the strong-reference graph
(user handles + containment), and the per-complex mutable state.
-/
import DsdVerif.Model.CplxObject

namespace Dsd

inductive Kind | dom | strand | cplx | macro | rxn
deriving DecidableEq, Repr

structure Node where
  id : Nat
  kind : Kind
  cls : Nat
  children : List Nat          -- strong references held by the object (containment)
deriving Repr

/-- a class registry plus whether the class has its own `ID` attribute yet -/
structure ClassReg (κ : Type) where
  reg : Reg κ := {}
  ownId : Bool := false
  prefix_ : Option String := none      -- own PREFIX, else inherited

def parentOf : Nat → Option Nat
  | 0 => none
  | 1 => some 0
  | 2 => some 1
  | 3 => some 0
  | _ => some 0

structure World where
  cfg : List DomCfg := [{}, {}, {}, {}]
  doms : List (ClassReg DKey) := [{ ownId := true, prefix_ := some "d" }, {}, {}, {}]
  strands : List (ClassReg CKey) := [{ ownId := true, prefix_ := some "s" }, {}, {}, {}]
  cplxs : List (ClassReg CKey) := [{ ownId := true, prefix_ := some "c" }, {}, {}, {}]
  macros : List (ClassReg MKey) := [{ ownId := true }, {}, {}, {}]
  rxns : List (ClassReg RKey) := [{ ownId := true }, {}, {}, {}]
  nodes : List Node := []
  held : List Nat := []                 -- user handles
  nextId : Nat := 0
  cstate : List (Nat × CplxObj) := []

namespace World

/-- effective `cls.ID`: own attribute or the nearest ancestor's -/
def effId {κ} (cs : List (ClassReg κ)) : Nat → Nat → Nat
  | 0, _ => 1
  | fuel + 1, c =>
    match cs[c]? with
    | none => 1
    | some cr => if cr.ownId then cr.reg.autoId else match parentOf c with | some p => effId cs fuel p | none => cr.reg.autoId

def effPrefix {κ} (cs : List (ClassReg κ)) : Nat → Nat → String
  | 0, _ => ""
  | fuel + 1, c =>
    match cs[c]? with
    | none => ""
    | some cr => match cr.prefix_ with | some p => p | none => match parentOf c with | some p => effPrefix cs fuel p | none => ""

/-- run a request against class `c`'s registry with the inherited `ID` made visible -/
def withClass {κ} (cs : List (ClassReg κ)) (c : Nat) (f : Reg κ → Reg κ × Out) : List (ClassReg κ) × Out :=
  match cs[c]? with
  | none => (cs, .fault "no-class")
  | some cr =>
    let eid := effId cs 5 c
    let (r', out) := f { cr.reg with autoId := eid }
    let own := cr.ownId || r'.autoId != eid
    (cs.set c { cr with reg := r', ownId := own }, out)

def childrenOf (w : World) (x : Nat) : List Nat :=
  match w.nodes.find? (fun n => n.id == x) with | some n => n.children | none => []

/-- one round of following strong references -/
def expand (w : World) (s : List Nat) : List Nat := (s ++ s.flatMap w.childrenOf).eraseDups

/-- everything reachable from a user handle: `nodes.length + 1` rounds reach the fixed point -/
def iter {α} (f : α → α) : Nat → α → α
  | 0, x => x
  | n + 1, x => iter f n (f x)

def reachable (w : World) : List Nat := iter w.expand (w.nodes.length + 1) w.held.eraseDups

def dropDead {κ} [DecidableEq κ] (cs : List (ClassReg κ)) (alive : List Nat) : List (ClassReg κ) :=
  cs.map (fun cr => { cr with reg := { cr.reg with objs := cr.reg.objs.filter (fun o => alive.contains o.id) } })

/-- collect everything not reachable from a user handle (reference counting + one gc pass) -/
def collect (w : World) : World :=
  let alive := w.reachable
  { w with
    doms := dropDead w.doms alive, strands := dropDead w.strands alive, cplxs := dropDead w.cplxs alive,
    macros := dropDead w.macros alive, rxns := dropDead w.rxns alive,
    nodes := w.nodes.filter (fun n => alive.contains n.id),
    cstate := w.cstate.filter (fun p => alive.contains p.1) }

/-- bookkeeping after a request: a created object becomes a node, the result is held by the user -/
def settle (w : World) (out : Out) (kind : Kind) (cls : Nat) (children : List Nat) : World :=
  match out with
  | .ret id true =>
    { w with nodes := w.nodes ++ [{ id := id, kind := kind, cls := cls, children := children }],
             held := if w.held.contains id then w.held else w.held ++ [id], nextId := w.nextId + 1 }
  | .ret id false => { w with held := if w.held.contains id then w.held else w.held ++ [id] }
  | _ => w

def node (w : World) (id : Nat) : Option Node := w.nodes.find? (fun n => n.id == id)

def domObj (w : World) (id : Nat) : Option (Nat × Obj DKey) :=
  match w.node id with
  | some n => if n.kind = .dom then ((w.doms[n.cls]?).bind (fun cr => cr.reg.findId id)).map (fun o => (n.cls, o)) else none
  | none => none

def cplxObj (w : World) (id : Nat) : Option (Nat × Obj CKey) :=
  match w.node id with
  | some n =>
    if n.kind = .cplx then ((w.cplxs[n.cls]?).bind (fun cr => cr.reg.findId id)).map (fun o => (n.cls, o))
    else if n.kind = .strand then ((w.strands[n.cls]?).bind (fun cr => cr.reg.findId id)).map (fun o => (n.cls, o))
    else none
  | none => none

def macroObj (w : World) (id : Nat) : Option (Nat × Obj MKey) :=
  match w.node id with
  | some n => if n.kind = .macro then ((w.macros[n.cls]?).bind (fun cr => cr.reg.findId id)).map (fun o => (n.cls, o)) else none
  | none => none

/-! ### requests -/

def mkDom (w : World) (c : Nat) (q : DomReq) : World × Out :=
  let cfg := (w.cfg[c]?).getD {}
  let cfg := { cfg with prefix_ := effPrefix w.doms 5 c }
  let (ds, out) := withClass w.doms c (fun r => domainRequest cfg r w.nextId q)
  (({ w with doms := ds }).settle out .dom c [], out)

def invert (w : World) (id : Nat) : World × Out :=
  match w.domObj id with
  | none => (w, .fault "dead-handle")
  | some (c, o) => w.mkDom c { name := some (cnameOf o.name), length := some o.canon.2 }

/-- names of a sequence given as domain handles (`none` = break) -/
def seqNames (w : World) (seq : List (Option Nat)) : Option (List String) :=
  seq.mapM (fun x => match x with | none => some "+" | some id => (w.domObj id).map (fun p => p.2.name))

def mkCplx (w : World) (c : Nat) (seq : Option (List (Option Nat))) (sst : List Char) (name pfx : Option String) :
    World × Out × Option CplxIds :=
  let names := seq.map (fun s => (w.seqNames s).getD [])
  let q : CplxReq := { seq := names, sst := sst, name := name, prefix_ := pfx }
  match w.cplxs[c]? with
  | none => (w, .fault "no-class", none)
  | some cr =>
    let eid := effId w.cplxs 5 c
    let (r', out, ids) := complexRequest (effPrefix w.cplxs 5 c) { cr.reg with autoId := eid } w.nextId q
    let own := cr.ownId || r'.autoId != eid
    let w1 := { w with cplxs := w.cplxs.set c { cr with reg := r', ownId := own } }
    let children := (seq.getD []).filterMap id
    let w2 := w1.settle out .cplx c children
    let w3 := match out, ids, names with
      | .ret id true, some i, some ns =>
        { w2 with cstate := w2.cstate ++ [(id, { seq := ns, sst := sst, turns := i.turns, canon := i.canon,
                                                   name := ((r'.findId id).map (·.name)).getD "" })] }
      | _, _, _ => w2
    (w3, out, ids)

def mkStrand (w : World) (c : Nat) (seq : Option (List (Option Nat))) (name : Option String) : World × Out :=
  let names := seq.map (fun s => (w.seqNames s).getD [])
  let (ss, out) := withClass w.strands c (fun r => strandRequest (effPrefix w.strands 5 c) r w.nextId names name)
  (({ w with strands := ss }).settle out .strand c ((seq.getD []).filterMap id), out)

/-- `StrandS(sequence, name, prefix = pfx)`: an explicit prefix replaces the class prefix in the automatic name -/
def mkStrandP (w : World) (c : Nat) (seq : Option (List (Option Nat))) (name pfx : Option String) : World × Out :=
  let names := seq.map (fun s => (w.seqNames s).getD [])
  let (ss, out) := withClass w.strands c (fun r => strandRequest (pfx.getD (effPrefix w.strands 5 c)) r w.nextId names name)
  (({ w with strands := ss }).settle out .strand c ((seq.getD []).filterMap id), out)

theorem mkStrandP_none (w : World) (c : Nat) (seq : Option (List (Option Nat))) (name : Option String) :
    w.mkStrandP c seq name none = w.mkStrand c seq name := rfl

def mkMacro (w : World) (c : Nat) (members : Option (List Nat)) (name : Option String) : World × Out :=
  let ms := members.map (fun l => l.filterMap (fun id => (w.cplxObj id).map (fun p => (p.2.name, p.2.canon))))
  let (ss, out) := withClass w.macros c (fun r => macroRequest r w.nextId ms name)
  (({ w with macros := ss }).settle out .macro c (members.getD []), out)

def memberKey (w : World) (id : Nat) : Option (String × MemKey) :=
  match w.cplxObj id with
  | some p => some (p.2.name, .c p.2.canon)
  | none => (w.macroObj id).map (fun p => (p.2.name, .m p.2.canon))

def mkRxn (w : World) (c : Nat) (rs ps : Option (List Nat)) (rtype name : Option String) :
    World × Out × Option (List String × List String) :=
  match w.rxns[c]? with
  | none => (w, .fault "no-class", none)
  | some cr =>
    let (r', out, lists) := reactionRequest cr.reg w.nextId (rs.map (·.filterMap w.memberKey)) (ps.map (·.filterMap w.memberKey)) rtype name
    let w1 := { w with rxns := w.rxns.set c { cr with reg := r' } }
    (w1.settle out .rxn c ((rs.getD []) ++ (ps.getD [])), out, lists)

def drop (w : World) (id : Nat) : World := ({ w with held := w.held.filter (· != id) }).collect

def allNames (w : World) : List (List String) :=
  let f {κ} (cs : List (ClassReg κ)) : List (List String) := cs.map (fun cr => cr.reg.names.mergeSort (fun a b => !strLt b a))
  f w.doms ++ f w.strands ++ f w.cplxs ++ f w.macros ++ f w.rxns

def isLive (w : World) (id : Nat) : Bool := (w.node id).isSome

/-- an unnamed request for the complex `(names, sst)` made from inside `split()`; the children are the domain
    objects of the parent that carry these names -/
def mkCplxByNames (w : World) (c : Nat) (names : List String) (sst : List Char) (parentChildren : List Nat) : World × Out :=
  match w.cplxs[c]? with
  | none => (w, .fault "no-class")
  | some cr =>
    let eid := effId w.cplxs 5 c
    let (r', out, ids) := complexRequest (effPrefix w.cplxs 5 c) { cr.reg with autoId := eid } w.nextId
      { seq := some names, sst := sst, name := none, prefix_ := none }
    let own := cr.ownId || r'.autoId != eid
    let w1 := { w with cplxs := w.cplxs.set c { cr with reg := r', ownId := own } }
    let children := parentChildren.filter (fun d => match w.domObj d with | some (_, o) => names.contains o.name | none => false)
    -- `split()` yields `err.existing` when the unnamed request is refused with an existing object
    let out' := match out with | .singletonErr (some e) => Out.ret e false | o => o
    let w2 := w1.settle out' .cplx c children
    let w3 := match out', ids with
      | .ret id true, some i =>
        { w2 with cstate := w2.cstate ++ [(id, { seq := names, sst := sst, turns := i.turns, canon := i.canon,
                                                   name := ((r'.findId id).map (·.name)).getD "" })] }
      | _, _ => w2
    (w3, out')

/-- `list(c.split())`: one request per connected component; a refusal without `existing` aborts, and the
    components created by this call are released again -/
def splitC (w : World) (id : Nat) : World × List Out :=
  match w.cstate.lookup id, w.node id with
  | some o, some nd =>
    match makePairTable o.sst with
    | .error _ => (w, [.ssErr])
    | .ok pt =>
      let stab := makeStrandTableList "+" o.seq
      match splitPt (pt.length + 1) stab pt with
      | .error _ => (w, [.fault "split"])
      | .ok parts =>
        let heldBefore := w.held
        let rec go : List (List (List String) × PairTable) → World → List Out → World × List Out
          | [], w, acc => (w, acc)
          | p :: rest, w, acc =>
            match strandTableToSequence "+" p.1 with
            | .error _ => (w, acc ++ [.fault "TypeError"])
            | .ok names =>
              let (w', out) := w.mkCplxByNames nd.cls names (ptToDb p.2) nd.children
              match out with
              | .ret _ _ => go rest w' (acc ++ [out])
              | e =>
                -- the list being built is discarded: objects created by this call die
                (({ w' with held := w'.held.filter (fun h => heldBefore.contains h) }).collect, [e])
        go parts w []
  | _, _ => (w, [.fault "dead-handle"])

/-! ### complex object state -/

def cset (w : World) (id : Nat) (o : CplxObj) : World :=
  { w with cstate := w.cstate.map (fun p => if p.1 == id then (id, o) else p) }

def setTurns (w : World) (id : Nat) (v : Int) : World × Option Err :=
  match w.cstate.lookup id with
  | none => (w, some (.fault "dead-handle"))
  | some o => let (o', e) := o.setTurns v; (w.cset id o', e)

def queryC (w : World) (id : Nat) (v : View) : World × Ans :=
  match w.cstate.lookup id with
  | none => (w, .err (.fault "dead-handle"))
  | some o => let (o', a) := o.query v; (w.cset id o', a)

end World
end Dsd
