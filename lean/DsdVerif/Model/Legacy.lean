/-
Model of the legacy `DSD_Complex.canonical_form` (dsdobjects/core/deprecated.py): the object is rotated in
place `size` times; every representation met after the e-th rotation (e = 1 … size) is recorded with the
first `e` at which it occurs; the canonical form is the minimum by (names, structure); `_rotations` is
`abs(e − size)` for that form.
-/
import DsdVerif.Model.Objects

namespace Dsd

/-- the representations after 1, 2, …, n rotations -/
def legacyVariants : Nat → List String → List Char → Except Err (List CKey)
  | 0, _, _ => .ok []
  | k + 1, seq, sst =>
    match rotateOnce seq sst with
    | .error e => .error e
    | .ok r => (legacyVariants k r.1 r.2).map (fun rest => r :: rest)

/-- 1-based index of the first occurrence -/
def firstIdx1 (ks : List CKey) (k : CKey) : Nat := ks.idxOf k + 1

/-- `(canonical_form, _rotations)` of a legacy complex -/
def legacyCanon (seq : List String) (sst : List Char) : Except Err (CKey × Nat) :=
  let n := (makeStrandTableList "+" seq).length
  match legacyVariants n seq sst with
  | .error e => .error e
  | .ok vs =>
    match minKey vs with
    | none => .error (.fault "IndexError")
    | some c =>
      let e := firstIdx1 vs c
      .ok (c, if e ≥ n then e - n else n - e)

end Dsd
