/-
Python primitives used by `MacrostateS.identifiers` and `ReactionS.identifiers` (dsdobjects/base_classes.py) as
`translator/pyident2.py` transcribes them into `Gen/PyIdentifiers2.lean`.  Same discipline as Model/PyPreludeIdent.lean.  Of the
hand-written model only the DATA type `MemKey` (Model/Objects.lean: a canonical form that is a complex's `(names, structure)` or a
macrostate's tuple of complexes, each complex read through its canonical form) is used; the comparison of such forms and `sorted`
with a comparison that can raise are written here from first principles and PROVED equal to the model's `memLt` / `pySorted` in
Lemmas/PyIdent2Sort.lean.
-/
import DsdVerif.Model.PyPreludeIdent
import DsdVerif.Model.Objects

namespace Dsd.Py

/-- `a < b` on canonical forms of members.
    complex / complex: tuples `(names, structure)`, `Py.ckeyLt`.
    macrostate / macrostate: tuples of `ComplexS` objects; `ComplexS.__eq__` / `__lt__` compare the canonical forms, so this is the
    sequence order over `Py.ckeyLt`.
    complex / macrostate: `(names, structure) < (c0, …)` compares `names` with the object `c0`: `==` is False
    (`ComplexS.__eq__`: not an instance), then `tuple.__lt__(names, c0)` is NotImplemented and the reflected `ComplexS.__gt__(c0, names)` starts
    with `assert isinstance(other, ComplexS)`: AssertionError (and the same the other way round, through `ComplexS.__lt__`).
    Against the EMPTY tuple no item is compared: `() < x` is True, `x < ()` is False for a non-empty `x`. -/
def formLtM : MemKey → MemKey → M Bool
  | .c a, .c b => pure (ckeyLt a b)
  | .m a, .m b => pure (seqLt ckeyLt a b)
  | .c _, .m [] => pure false
  | .m [], .c _ => pure true
  | .c _, .m (_ :: _) => throw .assertion
  | .m (_ :: _), .c _ => throw .assertion

/-- put `x` in front of the first item that is not smaller than it; a comparison that raises aborts -/
def insertByM {α} (lt : α → α → M Bool) (x : α) : List α → M (List α)
  | [] => pure [x]
  | y :: ys => do
    if (← lt y x) then
      let r ← insertByM lt x ys
      pure (y :: r)
    else pure (x :: y :: ys)

/-- `sorted(l)` / `sorted(l, key=…)` with a comparison `lt a b` (`key(a) < key(b)`) that can raise: the stable sort of
    `Py.sortedBy`, by insertion from the right; the exception of the first comparison that raises propagates.  WHICH comparisons
    CPython's sort performs is an implementation detail (timsort); this reading is exact for comparisons whose raising does not
    depend on that: with `formLtM` on forms none of which is the empty tuple, every comparison sort raises iff the list holds both
    kinds of forms, because the first item whose kind differs from all items before it is compared with one of them
    (`sortedByM_eq`, Lemmas/PyIdent2Sort.lean, for this algorithm). -/
def sortedByM {α} (lt : α → α → M Bool) (l : List α) : M (List α) :=
  l.foldr (fun x acc => do let s ← acc; insertByM lt x s) (pure [])

/-- `x in l` for a value `x` that may be `None` and a list none of whose items is `None`: `None in l` is False -/
def optIn {α} [BEq α] (x : Option α) (l : List α) : Bool :=
  match x with
  | some a => l.contains a
  | none => false

/-- `sep.join(parts)` for opaque strs -/
def strJoinS (sep : String) (parts : List String) : String := sep.intercalate parts

/-- `'{}'.format(x)` / `str(x)` for a `None`-able str: `None` is written `None` -/
def strOpt : Option String → String
  | some s => s
  | none => "None"

end Dsd.Py
