/-
`Singleton.__call__` (dsdobjects/singleton.py) after `cls.identifiers(...)` returned `(canon, name, kwadd)`,
statement by statement — with Python's TRUTHINESS tests (`if name and canon:` / `elif name:`), which
`Model/Registry.lean: Reg.call` leaves to its callers (there `none` stands for a falsy name / canonical form).

    if name and canon:
        if name in cls._instanceNames or canon in cls._instanceCanon:
            objN = …get(name); objC = …get(canon)
            if objN is None: raise SingletonError(existing = objC)
            elif objC is None: raise SingletonError
            if not (objN is objC): raise SingletonError
            Sobj = objN
    elif name:   … look-up by name …
    else:        … look-up by canonical form …
    if Sobj is None:
        Sobj = super().__call__(*args, **kwargs)      -- cls.__init__: may register further keys, may consume cls.ID
        cls._instanceNames[name] = Sobj
        cls._instanceCanon[canon] = Sobj
-/
import DsdVerif.Model.Registry

namespace Dsd
namespace Reg
variable {κ : Type} [DecidableEq κ]

/-- `canon` is `none` for a falsy canonical form (`None`, or the empty tuple of a macrostate without members);
    `name` is the string `identifiers` returned (these classes never return `None` for it);
    `initKeys` are the keys `cls.__init__` stores in `_instanceCanon` itself (`rcplxs` for a complex), `autoNamed`
    whether `__init__` consumes an automatic name (`cls.ID += 1`) -/
def callFull (r : Reg κ) (canon : Option κ) (name : String) (fresh : Nat) (initKeys : List κ) (autoNamed : Bool) :
    Reg κ × Out :=
  let nameTruthy := !name.isEmpty
  match nameTruthy, canon with
  | true, some k =>
    if (r.findName name).isSome || (r.findCanon k).isSome then
      match r.findName name, r.findCanon k with
      | none, some oc => (r, .singletonErr (some oc.id))
      | some _, none => (r, .singletonErr none)
      | some on, some oc => if on.id = oc.id then (r, .ret on.id false) else (r, .singletonErr none)
      | none, none => (r, .fault "unreachable")
    else
      -- `__init__` first (its own registrations), then the two assignments of `__call__`;
      -- assigning to a key that is already present adds nothing
      let keys := if initKeys.contains k then initKeys else initKeys ++ [k]
      (r.register { id := fresh, name := name, canon := k, keys := keys } autoNamed, .ret fresh true)
  | true, none =>
    match r.findName name with
    | some o => (r, .ret o.id false)
    | none => (r, .singletonErr none)
  | false, some k =>
    match r.findCanon k with
    | some o => (r, .ret o.id false)
    | none => (r, .singletonErr none)
  | false, none => (r, .singletonErr none)      -- `None not in cls._instanceCanon`

end Reg
end Dsd
