/-
Model of `ComplexS.is_domainlevel_complement` (dsdobjects/base_classes.py):

    for si, strand in enumerate(self.pair_table):
        for di, domain in enumerate(strand):
            loc = (si,di)
            cloc = self._pair_table[si][di]
            if not (cloc is None or self.get_domain(loc) == ~self.get_domain(cloc)):
                return False
    return True

Conventions.  A domain is the pair (name, length) on which `DomainS.__eq__` compares; `~d` is the domain
with the complementary name (`compName`, the model of `DomainS.cname`) and the same length.
`get_domain(loc)` is `strand_table[loc[0]][loc[1]]`, an IndexError outside the table.  Loci are pairs of
natural numbers (the partners `make_pair_table` writes are never negative), so Python's negative
indexing is outside the model.  The iteration is over the pair table (`self.pair_table` yields copies of
the rows of `self._pair_table`, which is filled by that very property, so `self._pair_table[si][di]` is
the element being visited).
-/
import DsdVerif.Model.Complex
import DsdVerif.Model.Kernel

namespace Dsd

/-- what `DomainS.__eq__` looks at -/
structure Dom where
  name : String
  len : Nat
deriving DecidableEq, Repr

/-- `~d`: complementary name, same length -/
def Dom.compl (d : Dom) : Dom := { name := compName d.name, len := d.len }

/-- `get_domain(loc)`: `strand_table[loc[0]][loc[1]]` -/
def getDomain (stab : List (List Dom)) (loc : Locus) : Except Err Dom :=
  match stab[loc.1]? with
  | none => .error (.fault "IndexError")
  | some strand =>
    match strand[loc.2]? with
    | none => .error (.fault "IndexError")
    | some d => .ok d

/-- the condition `cloc is None or self.get_domain(loc) == ~self.get_domain(cloc)` at `loc = (si, di)`;
    `get_domain(loc)` is evaluated before `get_domain(cloc)`, and neither when `cloc is None` -/
def dlcCell (stab : List (List Dom)) (si di : Nat) (cloc : Option Locus) : Except Err Bool :=
  match cloc with
  | none => .ok true
  | some c =>
    match getDomain stab (si, di) with
    | .error e => .error e
    | .ok d =>
      match getDomain stab c with
      | .error e => .error e
      | .ok d' => .ok (decide (d = d'.compl))

/-- the inner loop over the strand `si`, from position `di` on: the first cell that is not `True`
    decides (`return False`, or the exception propagates) -/
def dlcRow (stab : List (List Dom)) (si : Nat) : Nat → List (Option Locus) → Except Err Bool
  | _, [] => .ok true
  | di, cloc :: rest =>
    match dlcCell stab si di cloc with
    | .error e => .error e
    | .ok false => .ok false
    | .ok true => dlcRow stab si (di + 1) rest

/-- the outer loop, from strand `si` on -/
def dlcRows (stab : List (List Dom)) : Nat → PairTable → Except Err Bool
  | _, [] => .ok true
  | si, strand :: rest =>
    match dlcRow stab si 0 strand with
    | .error e => .error e
    | .ok false => .ok false
    | .ok true => dlcRows stab (si + 1) rest

/-- `ComplexS.is_domainlevel_complement` for the strand table `stab` and the pair table `pt` -/
def isDomainLevelComplement (stab : List (List Dom)) (pt : PairTable) : Except Err Bool :=
  dlcRows stab 0 pt

end Dsd
