/-
Python primitives used by the registry methods of the legacy `DSD_Complex` as `translator/pylegacy2.py` transcribes them
(Gen/PyLegacyReg.lean).  All names carry the tag `LegR_`.
-/
import DsdVerif.Model.PyPrelude
import DsdVerif.Model.Objects

namespace Dsd.Py

/-- an object reference as the translation keeps it: (identity, the object's `_rotations` when the reference was stored) -/
abbrev LegR_Ref := Nat × Option Nat

/-- `sorted(list(d.keys()), key=lambda x: (x[0], x[1]))` for a dict whose keys are pairs (tuple of names, tuple of characters):
    the keys in insertion order, sorted stably by Python's lexicographic tuple ordering (names by code points) -/
def LegR_sortedKeys {β} (d : List (CKey × β)) : List CKey := sortBy ckeyLt (d.map (·.1))

/-- `raise error` for a `DSDDuplicationError` whose attributes `existing` (an object, by identity) and `rotations` were set:
    `Err` has no constructor with fields for it -/
def LegR_dupErr (existing : Nat) (rotations : Int) : Err :=
  .fault ("DSDDuplicationError existing=h" ++ toString existing ++ " rotations=" ++ toString rotations)

end Dsd.Py
