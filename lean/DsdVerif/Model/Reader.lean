/-
Model of dsdobjects/objectio.py: `read_reaction`, `read_pil_line`, `read_pil` driven by the token trees of
the PIL grammar (Model/Pyparsing + Gen/Grammars) against the object world (Model/World).

Numbers that the code converts with `float()` are kept as their literal text; the harness compares them
numerically.  The reader's local variables hold objects only until the end of a line: after every line the
user-visible handles are the previous ones plus the objects stored in the result dictionary.
-/
import DsdVerif.Model.World
import DsdVerif.Model.Kernel
import DsdVerif.Model.Iupac
import DsdVerif.Gen.GrammarUnits

namespace Dsd
open Dsd.PP

/-- which class (index into the four classes of a kind) each reader slot is configured with -/
structure Slots where
  dom : Nat := 0
  strand : Nat := 0
  cplx : Nat := 0
  macr : Nat := 0
  rxn : Nat := 0
deriving Repr

inductive RErr
  | singleton | objectInit | secondaryStructure | notImplemented | assertion | pilFormat
  | fault (kind : String)
deriving Repr, DecidableEq

def RErr.ofOut : Out → RErr
  | .singletonErr _ => .singleton
  | .objectInitErr => .objectInit
  | .ssErr => .secondaryStructure
  | .notImplemented => .notImplemented
  | .assertion => .assertion
  | .fault k => .fault k
  | .ret _ _ => .fault "not-an-error"

/-- what a line produced -/
inductive RObj
  | dom (id : Nat) | strand (id : Nat) | cplx (id : Nat) | macro (id : Nat) | rxn (id : Nat) (condensed : Bool)
  | other
deriving Repr

structure RState where
  w : World := {}
  dseq : List (Nat × String) := []                         -- domain id ↦ sequence constraint
  conc : List (Nat × (String × String × String)) := []     -- complex id ↦ (mode, value literal, unit)
  rate : List (Nat × (String × Option String)) := []       -- reaction id ↦ (rate literal, units)

/-- the result dictionary (ids in order of insertion; a later entry under the same name replaces an earlier) -/
structure RDict where
  domains : List (String × Nat) := []
  strands : List (String × Nat) := []
  complexes : List (String × Nat) := []
  macrostates : List (String × Nat) := []
  det : List Nat := []
  con : List Nat := []
  other : Nat := 0
deriving Repr

def dictPut (d : List (String × Nat)) (n : String) (id : Nat) : List (String × Nat) :=
  if d.any (fun p => p.1 == n) then d.map (fun p => if p.1 == n then (n, id) else p) else d ++ [(n, id)]

def tokStr : Tree → Option String
  | .tok s => some s
  | .grp _ => none

def tokList (ts : List Tree) : List String := ts.filterMap tokStr

def objName {κ} [DecidableEq κ] (cs : List (ClassReg κ)) (c id : Nat) : Option String :=
  ((cs[c]?).bind (fun cr => cr.reg.findId id)).map (·.name)

namespace RState

def domReq (s : RState) (sl : Slots) (q : DomReq) : RState × Except RErr Nat :=
  let (w', out) := s.w.mkDom sl.dom q
  match out with
  | .ret id _ => ({ s with w := w' }, .ok id)
  | e => ({ s with w := w' }, .error (RErr.ofOut e))

/-- `[Domain(x) for x in names]`, stopping at the first refusal -/
def domList (s : RState) (sl : Slots) : List String → RState × Except RErr (List Nat)
  | [] => (s, .ok [])
  | n :: ns =>
    match s.domReq sl { name := some n } with
    | (s1, .error e) => (s1, .error e)
    | (s1, .ok id) =>
      match domList s1 sl ns with
      | (s2, .error e) => (s2, .error e)
      | (s2, .ok ids) => (s2, .ok (id :: ids))

/-- `list(Strand(None, name = n).sequence)`: the domain objects of a live strand -/
def strandDomains (s : RState) (sl : Slots) (n : String) : RState × Except RErr (List Nat) :=
  let (w', out) := s.w.mkStrand sl.strand none (some n)
  match out with
  | .ret id _ => ({ s with w := w' }, .ok ((w'.node id).map (·.children) |>.getD []))
  | e => ({ s with w := w' }, .error (RErr.ofOut e))

/-- `~d` for every element -/
def invertAll (s : RState) : List Nat → RState × Except RErr (List Nat)
  | [] => (s, .ok [])
  | d :: ds =>
    let (w', out) := s.w.invert d
    match out with
    | .ret id _ =>
      match invertAll { s with w := w' } ds with
      | (s2, .ok ids) => (s2, .ok (id :: ids))
      | (s2, .error e) => (s2, .error e)
    | e => ({ s with w := w' }, .error (RErr.ofOut e))

/-- the fallback loop of the kernel-complex branch: names that are not domains may be composite domains
    (strands) or complements of composite domains; their domains are inserted with copies of the structure
    character -/
def expandKernel (s : RState) (sl : Slots) : List String → List Char → RState × Except RErr (List (Option Nat) × List Char)
  | [], _ => (s, .ok ([], []))
  | _ :: _, [] => (s, .error (.fault "IndexError"))
  | n :: ns, c :: cs =>
    if n == "+" then
      match expandKernel s sl ns cs with
      | (s2, .ok (ids, st)) => (s2, .ok (none :: ids, c :: st))
      | (s2, .error e) => (s2, .error e)
    else
      let (s1, here) : RState × Except RErr (List Nat) :=
        match s.domReq sl { name := some n } with
        | (s1, .ok id) => (s1, .ok [id])
        | (s1, .error .singleton) =>
          match s1.strandDomains sl n with
          | (s2, .ok ds) => (s2, .ok ds)
          | (s2, .error .singleton) =>
            match s2.strandDomains sl (compName n) with
            | (s3, .ok ds) => s3.invertAll ds.reverse
            | (s3, .error .singleton) => (s3, .error .pilFormat)
            | (s3, .error e) => (s3, .error e)
          | (s2, .error e) => (s2, .error e)
        | (s1, .error e) => (s1, .error e)
      match here with
      | .error e => (s1, .error e)
      | .ok ds =>
        match expandKernel s1 sl ns cs with
        | (s2, .ok (ids, st)) => (s2, .ok (ds.map some ++ ids, ds.map (fun _ => c) ++ st))
        | (s2, .error e) => (s2, .error e)

/-- `Complex(None, None, x)` / `Macrostate(None, x)` for every name -/
def lookupAll (s : RState) (f : World → String → World × Out) : List String → RState × Except RErr (List Nat)
  | [] => (s, .ok [])
  | n :: ns =>
    let (w', out) := f s.w n
    match out with
    | .ret id _ =>
      match lookupAll { s with w := w' } f ns with
      | (s2, .ok ids) => (s2, .ok (id :: ids))
      | (s2, .error e) => (s2, .error e)
    | e => ({ s with w := w' }, .error (RErr.ofOut e))

def setConc (s : RState) (id : Nat) (c : String × String × String) : RState :=
  { s with conc := (s.conc.filter (fun p => p.1 != id)) ++ [(id, c)] }

/-- `read_pil_line(line)` for a parsed line -/
def readLine (s : RState) (sl : Slots) (line : List Tree) : RState × Except RErr RObj :=
  match line with
  | .tok "dl-domain" :: .tok name :: .tok len :: _ =>
    let l? : Option Nat := if len == "short" then some 5 else if len == "long" then some 15 else len.toNat?
    match l? with
    | none => (s, .error (.fault "ValueError"))
    | some l =>
      match s.domReq sl { name := some name, length := some l } with
      | (s1, .ok id) => (s1, .ok (.dom id))
      | (s1, .error e) => (s1, .error e)
  | .tok "sl-domain" :: .tok name :: .tok con :: rest =>
    let bad := match rest with
      | [.tok n] => n.toNat? != some con.length
      | _ => false
    if bad then (s, .error .pilFormat) else
    match s.domReq sl { name := some name, length := some con.length } with
    | (s1, .ok id) => ({ s1 with dseq := (s1.dseq.filter (fun p => p.1 != id)) ++ [(id, con)] }, .ok (.dom id))
    | (s1, .error e) => (s1, .error e)
  | .tok "composite-domain" :: .tok name :: .grp doms :: _ =>
    match s.domList sl (tokList doms) with
    | (s1, .error e) => (s1, .error e)
    | (s1, .ok ids) =>
      let (w', out) := s1.w.mkStrand sl.strand (some (ids.map some)) (some name)
      match out with
      | .ret id _ => ({ s1 with w := w' }, .ok (.strand id))
      | e => ({ s1 with w := w' }, .error (RErr.ofOut e))
  | .tok "strand-complex" :: .tok name :: .grp strands :: .tok db :: _ =>
    let rec collect (s : RState) : List String → RState × Except RErr (List (List Nat))
      | [] => (s, .ok [])
      | n :: ns =>
        match s.strandDomains sl n with
        | (s1, .error e) => (s1, .error e)
        | (s1, .ok ds) =>
          match collect s1 ns with
          | (s2, .ok r) => (s2, .ok (ds :: r))
          | (s2, .error e) => (s2, .error e)
    match collect s (tokList strands) with
    | (s1, .error e) => (s1, .error e)
    | (s1, .ok []) => (s1, .error .pilFormat)
    | (s1, .ok st) =>
      let seq : List (Option Nat) := joinWith none (st.map (fun ds => ds.map some))
      let sst := db.toList.filter (· != ' ')
      let (w', out, _) := s1.w.mkCplx sl.cplx (some seq) sst (some name) none
      match out with
      | .ret id _ => ({ s1 with w := w' }, .ok (.cplx id))
      | e => ({ s1 with w := w' }, .error (RErr.ofOut e))
  | .tok "kernel-complex" :: .tok name :: .grp pat :: rest =>
    match resolveKernel (treeSize 1000 pat + 2) pat with
    | .error (.fault k) => (s, .error (.fault k))
    | .error _ => (s, .error (.fault "resolve"))
    | .ok (names, struct) =>
      -- first attempt: every name is a domain
      let first := s.domList sl (names.filter (· != "+"))
      let (s1, seq?) : RState × Except RErr (List (Option Nat) × List Char) :=
        match first with
        | (s1, .ok ids) =>
          -- re-insert the breaks
          let rec weave : List String → List Nat → List (Option Nat)
            | [], _ => []
            | n :: ns, ids => if n == "+" then none :: weave ns ids else
                match ids with | i :: is => some i :: weave ns is | [] => []
          (s1, .ok (weave names ids, struct))
        | (s1, .error .singleton) => s1.expandKernel sl names struct
        | (s1, .error e) => (s1, .error e)
      match seq? with
      | .error e => (s1, .error e)
      | .ok (seq, sst) =>
        let (w', out, _) := s1.w.mkCplx sl.cplx (some seq) sst (some name) none
        match out with
        | .ret id _ =>
          let s2 := { s1 with w := w' }
          match rest with
          | [.grp [.tok mode, .tok value, .tok unit]] => (s2.setConc id (mode, value, unit), .ok (.cplx id))
          | [] => (s2, .ok (.cplx id))
          | _ => (s2, .error .assertion)
        | e => ({ s1 with w := w' }, .error (RErr.ofOut e))
  | .tok "resting-macrostate" :: .tok name :: .grp mem :: _ =>
    match s.lookupAll (fun w n => let r := w.mkCplx sl.cplx none [] (some n) none; (r.1, r.2.1)) (tokList mem) with
    | (s1, .error e) => (s1, .error e)
    | (s1, .ok ids) =>
      let (w', out) := s1.w.mkMacro sl.macr (some ids) (some name)
      match out with
      | .ret id _ => ({ s1 with w := w' }, .ok (.macro id))
      | e => ({ s1 with w := w' }, .error (RErr.ofOut e))
  | .tok "reaction" :: .grp info :: .grp rs :: .grp ps :: _ =>
    -- read_reaction
    let (rtype, rate, units) : Option String × Option String × Option String :=
      match info with
      | [.grp ty, .grp ra, .grp un] => ((tokList ty).head?, (tokList ra).head?, (tokList un).head?)
      | _ => (none, none, none)
    match rate, rtype with
    | none, _ => (s, .ok .other)                                   -- "Ignoring input reaction without a rate"
    | some ra, ty =>
      if !(match ty with | some t => Gen.rtypes.contains t | none => false) then (s, .ok .other) else
      let t := ty.getD ""
      let condensed := t == "condensed"
      let look : World → String → World × Out :=
        if condensed then (fun w n => w.mkMacro sl.macr none (some n))
        else (fun w n => let r := w.mkCplx sl.cplx none [] (some n) none; (r.1, r.2.1))
      match s.lookupAll look (tokList rs) with
      | (s1, .error e) => (s1, .error e)
      | (s1, .ok rids) =>
        match s1.lookupAll look (tokList ps) with
        | (s2, .error e) => (s2, .error e)
        | (s2, .ok pids) =>
          let (w', out, _) := s2.w.mkRxn sl.rxn (some rids) (some pids) (some t) none
          match out with
          | .ret id _ =>
            ({ s2 with w := w', rate := (s2.rate.filter (fun p => p.1 != id)) ++ [(id, (ra, units))] }, .ok (.rxn id condensed))
          | e => ({ s2 with w := w' }, .error (RErr.ofOut e))
  | _ => (s, .ok .other)

/-- handles visible after a line: those held before plus everything stored in the dictionary -/
def keepOnly (s : RState) (before : List Nat) (d : RDict) : RState :=
  let keep := before ++ d.domains.map (·.2) ++ d.strands.map (·.2) ++ d.complexes.map (·.2) ++ d.macrostates.map (·.2) ++ d.det ++ d.con
  { s with w := ({ s.w with held := s.w.held.filter (fun h => keep.contains h) }).collect }

/-- `read_pil(text, ignore)` on the parsed lines -/
def readDoc (s : RState) (sl : Slots) (ignore : List String) (before : List Nat) :
    List Tree → RDict → RState × Except RErr RDict
  | [], d => (s, .ok d)
  | .tok _ :: _, d => (s, .ok d)
  | .grp line :: rest, d =>
    let kind := (line.head?.bind tokStr).getD ""
    if ignore.contains kind then readDoc s sl ignore before rest d else
    match s.readLine sl line with
    | (s1, .error e) => (s1.keepOnly before {}, .error e)
    | (s1, .ok obj) =>
      let step : RState × Except RErr RDict :=
        match obj with
        | .dom id =>
          let name := (objName s1.w.doms sl.dom id).getD ""
          let d1 := { d with domains := dictPut d.domains name id }
          -- comp = ~obj; its sequence is the reverse Watson-Crick complement
          let (w', out) := s1.w.invert id
          match out with
          | .ret cid _ =>
            let s2 := { s1 with w := w' }
            let cname := (objName s2.w.doms sl.dom cid).getD ""
            let needs := (s2.dseq.lookup id).isSome && (s2.dseq.lookup cid).isNone
            if needs then
              match Iupac.reverseWcComplement .dna ((s2.dseq.lookup id).getD "").toList with
              | none => (s2, .error .pilFormat)
              | some rc => ({ s2 with dseq := s2.dseq ++ [(cid, String.ofList rc)] },
                            .ok { d1 with domains := dictPut d1.domains cname cid })
            else (s2, .ok { d1 with domains := dictPut d1.domains cname cid })
          | e => ({ s1 with w := w' }, .error (RErr.ofOut e))
        | .strand id => (s1, .ok { d with strands := dictPut d.strands ((objName s1.w.strands sl.strand id).getD "") id })
        | .cplx id => (s1, .ok { d with complexes := dictPut d.complexes ((objName s1.w.cplxs sl.cplx id).getD "") id })
        | .macro id => (s1, .ok { d with macrostates := dictPut d.macrostates ((objName s1.w.macros sl.macr id).getD "") id })
        | .rxn id true => (s1, .ok { d with con := if d.con.contains id then d.con else d.con ++ [id] })
        | .rxn id false => (s1, .ok { d with det := if d.det.contains id then d.det else d.det ++ [id] })
        | .other => (s1, .ok { d with other := d.other + 1 })
      match step with
      | (s2, .error e) => (s2.keepOnly before {}, .error e)
      | (s2, .ok d2) => readDoc (s2.keepOnly before d2) sl ignore before rest d2

end RState
end Dsd
