/-
Python primitives used by the string renderings of `ReactionS` as `translator/pystrings.py` transcribes them into `Gen/PyStrings.lean`
(namespace `Dsd.Py.Str`).  Same discipline as Model/PyPrelude.lean.
-/
import DsdVerif.Model.PyPreludeIdent2

namespace Dsd.Py.Str

/-- truth value of a value that is `None` or a number: `None` and zero are false -/
def truthyNum (o : Option Rat) : Bool :=
  match o with
  | some q => q != 0
  | none => false

/-- truth value of a value that is `None` or a str: `None` and the empty str are false -/
def truthyOS (o : Option String) : Bool :=
  match o with
  | some s => s != ""
  | none => false

end Dsd.Py.Str
