/-
Statement-by-statement transcription of dsdobjects/objectio.py: `read_reaction`, `resolve_kernel_loops`,
`read_pil_line`, `read_pil` — written from the Python text, independently of Model/Reader.lean and Model/Kernel.lean
(only their data types `RState`, `RErr`, `RObj`, `RDict`, `Slots` and the object world Model/World.lean are shared:
the constructor calls `Domain(…)`, `~d`, `Strand(…)`, `Complex(…)`, `Macrostate(…)`, `Reaction(…)` mean
`mkDom`, `invert`, `mkStrand`, `mkCplx`, `mkMacro`, `mkRxn`).

CONVENTIONS (where the transcription is not literal — each is a documented assumption, not a claim about the code):
* configured reader: the five names `Domain … Reaction` are set (`… and Domain is not None` is true);
* parsed values are `Tree`s; a string where a list is needed (or vice versa) is reported as `TypeError` without
  following Python's duck typing (the grammar never produces such lines);
* `int(x)` / `float(x)` on the grammar's tokens: `int` is `String.toNat?` (the tokens are `Word(nums)`), `float`
  never fails on `gorf`/`ginf` tokens and the number is kept as its literal text (as in Model/Reader.lean);
* LIFETIMES: objects a line touches stay referenced until `read_pil` has stored the line's result (the world's
  `held` list is trimmed by `keepOnly` after every line, as in Model/Reader.lean).  In the code the elements of an
  abandoned list comprehension die at once and are requested again by the fallback loop; identities aside this makes
  no difference, but it is NOT modelled here;
* recursion / iteration budgets: `resolve_kernel_loops` takes the nesting budget of Model/Reader.lean
  (`treeSize 1000 pat + 2`); the fallback loop of the kernel branch, which iterates over a list that grows while it is
  enumerated, takes a step budget that provably suffices (`loopBudget`, `RFull.steps_le_budget`).
-/
import DsdVerif.Model.Reader

namespace Dsd
open Dsd.PP

namespace ReaderFull

/-! ### Python values -/

/-- `l[i]` -/
def item (l : List Tree) (i : Nat) : Except RErr Tree :=
  match l[i]? with
  | some t => .ok t
  | none => .error (.fault "IndexError")

/-- `x == 'kw'` for a parsed value `x` -/
def isStr (t : Tree) (kw : String) : Bool :=
  match t with
  | .tok s => s == kw
  | .grp _ => false

def asStr : Tree → Except RErr String
  | .tok s => .ok s
  | .grp _ => .error (.fault "TypeError")

def asList : Tree → Except RErr (List Tree)
  | .grp ts => .ok ts
  | .tok _ => .error (.fault "TypeError")

/-- a list of strings (`' + '.join(line[2])`, `for x in line[2]` with string elements) -/
def asStrs (ts : List Tree) : Except RErr (List String) := ts.mapM asStr

/-- `int(x)` on a `Word(nums)` token -/
def pyInt (t : Tree) : Except RErr Nat :=
  match t with
  | .tok s => match s.toNat? with | some n => .ok n | none => .error (.fault "ValueError")
  | .grp _ => .error (.fault "TypeError")

/-! ### constructor calls -/

/-- `[f(x) for x in xs]`: evaluated left to right, the first exception abandons the list -/
def listComp {α β} (f : RState → α → RState × Except RErr β) : RState → List α → RState × Except RErr (List β)
  | s, [] => (s, .ok [])
  | s, x :: xs =>
    match f s x with
    | (s1, .error e) => (s1, .error e)
    | (s1, .ok y) =>
      match listComp f s1 xs with
      | (s2, .ok ys) => (s2, .ok (y :: ys))
      | (s2, .error e) => (s2, .error e)

def ofOut (s : RState) (w' : World) (out : Out) : RState × Except RErr Nat :=
  match out with
  | .ret id _ => ({ s with w := w' }, .ok id)
  | e => ({ s with w := w' }, .error (RErr.ofOut e))

/-- `Domain(name, length = …)` -/
def ctorDomain (sl : Slots) (s : RState) (q : DomReq) : RState × Except RErr Nat :=
  let r := s.w.mkDom sl.dom q
  ofOut s r.1 r.2

/-- `~d` -/
def ctorInvert (s : RState) (d : Nat) : RState × Except RErr Nat :=
  let r := s.w.invert d
  ofOut s r.1 r.2

/-- `Strand(sequence, name)` -/
def ctorStrand (sl : Slots) (s : RState) (seq : Option (List (Option Nat))) (name : Option String) :
    RState × Except RErr Nat :=
  let r := s.w.mkStrand sl.strand seq name
  ofOut s r.1 r.2

/-- `list(Strand(None, name = n).sequence)` -/
def strandSeq (sl : Slots) (s : RState) (n : String) : RState × Except RErr (List Nat) :=
  match ctorStrand sl s none (some n) with
  | (s1, .ok id) => (s1, .ok (match s1.w.node id with | some nd => nd.children | none => []))
  | (s1, .error e) => (s1, .error e)

/-- `Complex(sequence, struc, name = name)` / `Complex(None, None, x)` -/
def ctorComplex (sl : Slots) (s : RState) (seq : Option (List (Option Nat))) (sst : List Char) (name : Option String) :
    RState × Except RErr Nat :=
  let r := s.w.mkCplx sl.cplx seq sst name none
  ofOut s r.1 r.2.1

/-- `Macrostate(complexes = …, name = …)` / `Macrostate(None, x)` -/
def ctorMacro (sl : Slots) (s : RState) (members : Option (List Nat)) (name : Option String) : RState × Except RErr Nat :=
  let r := s.w.mkMacro sl.macr members name
  ofOut s r.1 r.2

/-- `Reaction(reactants, products, rtype)` -/
def ctorReaction (sl : Slots) (s : RState) (rs ps : List Nat) (rtype : String) : RState × Except RErr Nat :=
  let r := s.w.mkRxn sl.rxn (some rs) (some ps) (some rtype) none
  ofOut s r.1 r.2.1

/-! ### `resolve_kernel_loops` -/

/-- the `for dom in loop` of `resolve_kernel_loops`, with the lists `sequen`, `struct` threaded through;
    `recurse` is the recursive call `resolve_kernel_loops(dom)` -/
def resolveGo (recurse : List Tree → Except RErr (List String × List Char)) :
    List Tree → List String → List Char → Except RErr (List String × List Char)
  | [], sequen, struct => .ok (sequen, struct)
  | .tok dom :: rest, sequen, struct =>
    -- sequen.append(dom); struct.append('+' if dom == '+' else '.')
    resolveGo recurse rest (sequen ++ [dom]) (struct ++ [if dom == "+" then '+' else '.'])
  | .grp dom :: rest, sequen, struct =>
    -- struct[-1] = '('
    match struct.getLast? with
    | none => .error (.fault "IndexError")
    | some _ =>
      let struct1 := struct.dropLast ++ ['(']
      -- old = sequen[-1]
      match sequen.getLast? with
      | none => .error (.fault "IndexError")
      | some old =>
        -- se, ss = resolve_kernel_loops(dom)
        match recurse dom with
        | .error e => .error e
        | .ok (se, ss) =>
          -- sequen.append(old + '*' if old[-1] != '*' else old[:-1])
          match old.toList.getLast? with
          | none => .error (.fault "IndexError")
          | some c =>
            let cname := if c != '*' then old ++ "*" else String.ofList old.toList.dropLast
            resolveGo recurse rest (sequen ++ se ++ [cname]) (struct1 ++ ss ++ [')'])

/-- `resolve_kernel_loops(loop)` with a bound on the nesting depth -/
def resolveLoops : Nat → List Tree → Except RErr (List String × List Char)
  | 0, _ => .error (.fault "RecursionError")
  | depth + 1, loop => resolveGo (resolveLoops depth) loop [] []

/-! ### the fallback loop of the `kernel-complex` branch -/

/-- an element of the list `sequence` while it is being rewritten: still a name (or `'+'`), or a domain object -/
inductive PyItem
  | name (s : String)
  | dom (id : Nat)
deriving Repr, DecidableEq

/-- `def comp(name): return name[:-1] if name[-1] == '*' else name + '*'` -/
def compOf (name : String) : Except RErr String :=
  match name.toList.getLast? with
  | none => .error (.fault "IndexError")
  | some c => .ok (if c == '*' then String.ofList name.toList.dropLast else name ++ "*")

/-- `l.insert(i, x)` -/
def pyInsert {α} (l : List α) (i : Nat) (x : α) : List α := l.take i ++ x :: l.drop i

/-- `for i, sd in enumerate(subseq): if i == 0: sequence[e] = sd else: sequence.insert(e+i, sd);
    struc.insert(e+i, struc[e])` -/
def splice (e : Nat) : Nat → List Nat → List PyItem → List Char → Except RErr (List PyItem × List Char)
  | _, [], sequence, struc => .ok (sequence, struc)
  | i, sd :: rest, sequence, struc =>
    if i = 0 then splice e (i + 1) rest (sequence.set e (.dom sd)) struc
    else
      match struc[e]? with
      | none => .error (.fault "IndexError")
      | some c => splice e (i + 1) rest (pyInsert sequence (e + i) (.dom sd)) (pyInsert struc (e + i) c)

/-- the body of `except SingletonError:` for the name `d`: the domains it stands for -/
def subseqOf (sl : Slots) (s : RState) (d : String) : RState × Except RErr (List Nat) :=
  -- try: subseq = list(Strand(None, name = d).sequence)
  match strandSeq sl s d with
  | (s1, .ok subseq) => (s1, .ok subseq)
  | (s1, .error .singleton) =>
    -- try: complement = list(Strand(None, name = comp(d)).sequence); subseq = [~d for d in reversed(complement)]
    match compOf d with
    | .error e => (s1, .error e)
    | .ok cd =>
      match strandSeq sl s1 cd with
      | (s2, .ok complement) => listComp ctorInvert s2 complement.reverse
      | (s2, .error .singleton) => (s2, .error .pilFormat)      -- raise PilFormatError(f"Cannot find domain: {d}.")
      | (s2, .error e) => (s2, .error e)
  | (s1, .error e) => (s1, .error e)

/-- `for e, d in enumerate(sequence): …` — the list iterator re-reads `sequence[e]` and `len(sequence)` at every
    step, so elements inserted behind `e` are visited (and skipped: they are `Domain` objects) -/
def fallback (sl : Slots) : Nat → RState → Nat → List PyItem → List Char → RState × Except RErr (List PyItem × List Char)
  | 0, s, _, _, _ => (s, .error (.fault "loop-budget"))
  | fuel + 1, s, e, sequence, struc =>
    match sequence[e]? with
    | none => (s, .ok (sequence, struc))
    | some (.dom _) => fallback sl fuel s (e + 1) sequence struc          -- isinstance(d, Domain): continue
    | some (.name d) =>
      if d == "+" then fallback sl fuel s (e + 1) sequence struc          -- d == '+': continue
      else
        -- try: sequence[e] = Domain(d)
        match ctorDomain sl s { name := some d } with
        | (s1, .ok id) => fallback sl fuel s1 (e + 1) (sequence.set e (.dom id)) struc
        | (s1, .error .singleton) =>
          match subseqOf sl s1 d with
          | (s2, .error err) => (s2, .error err)
          | (s2, .ok subseq) =>
            match splice e 0 subseq sequence struc with
            | .error err => (s2, .error err)
            | .ok (sequence', struc') => fallback sl fuel s2 (e + 1) sequence' struc'
        | (s1, .error err) => (s1, .error err)

/-- `Domain(x) if x != '+' else '+'` -/
def attemptStep (sl : Slots) (s : RState) (x : String) : RState × Except RErr (Option Nat) :=
  if x == "+" then (s, .ok none)
  else match ctorDomain sl s { name := some x } with
    | (s1, .ok id) => (s1, .ok (some id))
    | (s1, .error e) => (s1, .error e)

/-- the number of domain slots of all nodes: a bound on the length of any strand -/
def kids (w : World) : Nat := (w.nodes.map (fun n => n.children.length)).sum

/-- a step budget that suffices: the loop visits every element of the final list once, and every name expands to at
    most `kids` domains -/
def loopBudget (s : RState) (names : List String) : Nat := names.length * (kids s.w + 2) + 1

/-- the list handed to `Complex(…)`: `'+'` and domain objects; a remaining string is not representable in the world
    (the code would pass the string on as if it were a domain) -/
def toSeq : List PyItem → Except RErr (List (Option Nat))
  | [] => .ok []
  | .dom id :: rest => (toSeq rest).map (fun r => some id :: r)
  | .name n :: rest => if n == "+" then (toSeq rest).map (fun r => none :: r) else .error (.fault "str-in-sequence")

/-! ### `read_reaction` -/

/-- `line[1][i][0] if line[1] != [] and line[1][i] != [] else None` -/
def infoHead (l1 : List Tree) (i : Nat) : Except RErr (Option String) :=
  if l1.isEmpty then .ok none
  else
    match (item l1 i).bind asList with
    | .error e => .error e
    | .ok a =>
      if a.isEmpty then .ok none
      else match (item a 0).bind asStr with
        | .error e => .error e
        | .ok x => .ok (some x)

/-- `float(line[1][1][1]) if line[1] != [] and line[1][1] != [] and len(line[1][1]) == 2 else None` -/
def infoError (l1 : List Tree) : Except RErr (Option String) :=
  if l1.isEmpty then .ok none
  else
    match (item l1 1).bind asList with
    | .error e => .error e
    | .ok a =>
      if a.isEmpty then .ok none
      else if a.length = 2 then
        match (item a 1).bind asStr with
        | .error e => .error e
        | .ok x => .ok (some x)
      else .ok none

/-- `read_reaction(line)`: `(rtype, rate, units)` — all `None` when the reaction is ignored; `error` is computed and
    dropped -/
def readReaction (line : List Tree) : Except RErr (Option String × Option String × Option String) :=
  match (item line 1).bind asList with
  | .error e => .error e
  | .ok l1 =>
    match infoHead l1 0, infoHead l1 1, infoError l1, infoHead l1 2 with
    | .error e, _, _, _ => .error e
    | _, .error e, _, _ => .error e
    | _, _, .error e, _ => .error e
    | _, _, _, .error e => .error e
    | .ok rtype, .ok rate, .ok _, .ok units =>
      -- r = "{} -> {}".format(' + '.join(line[2]), ' + '.join(line[3]))
      match (item line 2).bind asList |>.bind asStrs, (item line 3).bind asList |>.bind asStrs with
      | .error e, _ => .error e
      | _, .error e => .error e
      | .ok _, .ok _ =>
        -- if rate is None: return 6 × None;  elif rtype is None or rtype not in Reaction.RTYPES: return 6 × None
        match rate, rtype with
        | none, _ => .ok (none, none, none)
        | some ra, some ty => if Gen.rtypes.contains ty then .ok (some ty, some ra, units) else .ok (none, none, none)
        | some _, none => .ok (none, none, none)

end ReaderFull

namespace ReaderFull

/-- the branch `line[0] == 'dl-domain'` of `read_pil_line` -/
def lineDl (s : RState) (sl : Slots) (line : List Tree) (nameT : Tree) : RState × Except RErr RObj :=
  -- dlen = 5 if line[2] == 'short' else 15 if line[2] == 'long' else int(line[2])
  match item line 2 with
  | .error e => (s, .error e)
  | .ok l2 =>
    match (if isStr l2 "short" then .ok 5 else if isStr l2 "long" then .ok 15 else pyInt l2), asStr nameT with
    | .error e, _ => (s, .error e)
    | _, .error e => (s, .error e)
    | .ok dlen, .ok name =>
      -- anon = Domain(name, length = dlen); return anon
      match ctorDomain sl s { name := some name, length := some dlen } with
      | (s1, .ok id) => (s1, .ok (.dom id))
      | (s1, .error e) => (s1, .error e)

/-- the branch `line[0] == 'sl-domain'` of `read_pil_line` -/
def lineSl (s : RState) (sl : Slots) (line : List Tree) (nameT : Tree) : RState × Except RErr RObj :=
  match item line 2 with
  | .error e => (s, .error e)
  | .ok l2 =>
    match asStr l2, asStr nameT with
    | .error e, _ => (s, .error e)
    | _, .error e => (s, .error e)
    | .ok con, .ok name =>
      -- if len(line) == 4: if int(line[3]) != len(line[2]): raise PilFormatError
      let check : Except RErr Unit :=
        if line.length = 4 then
          match item line 3 with
          | .error e => .error e
          | .ok l3 =>
            match pyInt l3 with
            | .error e => .error e
            | .ok n => if n ≠ con.length then .error .pilFormat else .ok ()
        else .ok ()
      match check with
      | .error e => (s, .error e)
      | .ok _ =>
        -- anon = Domain(name, length = len(line[2])); anon.sequence = line[2]
        match ctorDomain sl s { name := some name, length := some con.length } with
        | (s1, .ok id) => ({ s1 with dseq := (s1.dseq.filter (fun p => p.1 != id)) ++ [(id, con)] }, .ok (.dom id))
        | (s1, .error e) => (s1, .error e)

/-- the branch `line[0] == 'composite-domain'` of `read_pil_line` -/
def lineComposite (s : RState) (sl : Slots) (line : List Tree) (nameT : Tree) : RState × Except RErr RObj :=
  -- sequence = [Domain(d) for d in line[2]]; anon = Strand(sequence, name)
  match (item line 2).bind asList |>.bind asStrs, asStr nameT with
  | .error e, _ => (s, .error e)
  | _, .error e => (s, .error e)
  | .ok ds, .ok name =>
    match listComp (fun s d => ctorDomain sl s { name := some d }) s ds with
    | (s1, .error e) => (s1, .error e)
    | (s1, .ok sequence) =>
      match ctorStrand sl s1 (some (sequence.map some)) (some name) with
      | (s2, .ok id) => (s2, .ok (.strand id))
      | (s2, .error e) => (s2, .error e)

/-- the branch `line[0] == 'strand-complex'` of `read_pil_line` -/
def lineStrandComplex (s : RState) (sl : Slots) (line : List Tree) (nameT : Tree) : RState × Except RErr RObj :=
  -- st = [list(Strand(None, name = s).sequence) for s in line[2]]
  match (item line 2).bind asList |>.bind asStrs, asStr nameT with
  | .error e, _ => (s, .error e)
  | _, .error e => (s, .error e)
  | .ok ns, .ok name =>
    match listComp (strandSeq sl) s ns with
    | (s1, .error e) => (s1, .error e)
    | (s1, .ok st) =>
      -- if not st: raise PilFormatError
      if st.isEmpty then (s1, .error .pilFormat)
      else
        -- sequence = strand_table_to_sequence(st)   [reduce(lambda a, b: a + ['+'] + b, st)]
        let sequence : List (Option Nat) :=
          match st.map (fun x => x.map some) with
          | [] => []
          | a :: rest => rest.foldl (fun acc b => acc ++ [none] ++ b) a
        -- struc = line[3].replace(' ', '')
        match (item line 3).bind asStr with
        | .error e => (s1, .error e)
        | .ok db =>
          let struc := db.toList.filter (fun c => c != ' ')
          match ctorComplex sl s1 (some sequence) struc (some name) with
          | (s2, .ok id) => (s2, .ok (.cplx id))
          | (s2, .error e) => (s2, .error e)

/-- the branch `line[0] == 'kernel-complex'` of `read_pil_line` -/
def lineKernel (s : RState) (sl : Slots) (line : List Tree) (nameT : Tree) : RState × Except RErr RObj :=
  match (item line 2).bind asList, asStr nameT with
  | .error e, _ => (s, .error e)
  | _, .error e => (s, .error e)
  | .ok pat, .ok name =>
    -- sequence, struc = resolve_kernel_loops(line[2])
    match resolveLoops (treeSize 1000 pat + 2) pat with
    | .error e => (s, .error e)
    | .ok (names, struc) =>
      -- try: sequence = [Domain(x) if x != '+' else '+' for x in sequence]
      let attempt := listComp (attemptStep sl) s names
      let resolved : RState × Except RErr (List (Option Nat) × List Char) :=
        match attempt with
        | (s1, .ok sequence) => (s1, .ok (sequence, struc))
        | (s1, .error .singleton) =>
          -- except SingletonError: … the fallback loop over the list of NAMES
          match fallback sl (loopBudget s1 names) s1 0 (names.map .name) struc with
          | (s2, .error e) => (s2, .error e)
          | (s2, .ok (sequence, struc')) =>
            match toSeq sequence with
            | .error e => (s2, .error e)
            | .ok sq => (s2, .ok (sq, struc'))
        | (s1, .error e) => (s1, .error e)
      match resolved with
      | (s1, .error e) => (s1, .error e)
      | (s1, .ok (sequence, struc')) =>
        -- cplx = Complex(sequence, struc, name = name)
        match ctorComplex sl s1 (some sequence) struc' (some name) with
        | (s2, .error e) => (s2, .error e)
        | (s2, .ok id) =>
          -- if len(line) > 3: assert len(line[3]) == 3; cplx.concentration = (line[3][0], float(line[3][1]), line[3][2])
          if line.length > 3 then
            match (item line 3).bind asList with
            | .error e => (s2, .error e)
            | .ok l3 =>
              if l3.length ≠ 3 then (s2, .error .assertion)
              else
                match asStrs l3 with
                | .ok [mode, value, unit] => (s2.setConc id (mode, value, unit), .ok (.cplx id))
                | .ok _ => (s2, .error .assertion)
                | .error e => (s2, .error e)
          else (s2, .ok (.cplx id))

/-- the branch `line[0] == 'resting-macrostate'` of `read_pil_line` -/
def lineResting (s : RState) (sl : Slots) (line : List Tree) (nameT : Tree) : RState × Except RErr RObj :=
  -- try: cplxs = [Complex(None, None, x) for x in line[2]]   (the `except KeyError` never fires)
  match (item line 2).bind asList |>.bind asStrs, asStr nameT with
  | .error e, _ => (s, .error e)
  | _, .error e => (s, .error e)
  | .ok xs, .ok name =>
    match listComp (fun s x => ctorComplex sl s none [] (some x)) s xs with
    | (s1, .error e) => (s1, .error e)
    | (s1, .ok cplxs) =>
      -- return Macrostate(complexes = cplxs, name = name)
      match ctorMacro sl s1 (some cplxs) (some name) with
      | (s2, .ok id) => (s2, .ok (.macro id))
      | (s2, .error e) => (s2, .error e)

/-- the branch `line[0] == 'reaction'` of `read_pil_line` -/
def lineReaction (s : RState) (sl : Slots) (line : List Tree) (_nameT : Tree) : RState × Except RErr RObj :=
  -- reactants, products, rtype, rate, units, r = read_reaction(line)
  match readReaction line with
  | .error e => (s, .error e)
  | .ok (none, _, _) => (s, .ok .other)                      -- if rtype is None: return line
  | .ok (some _, none, _) => (s, .ok .other)
  | .ok (some rtype, some rate, units) =>
    match (item line 2).bind asList |>.bind asStrs, (item line 3).bind asList |>.bind asStrs with
    | .error e, _ => (s, .error e)
    | _, .error e => (s, .error e)
    | .ok reactants, .ok products =>
      let condensed := rtype == "condensed"
      let look : RState → String → RState × Except RErr Nat :=
        if condensed then (fun s x => ctorMacro sl s none (some x))       -- Macrostate(None, x)
        else (fun s x => ctorComplex sl s none [] (some x))               -- Complex(None, None, x)
      match listComp look s reactants with
      | (s1, .error e) => (s1, .error e)
      | (s1, .ok rs) =>
        match listComp look s1 products with
        | (s2, .error e) => (s2, .error e)
        | (s2, .ok ps) =>
          -- anon = Reaction(reactants, products, rtype); anon.rate_constant = (rate, units)
          match ctorReaction sl s2 rs ps rtype with
          | (s3, .ok id) =>
            ({ s3 with rate := (s3.rate.filter (fun p => p.1 != id)) ++ [(id, (rate, units))] }, .ok (.rxn id condensed))
          | (s3, .error e) => (s3, .error e)

end ReaderFull

open ReaderFull in
/-- `read_pil_line(line)` for a parsed line: `name = line[1]`, then the `if / elif` chain on `line[0]` -/
def RState.readLineFull (s : RState) (sl : Slots) (line : List Tree) : RState × Except RErr RObj :=
  -- name = line[1]
  match item line 1, item line 0 with
  | .error e, _ => (s, .error e)
  | _, .error e => (s, .error e)
  | .ok nameT, .ok l0 =>
  if isStr l0 "dl-domain" then lineDl s sl line nameT
  else if isStr l0 "sl-domain" then lineSl s sl line nameT
  else if isStr l0 "composite-domain" then lineComposite s sl line nameT
  else if isStr l0 "strand-complex" then lineStrandComplex s sl line nameT
  else if isStr l0 "kernel-complex" then lineKernel s sl line nameT
  else if isStr l0 "resting-macrostate" then lineResting s sl line nameT
  else if isStr l0 "reaction" then lineReaction s sl line nameT
  else (s, .ok .other)       -- log.warning(f'Cannot interpret line starting with {line[0]}'); return line

open ReaderFull in
/-- `read_pil(data, ignore)` on the parsed lines -/
def RState.readDocFull (s : RState) (sl : Slots) (ignore : List String) (before : List Nat) :
    List Tree → RDict → RState × Except RErr RDict
  | [], out => (s, .ok out)
  | lineT :: rest, out =>
    match asList lineT with
    | .error e => (s.keepOnly before {}, .error e)
    | .ok line =>
      -- if ignore and line[0] in ignore: continue
      let skip : Except RErr Bool :=
        if ignore.isEmpty then .ok false
        else match item line 0 with
          | .error e => .error e
          | .ok l0 => .ok (match l0 with | .tok k => ignore.contains k | .grp _ => false)
      match skip with
      | .error e => (s.keepOnly before {}, .error e)
      | .ok true => readDocFull s sl ignore before rest out
      | .ok false =>
        -- obj = read_pil_line(line)
        match s.readLineFull sl line with
        | (s1, .error e) => (s1.keepOnly before {}, .error e)
        | (s1, .ok obj) =>
          let step : RState × Except RErr RDict :=
            match obj with
            | .dom id =>
              -- out['domains'][obj.name] = obj; comp = ~obj
              let name := (objName s1.w.doms sl.dom id).getD ""
              let out1 := { out with domains := dictPut out.domains name id }
              match ctorInvert s1 id with
              | (s2, .error e) => (s2, .error e)
              | (s2, .ok cid) =>
                -- if obj.sequence is not None and comp.sequence is None: comp.sequence = reverse_wc_complement(…)
                let cname := (objName s2.w.doms sl.dom cid).getD ""
                match s2.dseq.lookup id, s2.dseq.lookup cid with
                | some sq, none =>
                  match Iupac.reverseWcComplement .dna sq.toList with
                  | none => (s2, .error .pilFormat)                 -- except KeyError: raise PilFormatError
                  | some rc => ({ s2 with dseq := s2.dseq ++ [(cid, String.ofList rc)] },
                                .ok { out1 with domains := dictPut out1.domains cname cid })
                | _, _ => (s2, .ok { out1 with domains := dictPut out1.domains cname cid })
            | .strand id => (s1, .ok { out with strands := dictPut out.strands ((objName s1.w.strands sl.strand id).getD "") id })
            | .cplx id => (s1, .ok { out with complexes := dictPut out.complexes ((objName s1.w.cplxs sl.cplx id).getD "") id })
            | .macro id => (s1, .ok { out with macrostates := dictPut out.macrostates ((objName s1.w.macros sl.macr id).getD "") id })
            | .rxn id true => (s1, .ok { out with con := if out.con.contains id then out.con else out.con ++ [id] })
            | .rxn id false => (s1, .ok { out with det := if out.det.contains id then out.det else out.det ++ [id] })
            | .other => (s1, .ok { out with other := out.other + 1 })
          match step with
          | (s2, .error e) => (s2.keepOnly before {}, .error e)
          | (s2, .ok out2) => readDocFull (s2.keepOnly before out2) sl ignore before rest out2

end Dsd
