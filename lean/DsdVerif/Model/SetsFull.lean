/-
Full models of `MacrostateS` and `ReactionS` (dsdobjects/base_classes.py): `identifiers`, `Singleton.__call__` with
its truthiness tests (Model/SingletonFull.lean), `__init__`.

Members are given as `(name, canonical form)` of live objects, as in Model/Objects.lean.

`sorted(...)` on canonical forms.  A complex's canonical form is a tuple `(names, structure)`, a macrostate's is the
tuple of its member COMPLEX OBJECTS.  Comparing the two compares their first items, a tuple of `str` with a
`ComplexS` object: `tuple.__lt__` returns NotImplemented, the reflected `ComplexS.__gt__` starts with
`assert isinstance(other, ComplexS)` — AssertionError.  Every sorting algorithm compares each element with some
other element, and (timsort: run detection on adjacent elements, then binary insertion into the sorted prefix) the
first element whose kind differs from all its predecessors is compared with one of them; so `sorted` raises
AssertionError exactly when the list holds both kinds (`pySorted`).
-/
import DsdVerif.Model.Objects
import DsdVerif.Model.SingletonFull

namespace Dsd
namespace SetsFull

def isCplx : MemKey → Bool
  | .c _ => true
  | .m _ => false

/-- both kinds of canonical forms occur -/
def mixed (l : List (String × MemKey)) : Bool := l.any (fun x => isCplx x.2) && l.any (fun x => !isCplx x.2)

/-- `sorted(members, key = lambda y: y.canonical_form)`: `none` = AssertionError from comparing a complex's
    canonical form with a macrostate's -/
def pySorted (l : List (String × MemKey)) : Option (List (String × MemKey)) :=
  if mixed l then none else some (sortBy (fun a b => memLt a.2 b.2) l)

end SetsFull

/-- `MacrostateS(complexes, name)` -/
def macroRequestFull (r : Reg MKey) (fresh : Nat) (members : Option (List (String × CKey))) (name : Option String) :
    Reg MKey × Out :=
  match members with
  | none =>
    -- assert name is not None; return (None, name, {})
    match name with
    | none => (r, .assertion)
    | some n => r.callFull none n fresh [] false
  | some ms =>
    -- complexes = tuple(sorted(complexes, key = lambda x: x.canonical_form))
    let sorted := sortBy (fun a b => ckeyLt a.2 b.2) ms
    let canon : MKey := sorted.map (·.2)
    -- an empty tuple is falsy in `if name and canon:`
    let canon? : Option MKey := if canon.isEmpty then none else some canon
    match name with
    | none =>
      -- name = complexes[0].name
      match sorted with
      | [] => (r, .fault "IndexError")
      | m :: _ => r.callFull canon? m.1 fresh [] false
    | some n =>
      -- assert name in [x.name for x in complexes]
      if (ms.map (·.1)).contains n then r.callFull canon? n fresh [] false
      else (r, .assertion)
      -- (`__init__`: `next(x for x in complexes if x.name == name)` always finds the representative)

/-- `ReactionS(reactants, products, rtype, name)` -/
def reactionRequestFull (r : Reg RKey) (fresh : Nat) (reactants products : Option (List (String × MemKey)))
    (rtype : Option String) (name : Option String) : Reg RKey × Out × Option (List String × List String) :=
  -- if name is not None and reactants is None and products is None and rtype is None: return (None, name, {})
  match name, reactants, products, rtype with
  | some n, none, none, none => let x := r.callFull none n fresh [] false; (x.1, x.2, none)
  | _, _, _, _ =>
    -- react = tuple(sorted([x.canonical_form for x in reactants]))     (TypeError if reactants is None)
    match reactants with
    | none => (r, .fault "TypeError", none)
    | some rs =>
      match SetsFull.pySorted rs with
      | none => (r, .assertion, none)
      | some rs' =>
        -- prods = tuple(sorted([x.canonical_form for x in products]))
        match products with
        | none => (r, .fault "TypeError", none)
        | some ps =>
          match SetsFull.pySorted ps with
          | none => (r, .assertion, none)
          | some ps' =>
            let canon : RKey := (rs'.map (·.2), ps'.map (·.2), rtype)
            -- if name is None: name = "[{}] {} -> {}".format(rtype, " + ".join(…), " + ".join(…))
            let nm := match name with
              | some n => n
              | none => "[" ++ (rtype.getD "None") ++ "] " ++ " + ".intercalate (rs'.map (·.1)) ++ " -> " ++
                  " + ".intercalate (ps'.map (·.1))
            let x := r.callFull (some canon) nm fresh [] false
            (x.1, x.2, some (rs'.map (·.1), ps'.map (·.1)))

end Dsd
