/-
Primitive used by the translations of `ComplexS.is_domainlevel_complement` / `ComplexS.split` (translator/pycomplex2.py,
Gen/PyComplexS2.lean).  New names carry the tag `C2`.
-/
import DsdVerif.Model.PyPrelude

namespace Dsd

/-- a domain object as what `DomainS.__eq__` compares: the name and, through the PARAMETER `lenOf` (the `length` of the registered
    domain of that name; `DomainS` is a Singleton class keyed by the name), the length -/
def C2.dom (lenOf : String → Nat) (n : String) : String × Nat := (n, lenOf n)

end Dsd
