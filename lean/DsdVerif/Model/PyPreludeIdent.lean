/-
Python primitives used by the `identifiers` class methods of dsdobjects/base_classes.py that `translator/pyident.py` transcribes
statement by statement into `Gen/PyIdentifiers.lean`.  Same discipline as Model/PyPrelude.lean: each definition models ONE Python
primitive on immutable Lean values; together with the rules listed at the top of translator/pyident.py these lines are the trusted
reading of Python for the identifiers methods.  Nothing of the hand-written models (Model/Objects.lean, Model/ComplexFull.lean) is
imported here: the order on keys below is Python's tuple / str comparison written from first principles, and it is PROVED equal to
the model's `ckeyLt` in Lemmas/PyIdentOrder.lean.
-/
import DsdVerif.Model.PyPrelude

namespace Dsd.Py

/-- iterating a dict / `d.keys()`: the keys in insertion order -/
def dictKeys {κ β} (d : List (κ × β)) : List κ := d.map (·.1)

/-- `d[k]` for a key `k` that may be `None`, in a dict none of whose keys is `None` (they are tuples by typing): `None` is
    hashable, so the look-up is a KeyError (not a TypeError) -/
def dictGetO {κ β} [BEq κ] (d : List (κ × β)) (k : Option κ) : M β :=
  match k with
  | some k => dictGet d k
  | none => throw (.fault "KeyError")

/-- `a < b` on sequences (tuples, and strs as the sequences of their characters): the first position where the items differ
    (by `==`) decides by `<` on these items; if there is none the shorter sequence is the smaller one -/
def seqLt {α} [BEq α] (lt : α → α → Bool) : List α → List α → Bool
  | [], [] => false
  | [], _ :: _ => true
  | _ :: _, [] => false
  | a :: as, b :: bs => if a == b then seqLt lt as bs else lt a b

/-- `a < b` on one-character strs: by code point -/
def chrLt (a b : Char) : Bool := a.toNat < b.toNat

/-- `a < b` on strs: lexicographic by code point -/
def strLt (a b : String) : Bool := seqLt chrLt a.toList b.toList

/-- `(a0, a1) < (b0, b1)` for `a0, b0` tuples of strs and `a1, b1` tuples of one-character strs: Python compares the first
    components with `==`, and the first pair that differs with `<` -/
def ckeyLt (a b : List String × List Char) : Bool :=
  if a.1 == b.1 then seqLt chrLt a.2 b.2 else seqLt strLt a.1 b.1

/-- put `x` in front of the first item that is not smaller than it (`lt y x` fails) -/
def insertBy {α} (lt : α → α → Bool) (x : α) : List α → List α
  | [] => [x]
  | y :: ys => if lt y x then y :: insertBy lt x ys else x :: y :: ys

/-- `sorted(l, key=…)` where `lt a b` is `key(a) < key(b)`: the STABLE sort (items with equal keys keep their order); Python's
    sort uses only `<` on the keys.  Written as insertion from the right: `x`, which comes before everything already inserted,
    is put in front of the first item that is not smaller than it, hence in front of the items with an equal key. -/
def sortedBy {α} (lt : α → α → Bool) (l : List α) : List α := l.foldr (insertBy lt) []

/-- `f'{n}'` / `str(n)` of a non-negative int: its decimal numeral -/
def strNat (n : Nat) : String := toString n

end Dsd.Py
