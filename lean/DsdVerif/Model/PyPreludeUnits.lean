/-
Python primitives used by the unit / rate-constant functions that `translator/pyunits.py` transcribes statement by statement into
`Gen/PyUnits.lean` (`flint`, `convert_units` of dsdobjects/utils.py; `ReactionS.rate_constant` / `rateformat` / `arity`,
`ComplexS.concentration` / `concentrationformat` of dsdobjects/base_classes.py).

TRUSTED READING OF NUMBERS (a modelling decision, DESIGN.md section 9): a Python `int` or `float` is read as the EXACT rational it
denotes (`Rat`).  `*` and `/` are exact, `x / 0` is ZeroDivisionError, `float(x)` and `int(x)` of an integral value keep the value;
floating-point rounding, overflow to `inf`, `nan` and the distinction between `5` and `5.0` are NOT represented (the harness compares
CPython's doubles with these exact values within 1e-12, as harness/props/c18.py does).

The file imports only the older prelude (and through it the model's error type).
-/
import DsdVerif.Model.PyPrelude

namespace Dsd.Py

/-- `a / b` on numbers (true division): ZeroDivisionError for `b = 0`, else the exact quotient -/
def div (a b : Rat) : M Rat := if b = 0 then throw (.fault "ZeroDivisionError") else pure (a / b)

/-- `float(x)` of a number: the same value.  (CPython: OverflowError for an int beyond the range of a double; such values, `inf` and
    `nan` are outside the exact reading.) -/
def toFloat (x : Rat) : M Rat := pure x

/-- the value of `int(x)` for a number `x`: truncation towards zero -/
def truncVal (x : Rat) : Rat := if 0 ≤ x then (x.floor : Rat) else (x.ceil : Rat)

/-- `int(x)` of a number: truncation towards zero.  (CPython: OverflowError for `inf`, ValueError for `nan`: outside the reading.) -/
def toInt (x : Rat) : M Rat := pure (truncVal x)

/-- the value a row `(numerator, denominator)` of the regenerated unit tables (Gen/UnitTables.lean) denotes: the exact value of the
    decimal literal in the dict display (`1e-3` is 1/1000) -/
def scaleVal (p : Nat × Nat) : Rat := (p.1 : Rat) / (p.2 : Rat)

/-- a function-local constant dict display `{'M': 1, 'mM': 1e-3, …}` whose rows are regenerated as `Gen.units_*`: the dict (item list,
    pairwise different keys) of the numbers the rows denote -/
def unitTable (tbl : List (String × (Nat × Nat))) : List (String × Rat) := tbl.map (fun r => (r.1, scaleVal r.2))

/-- `s.split(sep)` for a str kept as an opaque `String` and a one-character separator: the pieces as `String`s (`Py.split` on the
    characters: empty pieces kept, never the empty list) -/
def strSplit (s : String) (sep : Char) : List String := (split s.toList sep).map String.ofList

/-- `x.attr` / `x.method(…)` on a value that may be `None`: AttributeError -/
def unwrapAttr {α} (o : Option α) : M α :=
  match o with
  | some x => pure x
  | none => throw (.fault "AttributeError")

/-- The argument of the `rate_constant` setter.  Typing stub: the Python values it stands for are
    `number v` - an int / float `v`;  `tuple1 v` - the 1-tuple `(v,)`;  `pair v u` - the 2-tuple `(v, u)` with `u` a str or `None`
    (`v` a number in all three);  `tuple0` - the empty tuple `()`;  `longer k` - a tuple of `k + 3` items (its items are not
    represented: the setter refuses it before it reads one).  Other Python values (a str, a list, a tuple whose first item is not a
    number) are outside the typing. -/
inductive RateArg
  | number (v : Rat)
  | tuple1 (v : Rat)
  | pair (v : Rat) (units : Option String)
  | tuple0
  | longer (k : Nat)
deriving Repr

/-- `isinstance(tup, tuple)` -/
def RateArg.isTuple : RateArg → Bool
  | .number _ => false
  | _ => true

/-- `len(tup)`: TypeError for a number -/
def RateArg.len : RateArg → M Nat
  | .number _ => throw (.fault "TypeError")
  | .tuple1 _ => pure 1
  | .pair _ _ => pure 2
  | .tuple0 => pure 0
  | .longer k => pure (k + 3)

/-- `tup[0]` where a number is needed: TypeError for a number (not subscriptable), IndexError for `()`; the items of a longer tuple
    are not represented (explicit translator fault, never reached: the setter's assertion refuses these tuples first) -/
def RateArg.item0 : RateArg → M Rat
  | .number _ => throw (.fault "TypeError")
  | .tuple1 v => pure v
  | .pair v _ => pure v
  | .tuple0 => throw (.fault "IndexError")
  | .longer _ => throw (.fault "translator:untyped")

/-- `(constant, units) = tup`: unpacking into two names - TypeError for a number (not iterable), ValueError unless the tuple has
    exactly two items -/
def RateArg.asPair : RateArg → M (Rat × Option String)
  | .number _ => throw (.fault "TypeError")
  | .pair v u => pure (v, u)
  | _ => throw (.fault "ValueError")

/-- `tup` used as the number itself (`(constant, units) = (tup, None)` in the branch where `tup` is not a tuple); a tuple stored as
    the constant is outside the typing of `_const` (explicit translator fault, never reached: the branch is guarded by
    `isinstance(tup, tuple)`) -/
def RateArg.asNumber : RateArg → M Rat
  | .number v => pure v
  | _ => throw (.fault "translator:type")

end Dsd.Py
