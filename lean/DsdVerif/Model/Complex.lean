/-
Model of dsdobjects/complex_utils.py.

Conventions.  A dot-bracket structure is a `List Char`; a domain sequence is a `List String`
(names, with the break token "+") or, for the `str` flavour, a `List Char`.  A pair table is a
list of strands of `Option Locus`, a locus being `(strand index, position in strand)`.
Python exceptions are values of `Err`.

Where the Python code is a loop over characters with a stack (`make_pair_table`,
`make_loop_index`, `rotate_complex_once`) the model runs the same loop on *linear* positions
(position in the concatenation of the strands) and converts to loci afterwards (`toLocus`);
loci are compared lexicographically in the code, which is the order of linear positions.
This re-indexing is part of what the correspondence check validates.
-/
import DsdVerif.Model.Linear

namespace Dsd
open Dsd.Bracket

inductive Err
  | secondaryStructure      -- SecondaryStructureError
  | objectInit              -- ObjectInitError
  | singleton (existing : Option Nat)   -- SingletonError, `existing` as object id
  | notImplemented          -- NotImplementedError
  | assertion               -- AssertionError
  | pilFormat               -- PilFormatError
  | parse                   -- pyparsing.ParseException
  | fault (kind : String)   -- interpreter-level fault (TypeError, IndexError, KeyError, NameError …)
deriving DecidableEq, Repr

deriving instance DecidableEq for Except

abbrev Locus := Nat × Nat
abbrev PairTable := List (List (Option Locus))

/-- tuple comparison `a < b` on loci -/
def Locus.lt (a b : Locus) : Bool := a.1 < b.1 || (a.1 == b.1 && a.2 < b.2)

/-! ### splitting at the strand break -/

/-- Python `s.split(sep)` for a one-element separator (never returns `[]`) -/
def splitOn {α} [DecidableEq α] (sep : α) : List α → List (List α)
  | [] => [[]]
  | c :: cs =>
    if c = sep then [] :: splitOn sep cs
    else match splitOn sep cs with
      | [] => [[c]]
      | s :: ss => (c :: s) :: ss

/-- `sep.join(parts)` -/
def joinWith {α} (sep : α) : List (List α) → List α
  | [] => []
  | [s] => s
  | s :: ss => s ++ sep :: joinWith sep ss

/-- `make_strand_table` on a `str` (or anything with `.split`): empty strands are kept -/
def makeStrandTableStr (brk : Char) (seq : List Char) : List (List Char) := splitOn brk seq

/-- `make_strand_table` on a `list`: `groupby` drops empty strands -/
def makeStrandTableList (brk : String) (seq : List String) : List (List String) :=
  (splitOn brk seq).filter (fun s => !s.isEmpty)

/-- `strand_table_to_sequence(st, join=False)`: `reduce` of an empty table is a TypeError -/
def strandTableToSequence (brk : String) (st : List (List String)) : Except Err (List String) :=
  match st with
  | [] => .error (.fault "TypeError")
  | _ => .ok (joinWith brk st)

/-- `strand_table_to_sequence(st, join=True)` for single-character names -/
def strandTableToSequenceStr (brk : Char) (st : List (List Char)) : List Char := joinWith brk st

/-! ### loci and linear positions -/

def toLocus : List Nat → Nat → Locus
  | [], i => (0, i)
  | l :: ls, i => if i < l then (0, i) else let r := toLocus ls (i - l); (r.1 + 1, r.2)

def fromLocus (lens : List Nat) (l : Locus) : Nat := (lens.take l.1).sum + l.2

def reshape {α} : List Nat → List α → List (List α)
  | [], _ => []
  | l :: ls, xs => xs.take l :: reshape ls (xs.drop l)

/-! ### make_pair_table / pair_table_to_dot_bracket -/

def toSym : Char → Option Sym
  | '(' => some .op
  | ')' => some .cl
  | '.' => some .dot
  | _ => none

/-- `make_pair_table(ss, strand_break)` with the default `ignore = {'.'}` -/
def makePairTable (ss : List Char) (brk : Char := '+') : Except Err PairTable :=
  let strands := splitOn brk ss
  match strands.mapM (fun s => s.mapM toSym) with
  | none => .error .secondaryStructure           -- unexpected character
  | some syms =>
    let lens := syms.map List.length
    match matchW syms.flatten with
    | none => .error .secondaryStructure         -- too few opening / closing brackets
    | some t => .ok (reshape lens (t.map (fun o => o.map (toLocus lens))))

/-- `pair_table_to_dot_bracket(pt, strand_break)`; note `if out: out += strand_break` -/
def ptToDb (pt : PairTable) (brk : Char := '+') : List Char :=
  (pt.zipIdx).foldl (fun out (p : List (Option Locus) × Nat) =>
    let out := if out.isEmpty then out else out ++ [brk]
    out ++ (p.1.zipIdx.map (fun (q : Option Locus × Nat) =>
      match q.1 with
      | none => '.'
      | some pr => if Locus.lt (p.2, q.2) pr then '(' else ')'))) []

/-! ### wrap -/

/-- `wrap(x, m) = (x % m + m) % m` for a positive modulus -/
def wrap (x : Int) (m : Nat) : Nat := (((x % (m : Int)) + m) % (m : Int)).toNat

/-! ### rotation -/

def rotateLocus (n : Nat) (k : Int) (x : Option Locus) : Option Locus :=
  x.map (fun l => (wrap ((l.1 : Int) + k) n, l.2))

/-- one step of `rotate_complex_pt`: the last strand moves to the front, strand indices shift by +1 -/
def rotatePtOnce {α} (stab : List (List α)) (ptab : PairTable) : List (List α) × PairTable :=
  if ptab.length > 1 then
    let st := (stab.getLast?.toList) ++ stab.dropLast
    let pt := ((ptab.getLast?.toList) ++ ptab.dropLast).map (fun y => y.map (rotateLocus ptab.length 1))
    (st, pt)
  else (stab, ptab)

/-- `list(rotate_complex_pt(stab, ptab))` with `turns = None`: the unrotated pair first, then
    `len(ptab) - 1` successive one-strand rotations -/
def rotationsPt {α} (stab : List (List α)) (ptab : PairTable) : List (List (List α) × PairTable) :=
  let rec go : Nat → (List (List α) × PairTable) → List (List (List α) × PairTable)
    | 0, _ => []
    | k + 1, cur => let nxt := rotatePtOnce cur.1 cur.2; nxt :: go k nxt
  match ptab.length with
  | 0 => []
  | k + 1 => (stab, ptab) :: go k (stab, ptab)

/-- forward scan of `rotate_complex_once` over positions `0 … p-1`: the stack of unmatched `(` -/
def scanFwd : List Char → Nat → List Nat → Option (List Nat)
  | [], _, st => some st
  | c :: cs, i, st =>
    if c = '(' then scanFwd cs (i + 1) (i :: st)
    else if c = ')' then
      match st with
      | [] => none
      | _ :: rest => scanFwd cs (i + 1) rest
    else scanFwd cs (i + 1) st

/-- backward scan over positions `len-1 … p+1`: the stack of unmatched `)`;
    `cs` is the reversed tail and `i` the index of its first element -/
def scanBwd : List Char → Nat → List Nat → Option (List Nat)
  | [], _, st => some st
  | c :: cs, i, st =>
    if c = ')' then scanBwd cs (i - 1) (i :: st)
    else if c = '(' then
      match st with
      | [] => none
      | _ :: rest => scanBwd cs (i - 1) rest
    else scanBwd cs (i - 1) st

def setAll {α} (l : List α) (idx : List Nat) (v : α) : List α := idx.foldl (fun l i => l.set i v) l

/-- `rotate_complex_once(seq, sst)`; `seq` is a list of names containing "+", `sst` a list of characters.
    Both bracket scans report imbalance with SecondaryStructureError. -/
def rotateOnce (seq : List String) (sst : List Char) : Except Err (List String × List Char) :=
  match seq.idxOf? "+" with
  | none => .ok (seq, sst)
  | some p =>
    let seq' := seq.drop (p + 1) ++ ["+"] ++ seq.take p
    match scanFwd (sst.take p) 0 [] with
    | none => .error .secondaryStructure
    | some st1 =>
      let n1 := setAll sst st1 ')'
      match scanBwd (n1.drop (p + 1)).reverse (n1.length - 1) [] with
      | none => .error .secondaryStructure
      | some st2 =>
        let n2 := setAll n1 st2 '('
        .ok (seq', n2.drop (p + 1) ++ ['+'] ++ n2.take p)

/-- iterate `rotate_complex_once` -/
def rotateN : Nat → List String → List Char → Except Err (List String × List Char)
  | 0, seq, sst => .ok (seq, sst)
  | k + 1, seq, sst => do
    let r ← rotateOnce seq sst
    rotateN k r.1 r.2

/-! ### make_loop_index -/

structure LoopSt where
  loopIndex : List Nat := []      -- linear: loop index of every position visited so far
  stack : List Nat := []          -- linear positions of currently open brackets
  cl : Nat := 0
  nl : Nat := 0

/-- body of the inner loop for the position with linear index `i` whose partner is `pair` -/
def loopStep (s : LoopSt) (i : Nat) (pair : Option Nat) : LoopSt :=
  let s1 : LoopSt := match pair with
    | some j => if i < j then { s with nl := s.nl + 1, cl := s.nl + 1, stack := i :: s.stack } else s
    | none => s
  let s2 := { s1 with loopIndex := s1.loopIndex ++ [s1.cl] }
  match pair with
  | some j =>
    if j < i then
      let stack' := s2.stack.drop 1
      let cl' := match stack' with
        | [] => 0
        | t :: _ => s2.loopIndex.getD t 0
      { s2 with stack := stack', cl := cl' }
    else s2
  | none => s2

structure LoopOut where
  loopIndex : List (List Nat)
  exterior : List Nat                 -- the set of exterior loop indices, in order of insertion
  myext : List (Nat × Nat)            -- per strand [exterior loop at start, exterior loop at end]
deriving Repr, DecidableEq

/-- the outer loop of `make_loop_index` over strands of *linear* partners; `off` is the linear index of the
    first position of the current strand, `ext` the set `exterior` (in insertion order), `my` the list `myext` -/
def loopScan (components : Bool) : List (List (Option Nat)) → Nat → LoopSt → List Nat → List (Nat × Nat) →
    Except Err (List Nat × List (Nat × Nat) × LoopSt)
  | [], _, s, ext, my => .ok (ext, my, s)
  | strand :: rest, off, s, ext, my =>
    let start := s.cl
    let s' := (strand.zipIdx).foldl (fun s (q : Option Nat × Nat) => loopStep s (off + q.2) q.1) s
    let my' := my ++ [(start, s'.cl)]
    if ext.contains s'.cl then
      if components then loopScan components rest (off + strand.length) s' ext my'
      else .error .secondaryStructure      -- 'Complexes not connected.'
    else loopScan components rest (off + strand.length) s' (ext ++ [s'.cl]) my'

/-- `make_loop_index(pt, components)`; the pair table is first re-indexed to linear positions -/
def makeLoopIndex (pt : PairTable) (components : Bool := false) : Except Err LoopOut :=
  let lens := pt.map List.length
  let lin : List (List (Option Nat)) := pt.map (fun s => s.map (fun o => o.map (fromLocus lens)))
  match loopScan components lin 0 {} [] [] with
  | .error e => .error e
  | .ok (ext, my, s) => .ok { loopIndex := reshape lens s.loopIndex, exterior := ext, myext := my }

/-! ### split_complex_pt -/

def shiftLocus (f : Nat → Nat) (x : Option Locus) : Option Locus := x.map (fun l => (f l.1, l.2))

/-- `splice(i, j)`: strands `i … j` become the inner part, the rest the outer part -/
def splice {α} (stab : List (List α)) (ptab : PairTable) (i j : Nat) :
    (List (List α) × PairTable) × (List (List α) × PairTable) :=
  let innerss := (stab.take (j + 1)).drop i
  let innerpt := ((ptab.take (j + 1)).drop i).map (fun st => st.map (shiftLocus (fun s => s - i)))
  let outerss := stab.take i ++ stab.drop (j + 1)
  let outerpt := (ptab.take i ++ ptab.drop (j + 1)).map
    (fun st => st.map (shiftLocus (fun s => if s < i then s else s - (j + 1 - i))))
  ((innerss, innerpt), (outerss, outerpt))

/-- the scan over `ext` in `split_complex_pt`: `seen` maps an exterior loop to the strand index
    after which it was seen.  Returns `none` (whole complex is one component), or the splice points. -/
def splitScan : List (Nat × Nat) → Nat → Nat → List (Nat × Nat) → Except Err (Option (Nat × Nat))
  | [], _, _, _ => .ok none
  | (fr, to) :: rest, j, n, seen =>
    match seen.lookup fr with
    | none => .error .assertion
    | some v =>
      if v ≠ j then .error .assertion
      else if j = n - 1 then
        (if (seen.lookup to).isSome then .ok none else .error .assertion)
      else match seen.lookup to with
        | some i => .ok (some (i, j))
        | none => splitScan rest (j + 1) n ((to, j + 1) :: seen)

/-- `list(split_complex_pt(stab, ptab))`; `fuel` bounds the recursion depth (number of strands suffices) -/
def splitPt {α} : Nat → List (List α) → PairTable → Except Err (List (List (List α) × PairTable))
  | 0, _, _ => .error (.fault "RecursionError")
  | fuel + 1, stab, ptab =>
    match makeLoopIndex ptab true with
    | .error e => .error e
    | .ok lo =>
      match splitScan lo.myext 0 lo.myext.length [(0, 0)] with
      | .error e => .error e
      | .ok none => if lo.myext.isEmpty then .ok [] else .ok [(stab, ptab)]
      | .ok (some (i, j)) =>
        let sp := splice stab ptab i j
        match splitPt fuel sp.1.1 sp.1.2, splitPt fuel sp.2.1 sp.2.2 with
        | .ok a, .ok b => .ok (a ++ b)
        | .error e, _ => .error e
        | _, .error e => .error e

end Dsd
