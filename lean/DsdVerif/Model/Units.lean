/-
Model of dsdobjects/utils.py `convert_units` (exact rational arithmetic instead of floats)
and of the rate-constant / concentration re-expression in base_classes.py.
-/
import DsdVerif.Gen.UnitTables
import DsdVerif.Gen.GrammarUnits

namespace Dsd.Units

def lookup (tbl : List (String × (Nat × Nat))) (u : String) : Option (Nat × Nat) :=
  (tbl.reverse.find? (fun r => r.1 == u)).map (·.2)

def scaleOf (p : Nat × Nat) : Rat := (p.1 : Rat) / (p.2 : Rat)

inductive Err | valueError | keyError | objectInit | notImplemented
deriving DecidableEq, Repr

/-- `convert_units(val, unit_in, unit_out)`:
    `unit_in in conc` → conc[unit_in]/conc[unit_out] (KeyError if unit_out is not a conc unit),
    `elif unit_in in time` → likewise, else ValueError. -/
def convert (v : Rat) (uin uout : String) : Except Err Rat :=
  match lookup Gen.units_conc uin with
  | some a =>
    match lookup Gen.units_conc uout with
    | some b => .ok (v * scaleOf a / scaleOf b)
    | none => .error .keyError
  | none =>
    match lookup Gen.units_time uin with
    | some a =>
      match lookup Gen.units_time uout with
      | some b => .ok (v * scaleOf a / scaleOf b)
      | none => .error .keyError
    | none => .error .valueError

/-- `'/a/b'.split('/')[1:]` on the unit string, given already split -/
def rateformat (const : Rat) (oldUnits newUnits : List String) (nReactants : Nat) : Except Err Rat :=
  if oldUnits.length ≠ nReactants then .error .notImplemented
  else if newUnits.length ≠ nReactants then .error .notImplemented
  else (oldUnits.zip newUnits).foldlM (fun c (io : String × String) => convert c io.2 io.1) const

def concentrationformat (v : Rat) (unit out : String) : Except Err Rat := convert v unit out

end Dsd.Units

namespace Dsd.Units

/-- the argument forms accepted by the `rate_constant` setter -/
inductive RateArg
  | number (v : Rat)
  | tuple1 (v : Rat)
  | pair (v : Rat) (units : Option String)
deriving Repr

/-- `(constant, units) = tup if len(tup) == 2 else (tup[0], None)`; a bare number is stored with `None` -/
def setRate : RateArg → Rat × Option String
  | .number v => (v, none)
  | .tuple1 v => (v, none)
  | .pair v u => (v, u)

/-- the getter returns `(flint(const), units)`; `flint` preserves the numeric value -/
def getRate (st : Rat × Option String) : Rat × Option String := st

end Dsd.Units
