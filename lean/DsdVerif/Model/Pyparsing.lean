/-
A model of the fragment of pyparsing 3.3 that the two grammars of dsdobjects/dsdparser use.

Grammars are values of `G` (generated from the Python source by translator/gen.py, see Gen/Grammars.lean);
`run` interprets them PEG-style on the remaining input.  Modelled semantics:
* default whitespace characters are blank, tab and carriage return (the setup functions remove "\n");
  every element skips them — and `#…` comments, registered with `document.ignore(pythonStyleComment)` —
  before it matches; inside an (adjacent) `Combine` nothing is skipped;
* `Word` is maximal munch, `Literal` an exact prefix match (no keyword boundary), `Keyword` a prefix match that is
  not followed by one of its identifier characters, `|` is ordered choice
  (`MatchFirst`) that backtracks to the start of the alternative, `Optional`/`ZeroOrMore`/`OneOrMore` are greedy;
* `LineEnd` matches "\n" or (once) the end of the input, `StringEnd` the end of the input;
* results are nested lists of strings (`Tree`), built like pyparsing's `asList()`.
-/
namespace Dsd.PP

inductive Tree
  | tok (s : String)
  | grp (ts : List Tree)
deriving Repr, Inhabited

inductive G
  | lit (s : List Char)                    -- Literal
  | kw (s ident : List Char)               -- Keyword(s, ident_chars): not followed by an identifier character
  | word (init body : List Char)           -- Word(initChars, bodyChars)
  | white                                  -- White()
  | lineEnd | stringStart | stringEnd
  | seq (gs : List G)                      -- And
  | alt (gs : List G)                      -- MatchFirst
  | opt (g : G) | many (g : G) | many1 (g : G)
  | combine (g : G) | group (g : G) | suppress (g : G)
  | tag (t : String) (g : G)               -- parse action `[tag] + tokens`
  | ref (name : String)                    -- Forward
deriving Repr, Inhabited

/-- parser position: the remaining input, and whether the virtual end-of-input line end was consumed -/
structure Pos where
  rest : List Char
  past : Bool := false
deriving Repr, DecidableEq

structure Ctx where
  skip : Bool := true        -- skip whitespace / comments before elements (false inside Combine)
deriving Repr

def isWs (c : Char) : Bool := c == ' ' || c == '\t' || c == '\r'

def skipWs (cs : List Char) : List Char := cs.dropWhile isWs

/-- whitespace and at most one `#…` comment (which runs to the end of the line) -/
def skipIgn (cs : List Char) : List Char :=
  let c1 := skipWs cs
  match c1 with
  | '#' :: _ => skipWs (c1.dropWhile (· != '\n'))
  | _ => c1

def pre (ctx : Ctx) (p : Pos) : Pos := if ctx.skip then { p with rest := skipIgn p.rest } else p

def stripPrefix : List Char → List Char → Option (List Char)
  | [], cs => some cs
  | _ :: _, [] => none
  | a :: as, c :: cs => if a = c then stripPrefix as cs else none

/-- tokens of a tree list, depth first (for `Combine`) -/
def flatToks : Nat → List Tree → List String
  | 0, _ => []
  | _ + 1, [] => []
  | f + 1, .tok s :: r => s :: flatToks f r
  | f + 1, .grp ts :: r => flatToks f ts ++ flatToks f r

abbrev Env := List (String × G)

mutual
/-- interpret grammar `g` at position `p`; `none` = ParseException -/
def run (env : Env) : Nat → Ctx → G → Pos → Option (Pos × List Tree)
  | 0, _, _, _ => none
  | fuel + 1, ctx, g, p =>
    match g with
    | .lit s =>
      let p1 := pre ctx p
      if p1.past then none else
      match stripPrefix s p1.rest with
      | some r => some ({ p1 with rest := r }, [.tok (String.ofList s)])
      | none => none
    | .kw s ident =>
      -- like `Literal`, but the next character must not be an identifier character.  (pyparsing also requires that the
      -- PREVIOUS character is none: the grammars use keywords only at the start of a statement, where the previous
      -- character is the start of the text, a line end or skipped whitespace — none is an identifier character.)
      let p1 := pre ctx p
      if p1.past then none else
      match stripPrefix s p1.rest with
      | some (c :: r) => if ident.contains c then none else some ({ p1 with rest := c :: r }, [.tok (String.ofList s)])
      | some [] => some ({ p1 with rest := [] }, [.tok (String.ofList s)])
      | none => none
    | .word init body =>
      let p1 := pre ctx p
      match p1.rest with
      | c :: cs =>
        if init.contains c then
          let m := cs.takeWhile (fun x => body.contains x)
          some ({ p1 with rest := cs.drop m.length }, [.tok (String.ofList (c :: m))])
        else none
      | [] => none
    | .white =>
      -- White skips comments but matches the whitespace itself (blank, tab, CR, LF)
      let r0 := if ctx.skip then (match skipWs p.rest with | '#' :: t => (('#' :: t).dropWhile (· != '\n')) | _ => p.rest) else p.rest
      let m := r0.takeWhile (fun c => isWs c || c == '\n')
      if m.isEmpty then none else some ({ p with rest := r0.drop m.length }, [.tok (String.ofList m)])
    | .lineEnd =>
      let p1 := pre ctx p
      match p1.rest with
      | '\n' :: cs => some ({ p1 with rest := cs }, [.tok "\n"])
      | [] => if p1.past then none else some ({ p1 with past := true }, [])
      | _ => none
    | .stringStart => some (p, [])        -- only used at the very beginning of a document
    | .stringEnd =>
      let p1 := pre ctx p
      if p1.rest.isEmpty then some ({ p1 with past := true }, []) else none
    | .seq gs => runSeq env fuel ctx gs p
    | .alt gs => runAlt env fuel ctx gs p
    | .opt g =>
      match run env fuel ctx g p with
      | some r => some r
      | none => some (p, [])
    | .many g => runMany env fuel fuel ctx g p
    | .many1 g =>
      match run env fuel ctx g p with
      | none => none
      | some (p1, t1) =>
        match runMany env fuel fuel ctx g p1 with
        | some (p2, t2) => some (p2, t1 ++ t2)
        | none => some (p1, t1)
    | .combine g =>
      let p1 := pre ctx p
      match run env fuel { skip := false } g p1 with
      | some (p2, ts) => some (p2, [.tok (String.join (flatToks (fuel + 1) ts))])
      | none => none
    | .group g =>
      match run env fuel ctx g p with
      | some (p2, ts) => some (p2, [.grp ts])
      | none => none
    | .suppress g =>
      match run env fuel ctx g p with
      | some (p2, _) => some (p2, [])
      | none => none
    | .tag t g =>
      match run env fuel ctx g p with
      | some (p2, ts) => some (p2, .tok t :: ts)
      | none => none
    | .ref n =>
      match env.lookup n with
      | some g => run env fuel ctx g p
      | none => none

def runSeq (env : Env) : Nat → Ctx → List G → Pos → Option (Pos × List Tree)
  | 0, _, _, _ => none
  | _ + 1, _, [], p => some (p, [])
  | fuel + 1, ctx, g :: gs, p =>
    match run env fuel ctx g p with
    | none => none
    | some (p1, t1) =>
      match runSeq env fuel ctx gs p1 with
      | none => none
      | some (p2, t2) => some (p2, t1 ++ t2)

def runAlt (env : Env) : Nat → Ctx → List G → Pos → Option (Pos × List Tree)
  | 0, _, _, _ => none
  | _ + 1, _, [], _ => none
  | fuel + 1, ctx, g :: gs, p =>
    match run env fuel ctx g p with
    | some r => some r
    | none => runAlt env fuel ctx gs p

/-- `ZeroOrMore`: repeat until the element fails (the first `Nat` bounds the number of repetitions) -/
def runMany (env : Env) : Nat → Nat → Ctx → G → Pos → Option (Pos × List Tree)
  | 0, _, _, _, p => some (p, [])
  | _, 0, _, _, p => some (p, [])
  | reps + 1, fuel + 1, ctx, g, p =>
    match run env fuel ctx g p with
    | none => some (p, [])
    | some (p1, t1) =>
      if p1 == p then some (p1, t1) else      -- no progress: stop (pyparsing would loop forever)
      match runMany env reps fuel ctx g p1 with
      | some (p2, t2) => some (p2, t1 ++ t2)
      | none => some (p1, t1)
end

/-- Python `str.expandtabs()` (tab stops every 8 columns; the column restarts after LF and CR):
    `parseString` expands tabs before parsing -/
def expandTabs : List Char → Nat → List Char
  | [], _ => []
  | '\t' :: cs, col => List.replicate (8 - col % 8) ' ' ++ expandTabs cs 0
  | c :: cs, col => c :: expandTabs cs (if c == '\n' || c == '\r' then 0 else (col + 1) % 8)

/-- `document.parseString(text).asList()` -/
def parseDoc (env : Env) (doc : G) (text : String) : Option (List Tree) :=
  let cs := expandTabs text.toList 0
  match run env (4 * cs.length + 200) {} doc { rest := cs } with
  | some (_, ts) => some ts
  | none => none

end Dsd.PP
