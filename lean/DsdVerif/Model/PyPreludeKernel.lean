/-
Python primitives used by the statement-level translation of `resolve_kernel_loops` (translator/pykernel.py ->
Gen/PyKernel.lean), in addition to Model/PyPrelude.lean.  One definition per Python primitive, on immutable Lean values; a
primitive that can raise in Python returns in `Except Err` and raises the same kind of exception.

Together with the rules at the top of translator/pykernel.py these lines are the trusted reading of Python for that function.
-/
import DsdVerif.Model.PyPrelude

namespace Dsd.Py

/-- `l[-1] = x`: IndexError ("list assignment index out of range") for the empty list, else the last element is replaced -/
def setLast {α} (l : List α) (x : α) : M (List α) :=
  match l with
  | [] => throw (.fault "IndexError")
  | _ :: _ => pure (l.dropLast ++ [x])

/-- `s[-1]` for a str `s`: its last character; IndexError ("string index out of range") for the empty str -/
def strLast (s : String) : M Char :=
  match s.toList.getLast? with
  | some c => pure c
  | none => throw (.fault "IndexError")

/-- `s[:-1]` for a str `s`: all characters but the last (`''` for `''`) -/
def strDropLast (s : String) : String := String.ofList s.toList.dropLast

end Dsd.Py
