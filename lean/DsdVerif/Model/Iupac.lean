/-
Model of dsdobjects/iupac_utils.py (sequence-level functions) over the *generated* tables.
`none` models Python's KeyError on a character that is not a key of the table.
-/
import DsdVerif.Gen.IupacTables

namespace Dsd.Iupac

inductive Material | dna | rna
deriving DecidableEq, Repr

/-- Python `dict[c]`: the dictionary display keeps the *last* value of a duplicated key. -/
def lookup {β} (tbl : List (Char × β)) (c : Char) : Option β :=
  (tbl.reverse.find? (fun r => r.1 == c)).map (·.2)

def wcTable : Material → List (Char × Char)
  | .dna => Gen.wc_complement_dna
  | .rna => Gen.wc_complement_rna

def wobbleTable : Material → List (Char × Char)
  | .dna => Gen.wobble_complement_dna
  | .rna => Gen.wobble_complement_rna

def binTable : Material → List String
  | .dna => Gen.bin_iupac_dna
  | .rna => Gen.bin_iupac_rna

/-- `''.join([tbl[x] for x in sequence])` -/
def mapSeq (tbl : List (Char × Char)) (s : List Char) : Option (List Char) :=
  s.mapM (lookup tbl)

def complement (m : Material) (s : List Char) : Option (List Char) := mapSeq (wobbleTable m) s
def wcComplement (m : Material) (s : List Char) : Option (List Char) := mapSeq (wcTable m) s
def reverseComplement (m : Material) (s : List Char) : Option (List Char) := mapSeq (wobbleTable m) s.reverse
def reverseWcComplement (m : Material) (s : List Char) : Option (List Char) := mapSeq (wcTable m) s.reverse

inductive ACResult
  | ok (con : List Char)        -- the intersection, returned
  | constraintError             -- ConstraintError raised
  | keyError                    -- a character outside the tables
  | lengthAssert                -- `assert len(seq1) == len(seq2)`
  | returnsNone                 -- falls off the end of the function (no `return`)
deriving DecidableEq, Repr

/-- one position: `bin_iupac[iupac_bin[x] & iupac_bin[y]]` (a string of length 0 or 1) -/
def meet (m : Material) (x y : Char) : Option (List Char) := do
  let a ← lookup Gen.iupac_bin x
  let b ← lookup Gen.iupac_bin y
  ((binTable m)[a &&& b]?).map String.toList

def addConstraints (m : Material) (s1 s2 : List Char) : ACResult :=
  if s1.length ≠ s2.length then .lengthAssert else
  match (s1.zip s2).mapM (fun p => meet m p.1 p.2) with
  | none => .keyError
  | some parts =>
    let con := parts.flatten
    if con.length < s1.length then .constraintError
    else if Gen.add_constraints_returns then .ok con else .returnsNone

end Dsd.Iupac
