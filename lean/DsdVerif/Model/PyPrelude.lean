/-
Python built-ins used by the functions that `translator/pyfunc.py` transcribes statement by statement into
`Gen/PyFuncs.lean`.  Each definition models ONE Python primitive on immutable Lean values; a primitive that can raise in
Python returns in `Except Err` and raises the same kind of exception (`IndexError`, `TypeError`, `ValueError` as `Err.fault`).

These few lines, together with the translation rules listed at the top of `translator/pyfunc.py`, are the trusted reading of
Python for the statement-level models.  The file imports only the model's error type.
-/
import DsdVerif.Model.Complex

namespace Dsd.Py

abbrev M := Except Err

/-- `l[i]` for a non-negative index -/
def idx {α} (l : List α) (i : Nat) : M α :=
  match l[i]? with
  | some x => pure x
  | none => throw (.fault "IndexError")

/-- `l[-1]` -/
def last {α} (l : List α) : M α :=
  match l.getLast? with
  | some x => pure x
  | none => throw (.fault "IndexError")

/-- `l[i] = x` for a non-negative index -/
def setIdx {α} (l : List α) (i : Nat) (x : α) : M (List α) :=
  if i < l.length then pure (l.set i x) else throw (.fault "IndexError")

/-- `l[i][j] = x` -/
def setIdx2 {α} (l : List (List α)) (i j : Nat) (x : α) : M (List (List α)) := do
  let row ← idx l i
  let row' ← setIdx row j x
  setIdx l i row'

/-- `x = l.pop()`: the popped value and the remaining list -/
def pop {α} (l : List α) : M (α × List α) :=
  match l.getLast? with
  | some x => pure (x, l.dropLast)
  | none => throw (.fault "IndexError")

/-- `inner.append(x)` where `inner` is the object that was last appended to `l` (an alias of `l[-1]`) -/
def appendLast {α} (l : List (List α)) (x : α) : M (List (List α)) :=
  match l.getLast? with
  | some row => pure (l.dropLast ++ [row ++ [x]])
  | none => throw (.fault "translator:alias")

/-- use of a value that may be `None` where a tuple is required (`None[0]`, `None < (0, 1)`): TypeError -/
def unwrap {α} (o : Option α) : M α :=
  match o with
  | some x => pure x
  | none => throw (.fault "TypeError")

/-- `l.index(x)` -/
def index {α} [BEq α] (l : List α) (x : α) : M Nat :=
  match l.findIdx? (· == x) with
  | some i => pure i
  | none => throw (.fault "ValueError")

/-- `enumerate(l)` -/
def enumerate {α} (l : List α) : List (Nat × α) := l.zipIdx.map (fun p => (p.2, p.1))

/-- `range(a, b)` -/
def range2 (a b : Nat) : List Nat := (List.range (b - a)).map (· + a)

/-- `(a0, a1) < (b0, b1)` on tuples of non-negative integers -/
def tupleLt (a b : Nat × Nat) : Bool := a.1 < b.1 || (a.1 == b.1 && a.2 < b.2)

/-- `s.add(x)` for a set kept as the list of its elements in order of insertion -/
def setAdd {α} [BEq α] (s : List α) (x : α) : List α := if s.contains x then s else s ++ [x]

/-- `a - b` on non-negative ints where the typing (`Nat`) needs the difference to be non-negative again: Python would go on
    with a negative int; that is outside what the translation represents and is reported as an explicit translator fault -/
def sub (a b : Nat) : M Nat := if b ≤ a then pure (a - b) else throw (.fault "translator:negative")

/-- `a % b` on non-negative ints: ZeroDivisionError for `b = 0` -/
def mod (a b : Nat) : M Nat := if b = 0 then throw (.fault "ZeroDivisionError") else pure (a % b)

/-- `a, b = l` for a list `l`: ValueError unless it has exactly two elements -/
def unpack2 {α} (l : List α) : M (α × α) :=
  match l with
  | [a, b] => pure (a, b)
  | _ => throw (.fault "ValueError")

/-- `k in d` for a dict kept as the list of its items (insertion order, pairwise different keys) -/
def dictHas {κ β} [BEq κ] (d : List (κ × β)) (k : κ) : Bool := (d.lookup k).isSome

/-- `d[k]`: KeyError for a missing key -/
def dictGet {κ β} [BEq κ] (d : List (κ × β)) (k : κ) : M β :=
  match d.lookup k with
  | some x => pure x
  | none => throw (.fault "KeyError")

/-- `d[k] = x`: the value of an existing key is replaced (the item keeps its place), a new key is appended -/
def dictSet {κ β} [BEq κ] (d : List (κ × β)) (k : κ) (x : β) : List (κ × β) :=
  if dictHas d k then d.map (fun p => if p.1 == k then (p.1, x) else p) else d ++ [(k, x)]

/-! ### primitives used by the rest of complex_utils.py and by iupac_utils.py -/

/-- the groups of `itertools.groupby` that are still to come when the current group has the key `k` (the key of its FIRST
    element: `tgtkey`) and the elements `cur` (latest first): the next element joins the group iff `tgtkey == currkey` -/
def groupbyGo {α κ} [BEq κ] (key : α → κ) : κ → List α → List α → List (κ × List α)
  | k, cur, [] => [(k, cur.reverse)]
  | k, cur, y :: ys =>
    if k == key y then groupbyGo key k (y :: cur) ys
    else (k, cur.reverse) :: groupbyGo key (key y) [y] ys

/-- `[(k, list(g)) for k, g in itertools.groupby(l, key)]`: the maximal runs of CONSECUTIVE elements with equal keys, each
    with its key, in order (no sorting, equal keys that are not adjacent make separate groups) -/
def groupby {α κ} [BEq κ] (key : α → κ) : List α → List (κ × List α)
  | [] => []
  | x :: xs => groupbyGo key (key x) [x] xs

/-- the rest of `s.split(sep)` when the piece being read is `cur` (latest character first) -/
def splitGo (sep : Char) : List Char → List Char → List (List Char)
  | cur, [] => [cur.reverse]
  | cur, c :: cs => if c == sep then cur.reverse :: splitGo sep [] cs else splitGo sep (c :: cur) cs

/-- `s.split(sep)` for a str `s` (its characters) and a ONE-character separator: the pieces between the occurrences of
    `sep`, empty pieces kept, never the empty list (`''.split('+') == ['']`) -/
def split (s : List Char) (sep : Char) : List (List Char) := splitGo sep [] s

/-- `sep.join(parts)` for strs kept as the lists of their characters -/
def strJoin (sep : List Char) : List (List Char) → List Char
  | [] => []
  | [s] => s
  | s :: t :: rest => s ++ sep ++ strJoin sep (t :: rest)

/-- `functools.reduce(f, l)` without an initial value: TypeError for an empty `l`, else `f(…f(f(l0, l1), l2)…, ln)` -/
def reduce {α} (f : α → α → α) : List α → M α
  | [] => throw (.fault "TypeError")
  | x :: xs => pure (xs.foldl f x)

/-! ### primitives used by the method translations (translator/pymethod.py, Gen/PyComplexS.lean) -/

/-- a method of an object whose translated part is `σ`: the object is the state; an exception keeps the assignments made before it -/
abbrev MS (σ : Type) := ExceptT Err (StateM σ)

/-- run a method on an object: the result (or the exception) and the object afterwards -/
def MS.exec {σ α} (m : MS σ α) (s : σ) : Except Err α × σ := (ExceptT.run m).run s

/-- truth value of a value that is `None` or a list: `None` and `[]` are false -/
def truthyOL {α} (o : Option (List α)) : Bool :=
  match o with
  | some l => !l.isEmpty
  | none => false

/-- `a % b` on ints of either sign (the result has the sign of `b`): ZeroDivisionError for `b = 0` -/
def imod (a b : Int) : M Int := if b = 0 then throw (.fault "ZeroDivisionError") else pure (Int.fmod a b)

end Dsd.Py
