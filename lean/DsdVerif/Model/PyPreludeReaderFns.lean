/-
Python primitives used by the statement-level translations of `read_reaction`, `set_io_objects`, `clear_io_objects`
(dsdobjects/objectio.py; translator/pyreaderfn.py -> Gen/PyReaderFns.lean), in addition to Model/PyPrelude.lean.  One definition per
Python primitive, on immutable Lean values; a primitive that can raise in Python returns in `Except Err` and raises the same kind
of exception.

The values are TOKEN TREES (`PP.Tree`): a `str` (`.tok s`) or a `list` of token trees (`.grp ts`) - what a pyparsing result is once
it has been turned into nested lists.  The primitives follow Python's DUCK TYPING on these two kinds: subscripting a str gives the
one-character str, `len` of a str is its number of characters, a str is never equal to a list, a list is unhashable, `sep.join`
of a str joins its characters.

Together with the rules at the top of translator/pyreaderfn.py these lines are the trusted reading of Python for these functions.
-/
import DsdVerif.Model.PyPrelude
import DsdVerif.Model.Pyparsing

namespace Dsd.Py
open Dsd.PP

/-- a Python `float` that was obtained by `float(s)` from a str: kept as that literal text `s` (NOT interpreted: the reader model
    Model/Reader.lean keeps rate constants as their literal text too; the harness compares them numerically) -/
abbrev FloatLit := String

/-- a Python `set` of strs (only `in` / `not in` are used: the order of the elements is not observable) -/
abbrev StrSet := List String

/-- a class object (an opaque identity) -/
abbrev ClassId := Nat

/-- `x[i]` for a token tree `x` and a non-negative int `i`: the `i`-th item of a list, the `i`-th character (a one-character str)
    of a str; IndexError ("list index out of range" / "string index out of range") beyond the end -/
def treeIdx (x : Tree) (i : Nat) : M Tree :=
  match x with
  | .grp ts => idx ts i
  | .tok s =>
    match s.toList[i]? with
    | some c => pure (.tok (String.singleton c))
    | none => throw (.fault "IndexError")

/-- `x != []` for a token tree `x`: a str is never equal to a list; a list differs from `[]` iff it has an element -/
def treeNeNil (x : Tree) : Bool :=
  match x with
  | .grp ts => !ts.isEmpty
  | .tok _ => true

/-- `len(x)` for a token tree: the number of items of a list, the number of characters of a str -/
def treeLen (x : Tree) : Nat :=
  match x with
  | .grp ts => ts.length
  | .tok s => s.length

/-- `float(x)`: TypeError for a list ("float() argument must be a string or a real number"); for a str the float it denotes,
    kept as the literal (see `FloatLit`).  NOT modelled: the ValueError of a str that is not a float literal (the grammar's
    rate tokens always are) -/
def treeFloat (x : Tree) : M FloatLit :=
  match x with
  | .tok s => pure s
  | .grp _ => throw (.fault "TypeError")

/-- the items of `sep.join(x)` when `x` is a list: each must be a str, else TypeError ("sequence item 0: expected str instance") -/
def treeStrs : List Tree → M (List String)
  | [] => pure []
  | .tok s :: rest => do let r ← treeStrs rest; pure (s :: r)
  | .grp _ :: _ => throw (.fault "TypeError")

/-- `sep.join(x)` for a token tree `x`: the strs of a list joined by `sep` (TypeError if an item is a list); for a str its
    characters joined by `sep` -/
def treeJoin (sep : String) (x : Tree) : M String :=
  match x with
  | .grp ts => do let ss ← treeStrs ts; pure (sep.intercalate ss)
  | .tok s => pure (sep.intercalate (s.toList.map String.singleton))

/-- `x in S` for a set `S` of strs and a value that is `None` or a token tree: `None` is in no such set, a str is looked up,
    a list is unhashable: TypeError -/
def inStrSet (x : Option Tree) (S : StrSet) : M Bool :=
  match x with
  | none => pure false
  | some (.tok s) => pure (S.contains s)
  | some (.grp _) => throw (.fault "TypeError")

/-- `format(x, '')` (a `{}` field of `str.format`, an f-string field) for a token tree: a str is itself, a list is its `str()`,
    which is left OPAQUE here (`strL`: Python's `repr` of nested lists of strs) -/
def fmtTree (strL : List Tree → String) (x : Tree) : String :=
  match x with
  | .tok s => s
  | .grp ts => strL ts

/-- `format(x, '')` for a value that may be `None` -/
def fmtOTree (strL : List Tree → String) (x : Option Tree) : String :=
  match x with
  | none => "None"
  | some t => fmtTree strL t

end Dsd.Py
