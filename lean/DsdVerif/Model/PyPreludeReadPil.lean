/-
Python primitives used by the statement-level translation of `read_pil` (dsdobjects/objectio.py; translator/pyreaderfn2.py ->
Gen/PyReadPil.lean), in addition to Model/PyPrelude.lean and Model/PyPreludeReaderFns.lean.

What `read_pil_line` returns is read as a TAGGED VALUE (`Py.Val`): an object of one of the reader's classes (`Py.Obj`: its class, its
identity, and the attributes the loop inspects: `name`, `rtype`, `sequence`) or a raw parsed line (a Python list).  The functions that
`read_pil` calls - the two parsers, `read_pil_line`, `~obj`, `reverse_wc_complement` - act on the object world; they are PARAMETERS
(`ReadPil.Env`) in a state monad over an opaque world `ω`.  Together with the rules at the top of translator/pyreaderfn2.py these lines are
the trusted reading of Python for that function.
-/
import DsdVerif.Model.PyPreludeReaderFns
import DsdVerif.Gen.PyReaderFns

namespace Dsd.Py
open Dsd.PP

/-- an object of one of the reader's classes, as far as `read_pil` looks at it -/
structure Obj where
  id : Nat                      -- identity (`is`)
  key : Nat                     -- equality class: `a == b` / `hash(a) == hash(b)` (the classes define `__eq__` / `__hash__`) iff equal keys
  cls : ClassId                 -- `type(obj)`
  name : String                 -- `obj.name`
  rtype : String := ""          -- `obj.rtype` (reactions)
  sequence : Option String := none   -- `obj.sequence` (domains)
deriving Repr, DecidableEq, Inhabited

/-- what `read_pil_line` returns: an object, or the parsed line itself (a list) -/
inductive Val
  | obj (o : Obj)
  | raw (line : List Tree)
deriving Repr, Inhabited

/-- `a == b` as the elements of a `set`: objects by their equality class; raw lines (unhashable, never added) are never equal -/
instance : BEq Val where
  beq a b := match a, b with
    | .obj x, .obj y => x.key == y.key
    | _, _ => false

/-- `v.attr`: the object whose attribute is read; a list has none of `name` / `rtype` / `sequence`: AttributeError -/
def valAttr (v : Val) : M Obj :=
  match v with
  | .obj o => pure o
  | .raw _ => throw (.fault "AttributeError")

/-- the operand of `~v`: TypeError for a list ("bad operand type for unary ~") -/
def valObj (v : Val) : M Obj :=
  match v with
  | .obj o => pure o
  | .raw _ => throw (.fault "TypeError")

/-- `isinstance(v, list)` -/
def valIsList (v : Val) : Bool :=
  match v with
  | .raw _ => true
  | .obj _ => false

/-- `isinstance(v, X)` for a module global `X` that holds a class or `None`: TypeError for `None` ("isinstance() arg 2 must be a type");
    a list is an instance of none of the reader's classes; an object is one iff its class is `X` or a subclass (`sub c X`) -/
def isinstanceG (sub : ClassId → ClassId → Bool) (v : Val) (X : Option ClassId) : M Bool :=
  match X with
  | none => throw (.fault "TypeError")
  | some k =>
    match v with
    | .obj o => pure (sub o.cls k)
    | .raw _ => pure false

/-- `x in l` for a token tree `x` and a list `l` of strs: a str is compared with the elements, a list equals no str -/
def treeInStrs (x : Tree) (l : List String) : Bool :=
  match x with
  | .tok s => l.contains s
  | .grp _ => false

end Dsd.Py

namespace Dsd.ReadPil
open Dsd

/-- the monad of `read_pil`: the functions it calls act on the object world `ω` (opaque) and can raise -/
abbrev M (ω : Type) := StateT ω (Except Err)

/-- the names `read_pil` reads from its module: the five slots, the subclass relation of the classes they hold, and the functions it calls -/
structure Env (ω : Type) where
  g : Gen.objectio.Globals
  sub : Py.ClassId → Py.ClassId → Bool
  parse_pil_file : String → M ω (List (List PP.Tree))
  parse_pil_string : String → M ω (List (List PP.Tree))
  read_pil_line : List PP.Tree → M ω Py.Val
  invert : Py.Obj → M ω Py.Obj
  reverse_wc_complement : String → M ω String

end Dsd.ReadPil
