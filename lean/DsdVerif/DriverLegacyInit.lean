/-
Line-protocol ops that EXECUTE `DSD_Complex.__init__` as translated from the source (Gen/PyLegacyInit.lean).  The state is
`DriverLegacyReg.LegacyRegDState` itself (objects + class variables); every other line is offered to `stepLegacyReg`.

    li.new <h> <names> <structure> <name> <prefix> <0|1>   `DSD_Complex(names, structure, name, prefix, memorycheck)` for the new
                                                          object `h`: ok <name> | err …  (a refused construction keeps the class variables it wrote)
    li.cls                                                 the class variables: `ID=… NAMES=… MEMORY=…`
-/
import DsdVerif.Gen.PyLegacyInit
import DsdVerif.DriverLegacyReg

namespace Dsd.DriverLegacyInit
open Dsd Gen DriverLegacyReg

def blank (d : LegacyRegDState) (id : Nat) : DSD_ComplexR.Self :=
  { _sequence := [], _structure := [], _strand_lengths := none, _pair_table := none, _loop_index := none, _exterior_loops := none,
    _lol_sequence := none, _exterior_domains := none, _enclosed_domains := none, _name := "", _canonical_form := none,
    _rotations := none, _memorycheck := false, oid := id, cls_ID := d.ID, cls_NAMES := d.NAMES, cls_MEMORY := d.MEMORY }

def stepLegacyInit (d : LegacyRegDState) (line : String) : Option (LegacyRegDState × String) :=
  match line.splitOn "\t" with
  | ["li.new", h, ns, sst, nm, pfx, mc] =>
    match h.toNat? with
    | some id =>
      let (r, s') := (py_DSD_ComplexR_init (names ns) sst.toList nm pfx (mc == "1")).exec (blank d id)
      match r with
      | .ok _ => some (put d id s', "ok " ++ s'._name)
      | .error e => some ({ d with ID := s'.cls_ID, NAMES := s'.cls_NAMES, MEMORY := s'.cls_MEMORY }, DriverLegacy.showErr e)
    | none => some (d, "bad-op")
  | ["li.cls"] =>
    some (d, s!"ID={d.ID} NAMES=" ++ ";".intercalate (d.NAMES.map (fun p => p.1 ++ ":" ++ showKey p.2)) ++
      " MEMORY=" ++ ";".intercalate (d.MEMORY.map (fun p => showKey p.1 ++ ":h" ++ toString p.2.1)))
  | _ => stepLegacyReg d line

end Dsd.DriverLegacyInit
