/-
Driver ops for the statement-level translations of the unit / rate-constant arithmetic (Gen/PyUnits.lean).  Stateless: every op
builds its object with the translated `__init__`; `stepUnits` answers `none` for a line that is not one of its ops.

  pyunits.flint   <TAB> v                                  `py_flint v`
  pyunits.conv    <TAB> v <TAB> unit_in <TAB> unit_out       `py_convert_units`
  pyunits.rate    <TAB> v <TAB> units <TAB> new <TAB> n      a new ReactionS with n reactants: `rate_constant = (v, units)`, then
                                                         `rateformat(new)`; answer `ok <const> <TAB> <units returned>`
  pyunits.rateset <TAB> form <TAB> v <TAB> units <TAB> n     a new ReactionS with n reactants and 1 product: `rate_constant = (7, '/x')`, then
                                                         `rate_constant = <form>` (number | tuple1 | pair | pairnone | tuple0 | longer<k>),
                                                         then the getter and `arity`: `set <ok|err E> get <const> <units> arity <a> <b>`
  pyunits.rateget <TAB> n                                  the getter and `arity` of a new ReactionS
  pyunits.ratefmt0 <TAB> new <TAB> n                        `rateformat(new)` of a new ReactionS (no units: ObjectInitError)
  pyunits.conc    <TAB> mode <TAB> v <TAB> unit <TAB> out    a new ComplexS: `concentration = (mode, v, unit)`, the getter, `concentrationformat(out)`
  pyunits.concnone <TAB> out                               `concentration = None`, the getter, `concentrationformat(out)` (TypeError)

numbers: `num/den`; strs are sent as they are (the harness uses no TAB / newline in them); `None` is written `None`.
-/
import DsdVerif.Gen.PyUnits

namespace Dsd.DriverUnits
open Dsd

def showRat (q : Rat) : String := s!"{q.num}/{q.den}"

def parseRat (s : String) : Option Rat :=
  match s.splitOn "/" with
  | [n, d] => do
    let n ← n.toInt?
    let d ← d.toNat?
    if d = 0 then none else some ((n : Rat) / (d : Rat))
  | [n] => do let n ← n.toInt?; some (n : Rat)
  | _ => none

def showErr : Err → String
  | .objectInit => "err ObjectInitError"
  | .notImplemented => "err NotImplementedError"
  | .assertion => "err AssertionError"
  | .fault k => "err " ++ k
  | _ => "err other"

def showNum (r : Except Err Rat) : String :=
  match r with
  | .ok q => "ok " ++ showRat q
  | .error e => showErr e

def showOStr : Option String → String
  | some s => "'" ++ s ++ "'"
  | none => "None"

def showORat : Option Rat → String
  | some q => showRat q
  | none => "None"

def newRx (n : Nat) : Gen.ReactionS.Self := Gen.py_ReactionS_init (List.replicate n ()) [()]

def parseForm (form v units : String) : Option Py.RateArg :=
  match parseRat v with
  | none => none
  | some q =>
    if form == "number" then some (.number q)
    else if form == "tuple1" then some (.tuple1 q)
    else if form == "pair" then some (.pair q (some units))
    else if form == "pairnone" then some (.pair q none)
    else if form == "tuple0" then some .tuple0
    else if form.startsWith "longer" then (form.drop 6).toNat?.map .longer
    else none

def showGet (s : Gen.ReactionS.Self) : String :=
  let (g, s1) := Gen.py_ReactionS_rate_constant.exec s
  let (a, _) := Gen.py_ReactionS_arity.exec s1
  (match g with
   | .ok (c, u) => "get " ++ showORat c ++ " " ++ showOStr u
   | .error e => "get " ++ showErr e) ++
  (match a with
   | .ok (x, y) => s!" arity {x} {y}"
   | .error e => " arity " ++ showErr e)

def showTrip : Option (String × (Rat × String)) → String
  | some (m, v, u) => "('" ++ m ++ "', " ++ showRat v ++ ", '" ++ u ++ "')"
  | none => "None"

def concOps (trip : Option (String × (Rat × String))) (out : String) : String :=
  let (r0, s1) := (Gen.py_ComplexSConc_set_concentration trip).exec Gen.py_ComplexSConc_init
  let (g, s2) := Gen.py_ComplexSConc_concentration.exec s1
  let (f, _) := (Gen.py_ComplexSConc_concentrationformat out).exec s2
  (match r0 with | .ok _ => "set ok" | .error e => "set " ++ showErr e) ++
  (match g with | .ok t => " get " ++ showTrip t | .error e => " get " ++ showErr e) ++
  (match f with | .ok t => " fmt ok " ++ showTrip (some t) | .error e => " fmt " ++ showErr e)

def stepUnits (line : String) : Option String :=
  match line.splitOn "\t" with
  | ["pyunits.flint", v] =>
    match parseRat v with
    | none => some "bad-op"
    | some q => some (showNum (Gen.py_flint q))
  | ["pyunits.conv", v, uin, uout] =>
    match parseRat v with
    | none => some "bad-op"
    | some q => some (showNum (Gen.py_convert_units q uin uout))
  | ["pyunits.rate", v, units, new, n] =>
    match parseRat v, n.toNat? with
    | some q, some k =>
      let (r0, s1) := (Gen.py_ReactionS_set_rate_constant (.pair q (some units))).exec (newRx k)
      match r0 with
      | .error e => some ("set " ++ showErr e)
      | .ok _ =>
        let (r, _) := (Gen.py_ReactionS_rateformat new).exec s1
        match r with
        | .ok (c, u) => some ("ok " ++ showRat c ++ "\t" ++ u)
        | .error e => some (showErr e)
    | _, _ => some "bad-op"
  | ["pyunits.rateset", form, v, units, n] =>
    match parseForm form v units, n.toNat? with
    | some a, some k =>
      let (_, s0) := (Gen.py_ReactionS_set_rate_constant (.pair 7 (some "/x"))).exec (newRx k)
      let (r, s1) := (Gen.py_ReactionS_set_rate_constant a).exec s0
      some ((match r with | .ok _ => "set ok " | .error e => "set " ++ showErr e ++ " ") ++ showGet s1)
    | _, _ => some "bad-op"
  | ["pyunits.rateget", n] =>
    match n.toNat? with
    | some k => some (showGet (newRx k))
    | none => some "bad-op"
  | ["pyunits.ratefmt0", new, n] =>
    match n.toNat? with
    | some k =>
      let (r, _) := (Gen.py_ReactionS_rateformat new).exec (newRx k)
      match r with
      | .ok (c, u) => some ("ok " ++ showRat c ++ "\t" ++ u)
      | .error e => some (showErr e)
    | none => some "bad-op"
  | ["pyunits.conc", mode, v, unit, out] =>
    match parseRat v with
    | none => some "bad-op"
    | some q => some (concOps (some (mode, q, unit)) out)
  | ["pyunits.concnone", out] => some (concOps none out)
  | _ => none

end Dsd.DriverUnits
