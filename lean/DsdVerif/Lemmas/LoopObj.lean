/-
Object-level loop decomposition (C08): the cache-free specifications `liSpec` / `edSpec` of the views
`.isConnected`, `.exterior`, `.enclosed` of a complex object, characterised on loci.
-/
import DsdVerif.Props.C03Views
import DsdVerif.Props.C07Loci
import DsdVerif.Lemmas.Breaks
import DsdVerif.Lemmas.Split

namespace Dsd.LoopObj
open Dsd Dsd.Bracket Dsd.C06

/-! ### repeated queries -/

/-- query the views `vs` one after the other (filling caches), keep the object -/
def runQ (o : CplxObj) : List View → CplxObj
  | [] => o
  | v :: vs => runQ (o.query v).1 vs

theorem runQ_coh (o : CplxObj) (vs : List View) (h : C03.Coherent o) :
    C03.Coherent (runQ o vs) ∧ CplxObj.SameRep (runQ o vs) o := by
  induction vs generalizing o with
  | nil => exact ⟨h, CplxObj.SameRep.refl o⟩
  | cons v vs ih =>
    obtain ⟨g1, _, g3⟩ := C03.query_coh o v ((C03.coherent_iff o).1 h)
    obtain ⟨i1, i2⟩ := ih (o.query v).1 ((C03.coherent_iff _).2 g1)
    exact ⟨i1, i2.trans g3⟩

/-- after any number of queries a view answers like the cache-free specification -/
theorem query_runQ (o : CplxObj) (vs : List View) (v : View) (h : C03.Coherent o) :
    ((runQ o vs).query v).2 = C03.qSpec o v := by
  obtain ⟨g1, g2⟩ := runQ_coh o vs h
  rw [(C03.query_coh (runQ o vs) v ((C03.coherent_iff _).1 g1)).2.1]
  exact C03.qSpec_congr g2 v

/-! ### connectivity -/

theorem wf_pos {sst : List Char} {pt : PairTable} {syms : List (List Sym)} {t : List (Option Nat)}
    (hw : C07.WFStruct sst pt) (L : Split.LinF syms pt t) : ∀ k ∈ syms.map List.length, 0 < k := by
  intro k hk
  rw [← L.shape, mpt_shape sst '+' pt hw.ok] at hk
  obtain ⟨s, hs1, hs2⟩ := List.mem_map.mp hk
  have := hw.nonempty s hs1
  rw [← hs2]
  exact List.length_pos_iff.mpr this

theorem linF_len {syms : List (List Sym)} {pt : PairTable} {t : List (Option Nat)} (L : Split.LinF syms pt t) :
    (syms.map List.length).length = pt.length := by
  have := congrArg List.length L.shape; simpa using this.symm

/-- the plain mode fails with `SecondaryStructureError` on a disconnected complex -/
theorem plain_error (sst : List Char) (pt : PairTable) (hw : C07.WFStruct sst pt) (h : ¬ Brk.ConnL pt pt.length) :
    makeLoopIndex pt false = .error .secondaryStructure := by
  obtain ⟨syms, t, L, _⟩ := Split.mpt_linF sst '+' pt hw.ok
  have hnc : ¬ Loop.Connected (syms.map List.length) (P t) := by
    rw [Brk.connected_iff_connL L, linF_len L]; exact h
  rw [L.makeLoopIndex_eq, Loop.error_of_not_connected _ t _ L.hm L.wlen.symm (wf_pos hw L) hnc]

theorem plain_ok (sst : List Char) (pt : PairTable) (hw : C07.WFStruct sst pt) (h : Brk.ConnL pt pt.length) :
    ∃ lo, makeLoopIndex pt false = .ok lo := by
  obtain ⟨syms, t, L, _⟩ := Split.mpt_linF sst '+' pt hw.ok
  exact (Brk.plain_iff_connL L (wf_pos hw L)).mpr h

theorem liSpec_ok (sst : List Char) (pt : PairTable) (hw : C07.WFStruct sst pt) (lo : LoopOut)
    (h : makeLoopIndex pt false = .ok lo) : CplxObj.liSpec sst = .ok (lo.loopIndex, lo.exterior) := by
  unfold CplxObj.liSpec
  rw [hw.ok]
  simp only [CplxObj.liOf, h]

theorem liSpec_error (sst : List Char) (pt : PairTable) (hw : C07.WFStruct sst pt) (h : ¬ Brk.ConnL pt pt.length) :
    CplxObj.liSpec sst = .error .secondaryStructure := by
  unfold CplxObj.liSpec
  rw [hw.ok]
  simp only [CplxObj.liOf, plain_error sst pt hw h]

theorem edSpec_ok (sst : List Char) (pt : PairTable) (hw : C07.WFStruct sst pt) (lo : LoopOut)
    (h : makeLoopIndex pt false = .ok lo) :
    CplxObj.edSpec sst = .ok (CplxObj.extOf pt (lo.loopIndex, lo.exterior)) := by
  unfold CplxObj.edSpec
  rw [hw.ok]
  simp only [CplxObj.liOf, h]

theorem edSpec_error (sst : List Char) (pt : PairTable) (hw : C07.WFStruct sst pt) (h : ¬ Brk.ConnL pt pt.length) :
    CplxObj.edSpec sst = .error .secondaryStructure := by
  unfold CplxObj.edSpec
  rw [hw.ok]
  simp only [CplxObj.liOf, plain_error sst pt hw h]

/-! ### all positions, strand-major -/

def lociFrom {α} (li : List (List α)) (k : Nat) : List Locus :=
  ((li.zipIdx k).map (fun (p : List α × Nat) => p.1.zipIdx.map (fun (q : α × Nat) => (p.2, q.2)))).flatten

theorem row_eq {α} (s : List α) (i : Nat) :
    s.zipIdx.map (fun (q : α × Nat) => ((i, q.2) : Locus)) = (List.range' 0 s.length).map (fun j => (i, j)) := by
  rw [← List.zipIdx_map_snd 0 s, List.map_map]
  rfl

theorem lociFrom_cons {α} (s : List α) (li : List (List α)) (k : Nat) :
    lociFrom (s :: li) k = (List.range' 0 s.length).map (fun j => ((k, j) : Locus)) ++ lociFrom li (k + 1) := by
  unfold lociFrom
  rw [List.zipIdx_cons, List.map_cons, List.flatten_cons, row_eq]

theorem mem_lociFrom {α} (li : List (List α)) : ∀ (k : Nat) (l : Locus),
    l ∈ lociFrom li k ↔ k ≤ l.1 ∧ ∃ s, li[l.1 - k]? = some s ∧ l.2 < s.length := by
  induction li with
  | nil => intro k l; simp [lociFrom]
  | cons s li ih =>
    intro k l
    rw [lociFrom_cons, List.mem_append, ih]
    simp only [List.mem_map, List.mem_range'_1, Nat.zero_add, Nat.zero_le, true_and]
    constructor
    · rintro (⟨j, hj, rfl⟩ | ⟨h1, s', h2, h3⟩)
      · exact ⟨Nat.le_refl _, s, by simp, hj⟩
      · refine ⟨by omega, s', ?_, h3⟩
        have : l.1 - k = (l.1 - (k + 1)) + 1 := by omega
        rw [this, List.getElem?_cons_succ]; exact h2
    · rintro ⟨h1, s', h2, h3⟩
      by_cases e : l.1 = k
      · left
        rw [e, Nat.sub_self, List.getElem?_cons_zero] at h2
        cases h2
        exact ⟨l.2, h3, by rw [← e]⟩
      · right
        refine ⟨by omega, s', ?_, h3⟩
        have : l.1 - k = (l.1 - (k + 1)) + 1 := by omega
        rw [this, List.getElem?_cons_succ] at h2; exact h2

/-- the enumeration is sorted: strand-major, position-minor -/
theorem lociFrom_sorted {α} (li : List (List α)) :
    ∀ k, (lociFrom li k).Pairwise (fun a b => Locus.lt a b = true) := by
  induction li with
  | nil => intro k; simp [lociFrom]
  | cons s li ih =>
    intro k
    rw [lociFrom_cons, List.pairwise_append]
    refine ⟨?_, ih (k + 1), ?_⟩
    · apply List.Pairwise.map (R := (· < ·))
      · intro a b hab; simp [Locus.lt, hab]
      · exact List.pairwise_lt_range'
    · intro a ha b hb
      obtain ⟨j, _, rfl⟩ := List.mem_map.mp ha
      have := ((mem_lociFrom li (k + 1) b).mp hb).1
      simp only [Locus.lt, decide_eq_true_eq, Bool.or_eq_true, Bool.and_eq_true, beq_iff_eq]
      left; omega

theorem mem_lociFrom_zero {α} (li : List (List α)) (l : Locus) :
    l ∈ lociFrom li 0 ↔ ValidL (li.map List.length) l := by
  rw [mem_lociFrom]
  simp only [Nat.zero_le, true_and, Nat.sub_zero, ValidL, List.getElem?_map]
  constructor
  · rintro ⟨s, h1, h2⟩; exact ⟨s.length, by rw [h1]; rfl, h2⟩
  · rintro ⟨n, h1, h2⟩
    cases hs : li[l.1]? with
    | none => rw [hs] at h1; cases h1
    | some s => rw [hs] at h1; cases h1; exact ⟨s, rfl, h2⟩

/-! ### exterior loops on loci -/

/-- the pair `(a, b)` encloses the position `l` -/
def EnclosesPos (a b l : Locus) : Prop := Locus.lt a l = true ∧ Locus.lt l b = true
/-- the pair `(a, b)` encloses the nick after strand `k` (nothing encloses the outer end, the "nick" after the
    last strand) -/
def EnclosesNick (a b : Locus) (k : Nat) : Prop := a.1 ≤ k ∧ k < b.1
/-- position `l` lies in an exterior loop: it is enclosed by exactly the pairs that enclose some nick (or the
    outer end), i.e. it lies in the loop that contains that nick -/
def ExteriorPos (pt : PairTable) (l : Locus) : Prop :=
  ∃ k, k < pt.length ∧ ∀ a b, ptGet pt a = some b → Locus.lt a b = true → (EnclosesPos a b l ↔ EnclosesNick a b k)

section
open Dsd.Loop Dsd.Split

/-- two gaps lie in the same loop iff they are enclosed by the same pairs -/
theorem loopAt_same_iff {W M} (hM : Matching W M) (b1 b2 l1 l2 : Nat) (h1 : LoopAt W M b1 l1) (h2 : LoopAt W M b2 l2) :
    l1 = l2 ↔ ∀ i j, M i = some j → i < j → ((i < b1 ∧ b1 ≤ j) ↔ (i < b2 ∧ b2 ≤ j)) := by
  constructor
  · intro e
    subst e
    intro i j hij hlt
    obtain ⟨s1, s2⟩ := no_straddle hM b1 b2 l1 h1 h2 i j hij hlt
    obtain ⟨s3, s4⟩ := no_straddle hM b2 b1 l1 h2 h1 i j hij hlt
    constructor
    · rintro ⟨c1, c2⟩
      by_cases hb : b1 ≤ b2
      · exact ⟨by omega, Classical.byContradiction fun hn => s1 ⟨c1, c2, by omega⟩⟩
      · exact ⟨Classical.byContradiction fun hn => s4 ⟨by omega, c1, c2⟩, by omega⟩
    · rintro ⟨c1, c2⟩
      by_cases hb : b2 ≤ b1
      · exact ⟨by omega, Classical.byContradiction fun hn => s3 ⟨c1, c2, by omega⟩⟩
      · exact ⟨Classical.byContradiction fun hn => s2 ⟨by omega, c1, c2⟩, by omega⟩
  · intro hall
    have key : ∀ b b' l l', LoopAt W M b l → LoopAt W M b' l' →
        (∀ i j, M i = some j → i < j → ((i < b ∧ b ≤ j) → (i < b' ∧ b' ≤ j))) →
        ∀ j, Encl W M b j → ∃ j', Encl W M b' j' ∧ j ≤ j' := by
      intro b b' l l' _ _ himp j hj
      obtain ⟨hop, ⟨k, hk, c1, c2⟩, _⟩ := hj
      obtain ⟨d1, d2⟩ := himp j k hk (by omega) ⟨c1, c2⟩
      obtain ⟨j', hj'⟩ := encl_exists hM b' j k hk d1 d2
      exact ⟨j', hj', hj'.2.2 j hop ⟨k, hk, d1, d2⟩⟩
    rcases h1 with ⟨j1, e1, rfl⟩ | ⟨n1, rfl⟩
    · obtain ⟨j2, e2, hle⟩ := key b1 b2 _ l2 (Or.inl ⟨j1, e1, rfl⟩) h2 (fun i j a b c => (hall i j a b).mp c) j1 e1
      obtain ⟨j1', e1', hle'⟩ := key b2 b1 l2 _ h2 (Or.inl ⟨j1, e1, rfl⟩) (fun i j a b c => (hall i j a b).mpr c) j2 e2
      have := e1.unique e1'
      subst this
      have : j1 = j2 := by omega
      subst this
      exact LoopAt.unique (Or.inl ⟨j1, e2, rfl⟩) h2
    · rcases h2 with ⟨j2, e2, rfl⟩ | ⟨n2, rfl⟩
      · exfalso
        obtain ⟨j1, e1, _⟩ := key b2 b1 _ 0 (Or.inl ⟨j2, e2, rfl⟩) (Or.inr ⟨n1, rfl⟩)
          (fun i j a b c => (hall i j a b).mpr c) j2 e2
        exact n1 ⟨j1, e1⟩
      · rfl

/-- what the plain mode returns -/
theorem plain_out {syms pt t} (L : LinF syms pt t) (lo : LoopOut) (h : makeLoopIndex pt false = .ok lo) :
    lo.loopIndex = reshape (syms.map List.length) (St t t.length).loopIndex ∧
    lo.exterior = (ends t 0 (syms.map List.length)).map (·.2) := by
  obtain ⟨i1, i2⟩ := scan_false t (syms.map List.length) 0 [] [] (by rw [L.tlen]; omega)
  rw [St_zero, List.drop_zero] at i1 i2
  rw [L.makeLoopIndex_eq] at h
  by_cases hcond : ((ends t 0 (syms.map List.length)).map (·.2)).Nodup ∧
      ∀ x ∈ (ends t 0 (syms.map List.length)).map (·.2), x ∉ ([] : List Nat)
  · rw [i1 hcond] at h
    simp only [List.nil_append, Except.ok.injEq] at h
    subst h
    exact ⟨rfl, rfl⟩
  · rw [i2 hcond] at h
    cases h

theorem mem_exterior (t : List (Option Nat)) (lens : List Nat) (x : Nat) :
    x ∈ (ends t 0 lens).map (·.2) ↔ ∃ k, k < lens.length ∧ x = loopOf t lens (k + 1) := by
  constructor
  · intro hx
    obtain ⟨k, hk⟩ := List.mem_iff_getElem?.mp hx
    have hkl : k < lens.length := by
      have := (List.getElem?_eq_some_iff.mp hk).1
      rw [List.length_map, ends_length] at this
      exact this
    rw [endsCl_get t _ k hkl] at hk
    exact ⟨k, hkl, (Option.some.inj hk).symm⟩
  · rintro ⟨k, hkl, rfl⟩
    exact List.mem_iff_getElem?.mpr ⟨k, endsCl_get t _ k hkl⟩

/-- **the loop of an unpaired position is exterior iff the position is enclosed by the same pairs as some nick** -/
theorem ext_mem_iff {syms pt t} (L : LinF syms pt t) (lo : LoopOut) (h : makeLoopIndex pt false = .ok lo)
    (l : Locus) (hv : ValidL (pt.map List.length) l) (hu : ptGet pt l = none) :
    ∃ x, getL lo.loopIndex l = some x ∧ (x ∈ lo.exterior ↔ ExteriorPos pt l) := by
  obtain ⟨e1, e2⟩ := plain_out L lo h
  have hM := L.hM
  have htl : t.length = syms.flatten.length := by rw [L.tlen, L.wlen]
  rw [L.shape] at hv
  obtain ⟨i, hi, rfl⟩ := valid_eq_toLocus _ l hv
  have hiW : i < syms.flatten.length := by rw [L.wlen]; exact hi
  -- the position is unpaired: a dot
  have hPi : P t i = none := by
    have := L.hpg i
    rw [hu] at this
    cases hp : P t i with
    | none => rfl
    | some j => rw [hp] at this; cases this
  have hdot : syms.flatten[i]? = some .dot := by
    rcases sym_cases _ i hiW with hs | hs | hs
    · obtain ⟨j, _, hj, _⟩ := hM.op i hs; rw [hPi] at hj; cases hj
    · obtain ⟨j, _, hj, _⟩ := hM.cl i hs; rw [hPi] at hj; cases hj
    · exact hs
  have inv := linv_St _ t hM htl syms.flatten.length (Nat.le_refl _)
  have hla : LoopAt syms.flatten (P t) i (St t i).cl := (linv_St _ t hM htl i (by omega)).loopAt
  have hidx := inv.edot i _ hiW hdot hla
  rw [← htl] at hidx
  refine ⟨(St t i).cl, ?_, ?_⟩
  · rw [e1, reshape_get _ _ (by rw [← htl] at inv; rw [inv.len, L.tlen])]
    exact hidx
  rw [e2, mem_exterior, linF_len L]
  have hlenW : syms.flatten.length = (syms.map List.length).sum := L.wlen
  -- per pair: enclosing the position / the nick, on loci and on linear positions
  have conv : ∀ k i' j', P t i' = some j' → i' < j' →
      ((EnclosesPos (toLocus (syms.map List.length) i') (toLocus (syms.map List.length) j')
          (toLocus (syms.map List.length) i) ↔ (i' < i ∧ i ≤ j')) ∧
       (EnclosesNick (toLocus (syms.map List.length) i') (toLocus (syms.map List.length) j') k ↔
          (i' < ((syms.map List.length).take (k + 1)).sum ∧ ((syms.map List.length).take (k + 1)).sum ≤ j'))) := by
    intro k i' j' hij _
    obtain ⟨b1, b2, _, b4⟩ := hM.pair i' j' hij
    have hne : i ≠ j' := by intro e; rw [e, b4] at hPi; cases hPi
    constructor
    · unfold EnclosesPos
      rw [toLocus_lt, toLocus_lt]
      omega
    · unfold EnclosesNick
      have s1 := strand_gt_iff (syms.map List.length) i' k (by omega)
      have s2 := strand_gt_iff (syms.map List.length) j' k (by omega)
      rw [s2]
      constructor
      · rintro ⟨c1, c2⟩
        exact ⟨Classical.byContradiction fun hn => by have := s1.mpr (by omega); omega, c2⟩
      · rintro ⟨c1, c2⟩
        exact ⟨Classical.byContradiction fun hn => by have := s1.mp (by omega); omega, c2⟩
  have per : ∀ k, ((St t i).cl = loopOf t (syms.map List.length) (k + 1) ↔
      ∀ a b, ptGet pt a = some b → Locus.lt a b = true →
        (EnclosesPos a b (toLocus (syms.map List.length) i) ↔ EnclosesNick a b k)) := by
    intro k
    rw [loopAt_same_iff hM i _ _ _ hla (L.loopAt (k + 1))]
    constructor
    · intro hall a b hab hlt
      obtain ⟨i', j', rfl, rfl, hij⟩ := L.pair_of_ptGet a b hab
      rw [toLocus_lt] at hlt
      obtain ⟨c1, c2⟩ := conv k i' j' hij hlt
      rw [c1, c2]
      exact hall i' j' hij hlt
    · intro hall i' j' hij hlt
      obtain ⟨c1, c2⟩ := conv k i' j' hij hlt
      rw [← c1, ← c2]
      apply hall
      · rw [L.hpg i', hij]; rfl
      · rw [toLocus_lt]; exact hlt
  constructor
  · rintro ⟨k, hk, hh⟩; exact ⟨k, hk, (per k).mp hh⟩
  · rintro ⟨k, hk, hh⟩; exact ⟨k, hk, (per k).mpr hh⟩

end

/-- `extOf` with its local definitions named -/
theorem extOf_eq (pt : PairTable) (li : List (List Nat)) (ext : List Nat) :
    CplxObj.extOf pt (li, ext) =
      (((lociFrom li 0).filter (fun l => (ptGet pt l).isNone)).filter (fun l => ext.contains ((getL li l).getD 0)),
       ((lociFrom li 0).filter (fun l => (ptGet pt l).isNone)).filter (fun l => !ext.contains ((getL li l).getD 0))) :=
  rfl

/-- **the exterior / enclosed domains of a connected complex** -/
theorem extOf_spec (sst : List Char) (pt : PairTable) (hw : C07.WFStruct sst pt) (lo : LoopOut)
    (h : makeLoopIndex pt false = .ok lo) :
    (∀ l, l ∈ (CplxObj.extOf pt (lo.loopIndex, lo.exterior)).1 ↔
      ValidL (pt.map List.length) l ∧ ptGet pt l = none ∧ ExteriorPos pt l) ∧
    (∀ l, l ∈ (CplxObj.extOf pt (lo.loopIndex, lo.exterior)).2 ↔
      ValidL (pt.map List.length) l ∧ ptGet pt l = none ∧ ¬ ExteriorPos pt l) ∧
    (∀ l, l ∈ (CplxObj.extOf pt (lo.loopIndex, lo.exterior)).1 ↔
      ValidL (pt.map List.length) l ∧ ptGet pt l = none ∧ ∃ x, getL lo.loopIndex l = some x ∧ x ∈ lo.exterior) ∧
    (CplxObj.extOf pt (lo.loopIndex, lo.exterior)).1.Pairwise (fun a b => Locus.lt a b = true) ∧
    (CplxObj.extOf pt (lo.loopIndex, lo.exterior)).2.Pairwise (fun a b => Locus.lt a b = true) := by
  obtain ⟨syms, t, L, _⟩ := Split.mpt_linF sst '+' pt hw.ok
  obtain ⟨e1, _⟩ := plain_out L lo h
  have hshape : lo.loopIndex.map List.length = pt.map List.length := by
    have inv := Loop.linv_St _ t L.hM (by rw [L.tlen, L.wlen]) syms.flatten.length (Nat.le_refl _)
    rw [e1, reshape_shape _ _ (by rw [← L.wlen, ← inv.len, L.tlen, L.wlen]), L.shape]
  rw [extOf_eq]
  simp only [List.mem_filter, mem_lociFrom_zero, hshape, Option.isNone_iff_eq_none, List.contains_eq_mem,
    decide_eq_true_eq, Bool.not_eq_true', decide_eq_false_iff_not]
  have key : ∀ l, ValidL (pt.map List.length) l → ptGet pt l = none →
      (((getL lo.loopIndex l).getD 0 ∈ lo.exterior ↔ ExteriorPos pt l) ∧
       ((getL lo.loopIndex l).getD 0 ∈ lo.exterior ↔ ∃ x, getL lo.loopIndex l = some x ∧ x ∈ lo.exterior)) := by
    intro l hv hu
    obtain ⟨x, hx, hiff⟩ := ext_mem_iff L lo h l hv hu
    rw [hx]
    simp only [Option.getD_some, Option.some.injEq, exists_eq_left']
    exact ⟨hiff, trivial⟩
  refine ⟨?_, ?_, ?_, ?_, ?_⟩
  · intro l
    constructor
    · rintro ⟨⟨hv, hu⟩, hm⟩; exact ⟨hv, hu, (key l hv hu).1.mp hm⟩
    · rintro ⟨hv, hu, hm⟩; exact ⟨⟨hv, hu⟩, (key l hv hu).1.mpr hm⟩
  · intro l
    constructor
    · rintro ⟨⟨hv, hu⟩, hm⟩; exact ⟨hv, hu, fun he => hm ((key l hv hu).1.mpr he)⟩
    · rintro ⟨hv, hu, hm⟩; exact ⟨⟨hv, hu⟩, fun he => hm ((key l hv hu).1.mp he)⟩
  · intro l
    constructor
    · rintro ⟨⟨hv, hu⟩, hm⟩; exact ⟨hv, hu, (key l hv hu).2.mp hm⟩
    · rintro ⟨hv, hu, hm⟩; exact ⟨⟨hv, hu⟩, (key l hv hu).2.mpr hm⟩
  · exact ((lociFrom_sorted lo.loopIndex 0).filter _).filter _
  · exact ((lociFrom_sorted lo.loopIndex 0).filter _).filter _

/-! ### rotation -/

section
open Dsd.Brk

theorem lt_iff (a b : Locus) : Locus.lt a b = true ↔ a.1 < b.1 ∨ (a.1 = b.1 ∧ a.2 < b.2) := by
  simp [Locus.lt]

theorem rotS_cases (n s : Nat) (hs : s < n) : (s = 0 ∧ rotS n s = n - 1) ∨ (1 ≤ s ∧ rotS n s = s - 1) := by
  cases s with
  | zero => exact Or.inl ⟨rfl, rotS_zero n hs⟩
  | succ s => exact Or.inr ⟨by omega, by rw [rotS_succ n s (by omega)]; rfl⟩

/-- a pair that does not cross the first nick keeps its orientation and what it encloses -/
theorem pair_keep (n : Nat) (a b l : Locus) (k : Nat) (ha : a.1 < n) (hb : b.1 < n) (hl : l.1 < n) (hk : k < n)
    (hab : Locus.lt a b = true) (hnf : ¬ (a.1 = 0 ∧ b.1 ≠ 0)) :
    Locus.lt (rotL1 n a) (rotL1 n b) = true ∧
    (EnclosesPos (rotL1 n a) (rotL1 n b) (rotL1 n l) ↔ EnclosesPos a b l) ∧
    (EnclosesNick (rotL1 n a) (rotL1 n b) (rotS n k) ↔ EnclosesNick a b k) := by
  have cl := rotS_cases n l.1 hl
  have ck := rotS_cases n k hk
  simp only [EnclosesPos, EnclosesNick, lt_iff, rotL1] at hab ⊢
  generalize rotS n l.1 = rl at *
  generalize rotS n k = rk at *
  by_cases ha0 : a.1 = 0
  · have hb0 : b.1 = 0 := by omega
    have ra : rotS n a.1 = n - 1 := by rw [ha0]; exact rotS_zero n (by omega)
    have rb : rotS n b.1 = n - 1 := by rw [hb0]; exact rotS_zero n (by omega)
    rw [ra, rb]
    refine ⟨by omega, ?_, ?_⟩
    · rcases cl with ⟨c1, c2⟩ | ⟨c1, c2⟩ <;> omega
    · rcases ck with ⟨c1, c2⟩ | ⟨c1, c2⟩ <;> omega
  · have hb1 : 1 ≤ b.1 := by omega
    have ra : rotS n a.1 = a.1 - 1 := by
      rcases rotS_cases n a.1 ha with ⟨c1, _⟩ | ⟨_, c2⟩
      · omega
      · exact c2
    have rb : rotS n b.1 = b.1 - 1 := by
      rcases rotS_cases n b.1 hb with ⟨c1, _⟩ | ⟨_, c2⟩
      · omega
      · exact c2
    rw [ra, rb]
    refine ⟨by omega, ?_, ?_⟩
    · rcases cl with ⟨c1, c2⟩ | ⟨c1, c2⟩ <;> omega
    · rcases ck with ⟨c1, c2⟩ | ⟨c1, c2⟩ <;> omega

/-- a pair that crosses the first nick is flipped and encloses the complement -/
theorem pair_flip (n : Nat) (a b l : Locus) (k : Nat) (_ha : a.1 < n) (hb : b.1 < n) (hl : l.1 < n) (hk : k < n)
    (hab : Locus.lt a b = true) (hf : a.1 = 0 ∧ b.1 ≠ 0) (hla : l ≠ a) (hlb : l ≠ b) :
    Locus.lt (rotL1 n b) (rotL1 n a) = true ∧
    (EnclosesPos (rotL1 n b) (rotL1 n a) (rotL1 n l) ↔ ¬ EnclosesPos a b l) ∧
    (EnclosesNick (rotL1 n b) (rotL1 n a) (rotS n k) ↔ ¬ EnclosesNick a b k) := by
  have cl := rotS_cases n l.1 hl
  have ck := rotS_cases n k hk
  have hla' : l.1 ≠ a.1 ∨ l.2 ≠ a.2 := by
    apply Classical.byContradiction; intro hn
    exact hla (Prod.ext (by omega) (by omega))
  have hlb' : l.1 ≠ b.1 ∨ l.2 ≠ b.2 := by
    apply Classical.byContradiction; intro hn
    exact hlb (Prod.ext (by omega) (by omega))
  have ra : rotS n a.1 = n - 1 := by rw [hf.1]; exact rotS_zero n (by omega)
  have rb : rotS n b.1 = b.1 - 1 := by
    rcases rotS_cases n b.1 hb with ⟨c1, _⟩ | ⟨_, c2⟩
    · exact absurd c1 hf.2
    · exact c2
  simp only [EnclosesPos, EnclosesNick, lt_iff, rotL1] at hab ⊢
  generalize rotS n l.1 = rl at *
  generalize rotS n k = rk at *
  rw [ra, rb]
  refine ⟨by omega, ?_, ?_⟩
  · rcases cl with ⟨c1, c2⟩ | ⟨c1, c2⟩ <;> omega
  · rcases ck with ⟨c1, c2⟩ | ⟨c1, c2⟩ <;> omega

theorem iff_of_not_iff_not {p q : Prop} (h : ¬ p ↔ ¬ q) : p ↔ q :=
  ⟨fun hp => Classical.byContradiction fun hq => h.mpr hq hp,
   fun hq => Classical.byContradiction fun hp => h.mp hp hq⟩

theorem lt_total (a b : Locus) (h : a ≠ b) : Locus.lt a b = true ∨ Locus.lt b a = true := by
  have : a.1 ≠ b.1 ∨ a.2 ≠ b.2 := by
    apply Classical.byContradiction; intro hn
    exact h (Prod.ext (by omega) (by omega))
  rw [lt_iff, lt_iff]; omega

/-- **one rotation step**: a position lies in an exterior loop iff its image does -/
theorem exteriorPos_rot1 (pt pt' : PairTable) (n : Nat) (hn : pt.length = n)
    (hshape : pt'.map List.length = (pt.drop 1 ++ pt.take 1).map List.length)
    (hent : ∀ l m, ptGet pt l = some m → m.1 < n)
    (hsym : ∀ a b, ptGet pt a = some b → ptGet pt b = some a)
    (hid : ∀ l, ValidL (pt.map List.length) l → ptGet pt' (rotL1 n l) = (ptGet pt l).map (rotL1 n))
    (l : Locus) (hv : ValidL (pt.map List.length) l) (hu : ptGet pt l = none) :
    ExteriorPos pt' (rotL1 n l) ↔ ExteriorPos pt l := by
  have hn' : pt'.length = n := by
    have := congrArg List.length hshape
    simp only [List.length_map, List.length_append, List.length_drop, List.length_take] at this
    omega
  have hlt : ∀ l m, ptGet pt l = some m → l.1 < n := fun l m h => hn ▸ Split.ptGet_lt pt l m h
  have hl : l.1 < n := by
    obtain ⟨m, hm, _⟩ := hv
    have := (List.getElem?_eq_some_iff.mp hm).1
    simpa [hn] using this
  have hne : ∀ a b, ptGet pt a = some b → l ≠ a := by
    intro a b hab e; rw [e, hab] at hu; cases hu
  have himg : ∀ a b, ptGet pt a = some b → ptGet pt' (rotL1 n a) = some (rotL1 n b) := by
    intro a b hab
    rw [hid a (ptGet_valid pt a b hab), hab]; rfl
  have hback : ∀ l' m', ptGet pt' l' = some m' →
      ∃ l m, l' = rotL1 n l ∧ m' = rotL1 n m ∧ ptGet pt l = some m := by
    intro l' m' h
    have hl' : l'.1 < n := hn' ▸ Split.ptGet_lt pt' l' m' h
    obtain ⟨s, hs, hrs⟩ := rotS_surj n l'.1 hl'
    have e : l' = rotL1 n (s, l'.2) := by
      show l' = (rotS n s, l'.2); rw [hrs]
    have hv' := ptGet_valid pt' l' m' h
    rw [e] at hv' h
    have hv := (rot_valid pt pt' n hn hshape (s, l'.2) hs).mp hv'
    rw [hid _ hv] at h
    cases hm : ptGet pt (s, l'.2) with
    | none => rw [hm] at h; simp at h
    | some m =>
      rw [hm] at h
      simp only [Option.map_some, Option.some.injEq] at h
      exact ⟨(s, l'.2), m, e, h.symm, hm⟩
  constructor
  · rintro ⟨k', hk', H'⟩
    rw [hn'] at hk'
    obtain ⟨k, hk, hrs⟩ := rotS_surj n k' hk'
    refine ⟨k, by omega, ?_⟩
    intro a b hab hltab
    have ha := hlt a b hab
    have hb := hent a b hab
    by_cases hf : a.1 = 0 ∧ b.1 ≠ 0
    · obtain ⟨o1, o2, o3⟩ := pair_flip n a b l k ha hb hl hk hltab hf (hne a b hab) (hne b a (hsym a b hab))
      have := H' _ _ (himg b a (hsym a b hab)) o1
      rw [← hrs, o2, o3] at this
      exact iff_of_not_iff_not this
    · obtain ⟨o1, o2, o3⟩ := pair_keep n a b l k ha hb hl hk hltab hf
      have := H' _ _ (himg a b hab) o1
      rw [← hrs, o2, o3] at this
      exact this
  · rintro ⟨k, hk, H⟩
    rw [hn] at hk
    refine ⟨rotS n k, by rw [hn']; exact rotS_lt n k hk, ?_⟩
    intro a' b' hab' hlt'
    obtain ⟨a, b, rfl, rfl, hab⟩ := hback a' b' hab'
    have ha := hlt a b hab
    have hb := hent a b hab
    have hneab : a ≠ b := by
      intro e; rw [e, Locus.lt_irrefl] at hlt'; cases hlt'
    rcases lt_total a b hneab with hltab | hltba
    · by_cases hf : a.1 = 0 ∧ b.1 ≠ 0
      · obtain ⟨o1, _, _⟩ := pair_flip n a b l k ha hb hl hk hltab hf (hne a b hab) (hne b a (hsym a b hab))
        rw [Locus.lt_asymm _ _ o1] at hlt'; cases hlt'
      · obtain ⟨_, o2, o3⟩ := pair_keep n a b l k ha hb hl hk hltab hf
        rw [o2, o3]
        exact H a b hab hltab
    · by_cases hf : b.1 = 0 ∧ a.1 ≠ 0
      · obtain ⟨_, o2, o3⟩ := pair_flip n b a l k hb ha hl hk hltba hf (hne b a (hsym a b hab)) (hne a b hab)
        rw [o2, o3]
        exact not_congr (H b a (hsym a b hab) hltba)
      · obtain ⟨o1, _, _⟩ := pair_keep n b a l k hb ha hl hk hltba hf
        rw [Locus.lt_asymm _ _ o1] at hlt'; cases hlt'

end

end Dsd.LoopObj
