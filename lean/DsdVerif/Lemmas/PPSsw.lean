/-
Symbolic execution of the regenerated seesaw grammar (Gen/Grammars.lean) on rendered statements.
-/
import DsdVerif.Gen.Grammars
import DsdVerif.Lemmas.PPRunEv

namespace Dsd.PP.Ssw
open Dsd.PP Dsd.Gen

/-- blanks -/
abbrev bl (k : Nat) : List Char := List.replicate k ' '

/-- non-empty digit strings -/
def Dig (s : List Char) : Prop := s ≠ [] ∧ ∀ c ∈ s, c ∈ pp_nums

theorem nums_facts : ∀ c ∈ pp_nums, isWs c = false ∧ c ≠ '#' ∧ c ≠ '\t' ∧ c ≠ '\n' ∧ pp_nums.contains c = true := by
  decide

theorem Dig.cons {s : List Char} (h : Dig s) : ∃ d ds, s = d :: ds ∧ d ∈ pp_nums ∧ ∀ x ∈ ds, x ∈ pp_nums := by
  obtain ⟨h1, h2⟩ := h
  cases s with
  | nil => exact absurd rfl h1
  | cons d ds => exact ⟨d, ds, rfl, h2 d List.mem_cons_self, fun x hx => h2 x (List.mem_cons_of_mem _ hx)⟩

variable {env : Env}

theorem ev_lit0 (c : Char) (s rest : List Char) (h : isWs c = false) (h2 : c ≠ '#') :
    Ev env sk (.lit (c :: s)) (P (c :: s ++ rest)) (some (P rest, [.tok (String.ofList (c :: s))])) 1 := by
  simpa using ev_lit (env := env) 0 c s rest h h2

/-- a number after `k` blanks, followed by a non-digit -/
theorem ev_number (k : Nat) (n : List Char) (hn : Dig n) (c : Char) (r : List Char) (hc : pp_nums.contains c = false) :
    Ev env sk ssw_number (P (bl k ++ (n ++ c :: r))) (some (P (c :: r), [.tok (String.ofList n)])) 1 := by
  obtain ⟨d, ds, rfl, hd, hds⟩ := hn.cons
  obtain ⟨w1, w2, _, _, w5⟩ := nums_facts d hd
  unfold ssw_number
  apply run_word
  · simp only [pre, if_true]
    rw [List.cons_append, skipIgn_blanks_consE k d _ w1 w2]
  · exact w5
  · intro x hx; exact (nums_facts x (hds x hx)).2.2.2.2
  · exact hc

theorem ev_number0 (n : List Char) (hn : Dig n) (c : Char) (r : List Char) (hc : pp_nums.contains c = false) :
    Ev env sk ssw_number (P (n ++ c :: r)) (some (P (c :: r), [.tok (String.ofList n)])) 1 := by
  simpa using ev_number (env := env) 0 n hn c r hc

/-- a number inside `Combine` -/
theorem ev_number_nsk (n : List Char) (hn : Dig n) (c : Char) (r : List Char) (hc : pp_nums.contains c = false) :
    Ev env nsk ssw_number (P (n ++ c :: r)) (some (P (c :: r), [.tok (String.ofList n)])) 1 := by
  obtain ⟨d, ds, rfl, hd, hds⟩ := hn.cons
  obtain ⟨_, _, _, _, w5⟩ := nums_facts d hd
  unfold ssw_number
  apply run_word
  · simp [pre]
  · exact w5
  · intro x hx; exact (nums_facts x (hds x hx)).2.2.2.2
  · exact hc

def wireT (a b : List Char) : Tree := .grp [.tok "w", .grp [.tok (String.ofList a), .tok (String.ofList b)]]

/-- a wire `w[a,␣…b]` after `k` blanks -/
theorem ev_wire (k k3 : Nat) (a b : List Char) (ha : Dig a) (hb : Dig b) (rest : List Char) :
    Ev env sk ssw_wire (P (bl k ++ ('w' :: '[' :: (a ++ ',' :: (bl k3 ++ (b ++ ']' :: rest))))))
      (some (P rest, [wireT a b])) 14 := by
  unfold ssw_wire
  apply Ev.cast
  · apply ev_group; apply ev_seq
    apply evs_cons (ev_lit k 'w' [] _ (by decide) (by decide))
    apply evs_cons (ev_suppress (ev_lit0 '[' [] _ (by decide) (by decide)))
    apply evs_cons
    · apply ev_group; apply ev_seq
      apply evs_cons (ev_number0 a ha ',' _ (by decide))
      apply evs_cons (ev_suppress (ev_lit0 ',' [] _ (by decide) (by decide)))
      apply evs_cons
      · apply ev_alt; apply eva_ok; exact ev_number k3 b hb ']' _ (by decide)
      exact evs_nil
    apply evs_cons (ev_suppress (ev_lit0 ']' [] _ (by decide) (by decide)))
    exact evs_nil
  · rfl
  · decide

/-! ### failing literals at the head of a statement -/

theorem ev_lit_failk (k : Nat) (a c : Char) (s r : List Char) (hws : isWs c = false) (hh : c ≠ '#') (hne : a ≠ c) :
    Ev env sk (.lit (a :: s)) (P (bl k ++ c :: r)) none 0 := by
  apply ev_lit_fail a c s r _ hne
  simp only [pre, if_true]
  exact skipIgn_blanks_consE k c r hws hh

theorem ev_lit_fail0 (a c : Char) (s r : List Char) (hws : isWs c = false) (hh : c ≠ '#') (hne : a ≠ c) :
    Ev env sk (.lit (a :: s)) (P (c :: r)) none 0 := by
  simpa using ev_lit_failk (env := env) 0 a c s r hws hh hne

/-- a sequence that starts with a literal fails when the text starts with another character -/
theorem fail_head (a c : Char) (s : List Char) (gs : List G) (r : List Char) (hws : isWs c = false) (hh : c ≠ '#')
    (hne : a ≠ c) : Ev env sk (.seq (.lit (a :: s) :: gs)) (P (c :: r)) none 2 :=
  (ev_seq (evs_fail_head (ev_lit_fail0 a c s r hws hh hne))).cast rfl (by decide)

/-- … and after the end of the input -/
theorem fail_past (s : List Char) (gs : List G) : Ev env sk (.seq (.lit s :: gs)) Pend none 2 :=
  (ev_seq (evs_fail_head (ev_lit_fail_past s (by rfl)))).cast rfl (by decide)

/-! ### the statement / document frame -/

def bodyAlts : List G := [ssw_inp, ssw_out, ssw_seesaw, ssw_wireconc, ssw_outpconc, ssw_thshconc, ssw_macros]
theorem ssw_stmt_eq : ssw_stmt = .seq [.group (.alt bodyAlts), .many1 (.suppress .lineEnd)] := rfl

theorem body_fail_past : Ev env sk (.alt bodyAlts) Pend none 15 := by
  unfold bodyAlts ssw_inp ssw_out ssw_seesaw ssw_wireconc ssw_outpconc ssw_thshconc ssw_macros
    ssw_reporter ssw_inputfanout ssw_seesawOR ssw_seesawAND
  apply Ev.cast
  · apply ev_alt
    apply eva_skip (fail_past _ _)
    apply eva_skip (fail_past _ _)
    apply eva_skip (fail_past _ _)
    apply eva_skip (fail_past _ _)
    apply eva_skip (fail_past _ _)
    apply eva_skip (fail_past _ _)
    apply eva_skip
    · apply ev_alt
      apply eva_skip (fail_past _ _)
      apply eva_skip (fail_past _ _)
      apply eva_skip (fail_past _ _)
      apply eva_skip (fail_past _ _)
      exact eva_nil
    exact eva_nil
  · rfl
  · decide

/-- a document consisting of one statement: the statement alternatives consume everything but the final line feed -/
theorem doc_ok (c : Char) (r : List Char) (hws : isWs c = false) (hh : c ≠ '#') (hnl : c ≠ '\n')
    (t : List Tree) (b : Nat) (h : Ev env sk (.alt bodyAlts) (P (c :: r)) (some (P ['\n'], t)) b) :
    Ev env sk ssw_document (P (c :: r)) (some (Pend, [.grp t])) (b + 40) := by
  have hpre : (pre sk (P (c :: r))).rest = c :: r := by
    simp only [pre, if_true]; exact skipIgn_cons_of c r hws hh
  have hstmt : Ev env sk ssw_stmt (P (c :: r)) (some (Pend, [.grp t])) (max (b + 1) 5 + 1 + 1 + 1) := by
    rw [ssw_stmt_eq]
    refine (ev_seq (evs_cons (ev_group h) (evs_cons ev_lineEnds_final evs_nil))).cast rfl ?_
    omega
  have hstop : Ev env sk ssw_stmt Pend none 18 := by
    rw [ssw_stmt_eq]
    exact (ev_seq (evs_fail_head (ev_group_fail body_fail_past))).cast rfl (by decide)
  unfold ssw_document
  apply Ev.cast
  · apply ev_seq
    apply evs_cons ev_stringStart
    apply evs_cons (ev_many (evm_stop (ev_suppress_fail (ev_lineEnd_fail c r hpre hnl))))
    apply evs_cons (ev_many1 hstmt (evm_stop hstop))
    apply evs_cons ev_stringEnd_end
    exact evs_nil
  · rfl
  · omega

/-- … and the document is rejected when every statement alternative fails -/
theorem doc_fail (c : Char) (r : List Char) (hws : isWs c = false) (hh : c ≠ '#') (hnl : c ≠ '\n')
    (b : Nat) (h : Ev env sk (.alt bodyAlts) (P (c :: r)) none b) :
    Ev env sk ssw_document (P (c :: r)) none (b + 40) := by
  have hpre : (pre sk (P (c :: r))).rest = c :: r := by
    simp only [pre, if_true]; exact skipIgn_cons_of c r hws hh
  have hstmt : Ev env sk ssw_stmt (P (c :: r)) none (b + 3) := by
    rw [ssw_stmt_eq]
    exact (ev_seq (evs_fail_head (ev_group_fail h))).cast rfl (by omega)
  unfold ssw_document
  apply Ev.cast
  · apply ev_seq
    apply evs_fail_tail ev_stringStart
    apply evs_fail_tail (ev_many (evm_stop (ev_suppress_fail (ev_lineEnd_fail c r hpre hnl))))
    exact evs_fail_head (ev_many1_fail hstmt)
  · rfl
  · omega

/-! ### from `Ev` to `parseDoc` -/

theorem expandTabs_notab (cs : List Char) (h : '\t' ∉ cs) (col : Nat) : expandTabs cs col = cs := by
  induction cs generalizing col with
  | nil => rfl
  | cons c cs ih =>
    have hc : c ≠ '\t' := fun e => h (by rw [e]; exact List.mem_cons_self)
    have hcs : '\t' ∉ cs := fun e => h (List.mem_cons_of_mem _ e)
    simp [expandTabs, ih hcs]

theorem parseDoc_of_ev (g : G) (text : List Char) (o : Option (Pos × List Tree)) (b : Nat) (hnt : '\t' ∉ text)
    (h : Ev env sk g (P text) o b) (hb : b ≤ 4 * text.length + 200) :
    parseDoc env g (String.ofList text) = o.map (·.2) := by
  unfold parseDoc
  simp only [String.toList_ofList, expandTabs_notab text hnt 0]
  have := h (4 * text.length + 200) hb
  rw [show ({} : Ctx) = sk from rfl, show ({ rest := text } : Pos) = P text from rfl, this]
  cases o <;> rfl

/-! ### statements -/

/-- fail at the first character -/
macro "fh" : tactic => `(tactic| exact fail_head _ _ _ _ _ (by decide) (by decide) (by decide))

abbrev numT (n : List Char) : Tree := .tok (String.ofList n)

theorem macros_fail_head (c : Char) (r : List Char) (hws : isWs c = false) (hh : c ≠ '#')
    (h1 : 'r' ≠ c) (h2 : 'i' ≠ c) (h3 : 's' ≠ c) : Ev env sk ssw_macros (P (c :: r)) none 8 := by
  unfold ssw_macros
  apply Ev.cast
  · apply ev_alt
    apply eva_skip (g := ssw_reporter) (fail_head 'r' c _ _ r hws hh h1)
    apply eva_skip (g := ssw_inputfanout) (fail_head 'i' c _ _ r hws hh h2)
    apply eva_skip (g := ssw_seesawOR) (fail_head 's' c _ _ r hws hh h3)
    apply eva_skip (g := ssw_seesawAND) (fail_head 's' c _ _ r hws hh h3)
    exact eva_nil
  · rfl
  · decide

theorem inp_ev (n a b : List Char) (hn : Dig n) (ha : Dig a) (hb : Dig b) (k1 k2 k3 : Nat) :
    Ev env sk (.alt bodyAlts)
      (P ('I' :: 'N' :: 'P' :: 'U' :: 'T' :: '(' :: (n ++ ')' :: (bl k1 ++ '=' :: (bl k2 ++
        ('w' :: '[' :: (a ++ ',' :: (bl k3 ++ (b ++ [']', '\n'])))))))))
      (some (P ['\n'], [.tok "INPUT", .grp [numT n], wireT a b])) 30 := by
  unfold bodyAlts
  apply Ev.cast
  · apply ev_alt; apply eva_ok
    unfold ssw_inp
    apply ev_seq
    apply evs_cons (ev_lit0 'I' ['N', 'P', 'U', 'T'] _ (by decide) (by decide))
    apply evs_cons (ev_suppress (ev_lit0 '(' [] _ (by decide) (by decide)))
    apply evs_cons (ev_group (ev_alt (eva_ok (ev_number0 n hn ')' _ (by decide)))))
    apply evs_cons (ev_suppress (ev_lit0 ')' [] _ (by decide) (by decide)))
    apply evs_cons (ev_suppress (ev_lit k1 '=' [] _ (by decide) (by decide)))
    apply evs_cons (ev_wire k2 k3 a b ha hb _)
    exact evs_nil
  · rfl
  · decide

theorem ev_fluor (k : Nat) (f : List Char) (hf : Dig f) (rest : List Char) :
    Ev env sk ssw_fluor (P (bl k ++ ('F' :: 'l' :: 'u' :: 'o' :: 'r' :: '[' :: (f ++ ']' :: rest))))
      (some (P rest, [.grp [.tok "Fluor", numT f]])) 10 := by
  unfold ssw_fluor
  apply Ev.cast
  · apply ev_group; apply ev_seq
    apply evs_cons (ev_lit k 'F' ['l', 'u', 'o', 'r'] _ (by decide) (by decide))
    apply evs_cons (ev_suppress (ev_lit0 '[' [] _ (by decide) (by decide)))
    apply evs_cons (ev_number0 f hf ']' _ (by decide))
    apply evs_cons (ev_suppress (ev_lit0 ']' [] _ (by decide) (by decide)))
    exact evs_nil
  · rfl
  · decide

theorem out_fluor_ev (n f : List Char) (hn : Dig n) (hf : Dig f) (k1 k2 : Nat) :
    Ev env sk (.alt bodyAlts)
      (P ('O' :: 'U' :: 'T' :: 'P' :: 'U' :: 'T' :: '(' :: (n ++ ')' :: (bl k1 ++ '=' :: (bl k2 ++
        ('F' :: 'l' :: 'u' :: 'o' :: 'r' :: '[' :: (f ++ [']', '\n'])))))))
      (some (P ['\n'], [.tok "OUTPUT", .grp [numT n], .grp [.tok "Fluor", numT f]])) 30 := by
  unfold bodyAlts
  apply Ev.cast
  · apply ev_alt
    apply eva_skip (g := ssw_inp) (by fh)
    apply eva_ok
    unfold ssw_out
    apply ev_seq
    apply evs_cons (ev_lit0 'O' ['U', 'T', 'P', 'U', 'T'] _ (by decide) (by decide))
    apply evs_cons (ev_suppress (ev_lit0 '(' [] _ (by decide) (by decide)))
    apply evs_cons (ev_group (ev_alt (eva_ok (ev_number0 n hn ')' _ (by decide)))))
    apply evs_cons (ev_suppress (ev_lit0 ')' [] _ (by decide) (by decide)))
    apply evs_cons (ev_suppress (ev_lit k1 '=' [] _ (by decide) (by decide)))
    apply evs_cons (ev_alt (eva_ok (ev_fluor k2 f hf _)))
    exact evs_nil
  · rfl
  · decide

/-- an INPUT bound to a fluorophore: every alternative fails -/
theorem inp_fluor_fail (n : List Char) (hn : Dig n) (k1 k2 : Nat) (r : List Char) :
    Ev env sk (.alt bodyAlts)
      (P ('I' :: 'N' :: 'P' :: 'U' :: 'T' :: '(' :: (n ++ ')' :: (bl k1 ++ '=' :: (bl k2 ++ 'F' :: r)))))
      none 30 := by
  unfold bodyAlts
  apply Ev.cast
  · apply ev_alt
    apply eva_skip
    · unfold ssw_inp
      apply ev_seq
      apply evs_fail_tail (ev_lit0 'I' ['N', 'P', 'U', 'T'] _ (by decide) (by decide))
      apply evs_fail_tail (ev_suppress (ev_lit0 '(' [] _ (by decide) (by decide)))
      apply evs_fail_tail (ev_group (ev_alt (eva_ok (ev_number0 n hn ')' _ (by decide)))))
      apply evs_fail_tail (ev_suppress (ev_lit0 ')' [] _ (by decide) (by decide)))
      apply evs_fail_tail (ev_suppress (ev_lit k1 '=' [] _ (by decide) (by decide)))
      apply evs_fail_head
      unfold ssw_wire
      exact ev_group_fail (ev_seq (evs_fail_head (ev_lit_failk k2 'w' 'F' [] r (by decide) (by decide) (by decide))))
    apply eva_skip (g := ssw_out) (by fh)
    apply eva_skip (g := ssw_seesaw) (by fh)
    apply eva_skip (g := ssw_wireconc) (by fh)
    apply eva_skip (g := ssw_outpconc) (by fh)
    apply eva_skip (g := ssw_thshconc) (by fh)
    apply eva_skip (macros_fail_head 'I' _ (by decide) (by decide) (by decide) (by decide) (by decide))
    exact eva_nil
  · rfl
  · decide

theorem reporter_ev (a b : List Char) (ha : Dig a) (hb : Dig b) (k : Nat) :
    Ev env sk (.alt bodyAlts)
      (P ('r' :: 'e' :: 'p' :: 'o' :: 'r' :: 't' :: 'e' :: 'r' :: '[' :: (a ++ ',' :: (bl k ++ (b ++ [']', '\n'])))))
      (some (P ['\n'], [.tok "reporter", .grp [numT a, numT b]])) 30 := by
  unfold bodyAlts
  apply Ev.cast
  · apply ev_alt
    apply eva_skip (g := ssw_inp) (by fh)
    apply eva_skip (g := ssw_out) (by fh)
    apply eva_skip (g := ssw_seesaw) (by fh)
    apply eva_skip (g := ssw_wireconc) (by fh)
    apply eva_skip (g := ssw_outpconc) (by fh)
    apply eva_skip (g := ssw_thshconc) (by fh)
    apply eva_ok
    unfold ssw_macros
    apply ev_alt; apply eva_ok
    unfold ssw_reporter
    apply ev_seq
    apply evs_cons (ev_lit0 'r' ['e', 'p', 'o', 'r', 't', 'e', 'r'] _ (by decide) (by decide))
    apply evs_cons (ev_suppress (ev_lit0 '[' [] _ (by decide) (by decide)))
    apply evs_cons
    · apply ev_group; apply ev_seq
      apply evs_cons (ev_number0 a ha ',' _ (by decide))
      apply evs_cons (ev_suppress (ev_lit0 ',' [] _ (by decide) (by decide)))
      apply evs_cons (ev_number k b hb ']' _ (by decide))
      exact evs_nil
    apply evs_cons (ev_suppress (ev_lit0 ']' [] _ (by decide) (by decide)))
    exact evs_nil
  · rfl
  · decide

/-- a reporter with a single argument: every alternative fails -/
theorem reporter_arity_fail (a : List Char) (ha : Dig a) (r : List Char) :
    Ev env sk (.alt bodyAlts)
      (P ('r' :: 'e' :: 'p' :: 'o' :: 'r' :: 't' :: 'e' :: 'r' :: '[' :: (a ++ ']' :: r))) none 30 := by
  unfold bodyAlts
  apply Ev.cast
  · apply ev_alt
    apply eva_skip (g := ssw_inp) (by fh)
    apply eva_skip (g := ssw_out) (by fh)
    apply eva_skip (g := ssw_seesaw) (by fh)
    apply eva_skip (g := ssw_wireconc) (by fh)
    apply eva_skip (g := ssw_outpconc) (by fh)
    apply eva_skip (g := ssw_thshconc) (by fh)
    apply eva_skip
    · unfold ssw_macros
      apply ev_alt
      apply eva_skip
      · unfold ssw_reporter
        apply ev_seq
        apply evs_fail_tail (ev_lit0 'r' ['e', 'p', 'o', 'r', 't', 'e', 'r'] _ (by decide) (by decide))
        apply evs_fail_tail (ev_suppress (ev_lit0 '[' [] _ (by decide) (by decide)))
        apply evs_fail_head
        apply ev_group_fail; apply ev_seq
        apply evs_fail_tail (ev_number0 a ha ']' _ (by decide))
        exact evs_fail_head (ev_suppress_fail (ev_lit_fail0 ',' ']' [] r (by decide) (by decide) (by decide)))
      apply eva_skip (g := ssw_inputfanout) (by fh)
      apply eva_skip (g := ssw_seesawOR) (by fh)
      apply eva_skip (g := ssw_seesawAND) (by fh)
      exact eva_nil
    exact eva_nil
  · rfl
  · decide

/-! ### brace lists of any length -/

/-- `, y1, y2 …` -/
def tailR : List (List Char) → List Char
  | [] => []
  | y :: ys => ',' :: ' ' :: (y ++ tailR ys)

theorem tailR_head (ys : List (List Char)) (c : Char) (r : List Char) (hc : pp_nums.contains c = false) :
    ∃ c' r', tailR ys ++ c :: r = c' :: r' ∧ pp_nums.contains c' = false := by
  cases ys with
  | nil => exact ⟨c, r, rfl, hc⟩
  | cons y ys => exact ⟨',', _, rfl, by decide⟩

theorem length_le_tailR (ys : List (List Char)) : ys.length ≤ (tailR ys).length := by
  induction ys with
  | nil => simp [tailR]
  | cons y ys ih => simp only [tailR, List.length_cons, List.length_append]; omega

/-- the element parser: a digit string after blanks, followed by a non-digit -/
def Elem (env : Env) (x : G) (bx : Nat) : Prop :=
  ∀ (k : Nat) (n : List Char) (c : Char) (r : List Char), Dig n → pp_nums.contains c = false →
    Ev env sk x (P (bl k ++ (n ++ c :: r))) (some (P (c :: r), [numT n])) bx

theorem elem_number : Elem env ssw_number 1 := fun k n c r hn hc => ev_number k n hn c r hc

theorem elem_number_or_f : Elem env (.alt [ssw_number, .lit ['f']]) 3 :=
  fun k n c r hn hc => ev_alt (eva_ok (ev_number k n hn c r hc))

theorem many_list (x : G) (bx : Nat) (hx : Elem env x bx) (ys : List (List Char)) (hys : ∀ y ∈ ys, Dig y)
    (c : Char) (r : List Char) (hc : pp_nums.contains c = false) (hws : isWs c = false) (hh : c ≠ '#')
    (hcomma : ',' ≠ c) :
    EvMany env sk (.seq [.suppress (.lit [',']), x]) (P (tailR ys ++ c :: r))
      (some (P (c :: r), ys.map numT)) (ys.length + bx + 6) := by
  induction ys with
  | nil =>
    refine (evm_stop (ev_seq (evs_fail_head (ev_suppress_fail (ev_lit_fail0 ',' c [] r hws hh hcomma))))).cast rfl ?_
    omega
  | cons y ys ih =>
    have hy : Dig y := hys y List.mem_cons_self
    have ih' := ih (fun z hz => hys z (List.mem_cons_of_mem _ hz))
    obtain ⟨c', r', heq, hc'⟩ := tailR_head ys c r hc
    have hnum := hx 1 y c' r' hy hc'
    rw [← heq] at hnum
    have hstep : Ev env sk (.seq [.suppress (.lit [',']), x]) (P (',' :: ' ' :: (y ++ (tailR ys ++ c :: r))))
        (some (P (tailR ys ++ c :: r), [numT y])) (bx + 5) := by
      refine (ev_seq (evs_cons (ev_suppress (ev_lit0 ',' [] _ (by decide) (by decide)))
        (evs_cons hnum evs_nil))).cast rfl ?_
      omega
    have hne : P (tailR ys ++ c :: r) ≠ P (',' :: ' ' :: (y ++ (tailR ys ++ c :: r))) := by
      intro h
      have := congrArg (fun p : Pos => p.rest.length) h
      simp at this
      omega
    have hgoal : tailR (y :: ys) ++ c :: r = ',' :: ' ' :: (y ++ (tailR ys ++ c :: r)) := by
      simp [tailR]
    rw [hgoal]
    refine (evm_step hstep hne ih').cast rfl ?_
    simp only [List.length_cons]
    omega

/-- `{x0, x1, …}` after `k` blanks -/
theorem ev_braces (x : G) (bx : Nat) (hx : Elem env x bx) (k : Nat) (x0 : List Char) (xs : List (List Char))
    (h0 : Dig x0) (hxs : ∀ y ∈ xs, Dig y) (rest : List Char) :
    Ev env sk (.group (.seq [.suppress (.lit ['{']), .seq [x, .many (.seq [.suppress (.lit [',']), x])],
        .suppress (.lit ['}'])]))
      (P (bl k ++ '{' :: (x0 ++ (tailR xs ++ '}' :: rest))))
      (some (P rest, [.grp ((x0 :: xs).map numT)])) (xs.length + bx + 14) := by
  obtain ⟨c', r', heq, hc'⟩ := tailR_head xs '}' rest (by decide)
  have hnum : Ev env sk x (P (x0 ++ c' :: r')) (some (P (c' :: r'), [numT x0])) bx := by
    simpa using hx 0 x0 c' r' h0 hc'
  rw [← heq] at hnum
  have hmany := many_list x bx hx xs hxs '}' rest (by decide) (by decide) (by decide) (by decide)
  apply Ev.cast
  · apply ev_group; apply ev_seq
    apply evs_cons (ev_suppress (ev_lit k '{' [] _ (by decide) (by decide)))
    apply evs_cons (ev_seq (evs_cons hnum (evs_cons (ev_many hmany) evs_nil)))
    apply evs_cons (ev_suppress (ev_lit0 '}' [] _ (by decide) (by decide)))
    exact evs_nil
  · simp
  · omega

theorem ssw_inputs_eq : ssw_inputs = .group (.seq [.suppress (.lit ['{']),
    .seq [ssw_number, .many (.seq [.suppress (.lit [',']), ssw_number])], .suppress (.lit ['}'])]) := rfl
theorem ssw_outputs_eq : ssw_outputs = .group (.seq [.suppress (.lit ['{']),
    .seq [.alt [ssw_number, .lit ['f']], .many (.seq [.suppress (.lit [',']), .alt [ssw_number, .lit ['f']]])],
    .suppress (.lit ['}'])]) := rfl

theorem ev_inputs (k : Nat) (x0 : List Char) (xs : List (List Char)) (h0 : Dig x0) (hxs : ∀ y ∈ xs, Dig y)
    (rest : List Char) :
    Ev env sk ssw_inputs (P (bl k ++ '{' :: (x0 ++ (tailR xs ++ '}' :: rest))))
      (some (P rest, [.grp ((x0 :: xs).map numT)])) (xs.length + 15) := by
  rw [ssw_inputs_eq]
  exact ev_braces ssw_number 1 elem_number k x0 xs h0 hxs rest

theorem ev_outputs (k : Nat) (x0 : List Char) (xs : List (List Char)) (h0 : Dig x0) (hxs : ∀ y ∈ xs, Dig y)
    (rest : List Char) :
    Ev env sk ssw_outputs (P (bl k ++ '{' :: (x0 ++ (tailR xs ++ '}' :: rest))))
      (some (P rest, [.grp ((x0 :: xs).map numT)])) (xs.length + 17) := by
  rw [ssw_outputs_eq]
  exact ev_braces _ 3 elem_number_or_f k x0 xs h0 hxs rest

theorem inputfanout_ev (a b x0 : List Char) (xs : List (List Char)) (ha : Dig a) (hb : Dig b) (h0 : Dig x0)
    (hxs : ∀ y ∈ xs, Dig y) (k1 k2 : Nat) :
    Ev env sk (.alt bodyAlts)
      (P ('i' :: 'n' :: 'p' :: 'u' :: 't' :: 'f' :: 'a' :: 'n' :: 'o' :: 'u' :: 't' :: '[' ::
        (a ++ ',' :: (bl k1 ++ (b ++ ',' :: (bl k2 ++ '{' :: (x0 ++ (tailR xs ++ ['}', ']', '\n']))))))))
      (some (P ['\n'], [.tok "inputfanout", .grp [numT a, numT b, .grp ((x0 :: xs).map numT)]]))
      (xs.length + 40) := by
  unfold bodyAlts
  apply Ev.cast
  · apply ev_alt
    apply eva_skip (g := ssw_inp) (by fh)
    apply eva_skip (g := ssw_out) (by fh)
    apply eva_skip (g := ssw_seesaw) (by fh)
    apply eva_skip (g := ssw_wireconc) (by fh)
    apply eva_skip (g := ssw_outpconc) (by fh)
    apply eva_skip (g := ssw_thshconc) (by fh)
    apply eva_ok
    unfold ssw_macros
    apply ev_alt
    apply eva_skip (g := ssw_reporter) (by fh)
    apply eva_ok
    unfold ssw_inputfanout
    apply ev_seq
    apply evs_cons (ev_lit0 'i' ['n', 'p', 'u', 't', 'f', 'a', 'n', 'o', 'u', 't'] _ (by decide) (by decide))
    apply evs_cons (ev_suppress (ev_lit0 '[' [] _ (by decide) (by decide)))
    apply evs_cons
    · apply ev_group; apply ev_seq
      apply evs_cons (ev_number0 a ha ',' _ (by decide))
      apply evs_cons (ev_suppress (ev_lit0 ',' [] _ (by decide) (by decide)))
      apply evs_cons (ev_number k1 b hb ',' _ (by decide))
      apply evs_cons (ev_suppress (ev_lit0 ',' [] _ (by decide) (by decide)))
      apply evs_cons (ev_inputs k2 x0 xs h0 hxs _)
      exact evs_nil
    apply evs_cons (ev_suppress (ev_lit0 ']' [] _ (by decide) (by decide)))
    exact evs_nil
  · rfl
  · omega

theorem seesaw_ev (n i0 o0 : List Char) (is os : List (List Char)) (hn : Dig n) (hi0 : Dig i0) (ho0 : Dig o0)
    (his : ∀ y ∈ is, Dig y) (hos : ∀ y ∈ os, Dig y) (k1 k2 : Nat) :
    Ev env sk (.alt bodyAlts)
      (P ('s' :: 'e' :: 'e' :: 's' :: 'a' :: 'w' :: '[' ::
        (n ++ ',' :: (bl k1 ++ '{' :: (i0 ++ (tailR is ++ '}' :: ',' :: (bl k2 ++ '{' :: (o0 ++ (tailR os ++
          ['}', ']', '\n'])))))))))
      (some (P ['\n'], [.tok "seesaw", .grp [numT n, .grp ((i0 :: is).map numT), .grp ((o0 :: os).map numT)]]))
      (is.length + os.length + 40) := by
  unfold bodyAlts
  apply Ev.cast
  · apply ev_alt
    apply eva_skip (g := ssw_inp) (by fh)
    apply eva_skip (g := ssw_out) (by fh)
    apply eva_ok
    unfold ssw_seesaw
    apply ev_seq
    apply evs_cons (ev_lit0 's' ['e', 'e', 's', 'a', 'w'] _ (by decide) (by decide))
    apply evs_cons (ev_suppress (ev_lit0 '[' [] _ (by decide) (by decide)))
    apply evs_cons
    · apply ev_group; apply ev_seq
      apply evs_cons (ev_number0 n hn ',' _ (by decide))
      apply evs_cons (ev_suppress (ev_lit0 ',' [] _ (by decide) (by decide)))
      apply evs_cons (ev_inputs k1 i0 is hi0 his _)
      apply evs_cons (ev_suppress (ev_lit0 ',' [] _ (by decide) (by decide)))
      apply evs_cons (ev_outputs k2 o0 os ho0 hos _)
      exact evs_nil
    apply evs_cons (ev_suppress (ev_lit0 ']' [] _ (by decide) (by decide)))
    exact evs_nil
  · rfl
  · omega

/-! ### concentrations -/

theorem pre_blanks_dig (k : Nat) (v : List Char) (hv : Dig v) (rest : List Char) :
    pre sk (P (bl k ++ (v ++ rest))) = P (v ++ rest) := by
  obtain ⟨d, ds, rfl, hd, _⟩ := hv.cons
  obtain ⟨w1, w2, _⟩ := nums_facts d hd
  simp only [pre, if_true]
  rw [List.cons_append, skipIgn_blanks_consE k d _ w1 w2]

theorem pre_nsk (p : Pos) : pre nsk p = p := by simp [pre]

/-- `gorf` on a plain digit string: the scientific alternative fails at `e`, the float alternative takes the digits -/
theorem ev_gorf (k : Nat) (v : List Char) (hv : Dig v) (c : Char) (r : List Char) (hc : pp_nums.contains c = false)
    (hdot : '.' ≠ c) (he : 'e' ≠ c) :
    Ev env sk ssw_gorf (P (bl k ++ (v ++ c :: r))) (some (P (c :: r), [numT v])) 12 := by
  have hnum := ev_number_nsk (env := env) v hv c r hc
  have hopt : Ev env nsk (.opt (.seq [.lit ['.'], ssw_number])) (P (c :: r)) (some (P (c :: r), [])) 3 :=
    (ev_opt_none (ev_seq (evs_fail_head (ev_lit_fail '.' c [] r (by rw [pre_nsk]) hdot)))).cast rfl (by decide)
  have hsci : Ev env sk ssw_num_sci (P (bl k ++ (v ++ c :: r))) none 8 := by
    unfold ssw_num_sci
    apply Ev.cast
    · apply ev_combine_fail
      rw [pre_blanks_dig k v hv]
      apply ev_seq
      apply evs_fail_tail hnum
      apply evs_fail_tail hopt
      exact evs_fail_head (ev_lit_fail 'e' c [] r (by rw [pre_nsk]) he)
    · rfl
    · decide
  have hflt : Ev env sk ssw_num_flt (P (bl k ++ (v ++ c :: r))) (some (P (c :: r), [numT v])) 8 := by
    unfold ssw_num_flt
    have hin : Ev env nsk (.seq [ssw_number, .opt (.seq [.lit ['.'], ssw_number])]) (P (v ++ c :: r))
        (some (P (c :: r), [numT v])) 7 :=
      (ev_seq (evs_cons hnum (evs_cons hopt evs_nil))).cast rfl (by decide)
    have hc := ev_combine_single (env := env) (ctx := sk) (p := P (bl k ++ (v ++ c :: r)))
      (by rw [pre_blanks_dig k v hv]; exact hin)
    exact hc.cast rfl (by decide)
  unfold ssw_gorf
  exact (ev_alt (eva_skip hsci (eva_ok hflt))).cast rfl (by decide)

/-- `gorf` fails on a sign -/
theorem ev_gorf_fail (k : Nat) (r : List Char) : Ev env sk ssw_gorf (P (bl k ++ '-' :: r)) none 8 := by
  have hpre : pre sk (P (bl k ++ '-' :: r)) = P ('-' :: r) := by
    simp only [pre, if_true]; rw [skipIgn_blanks_consE k '-' r (by decide) (by decide)]
  have hnum : Ev env nsk ssw_number (P ('-' :: r)) none 0 := by
    unfold ssw_number
    exact ev_word_fail _ _ '-' r (by rw [pre_nsk]) (by decide)
  have hsci : Ev env sk ssw_num_sci (P (bl k ++ '-' :: r)) none 3 := by
    unfold ssw_num_sci
    apply Ev.cast
    · apply ev_combine_fail
      rw [hpre]
      exact ev_seq (evs_fail_head hnum)
    · rfl
    · decide
  have hflt : Ev env sk ssw_num_flt (P (bl k ++ '-' :: r)) none 3 := by
    unfold ssw_num_flt
    apply Ev.cast
    · apply ev_combine_fail
      rw [hpre]
      exact ev_seq (evs_fail_head hnum)
    · rfl
    · decide
  unfold ssw_gorf
  exact (ev_alt (eva_skip hsci (eva_skip hflt eva_nil))).cast rfl (by decide)

theorem ev_conc (k : Nat) (v : List Char) (hv : Dig v) (rest : List Char) :
    Ev env sk ssw_conc (P (bl k ++ (v ++ '*' :: 'c' :: rest))) (some (P rest, [numT v])) 18 := by
  unfold ssw_conc
  apply Ev.cast
  · apply ev_seq
    apply evs_cons (ev_gorf k v hv '*' _ (by decide) (by decide) (by decide))
    apply evs_cons
    · apply ev_suppress; apply ev_seq
      apply evs_cons (ev_lit0 '*' [] _ (by decide) (by decide))
      apply evs_cons (ev_lit0 'c' [] _ (by decide) (by decide))
      exact evs_nil
    exact evs_nil
  · rfl
  · decide

theorem wireconc_ev (a b v : List Char) (ha : Dig a) (hb : Dig b) (hv : Dig v) (k3 k : Nat) :
    Ev env sk (.alt bodyAlts)
      (P ('c' :: 'o' :: 'n' :: 'c' :: '[' :: 'w' :: '[' :: (a ++ ',' :: (bl k3 ++ (b ++ ']' :: ',' ::
        (bl k ++ (v ++ ['*', 'c', ']', '\n'])))))))
      (some (P ['\n'], [.tok "conc", wireT a b, numT v])) 40 := by
  unfold bodyAlts
  apply Ev.cast
  · apply ev_alt
    apply eva_skip (g := ssw_inp) (by fh)
    apply eva_skip (g := ssw_out) (by fh)
    apply eva_skip (g := ssw_seesaw) (by fh)
    apply eva_ok
    unfold ssw_wireconc
    apply ev_seq
    apply evs_cons (ev_lit0 'c' ['o', 'n', 'c'] _ (by decide) (by decide))
    apply evs_cons (ev_suppress (ev_lit0 '[' [] _ (by decide) (by decide)))
    apply evs_cons (ev_wire 0 k3 a b ha hb _)
    apply evs_cons (ev_suppress (ev_lit0 ',' [] _ (by decide) (by decide)))
    apply evs_cons (ev_conc k v hv _)
    apply evs_cons (ev_suppress (ev_lit0 ']' [] _ (by decide) (by decide)))
    exact evs_nil
  · rfl
  · decide

/-- a negative concentration: every alternative fails -/
theorem negconc_fail (a b : List Char) (ha : Dig a) (hb : Dig b) (k3 k : Nat) (r : List Char) :
    Ev env sk (.alt bodyAlts)
      (P ('c' :: 'o' :: 'n' :: 'c' :: '[' :: 'w' :: '[' :: (a ++ ',' :: (bl k3 ++ (b ++ ']' :: ',' ::
        (bl k ++ '-' :: r)))))) none 40 := by
  unfold bodyAlts
  apply Ev.cast
  · apply ev_alt
    apply eva_skip (g := ssw_inp) (by fh)
    apply eva_skip (g := ssw_out) (by fh)
    apply eva_skip (g := ssw_seesaw) (by fh)
    apply eva_skip
    · unfold ssw_wireconc
      apply ev_seq
      apply evs_fail_tail (ev_lit0 'c' ['o', 'n', 'c'] _ (by decide) (by decide))
      apply evs_fail_tail (ev_suppress (ev_lit0 '[' [] _ (by decide) (by decide)))
      apply evs_fail_tail (ev_wire 0 k3 a b ha hb _)
      apply evs_fail_tail (ev_suppress (ev_lit0 ',' [] _ (by decide) (by decide)))
      apply evs_fail_head
      unfold ssw_conc
      exact ev_seq (evs_fail_head (ev_gorf_fail k r))
    apply eva_skip
    · unfold ssw_outpconc
      apply ev_seq
      apply evs_fail_tail (ev_lit0 'c' ['o', 'n', 'c'] _ (by decide) (by decide))
      apply evs_fail_tail (ev_suppress (ev_lit0 '[' [] _ (by decide) (by decide)))
      apply evs_fail_head
      apply ev_alt
      apply eva_skip (g := ssw_gateO) (ev_group_fail (by fh))
      apply eva_skip (g := ssw_gateI) (ev_group_fail (by fh))
      exact eva_nil
    apply eva_skip
    · unfold ssw_thshconc
      apply ev_seq
      apply evs_fail_tail (ev_lit0 'c' ['o', 'n', 'c'] _ (by decide) (by decide))
      apply evs_fail_tail (ev_suppress (ev_lit0 '[' [] _ (by decide) (by decide)))
      apply evs_fail_head
      apply ev_alt
      apply eva_skip (g := ssw_thshO) (ev_group_fail (by fh))
      apply eva_skip (g := ssw_thshI) (ev_group_fail (by fh))
      exact eva_nil
    apply eva_skip (macros_fail_head 'c' _ (by decide) (by decide) (by decide) (by decide) (by decide))
    exact eva_nil
  · rfl
  · decide

end Dsd.PP.Ssw
