/-
`ComplexS.split` as translated from the source (Gen/PyComplexS2.lean): for EVERY `request` (the PARAMETER that stands for
`self.__class__(nseq, nsst)`), the list yielded is `request` applied to the components in order; a refusal with `existing` yields that
object, the first refusal without `existing` (or any other exception) aborts.
-/
import DsdVerif.Lemmas.PyObjBasic
import DsdVerif.Gen.PyComplexS2

set_option linter.unusedSimpArgs false
set_option linter.unusedVariables false

namespace Dsd.PyObj2
open Dsd Gen PyObj PyObj.Basic

/-- what one component contributes: the object `request` returns, or the `existing` object of its refusal; any other outcome aborts -/
def answer (r : Except Err Nat) : Except Err Nat :=
  match r with
  | .ok h => .ok h
  | .error (.singleton (some h)) => .ok h
  | .error e => .error e

/-- the specification of the loop of `split`: per part, in order, the sequence (`strand_table_to_sequence`) and the structure
    (`pair_table_to_dot_bracket`) as written in the source, then `request` -/
def splitRun (request : List String → List Char → Py.M Nat) :
    List (List (List String) × PairTable) → Except Err (List Nat)
  | [] => .ok []
  | p :: rest =>
    match py_strand_table_to_sequence_list p.1 "+" with
    | .error e => .error e
    | .ok q =>
      match py_pair_table_to_dot_bracket p.2 '+' false with
      | .error e => .error e
      | .ok r =>
        match answer (request q r) with
        | .error e => .error e
        | .ok h =>
          match splitRun request rest with
          | .error e => .error e
          | .ok hs => .ok (h :: hs)

theorem exec_split_step (request : List String → List Char → Py.M Nat) (v : ComplexS_split.Vars)
    (p : List (List String) × PairTable) (σ : ComplexS.Self) :
    (ComplexS_split.loop1 request v p).exec σ =
      (match py_strand_table_to_sequence_list p.1 "+" with
       | .error e => .error e
       | .ok q =>
         match py_pair_table_to_dot_bracket p.2 '+' false with
         | .error e => .error e
         | .ok r =>
           match answer (request q r) with
           | .error e => .error e
           | .ok h => .ok { v with nseq := q, nsst := r, yielded := v.yielded ++ [h] }, σ) := by
  unfold ComplexS_split.loop1
  simp only [exec_bind, exec_lift, exec_monadLift, exec_pure]
  cases py_strand_table_to_sequence_list p.1 "+" with
  | error e => rfl
  | ok q =>
    simp only []
    cases py_pair_table_to_dot_bracket p.2 '+' false with
    | error e => rfl
    | ok r =>
      simp only [exec_tryCatch, exec_bind, exec_lift, exec_monadLift, exec_pure]
      cases hr : request q r with
      | ok h => simp [answer, exec_pure]; rfl
      | error e =>
        cases e with
        | singleton ex =>
          cases ex with
          | none => simp [answer, exec_ite, exec_throw, exec_bind, Option.isNone]
          | some h => simp [answer, exec_ite, exec_throw, exec_bind, exec_pure, exec_lift, exec_monadLift, Option.isNone, unwrap_some]; rfl
        | _ => simp [answer, exec_throw]

/-- the loop of `split` over the parts is `splitRun`, whatever `request` is; the object is not touched -/
theorem exec_split_loop (request : List String → List Char → Py.M Nat) (parts : List (List (List String) × PairTable))
    (v : ComplexS_split.Vars) (σ : ComplexS.Self) :
    ∃ out, (List.foldlM (ComplexS_split.loop1 request) v parts).exec σ = (out, σ) ∧
      match splitRun request parts with
      | .error e => out = .error e
      | .ok hs => ∃ v', out = .ok v' ∧ v'.yielded = v.yielded ++ hs := by
  induction parts generalizing v with
  | nil => exact ⟨.ok v, rfl, v, rfl, by simp⟩
  | cons p rest ih =>
    rw [List.foldlM_cons, exec_bind, exec_split_step]
    simp only [splitRun]
    cases py_strand_table_to_sequence_list p.1 "+" with
    | error e => exact ⟨_, rfl, rfl⟩
    | ok q =>
      simp only []
      cases py_pair_table_to_dot_bracket p.2 '+' false with
      | error e => exact ⟨_, rfl, rfl⟩
      | ok r =>
        simp only []
        cases answer (request q r) with
        | error e => exact ⟨_, rfl, rfl⟩
        | ok h =>
          simp only []
          obtain ⟨out, hex, hout⟩ := ih { v with nseq := q, nsst := r, yielded := v.yielded ++ [h] }
          refine ⟨out, hex, ?_⟩
          cases hs : splitRun request rest with
          | error e => rw [hs] at hout; exact hout
          | ok l =>
            rw [hs] at hout
            obtain ⟨v', hv', hy⟩ := hout
            exact ⟨v', hv', by rw [hy]; simp⟩

/-- **`list(self.split())` as written, for every `request`**: on a coherent object, the parts are those of `split_complex_pt` (as
    written: Gen/PyFuncs.lean) on the strand table of the current sequence and the pair table of the current structure, and the
    result is `splitRun request` of them: `request` applied to the components in order, a refusal with `existing` yields that
    object, the first refusal without `existing` aborts.  The object stays coherent with the same representation. -/
theorem py_split_spec (fuel : Nat) (request : List String → List Char → Py.M Nat) (s : ComplexS.Self) (h : PCoh s) :
    ∃ s', (py_ComplexS_split fuel request).exec s =
        (match makePairTable s._structure with
         | .error e => .error e
         | .ok t =>
           match py_split_complex_pt fuel (makeStrandTableList "+" s._sequence) t with
           | .error e => .error e
           | .ok parts => splitRun request parts, s') ∧
      PCoh s' ∧ SameRepS s s' := by
  unfold py_ComplexS_split
  obtain ⟨s1, hex1, hc1, hr1, _⟩ := exec_p_strand_table s h
  rcases exec_p_pair_table s1 hc1 with ⟨t, s2, hm, hex2, hc2, hr2, _⟩ | ⟨e, hm, hex2⟩
  · have hm' : makePairTable s._structure = .ok t := by rw [← hr1.2.1]; exact hm
    refine ⟨s2, ?_, hc2, SameRepS.trans hr1 hr2⟩
    simp only [exec_bind, hex1, hex2, exec_lift, exec_monadLift, unwrap_some, hm', exec_pure]
    cases hp : py_split_complex_pt fuel (makeStrandTableList "+" s._sequence) t with
    | error e => rfl
    | ok parts =>
      simp only []
      obtain ⟨out, hex, hout⟩ := exec_split_loop request parts
        { stab := some (makeStrandTableList "+" s._sequence), ptab := some t } s2
      rw [hex]
      cases hs : splitRun request parts with
      | error e => rw [hs] at hout; subst hout; rfl
      | ok l =>
        rw [hs] at hout
        obtain ⟨v', rfl, hy⟩ := hout
        simp only [exec_pure, hy, List.nil_append]
        rfl
  · have hm' : makePairTable s._structure = .error e := by rw [← hr1.2.1]; exact hm
    refine ⟨s1, ?_, hc1, hr1⟩
    simp only [exec_bind, hex1, hex2, hm']

end Dsd.PyObj2
