/-
Input accounting for the pyparsing model (C13/C19, parse soundness): `Yield env skip g inp rest ts` — the grammar
term `g` accepts a prefix of `inp`, leaves `rest` and returns `ts`.  It is the relational form of a successful `run`
(without fuel and without the end-of-input flag): every terminal records the ignorable text skipped in front of it
(`preL`, i.e. `skipIgn` unless inside `Combine`) and the characters it matched.  `run_yield`: every successful run
is a `Yield`; `Yield.shape`: the tree has the `Shape` of the term; `Yield.suffix`: `rest` is a suffix of `inp`.
-/
import DsdVerif.Lemmas.PPShape

namespace Dsd.PP

/-- the input after skipping what an element skips in front of itself -/
def preL (skip : Bool) (cs : List Char) : List Char := if skip then skipIgn cs else cs

theorem pre_rest (ctx : Ctx) (p : Pos) : (pre ctx p).rest = preL ctx.skip p.rest := by
  unfold pre preL; split <;> rfl

mutual
inductive Yield (env : Env) : Bool → G → List Char → List Char → List Tree → Prop
  | lit (skip : Bool) (s inp rest : List Char) : stripPrefix s (preL skip inp) = some rest →
      Yield env skip (.lit s) inp rest [.tok (String.ofList s)]
  | kw (skip : Bool) (s ident inp rest : List Char) : stripPrefix s (preL skip inp) = some rest →
      (∀ c r, rest = c :: r → ident.contains c = false) →
      Yield env skip (.kw s ident) inp rest [.tok (String.ofList s)]
  | word (skip : Bool) (init body inp : List Char) (c : Char) (cs : List Char) : preL skip inp = c :: cs →
      init.contains c = true →
      Yield env skip (.word init body) inp (cs.drop (cs.takeWhile (fun x => body.contains x)).length)
        [.tok (String.ofList (c :: cs.takeWhile (fun x => body.contains x)))]
  | white (skip : Bool) (inp r0 : List Char) :
      r0 = (if skip then (match skipWs inp with | '#' :: t => (('#' :: t).dropWhile (· != '\n')) | _ => inp) else inp) →
      (r0.takeWhile (fun c => isWs c || c == '\n')) ≠ [] →
      Yield env skip .white inp (r0.drop (r0.takeWhile (fun c => isWs c || c == '\n')).length)
        [.tok (String.ofList (r0.takeWhile (fun c => isWs c || c == '\n')))]
  | lineEndNl (skip : Bool) (inp cs : List Char) : preL skip inp = '\n' :: cs → Yield env skip .lineEnd inp cs [.tok "\n"]
  | lineEndEof (skip : Bool) (inp : List Char) : preL skip inp = [] → Yield env skip .lineEnd inp [] []
  | stringStart (skip : Bool) (inp : List Char) : Yield env skip .stringStart inp inp []
  | stringEnd (skip : Bool) (inp : List Char) : preL skip inp = [] → Yield env skip .stringEnd inp [] []
  | seq (skip : Bool) (gs : List G) (inp rest : List Char) (ts : List Tree) : YieldSeq env skip gs inp rest ts →
      Yield env skip (.seq gs) inp rest ts
  | alt (skip : Bool) (gs : List G) (g : G) (inp rest : List Char) (ts : List Tree) : g ∈ gs →
      Yield env skip g inp rest ts → Yield env skip (.alt gs) inp rest ts
  | optNone (skip : Bool) (g : G) (inp : List Char) : Yield env skip (.opt g) inp inp []
  | optSome (skip : Bool) (g : G) (inp rest : List Char) (ts : List Tree) : Yield env skip g inp rest ts →
      Yield env skip (.opt g) inp rest ts
  | many (skip : Bool) (g : G) (inp rest : List Char) (ts : List Tree) : YieldMany env skip g inp rest ts →
      Yield env skip (.many g) inp rest ts
  | many1 (skip : Bool) (g : G) (inp mid rest : List Char) (t1 t2 : List Tree) : Yield env skip g inp mid t1 →
      YieldMany env skip g mid rest t2 → Yield env skip (.many1 g) inp rest (t1 ++ t2)
  | combine (skip : Bool) (g : G) (inp rest : List Char) (ts : List Tree) (f : Nat) :
      Yield env false g (preL skip inp) rest ts →
      Yield env skip (.combine g) inp rest [.tok (String.join (flatToks (f + 1) ts))]
  | group (skip : Bool) (g : G) (inp rest : List Char) (ts : List Tree) : Yield env skip g inp rest ts →
      Yield env skip (.group g) inp rest [.grp ts]
  | suppress (skip : Bool) (g : G) (inp rest : List Char) (ts : List Tree) : Yield env skip g inp rest ts →
      Yield env skip (.suppress g) inp rest []
  | tag (skip : Bool) (t : String) (g : G) (inp rest : List Char) (ts : List Tree) : Yield env skip g inp rest ts →
      Yield env skip (.tag t g) inp rest (.tok t :: ts)
  | ref (skip : Bool) (n : String) (g : G) (inp rest : List Char) (ts : List Tree) : env.lookup n = some g →
      Yield env skip g inp rest ts → Yield env skip (.ref n) inp rest ts
inductive YieldSeq (env : Env) : Bool → List G → List Char → List Char → List Tree → Prop
  | nil (skip : Bool) (inp : List Char) : YieldSeq env skip [] inp inp []
  | cons (skip : Bool) (g : G) (gs : List G) (inp mid rest : List Char) (t1 t2 : List Tree) :
      Yield env skip g inp mid t1 → YieldSeq env skip gs mid rest t2 → YieldSeq env skip (g :: gs) inp rest (t1 ++ t2)
inductive YieldMany (env : Env) : Bool → G → List Char → List Char → List Tree → Prop
  | nil (skip : Bool) (g : G) (inp : List Char) : YieldMany env skip g inp inp []
  | cons (skip : Bool) (g : G) (inp mid rest : List Char) (t1 t2 : List Tree) : Yield env skip g inp mid t1 →
      YieldMany env skip g mid rest t2 → YieldMany env skip g inp rest (t1 ++ t2)
end

theorem YieldMany.single {env : Env} {skip : Bool} {g : G} {inp rest : List Char} {ts : List Tree}
    (h : Yield env skip g inp rest ts) : YieldMany env skip g inp rest ts := by
  have := YieldMany.cons skip g inp rest rest ts [] h (YieldMany.nil skip g rest)
  simpa using this

/-- **parse soundness, input accounting**: every successful run is a `Yield` from the input it started at to the
    input it left -/
theorem run_yield_aux (env : Env) : ∀ fuel : Nat,
    (∀ ctx g p p' ts, run env fuel ctx g p = some (p', ts) → Yield env ctx.skip g p.rest p'.rest ts) ∧
    (∀ ctx gs p p' ts, runSeq env fuel ctx gs p = some (p', ts) → YieldSeq env ctx.skip gs p.rest p'.rest ts) ∧
    (∀ ctx gs p p' ts, runAlt env fuel ctx gs p = some (p', ts) → ∃ g ∈ gs, Yield env ctx.skip g p.rest p'.rest ts) ∧
    (∀ reps ctx g p p' ts, runMany env reps fuel ctx g p = some (p', ts) → YieldMany env ctx.skip g p.rest p'.rest ts) := by
  intro fuel
  induction fuel with
  | zero =>
    refine ⟨?_, ?_, ?_, ?_⟩
    · intro ctx g p p' ts h; simp [run] at h
    · intro ctx gs p p' ts h; simp [runSeq] at h
    · intro ctx gs p p' ts h; simp [runAlt] at h
    · intro reps ctx g p p' ts h
      cases reps <;> simp [runMany] at h <;> (obtain ⟨rfl, rfl⟩ := h; exact YieldMany.nil _ g _)
  | succ f ih =>
    obtain ⟨ih1, ih2, ih3, ih4⟩ := ih
    refine ⟨?_, ?_, ?_, ?_⟩
    · intro ctx g p p' ts h
      cases g with
      | lit s =>
        simp only [run] at h
        split at h
        · cases h
        · split at h
          · rename_i r hr
            cases h
            exact Yield.lit _ s _ r (by rw [← pre_rest]; exact hr)
          · cases h
      | kw s ident =>
        simp only [run] at h
        split at h
        · cases h
        · split at h
          · rename_i c r hr
            split at h
            · cases h
            · rename_i hc
              cases h
              refine Yield.kw _ s ident _ (c :: r) (by rw [← pre_rest]; exact hr) ?_
              intro c' r' e
              cases e
              simpa using hc
          · rename_i hr
            cases h
            exact Yield.kw _ s ident _ [] (by rw [← pre_rest]; exact hr) (by intro c r e; cases e)
          · cases h
      | word init body =>
        simp only [run] at h
        split at h
        · rename_i c cs hcs
          split at h
          · rename_i hc
            cases h
            exact Yield.word _ init body _ c cs (by rw [← pre_rest]; exact hcs) hc
          · cases h
        · cases h
      | white =>
        simp only [run] at h
        have key : ∀ r0 : List Char,
            r0 = (if ctx.skip then (match skipWs p.rest with | '#' :: t => (('#' :: t).dropWhile (· != '\n')) | _ => p.rest)
              else p.rest) →
            (if (r0.takeWhile (fun c => isWs c || c == '\n')).isEmpty = true then none
              else some (({ p with rest := r0.drop (r0.takeWhile (fun c => isWs c || c == '\n')).length } : Pos),
                [Tree.tok (String.ofList (r0.takeWhile (fun c => isWs c || c == '\n')))])) = some (p', ts) →
            Yield env ctx.skip .white p.rest p'.rest ts := by
          intro r0 hr0 h
          split at h
          · cases h
          · rename_i hm
            cases h
            refine Yield.white _ _ r0 hr0 ?_
            intro e; rw [e] at hm; simp at hm
        exact key _ rfl h
      | lineEnd =>
        simp only [run] at h
        split at h
        · rename_i cs hcs
          cases h
          exact Yield.lineEndNl _ _ cs (by rw [← pre_rest]; exact hcs)
        · rename_i hcs
          split at h
          · cases h
          · cases h
            simp only
            rw [hcs]
            exact Yield.lineEndEof _ _ (by rw [← pre_rest]; exact hcs)
        · cases h
      | stringStart => simp only [run] at h; cases h; exact Yield.stringStart _ _
      | stringEnd =>
        simp only [run] at h
        split at h
        · rename_i he
          cases h
          have he' : (pre ctx p).rest = [] := by simpa using he
          simp only
          rw [he']
          exact Yield.stringEnd _ _ (by rw [← pre_rest]; exact he')
        · cases h
      | seq gs => simp only [run] at h; exact Yield.seq _ gs _ _ ts (ih2 ctx gs p p' ts h)
      | alt gs =>
        simp only [run] at h
        obtain ⟨g, hg, hs⟩ := ih3 ctx gs p p' ts h
        exact Yield.alt _ gs g _ _ ts hg hs
      | opt g =>
        simp only [run] at h
        split at h
        · rename_i r hr
          cases h
          exact Yield.optSome _ g _ _ ts (ih1 ctx g p p' ts hr)
        · cases h; exact Yield.optNone _ g _
      | many g => simp only [run] at h; exact Yield.many _ g _ _ ts (ih4 f ctx g p p' ts h)
      | many1 g =>
        simp only [run] at h
        split at h
        · cases h
        · rename_i p1 t1 h1
          split at h
          · rename_i p2 t2 h2
            cases h
            exact Yield.many1 _ g _ _ _ t1 t2 (ih1 ctx g p p1 t1 h1) (ih4 f ctx g p1 p' t2 h2)
          · cases h
            have := Yield.many1 _ g _ _ _ ts [] (ih1 ctx g p p' ts h1) (YieldMany.nil _ g _)
            simpa using this
      | combine g =>
        simp only [run] at h
        split at h
        · rename_i p2 ts' h2
          cases h
          have := ih1 _ g _ p' ts' h2
          rw [pre_rest] at this
          exact Yield.combine _ g _ _ ts' f this
        · cases h
      | group g =>
        simp only [run] at h
        split at h
        · rename_i p2 ts' h2
          cases h
          exact Yield.group _ g _ _ ts' (ih1 ctx g p p' ts' h2)
        · cases h
      | suppress g =>
        simp only [run] at h
        split at h
        · rename_i p2 ts' h2
          cases h
          exact Yield.suppress _ g _ _ ts' (ih1 ctx g p p' ts' h2)
        · cases h
      | tag t g =>
        simp only [run] at h
        split at h
        · rename_i p2 ts' h2
          cases h
          exact Yield.tag _ t g _ _ ts' (ih1 ctx g p p' ts' h2)
        · cases h
      | ref n =>
        simp only [run] at h
        split at h
        · rename_i g hg
          exact Yield.ref _ n g _ _ ts hg (ih1 ctx g p p' ts h)
        · cases h
    · intro ctx gs p p' ts h
      cases gs with
      | nil => simp only [runSeq] at h; cases h; exact YieldSeq.nil _ _
      | cons g gs =>
        simp only [runSeq] at h
        split at h
        · cases h
        · rename_i p1 t1 h1
          split at h
          · cases h
          · rename_i p2 t2 h2
            cases h
            exact YieldSeq.cons _ g gs _ _ _ t1 t2 (ih1 ctx g p p1 t1 h1) (ih2 ctx gs p1 p' t2 h2)
    · intro ctx gs p p' ts h
      cases gs with
      | nil => simp only [runAlt] at h; cases h
      | cons g gs =>
        simp only [runAlt] at h
        split at h
        · rename_i r hr
          cases h
          exact ⟨g, List.mem_cons_self, ih1 ctx g p p' ts hr⟩
        · obtain ⟨g', hg', hs⟩ := ih3 ctx gs p p' ts h
          exact ⟨g', List.mem_cons_of_mem _ hg', hs⟩
    · intro reps ctx g p p' ts h
      cases reps with
      | zero => simp only [runMany] at h; cases h; exact YieldMany.nil _ g _
      | succ reps =>
        simp only [runMany] at h
        split at h
        · cases h; exact YieldMany.nil _ g _
        · rename_i p1 t1 h1
          split at h
          · cases h; exact YieldMany.single (ih1 ctx g p p' ts h1)
          · split at h
            · rename_i p2 t2 h2
              cases h
              exact YieldMany.cons _ g _ _ _ t1 t2 (ih1 ctx g p p1 t1 h1) (ih4 reps ctx g p1 p' t2 h2)
            · cases h; exact YieldMany.single (ih1 ctx g p p' ts h1)

theorem run_yield (env : Env) (fuel : Nat) (ctx : Ctx) (g : G) (p p' : Pos) (ts : List Tree)
    (h : run env fuel ctx g p = some (p', ts)) : Yield env ctx.skip g p.rest p'.rest ts :=
  (run_yield_aux env fuel).1 ctx g p p' ts h

/-- the accepted text of a whole document: the tab-expanded text is consumed down to some rest -/
theorem parseDoc_yield (env : Env) (doc : G) (text : String) (ts : List Tree) (h : parseDoc env doc text = some ts) :
    ∃ rest, Yield env true doc (expandTabs text.toList 0) rest ts := by
  unfold parseDoc at h
  simp only at h
  split at h
  · rename_i p' ts' hr
    cases h
    exact ⟨p'.rest, run_yield env _ _ doc _ p' ts hr⟩
  · cases h

/-! ### what is skipped and what is matched -/

/-- ignorable text: blanks (blank, tab, CR), or something that contains a `#…` comment -/
def IgnText (ign : List Char) : Prop := (∀ c ∈ ign, isWs c = true) ∨ '#' ∈ ign

theorem skipWs_split (cs : List Char) : ∃ w, cs = w ++ skipWs cs ∧ ∀ c ∈ w, isWs c = true := by
  refine ⟨cs.takeWhile isWs, ?_, ?_⟩
  · unfold skipWs; exact (List.takeWhile_append_dropWhile).symm
  · intro c hc; exact mem_takeWhile_true _ _ c hc

theorem skipIgn_split (cs : List Char) : ∃ ign, cs = ign ++ skipIgn cs ∧ IgnText ign := by
  obtain ⟨w1, h1, hw1⟩ := skipWs_split cs
  unfold skipIgn
  simp only
  split
  · rename_i t ht
    -- a comment: everything up to the line end, then blanks
    obtain ⟨w2, h2, _⟩ := skipWs_split ((skipWs cs).dropWhile (· != '\n'))
    refine ⟨w1 ++ (skipWs cs).takeWhile (· != '\n') ++ w2, ?_, Or.inr ?_⟩
    · rw [List.append_assoc, List.append_assoc, ← h2, List.takeWhile_append_dropWhile]
      exact h1
    · rw [ht]
      simp [List.takeWhile_cons]
  · exact ⟨w1, h1, Or.inl hw1⟩

theorem preL_split (skip : Bool) (cs : List Char) : ∃ ign, cs = ign ++ preL skip cs ∧ IgnText ign ∧ (skip = false → ign = []) := by
  unfold preL
  cases skip with
  | false => exact ⟨[], rfl, Or.inl (by simp), fun _ => rfl⟩
  | true =>
    obtain ⟨ign, h1, h2⟩ := skipIgn_split cs
    exact ⟨ign, by simpa using h1, h2, by intro h; cases h⟩

theorem takeWhile_append_drop' {α} (q : α → Bool) (l : List α) :
    l.takeWhile q ++ l.drop (l.takeWhile q).length = l := by
  induction l with
  | nil => simp
  | cons a as ih =>
    rw [List.takeWhile_cons]
    split
    · simp only [List.length_cons, List.drop_succ_cons, List.cons_append, ih]
    · simp

theorem stripPrefix_some (s cs r : List Char) (h : stripPrefix s cs = some r) : cs = s ++ r := by
  induction s generalizing cs with
  | nil => cases cs <;> simp [stripPrefix] at h <;> simp [h]
  | cons a s ih =>
    cases cs with
    | nil => simp [stripPrefix] at h
    | cons c cs =>
      simp only [stripPrefix] at h
      split at h
      · rename_i hac
        rw [hac, ih cs h]; rfl
      · cases h

/-! ### derived facts -/

mutual
/-- the rest is a suffix of the input -/
theorem Yield.suffix {env : Env} : ∀ {skip : Bool} {g : G} {inp rest : List Char} {ts : List Tree},
    Yield env skip g inp rest ts → ∃ c, inp = c ++ rest
  | _, _, _, _, _, .lit skip s inp rest h => by
    obtain ⟨ign, h1, _⟩ := preL_split skip inp
    exact ⟨ign ++ s, by rw [List.append_assoc, ← stripPrefix_some s _ rest h]; exact h1⟩
  | _, _, _, _, _, .kw skip s ident inp rest h _ => by
    obtain ⟨ign, h1, _⟩ := preL_split skip inp
    exact ⟨ign ++ s, by rw [List.append_assoc, ← stripPrefix_some s _ rest h]; exact h1⟩
  | _, _, _, _, _, .word skip init body inp c cs h _ => by
    obtain ⟨ign, h1, _⟩ := preL_split skip inp
    refine ⟨ign ++ c :: cs.takeWhile (fun x => body.contains x), ?_⟩
    rw [h1, h]
    simp only [List.append_assoc, List.cons_append]
    congr 2
    exact (takeWhile_append_drop' _ cs).symm
  | _, _, _, _, _, .white skip inp r0 hr0 _ => by
    have hsuf : ∃ c, inp = c ++ r0 := by
      cases skip with
      | false => exact ⟨[], by simpa using hr0.symm⟩
      | true =>
        simp only [if_true] at hr0
        split at hr0
        · rename_i t ht
          obtain ⟨w, hw, _⟩ := skipWs_split inp
          refine ⟨w ++ (skipWs inp).takeWhile (· != '\n'), ?_⟩
          rw [hr0, ← ht, List.append_assoc, List.takeWhile_append_dropWhile]
          exact hw
        · exact ⟨[], by simpa using hr0.symm⟩
    obtain ⟨c, hc⟩ := hsuf
    exact ⟨c ++ r0.takeWhile (fun c => isWs c || c == '\n'), by
      rw [List.append_assoc, takeWhile_append_drop']; exact hc⟩
  | _, _, _, _, _, .lineEndNl skip inp cs h => by
    obtain ⟨ign, h1, _⟩ := preL_split skip inp
    exact ⟨ign ++ ['\n'], by rw [h1, h]; simp⟩
  | _, _, _, _, _, .lineEndEof skip inp h => ⟨inp, by simp⟩
  | _, _, _, _, _, .stringStart skip inp => ⟨[], rfl⟩
  | _, _, _, _, _, .stringEnd skip inp h => ⟨inp, by simp⟩
  | _, _, _, _, _, .seq skip gs inp rest ts h => YieldSeq.suffix h
  | _, _, _, _, _, .alt skip gs g inp rest ts _ h => Yield.suffix h
  | _, _, _, _, _, .optNone skip g inp => ⟨[], rfl⟩
  | _, _, _, _, _, .optSome skip g inp rest ts h => Yield.suffix h
  | _, _, _, _, _, .many skip g inp rest ts h => YieldMany.suffix h
  | _, _, _, _, _, .many1 skip g inp mid rest t1 t2 h1 h2 => by
    obtain ⟨c1, e1⟩ := Yield.suffix h1
    obtain ⟨c2, e2⟩ := YieldMany.suffix h2
    exact ⟨c1 ++ c2, by rw [e1, e2, List.append_assoc]⟩
  | _, _, _, _, _, .combine skip g inp rest ts f h => by
    obtain ⟨ign, h1, _⟩ := preL_split skip inp
    obtain ⟨c, e⟩ := Yield.suffix h
    exact ⟨ign ++ c, by rw [List.append_assoc, ← e]; exact h1⟩
  | _, _, _, _, _, .group skip g inp rest ts h => Yield.suffix h
  | _, _, _, _, _, .suppress skip g inp rest ts h => Yield.suffix h
  | _, _, _, _, _, .tag skip t g inp rest ts h => Yield.suffix h
  | _, _, _, _, _, .ref skip n g inp rest ts _ h => Yield.suffix h
theorem YieldSeq.suffix {env : Env} : ∀ {skip : Bool} {gs : List G} {inp rest : List Char} {ts : List Tree},
    YieldSeq env skip gs inp rest ts → ∃ c, inp = c ++ rest
  | _, _, _, _, _, .nil skip inp => ⟨[], rfl⟩
  | _, _, _, _, _, .cons skip g gs inp mid rest t1 t2 h1 h2 => by
    obtain ⟨c1, e1⟩ := Yield.suffix h1
    obtain ⟨c2, e2⟩ := YieldSeq.suffix h2
    exact ⟨c1 ++ c2, by rw [e1, e2, List.append_assoc]⟩
theorem YieldMany.suffix {env : Env} : ∀ {skip : Bool} {g : G} {inp rest : List Char} {ts : List Tree},
    YieldMany env skip g inp rest ts → ∃ c, inp = c ++ rest
  | _, _, _, _, _, .nil skip g inp => ⟨[], rfl⟩
  | _, _, _, _, _, .cons skip g inp mid rest t1 t2 h1 h2 => by
    obtain ⟨c1, e1⟩ := Yield.suffix h1
    obtain ⟨c2, e2⟩ := YieldMany.suffix h2
    exact ⟨c1 ++ c2, by rw [e1, e2, List.append_assoc]⟩
end

mutual
/-- the tree of a `Yield` has the `Shape` of the term -/
theorem Yield.shape {env : Env} : ∀ {skip : Bool} {g : G} {inp rest : List Char} {ts : List Tree},
    Yield env skip g inp rest ts → Shape env g ts
  | _, _, _, _, _, .lit _ s _ _ _ => Shape.lit s
  | _, _, _, _, _, .kw _ s ident _ _ _ _ => Shape.kw s ident
  | _, _, _, _, _, .word _ init body _ c cs _ hc =>
    Shape.word init body c _ hc (fun x hx => mem_takeWhile_true _ _ x hx)
  | _, _, _, _, _, .white _ _ r0 _ hne => Shape.white _ hne
  | _, _, _, _, _, .lineEndNl _ _ _ _ => Shape.lineEndNl
  | _, _, _, _, _, .lineEndEof _ _ _ => Shape.lineEndEof
  | _, _, _, _, _, .stringStart _ _ => Shape.stringStart
  | _, _, _, _, _, .stringEnd _ _ _ => Shape.stringEnd
  | _, _, _, _, _, .seq _ gs _ _ ts h => Shape.seq gs ts (YieldSeq.shape h)
  | _, _, _, _, _, .alt _ gs g _ _ ts hg h => Shape.alt gs g ts hg (Yield.shape h)
  | _, _, _, _, _, .optNone _ g _ => Shape.optNone g
  | _, _, _, _, _, .optSome _ g _ _ ts h => Shape.optSome g ts (Yield.shape h)
  | _, _, _, _, _, .many _ g _ _ ts h => Shape.many g ts (YieldMany.shape h)
  | _, _, _, _, _, .many1 _ g _ _ _ t1 t2 h1 h2 => Shape.many1 g t1 t2 (Yield.shape h1) (YieldMany.shape h2)
  | _, _, _, _, _, .combine _ g _ _ ts f h => Shape.combine g ts f (Yield.shape h)
  | _, _, _, _, _, .group _ g _ _ ts h => Shape.group g ts (Yield.shape h)
  | _, _, _, _, _, .suppress _ g _ _ ts h => Shape.suppress g ts (Yield.shape h)
  | _, _, _, _, _, .tag _ t g _ _ ts h => Shape.tag t g ts (Yield.shape h)
  | _, _, _, _, _, .ref _ n g _ _ ts hg h => Shape.ref n g ts hg (Yield.shape h)
theorem YieldSeq.shape {env : Env} : ∀ {skip : Bool} {gs : List G} {inp rest : List Char} {ts : List Tree},
    YieldSeq env skip gs inp rest ts → ShapeSeq env gs ts
  | _, _, _, _, _, .nil _ _ => ShapeSeq.nil
  | _, _, _, _, _, .cons _ g gs _ _ _ t1 t2 h1 h2 => ShapeSeq.cons g gs t1 t2 (Yield.shape h1) (YieldSeq.shape h2)
theorem YieldMany.shape {env : Env} : ∀ {skip : Bool} {g : G} {inp rest : List Char} {ts : List Tree},
    YieldMany env skip g inp rest ts → ShapeMany env g ts
  | _, _, _, _, _, .nil _ g _ => ShapeMany.nil g
  | _, _, _, _, _, .cons _ g _ _ _ t1 t2 h1 h2 => ShapeMany.cons g t1 t2 (Yield.shape h1) (YieldMany.shape h2)
end

end Dsd.PP
