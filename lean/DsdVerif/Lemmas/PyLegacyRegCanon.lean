/-
`canonical_form` of the translated legacy `DSD_Complex` (Gen/PyLegacyReg.lean): the search over the rotations with the in-place
`rotate_once()` of the generator `rotate` is the model's `canonLoop` / `LObj.canonicalForm`, for every object and class state.
-/
import DsdVerif.Lemmas.PyLegacyRegDefs

set_option linter.unusedSimpArgs false

namespace Dsd.PyLegacyReg
open Dsd Dsd.Gen Dsd.Lg Dsd.PyLegacy Dsd.PyObj.Basic

abbrev CV := DSD_ComplexR_canonical_form.Vars

/-- one iteration: `self.rotate_once()` of the generator, then the body -/
theorem loop1_exec (R : LReg) (o : LObj) (vars : List (CKey × Nat)) (cn : CKey) (ev i : Nat) :
    (DSD_ComplexR_canonical_form.loop1 ({ all_variants := vars, canon := cn, e := ev } : CV) i).exec (ofLR R o) =
      match o.rotateOnce with
      | (o1, some err) => (.error (errOfR err), ofLR R o1)
      | (o1, none) =>
        if (vars.lookup (o1.seq, o1.sst)).isSome then
          (.ok { all_variants := vars, canon := (o1.seq, o1.sst), e := i + 1 }, ofLR R o1)
        else if o1.memorycheck then
          (match o1.doMemorycheck R (o1.seq, o1.sst) (some (i + 1)) with
            | (o2, some err) => (.error (errOfR err), ofLR R o2)
            | (o2, none) =>
              (.ok { all_variants := vars ++ [((o1.seq, o1.sst), i + 1)], canon := (o1.seq, o1.sst), e := i + 1 }, ofLR R o2))
        else (.ok { all_variants := vars ++ [((o1.seq, o1.sst), i + 1)], canon := (o1.seq, o1.sst), e := i + 1 }, ofLR R o1) := by
  unfold DSD_ComplexR_canonical_form.loop1
  simp only [exec_ite, exec_bind, exec_get, exec_pure, exec_lift, exec_monadLift, exec_modify, exec_throw, exec_rotate_once_R]
  rcases hr : o.rotateOnce with ⟨o1, r⟩
  cases r with
  | some err => rfl
  | none =>
    simp only []
    have e1 : (ofLR R o1)._sequence = o1.seq := rfl
    have e2 : (ofLR R o1)._structure = o1.sst := rfl
    have e3 : (ofLR R o1)._memorycheck = o1.memorycheck := rfl
    simp only [e1, e2, e3]
    by_cases hv : (vars.lookup (o1.seq, o1.sst)).isSome = true
    · have hv2 : Py.dictHas vars (o1.seq, o1.sst) = true := hv
      simp only [hv, hv2, Bool.not_true, Bool.false_eq_true, if_false, if_true]
    · have hv2 : Py.dictHas vars (o1.seq, o1.sst) = false := by
        unfold Py.dictHas; exact (Bool.not_eq_true _).mp hv
      simp only [hv, hv2, Bool.not_false, if_true, if_false, Bool.false_eq_true, Py.dictSet]
      by_cases hmc : o1.memorycheck = true
      · simp only [hmc, if_true, exec_do_memorycheck, unitAns]
        rcases o1.doMemorycheck R (o1.seq, o1.sst) (some (i + 1)) with ⟨o2, r2⟩
        cases r2 <;> rfl
      · simp only [hmc, if_false, Bool.false_eq_true]

/-- the loop over `enumerate(self.rotate(), 1)` from count `i + 1` on, `k` rotations left -/
theorem canon_fold (R : LReg) : ∀ (k i : Nat) (o : LObj) (vars : List (CKey × Nat)) (cn : CKey) (ev : Nat),
    ∃ cn' ev', (List.foldlM DSD_ComplexR_canonical_form.loop1 ({ all_variants := vars, canon := cn, e := ev } : CV)
        (List.range' i k)).exec (ofLR R o) =
      (match (LObj.canonLoop R k (i + 1) o vars).2 with
        | .ok vs => .ok { all_variants := vs, canon := cn', e := ev' }
        | .error e => .error (errOfR e), ofLR R (LObj.canonLoop R k (i + 1) o vars).1) := by
  intro k
  induction k with
  | zero => intro i o vars cn ev; exact ⟨cn, ev, rfl⟩
  | succ k ih =>
    intro i o vars cn ev
    rw [List.range'_succ, List.foldlM_cons, exec_bind, loop1_exec, LObj.canonLoop]
    rcases hr : o.rotateOnce with ⟨o1, r⟩
    cases r with
    | some err => exact ⟨cn, ev, rfl⟩
    | none =>
      simp only []
      by_cases hv : (vars.lookup (o1.seq, o1.sst)).isSome = true
      · simp only [hv, if_true]
        exact ih (i + 1) o1 vars _ _
      · simp only [hv, if_false, Bool.false_eq_true]
        by_cases hmc : o1.memorycheck = true
        · simp only [hmc, if_true]
          rcases o1.doMemorycheck R (o1.seq, o1.sst) (some (i + 1)) with ⟨o2, r2⟩
          cases r2 with
          | some err => exact ⟨cn, ev, rfl⟩
          | none => exact ih (i + 1) o2 _ _ _
        · simp only [hmc, if_false, Bool.false_eq_true]
          exact ih (i + 1) o1 _ _ _

theorem size_canon (o : LObj) : o.size.1.canon = o.canon := by
  have := congrArg LObj.canon (withCore_size o)
  exact this.symm

/-- the answer of `canonical_form` -/
def canonAns (R : LReg) (r : LObj × Except LErr CKey) : Except Err (Option CKey) × DSD_ComplexR.Self :=
  (match r.2 with | .ok c => .ok (some c) | .error e => .error (errOfR e), ofLR R r.1)

theorem setCanon_ofLR (R : LReg) (o : LObj) (c : CKey) :
    ({ ofLR R o with _canonical_form := some c } : DSD_ComplexR.Self) = ofLR R { o with canon := some c } := rfl

theorem setRot_ofLR (R : LReg) (o : LObj) (r : Nat) :
    ({ ofLR R o with _rotations := some r } : DSD_ComplexR.Self) = ofLR R { o with rotations := some r } := rfl

theorem exec_canonical_form (R : LReg) (o : LObj) :
    (py_DSD_ComplexR_canonical_form).exec (ofLR R o) = canonAns R (o.canonicalForm R) := by
  unfold py_DSD_ComplexR_canonical_form LObj.canonicalForm canonAns
  have ec : (ofLR R o)._canonical_form = o.canon := rfl
  cases hc : o.canon with
  | some c =>
    simp only [exec_ite, exec_bind, exec_get, exec_pure, ec, hc, Option.isSome_some, Bool.not_true, Bool.false_eq_true, if_false]
  | none =>
    simp only [exec_ite, exec_bind, exec_get, exec_pure, exec_lift, exec_monadLift, exec_modify, ec, hc, Option.isSome_none,
      Bool.not_false, if_true, exec_size_R, List.range_eq_range']
    obtain ⟨cn', ev', hf⟩ := canon_fold R o.size.2 0 o.size.1 [] default default
    rw [show (0 : Nat) + 1 = 1 from rfl] at hf
    have hd : ({ all_variants := [], canon := default, e := default } : CV) = { all_variants := [] } := rfl
    rw [hd] at hf
    simp only [hf]
    rcases LObj.canonLoop R o.size.2 1 o.size.1 [] with ⟨o1, r⟩
    cases r with
    | error e => rfl
    | ok vars =>
      simp only [Py.idx, Py.LegR_sortedKeys, List.head?_eq_getElem?]
      cases hh : (sortBy ckeyLt (vars.map (·.1)))[0]? with
      | none => rfl
      | some c =>
        simp only [pure, Except.pure, setCanon_ofLR, Py.unwrap, Py.dictGet]
        have e4 : (ofLR R { o1 with canon := some c })._canonical_form = some c := rfl
        cases hl : vars.lookup c with
        | none => rfl
        | some e =>
          simp only [exec_size_R, setRot_ofLR]
          have hk : (ofLR R ({ o1 with canon := some c } : LObj).size.1)._canonical_form = some c := by
            show ({ o1 with canon := some c } : LObj).size.1.canon = some c
            rw [size_canon]
          rw [hk]
          rfl

end Dsd.PyLegacyReg
