/-
Order algebra for the Boolean comparison functions of Model/Objects.lean (C10/C11):
lexicographic lists, pairs compared component-wise, characters, strings, complex keys, member keys.
Everything is stated with unbundled hypotheses (irreflexive / transitive / total).
-/
import DsdVerif.Model.Objects

namespace Dsd.Ord
open Dsd

/-! ### lexicographic order on lists -/

theorem lexLt_irrefl {α} [DecidableEq α] (lt : α → α → Bool) (l : List α) : lexLt lt l l = false := by
  induction l with
  | nil => rfl
  | cons a as ih => simp [lexLt, ih]

theorem lexLt_trans {α} [DecidableEq α] (lt : α → α → Bool) (hirr : ∀ a, lt a a = false)
    (htr : ∀ a b c, lt a b = true → lt b c = true → lt a c = true) :
    ∀ a b c : List α, lexLt lt a b = true → lexLt lt b c = true → lexLt lt a c = true := by
  intro a
  induction a with
  | nil =>
    intro b c h1 h2
    cases b with
    | nil => simp [lexLt] at h1
    | cons b bs =>
      cases c with
      | nil => simp [lexLt] at h2
      | cons c cs => simp [lexLt]
  | cons a as ih =>
    intro b c h1 h2
    cases b with
    | nil => simp [lexLt] at h1
    | cons b bs =>
      cases c with
      | nil => simp [lexLt] at h2
      | cons c cs =>
        simp only [lexLt] at h1 h2 ⊢
        by_cases hab : a = b
        · subst hab
          simp only [if_true] at h1
          by_cases hbc : a = c
          · subst hbc
            simp only [if_true] at h2 ⊢
            exact ih bs cs h1 h2
          · simp only [hbc, if_false] at h2 ⊢
            exact h2
        · simp only [hab, if_false] at h1
          by_cases hbc : b = c
          · subst hbc
            simp only [hab, if_false]
            exact h1
          · simp only [hbc, if_false] at h2
            have hac : lt a c = true := htr a b c h1 h2
            by_cases hac' : a = c
            · subst hac'
              rw [hirr a] at hac
              cases hac
            · simp only [hac', if_false]
              exact hac

theorem lexLt_total {α} [DecidableEq α] (lt : α → α → Bool)
    (htot : ∀ a b, a = b ∨ lt a b = true ∨ lt b a = true) :
    ∀ a b : List α, a = b ∨ lexLt lt a b = true ∨ lexLt lt b a = true := by
  intro a
  induction a with
  | nil =>
    intro b
    cases b with
    | nil => left; rfl
    | cons b bs => right; left; simp [lexLt]
  | cons a as ih =>
    intro b
    cases b with
    | nil => right; right; simp [lexLt]
    | cons b bs =>
      simp only [lexLt]
      by_cases hab : a = b
      · subst hab
        simp only [if_true]
        rcases ih bs with h | h | h
        · left; rw [h]
        · right; left; exact h
        · right; right; exact h
      · have hba : ¬ b = a := fun h => hab h.symm
        simp only [hab, hba, if_false]
        rcases htot a b with h | h | h
        · exact absurd h hab
        · right; left; exact h
        · right; right; exact h

/-! ### pairs compared component-wise (first component decides unless equal) -/

section pair
variable {α β : Type} [DecidableEq α] (f : α × β → α × β → Bool) (l1 : α → α → Bool) (l2 : β → β → Bool)
  (hf : ∀ a b, f a b = if a.1 = b.1 then l2 a.2 b.2 else l1 a.1 b.1)
include hf

theorem pair_irrefl (h2 : ∀ a, l2 a a = false) : ∀ a, f a a = false := by
  intro a; rw [hf]; simp [h2]

theorem pair_trans (i1 : ∀ a, l1 a a = false)
    (t1 : ∀ a b c, l1 a b = true → l1 b c = true → l1 a c = true)
    (t2 : ∀ a b c, l2 a b = true → l2 b c = true → l2 a c = true) :
    ∀ a b c, f a b = true → f b c = true → f a c = true := by
  intro a b c h1 h2
  rw [hf] at h1 h2 ⊢
  by_cases hab : a.1 = b.1
  · by_cases hbc : b.1 = c.1
    · have hac : a.1 = c.1 := hab.trans hbc
      simp only [hab, hbc, if_true] at h1 h2 ⊢
      exact t2 _ _ _ h1 h2
    · have hac : ¬ a.1 = c.1 := fun h => hbc (hab.symm.trans h)
      simp only [hbc, hac, if_false] at h2 ⊢
      rw [hab]; exact h2
  · simp only [hab, if_false] at h1
    by_cases hbc : b.1 = c.1
    · have hac : ¬ a.1 = c.1 := fun h => hab (h.trans hbc.symm)
      simp only [hac, if_false]
      rw [← hbc]; exact h1
    · simp only [hbc, if_false] at h2
      have h3 := t1 _ _ _ h1 h2
      by_cases hac : a.1 = c.1
      · rw [hac, i1] at h3; cases h3
      · simp only [hac, if_false]; exact h3

theorem pair_total (a b : α × β)
    (tot1 : a.1 = b.1 ∨ l1 a.1 b.1 = true ∨ l1 b.1 a.1 = true)
    (tot2 : a.2 = b.2 ∨ l2 a.2 b.2 = true ∨ l2 b.2 a.2 = true) :
    a = b ∨ f a b = true ∨ f b a = true := by
  rw [hf, hf]
  by_cases hab : a.1 = b.1
  · simp only [hab, if_true]
    rcases tot2 with h | h | h
    · left; exact Prod.ext hab h
    · right; left; exact h
    · right; right; exact h
  · have hba : ¬ b.1 = a.1 := fun h => hab h.symm
    simp only [hab, hba, if_false]
    rcases tot1 with h | h | h
    · exact absurd h hab
    · right; left; exact h
    · right; right; exact h

end pair

/-! ### characters and strings -/

def charLt (x y : Char) : Bool := x.toNat < y.toNat

theorem charLt_irrefl (a : Char) : charLt a a = false := by simp [charLt]
theorem charLt_trans (a b c : Char) : charLt a b = true → charLt b c = true → charLt a c = true := by
  simp only [charLt, decide_eq_true_eq]; omega
theorem charLt_total (a b : Char) : a = b ∨ charLt a b = true ∨ charLt b a = true := by
  simp only [charLt, decide_eq_true_eq]
  by_cases h : a.toNat = b.toNat
  · left; exact Char.toNat_inj.mp h
  · omega

theorem strLt_eq (a b : String) : strLt a b = lexLt charLt a.toList b.toList := rfl

theorem strLt_irrefl (a : String) : strLt a a = false := lexLt_irrefl _ _
theorem strLt_trans (a b c : String) : strLt a b = true → strLt b c = true → strLt a c = true :=
  lexLt_trans charLt charLt_irrefl charLt_trans _ _ _
theorem strLt_total (a b : String) : a = b ∨ strLt a b = true ∨ strLt b a = true := by
  rcases lexLt_total charLt charLt_total a.toList b.toList with h | h | h
  · left; exact String.toList_inj.mp h
  · right; left; exact h
  · right; right; exact h

/-! ### complex keys -/

theorem ckeyLt_eq (a b : CKey) :
    ckeyLt a b = if a.1 = b.1 then lexLt charLt a.2 b.2 else lexLt strLt a.1 b.1 := rfl

theorem ckeyLt_irrefl (a : CKey) : ckeyLt a a = false :=
  pair_irrefl ckeyLt _ _ ckeyLt_eq (lexLt_irrefl charLt) a
theorem ckeyLt_trans (a b c : CKey) : ckeyLt a b = true → ckeyLt b c = true → ckeyLt a c = true :=
  pair_trans ckeyLt _ _ ckeyLt_eq (lexLt_irrefl strLt) (lexLt_trans strLt strLt_irrefl strLt_trans)
    (lexLt_trans charLt charLt_irrefl charLt_trans) a b c
theorem ckeyLt_total (a b : CKey) : a = b ∨ ckeyLt a b = true ∨ ckeyLt b a = true :=
  pair_total ckeyLt _ _ ckeyLt_eq a b (lexLt_total strLt strLt_total _ _) (lexLt_total charLt charLt_total _ _)

/-! ### macrostate keys, member keys -/

theorem mkeyLt_irrefl (a : MKey) : mkeyLt a a = false := lexLt_irrefl _ _
theorem mkeyLt_trans (a b c : MKey) : mkeyLt a b = true → mkeyLt b c = true → mkeyLt a c = true :=
  lexLt_trans ckeyLt ckeyLt_irrefl ckeyLt_trans _ _ _
theorem mkeyLt_total (a b : MKey) : a = b ∨ mkeyLt a b = true ∨ mkeyLt b a = true :=
  lexLt_total ckeyLt ckeyLt_total _ _

theorem memLt_irrefl (a : MemKey) : memLt a a = false := by
  cases a with
  | c k => exact ckeyLt_irrefl k
  | m k => exact mkeyLt_irrefl k
theorem memLt_trans (a b c : MemKey) : memLt a b = true → memLt b c = true → memLt a c = true := by
  cases a <;> cases b <;> cases c <;> simp only [memLt] <;> intro h1 h2
  all_goals first
    | exact ckeyLt_trans _ _ _ h1 h2
    | exact mkeyLt_trans _ _ _ h1 h2
    | trivial
    | cases h1
    | cases h2
theorem memLt_total (a b : MemKey) : a = b ∨ memLt a b = true ∨ memLt b a = true := by
  cases a with
  | c x =>
    cases b with
    | c y =>
      rcases ckeyLt_total x y with h | h | h
      · left; rw [h]
      · right; left; exact h
      · right; right; exact h
    | m y => right; left; rfl
  | m x =>
    cases b with
    | c y => right; right; rfl
    | m y =>
      rcases mkeyLt_total x y with h | h | h
      · left; rw [h]
      · right; left; exact h
      · right; right; exact h

/-! ### reaction keys -/

theorem optStrLt_irrefl (a : Option String) : optStrLt a a = false := by
  cases a with
  | none => rfl
  | some s => exact strLt_irrefl s
theorem optStrLt_trans (a b c : Option String) :
    optStrLt a b = true → optStrLt b c = true → optStrLt a c = true := by
  cases a <;> cases b <;> cases c <;> simp only [optStrLt] <;> intro h1 h2
  all_goals first
    | exact strLt_trans _ _ _ h1 h2
    | cases h1
    | cases h2
theorem optStrLt_total (a b : Option String) (ha : a.isSome) (hb : b.isSome) :
    a = b ∨ optStrLt a b = true ∨ optStrLt b a = true := by
  cases a with
  | none => simp at ha
  | some x =>
    cases b with
    | none => simp at hb
    | some y =>
      rcases strLt_total x y with h | h | h
      · left; rw [h]
      · right; left; exact h
      · right; right; exact h

/-- the tail `(products, type)` of a reaction key -/
def rtailLt (a b : List MemKey × Option String) : Bool :=
  if a.1 = b.1 then optStrLt a.2 b.2 else lexLt memLt a.1 b.1

theorem rtailLt_eq (a b : List MemKey × Option String) :
    rtailLt a b = if a.1 = b.1 then optStrLt a.2 b.2 else lexLt memLt a.1 b.1 := rfl
theorem rkeyLt_eq (a b : RKey) :
    rkeyLt a b = if a.1 = b.1 then rtailLt a.2 b.2 else lexLt memLt a.1 b.1 := rfl

theorem rtailLt_irrefl (a) : rtailLt a a = false := pair_irrefl rtailLt _ _ rtailLt_eq optStrLt_irrefl a
theorem rtailLt_trans (a b c) : rtailLt a b = true → rtailLt b c = true → rtailLt a c = true :=
  pair_trans rtailLt _ _ rtailLt_eq (lexLt_irrefl memLt) (lexLt_trans memLt memLt_irrefl memLt_trans)
    optStrLt_trans a b c

theorem rkeyLt_irrefl (a : RKey) : rkeyLt a a = false := pair_irrefl rkeyLt _ _ rkeyLt_eq rtailLt_irrefl a
theorem rkeyLt_trans (a b c : RKey) : rkeyLt a b = true → rkeyLt b c = true → rkeyLt a c = true :=
  pair_trans rkeyLt _ _ rkeyLt_eq (lexLt_irrefl memLt) (lexLt_trans memLt memLt_irrefl memLt_trans)
    rtailLt_trans a b c
theorem rkeyLt_total (a b : RKey) (ha : a.2.2.isSome) (hb : b.2.2.isSome) :
    a = b ∨ rkeyLt a b = true ∨ rkeyLt b a = true :=
  pair_total rkeyLt _ _ rkeyLt_eq a b (lexLt_total memLt memLt_total _ _)
    (pair_total rtailLt _ _ rtailLt_eq a.2 b.2 (lexLt_total memLt memLt_total _ _) (optStrLt_total _ _ ha hb))

end Dsd.Ord
