/-
Families of malformed PIL statements (C13, negative clause): a missing assignment sign in every statement kind that
has one, and malformed numbers in domain statements; with arbitrary blanks wherever the positive theorems have them.
Each lemma shows that `pil_stmt` FAILS on the text, whatever follows it.
-/
import DsdVerif.Lemmas.PilBad

namespace Dsd.Pil
open Dsd.PP Dsd.Gen

abbrev bl (n : Nat) : List Char := List.replicate n ' '

theorem No_cplx_at_kw (K X : List Char) (hK : K ∈ keywords) (hX : OutHd (fun x => x ∉ identChars) X)
    (hne : stripPrefix ['='] (skipIgn X) = none) : No pil_env 8 {} pil_cplx { rest := K ++ X, past := false } := by
  obtain ⟨c, ks, rfl, _, _, _, hc⟩ := kw_head hK
  have hks : ∀ x ∈ ks, x ∈ identChars := by
    intro x hx
    have := kw_ident _ hK x (List.mem_cons_of_mem _ hx)
    simpa using this
  exact No_cplx_noeq c ks X hc hks hX hne

/-- the line ends fail at a significant character -/
theorem No_eol_at (e : Nat) (x : Char) (r : List Char) (h1 : isWs x = false) (h2 : x ≠ '#') (h3 : x ≠ '\n') :
    No pil_env 3 {} eolG { rest := bl e ++ x :: r, past := false } :=
  (No_many1 (No_suppress (No_lineEnd_cons pil_env {} _ x r
    (by rw [pre_skip]; exact skipIgn_blanks_cons e x r h1 h2) h3))).mono (by decide)

theorem OutHd_bl_succ (P : Char → Prop) (n : Nat) (r : List Char) (h : P ' ') : OutHd P (bl (n + 1) ++ r) :=
  OutHd_blanks_pos P (n + 1) (Nat.succ_pos n) r h

theorem blank_out : (' ' : Char) ∉ identChars := outside_facts ' ' (by decide)

/-! ### a missing assignment sign -/

/-- `length a 5`, `domain a 5`, `sequence a ACGT`: the domain name is not followed by `=` / `:` -/
theorem No_dl_nosign (K : List Char) (hK : K = K_length ∨ K = K_domain ∨ K = K_sequence) (a : Nat) (nc : Char)
    (m : List Char) (st : Bool) (b : Nat) (c : Char) (r : List Char) (hnc : nc ∈ identChars)
    (hm : ∀ x ∈ m, x ∈ identChars) (h1 : isWs c = false) (h2 : c ≠ '#') (h3 : c ≠ '=') (h4 : c ≠ ':') :
    No pil_env 40 {} pil_stmt
      { rest := K ++ (bl (a + 1) ++ (nc :: m ++ (star st ++ (bl (b + 1) ++ c :: r)))), past := false } := by
  have hKm : K ∈ keywords := by rcases hK with rfl | rfl | rfl <;> decide
  have hncf := ident_facts nc hnc
  have d2 := Ok_domain pil_env (a + 1) nc m st (bl (b + 1) ++ c :: r) hnc hm
    (OutHd_bl_succ _ b _ ⟨blank_out, by decide⟩)
  have d3 : No pil_env 5 {} (.suppress pil_assign) { rest := bl (b + 1) ++ c :: r, past := false } :=
    No_assign pil_env _ c r (skipIgn_blanks_cons (b + 1) c r h1 h2) h3 h4
  refine (No_stmt_kw K _ hKm (OutHd_bl_succ _ a _ blank_out) 12 ?_ ?_).mono (by decide)
  · intro L hL
    have : L = tlSl ∨ L = tlDl := by
      rcases hK with rfl | rfl | rfl <;> simp [tailsOf] at hL <;> simp [hL]
    rcases this with rfl | rfl
    · exact (NoSeq_tail d2 (NoSeq_head d3)).mono (by decide)
    · exact (NoSeq_tail d2 (NoSeq_head d3)).mono (by decide)
  · exact (No_cplx_at_kw K _ hKm (OutHd_bl_succ _ a _ blank_out)
      (by rw [List.cons_append]; exact strip_eq_none (a + 1) nc _ hncf.1 hncf.2.1 hncf.2.2.1)).mono (by decide)

/-- `strand s a b`, `sup-sequence s a b`, `complex c a b …`, `structure c a b …`: the name is not followed by
    `=` / `:` -/
theorem No_ident_nosign (K : List Char) (hK : K = K_supseq ∨ K = K_strand ∨ K = K_complex ∨ K = K_structure)
    (a : Nat) (nc : Char) (m : List Char) (b : Nat) (c : Char) (r : List Char) (hnc : nc ∈ identChars)
    (hm : ∀ x ∈ m, x ∈ identChars) (h1 : isWs c = false) (h2 : c ≠ '#') (h3 : c ≠ '=') (h4 : c ≠ ':') :
    No pil_env 40 {} pil_stmt { rest := K ++ (bl (a + 1) ++ (nc :: m ++ (bl (b + 1) ++ c :: r))), past := false } := by
  have hKm : K ∈ keywords := by rcases hK with rfl | rfl | rfl | rfl <;> decide
  have hncf := ident_facts nc hnc
  have d2 : Ok pil_env 1 {} pil_identifier { rest := bl (a + 1) ++ (nc :: m ++ (bl (b + 1) ++ c :: r)), past := false }
      ({ rest := bl (b + 1) ++ c :: r, past := false }, [.tok (String.ofList (nc :: m))]) :=
    Ok_class pil_env identChars (a + 1) nc m _ (fun x hx => hx) hnc hm (OutHd_bl_succ _ b _ blank_out)
  have d3 : No pil_env 5 {} (.suppress pil_assign) { rest := bl (b + 1) ++ c :: r, past := false } :=
    No_assign pil_env _ c r (skipIgn_blanks_cons (b + 1) c r h1 h2) h3 h4
  refine (No_stmt_kw K _ hKm (OutHd_bl_succ _ a _ blank_out) 12 ?_ ?_).mono (by decide)
  · intro L hL
    have : L = tlComp ∨ L = tlComplex ∨ L = tlStruct := by
      rcases hK with rfl | rfl | rfl | rfl <;> simp [tailsOf] at hL <;> simp [hL]
    rcases this with rfl | rfl | rfl
    · exact (NoSeq_tail d2 (NoSeq_head d3)).mono (by decide)
    · exact (NoSeq_tail d2 (NoSeq_head d3)).mono (by decide)
    · exact (NoSeq_tail d2 (NoSeq_head d3)).mono (by decide)
  · exact (No_cplx_at_kw K _ hKm (OutHd_bl_succ _ a _ blank_out)
      (by rw [List.cons_append]; exact strip_eq_none (a + 1) nc _ hncf.1 hncf.2.1 hncf.2.2.1)).mono (by decide)

/-- `state M [a]`, `macrostate M [a]`, `state M : [a]`: the name is not followed by `=` -/
theorem No_rest_nosign (K : List Char) (hK : K = K_state ∨ K = K_macrostate)
    (a : Nat) (nc : Char) (m : List Char) (b : Nat) (c : Char) (r : List Char) (hnc : nc ∈ identChars)
    (hm : ∀ x ∈ m, x ∈ identChars) (h1 : isWs c = false) (h2 : c ≠ '#') (h3 : c ≠ '=') :
    No pil_env 40 {} pil_stmt { rest := K ++ (bl (a + 1) ++ (nc :: m ++ (bl (b + 1) ++ c :: r))), past := false } := by
  have hKm : K ∈ keywords := by rcases hK with rfl | rfl <;> decide
  have hncf := ident_facts nc hnc
  have d2 : Ok pil_env 1 {} pil_identifier { rest := bl (a + 1) ++ (nc :: m ++ (bl (b + 1) ++ c :: r)), past := false }
      ({ rest := bl (b + 1) ++ c :: r, past := false }, [.tok (String.ofList (nc :: m))]) :=
    Ok_class pil_env identChars (a + 1) nc m _ (fun x hx => hx) hnc hm (OutHd_bl_succ _ b _ blank_out)
  have d3 : No pil_env 2 {} (.suppress (.lit ['='])) { rest := bl (b + 1) ++ c :: r, past := false } :=
    No_suppress (No_lit pil_env {} _ _ (by rw [pre_skip]; exact strip_eq_none (b + 1) c r h1 h2 h3))
  refine (No_stmt_kw K _ hKm (OutHd_bl_succ _ a _ blank_out) 12 ?_ ?_).mono (by decide)
  · intro L hL
    have : L = tlRest := by rcases hK with rfl | rfl <;> simp [tailsOf] at hL <;> simp [hL]
    subst this
    exact (NoSeq_tail d2 (NoSeq_head d3)).mono (by decide)
  · exact (No_cplx_at_kw K _ hKm (OutHd_bl_succ _ a _ blank_out)
      (by rw [List.cons_append]; exact strip_eq_none (a + 1) nc _ hncf.1 hncf.2.1 hncf.2.2.1)).mono (by decide)

/-- `X a( b )`: a name that is no keyword and is not followed by `=` -/
theorem No_name_noeq (nc : Char) (m : List Char) (hnk : nc :: m ∉ keywords) (a : Nat) (c : Char) (r : List Char)
    (hnc : nc ∈ identChars) (hm : ∀ x ∈ m, x ∈ identChars) (h1 : isWs c = false) (h2 : c ≠ '#') (h3 : c ≠ '=') :
    No pil_env 40 {} pil_stmt { rest := nc :: m ++ (bl (a + 1) ++ c :: r), past := false } := by
  have hname : nc :: m ≠ [] ∧ ∀ x ∈ nc :: m, x ∈ identChars :=
    ⟨by simp, fun x hx => by rcases List.mem_cons.mp hx with rfl | h; exact hnc; exact hm x h⟩
  exact (No_stmt_name (nc :: m) _ hname hnk (OutHd_bl_succ _ a _ blank_out) 8
    (No_cplx_noeq nc m _ hnc hm (OutHd_bl_succ _ a _ blank_out) (strip_eq_none (a + 1) c r h1 h2 h3))).mono (by decide)

/-! ### malformed numbers in domain statements -/

/-- `length a = 5x`, `length a = 1.5`, `domain a : 7 8`: after the digits of the length, the line does not end -/
theorem No_dl_badnum (K : List Char) (hK : K = K_length ∨ K = K_domain ∨ K = K_sequence) (a : Nat) (nc : Char)
    (m : List Char) (st : Bool) (b : Nat) (sign : Char) (hs : sign = '=' ∨ sign = ':') (cc : Nat) (dc : Char)
    (dm : List Char) (e : Nat) (x : Char) (r : List Char) (hnc : nc ∈ identChars) (hm : ∀ y ∈ m, y ∈ identChars)
    (hdc : dc ∈ pp_nums) (hdm : ∀ y ∈ dm, y ∈ pp_nums) (h1 : isWs x = false) (h2 : x ≠ '#') (h3 : x ≠ '\n')
    (h4 : x ∉ pp_nums) :
    No pil_env 40 {} pil_stmt
      { rest := K ++ dlText (a + 1) nc m st b sign cc (dc :: dm) (bl e ++ x :: r), past := false } := by
  have hKm : K ∈ keywords := by rcases hK with rfl | rfl | rfl <;> decide
  have hncf := ident_facts nc hnc
  have hdf := ident_facts dc (nums_facts dc hdc).1
  unfold dlText
  have d2 := Ok_domain pil_env (a + 1) nc m st _ hnc hm
    (OutHd_sign b sign hs (List.replicate cc ' ' ++ (dc :: dm ++ (bl e ++ x :: r))))
  have d3 := Ok_assign pil_env b sign hs (List.replicate cc ' ' ++ (dc :: dm ++ (bl e ++ x :: r)))
  have d4 : Ok pil_env 3 {} pil_dlength
      { rest := List.replicate cc ' ' ++ (dc :: dm ++ (bl e ++ x :: r)), past := false }
      ({ rest := bl e ++ x :: r, past := false }, [.tok (String.ofList (dc :: dm))]) := by
    unfold pil_dlength pil_number
    exact Ok_alt (OkAlt_head (Ok_class pil_env pp_nums cc dc dm _ (fun y hy => (nums_facts y hy).1) hdc hdm
      (OutHd_blanks _ e (x :: r) (by decide) (OutHd_cons _ x r h4))))
  have d5 := No_eol_at e x r h1 h2 h3
  have d4' := No_class pil_env pp_alphas cc dc (dm ++ (bl e ++ x :: r)) (nums_facts dc hdc).2 hdf.1 hdf.2.1
  refine (No_stmt_kw K _ hKm (OutHd_bl_succ _ a _ blank_out) 12 ?_ ?_).mono (by decide)
  · intro L hL
    have : L = tlSl ∨ L = tlDl := by
      rcases hK with rfl | rfl | rfl <;> simp [tailsOf] at hL <;> simp [hL]
    rcases this with rfl | rfl
    · exact (NoSeq_tail d2 (NoSeq_tail d3 (NoSeq_head (g := pil_constraint) d4'))).mono (by decide)
    · exact (NoSeq_tail d2 (NoSeq_tail d3 (NoSeq_tail d4 (NoSeq_head d5)))).mono (by decide)
  · exact (No_cplx_at_kw K _ hKm (OutHd_bl_succ _ a _ blank_out)
      (by rw [List.cons_append]; exact strip_eq_none (a + 1) nc _ hncf.1 hncf.2.1 hncf.2.2.1)).mono (by decide)

/-- `sequence t = ACGT : 4x`: after the digits of the optional length, the line does not end
    (the constraint does not start with `s` / `l`, the first letters of the length keywords `short` / `long`) -/
theorem No_sl_badnum (a : Nat) (nc : Char) (m : List Char) (st : Bool) (b : Nat) (s1 : Char)
    (hs1 : s1 = '=' ∨ s1 = ':') (cc : Nat) (cn : Char) (cm : List Char) (e : Nat) (s2 : Char)
    (hs2 : s2 = '=' ∨ s2 = ':') (f : Nat) (dc : Char) (dm : List Char) (g : Nat) (x : Char) (r : List Char)
    (hnc : nc ∈ identChars) (hm : ∀ y ∈ m, y ∈ identChars) (hcn : cn ∈ pp_alphas) (hcm : ∀ y ∈ cm, y ∈ pp_alphas)
    (hcs : cn ≠ 's') (hcl : cn ≠ 'l') (hdc : dc ∈ pp_nums) (hdm : ∀ y ∈ dm, y ∈ pp_nums)
    (h1 : isWs x = false) (h2 : x ≠ '#') (h3 : x ≠ '\n') (h4 : x ∉ pp_nums) :
    No pil_env 40 {} pil_stmt
      { rest := K_sequence ++ dlText (a + 1) nc m st b s1 cc (cn :: cm)
          (bl e ++ (s2 :: (bl f ++ (dc :: dm ++ (bl g ++ x :: r))))), past := false } := by
  have hncf := ident_facts nc hnc
  have hcf := ident_facts cn (alphas_facts cn hcn).1
  unfold dlText
  have d2 := Ok_domain pil_env (a + 1) nc m st _ hnc hm
    (OutHd_sign b s1 hs1 (List.replicate cc ' ' ++ (cn :: cm ++ (bl e ++ (s2 :: (bl f ++ (dc :: dm ++ (bl g ++ x :: r))))))))
  have d3 := Ok_assign pil_env b s1 hs1
    (List.replicate cc ' ' ++ (cn :: cm ++ (bl e ++ (s2 :: (bl f ++ (dc :: dm ++ (bl g ++ x :: r)))))))
  have hs2out : s2 ∉ pp_alphas := by rcases hs2 with rfl | rfl <;> decide
  have d4 : Ok pil_env 1 {} pil_constraint
      { rest := List.replicate cc ' ' ++ (cn :: cm ++ (bl e ++ (s2 :: (bl f ++ (dc :: dm ++ (bl g ++ x :: r)))))),
        past := false }
      ({ rest := bl e ++ (s2 :: (bl f ++ (dc :: dm ++ (bl g ++ x :: r)))), past := false },
        [.tok (String.ofList (cn :: cm))]) := by
    unfold pil_constraint
    exact Ok_class pil_env pp_alphas cc cn cm _ (fun y hy => (alphas_facts y hy).1) hcn hcm
      (OutHd_blanks _ e _ (by decide) (OutHd_cons _ s2 _ hs2out))
  have d5 : Ok pil_env 8 {} (.opt (.seq [.suppress pil_assign, pil_number]))
      { rest := bl e ++ (s2 :: (bl f ++ (dc :: dm ++ (bl g ++ x :: r)))), past := false }
      ({ rest := bl g ++ x :: r, past := false }, [.tok (String.ofList (dc :: dm))]) := by
    have n1 := Ok_assign pil_env e s2 hs2 (bl f ++ (dc :: dm ++ (bl g ++ x :: r)))
    have n2 : Ok pil_env 1 {} pil_number { rest := bl f ++ (dc :: dm ++ (bl g ++ x :: r)), past := false }
        ({ rest := bl g ++ x :: r, past := false }, [.tok (String.ofList (dc :: dm))]) := by
      unfold pil_number
      exact Ok_class pil_env pp_nums f dc dm _ (fun y hy => (nums_facts y hy).1) hdc hdm
        (OutHd_blanks _ g (x :: r) (by decide) (OutHd_cons _ x r h4))
    have := Ok_opt_some (Ok_seq (OkSeq_cons n1 (OkSeq_cons n2 (OkSeq_nil pil_env _ _))))
    simp only [List.nil_append, List.append_nil] at this
    exact this.mono (by decide)
  have d6 := No_eol_at g x r h1 h2 h3
  -- the domain-length alternative: the constraint is no length
  have d4' : No pil_env 5 {} pil_dlength
      { rest := List.replicate cc ' ' ++ (cn :: cm ++ (bl e ++ (s2 :: (bl f ++ (dc :: dm ++ (bl g ++ x :: r)))))),
        past := false } := by
    unfold pil_dlength pil_number
    have hsk : (pre {} { rest := List.replicate cc ' ' ++
        (cn :: cm ++ (bl e ++ (s2 :: (bl f ++ (dc :: dm ++ (bl g ++ x :: r)))))), past := false }).rest =
        cn :: (cm ++ (bl e ++ (s2 :: (bl f ++ (dc :: dm ++ (bl g ++ x :: r)))))) := by
      rw [pre_skip, List.cons_append]; exact skipIgn_blanks_cons cc cn _ hcf.1 hcf.2.1
    have n0 := No_class pil_env pp_nums cc cn (cm ++ (bl e ++ (s2 :: (bl f ++ (dc :: dm ++ (bl g ++ x :: r))))))
      (alphas_facts cn hcn).2 hcf.1 hcf.2.1
    have n1 : No pil_env 1 {} (.lit ['s', 'h', 'o', 'r', 't']) _ :=
      No_lit pil_env {} _ _ (by rw [hsk]; simp [stripPrefix, Ne.symm hcs])
    have n2 : No pil_env 1 {} (.lit ['l', 'o', 'n', 'g']) _ :=
      No_lit pil_env {} _ _ (by rw [hsk]; simp [stripPrefix, Ne.symm hcl])
    exact (No_alt (NoAlt_cons n0 (NoAlt_cons n1 (NoAlt_cons n2 (NoAlt_nil pil_env _ _))))).mono (by decide)
  refine (No_stmt_kw K_sequence _ (by decide) (OutHd_bl_succ _ a _ blank_out) 14 ?_ ?_).mono (by decide)
  · intro L hL
    have : L = tlSl ∨ L = tlDl := by simp [tailsOf] at hL; simp [hL]
    rcases this with rfl | rfl
    · exact (NoSeq_tail d2 (NoSeq_tail d3 (NoSeq_tail d4 (NoSeq_tail d5 (NoSeq_head d6))))).mono (by decide)
    · exact (NoSeq_tail d2 (NoSeq_tail d3 (NoSeq_head d4'))).mono (by decide)
  · exact (No_cplx_at_kw K_sequence _ (by decide) (OutHd_bl_succ _ a _ blank_out)
      (by rw [List.cons_append]; exact strip_eq_none (a + 1) nc _ hncf.1 hncf.2.1 hncf.2.2.1)).mono (by decide)

end Dsd.Pil
