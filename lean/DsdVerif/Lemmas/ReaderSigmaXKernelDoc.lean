/-
End-to-end reading of declared systems (C14, "sigma" theorems), part 18: documents with kernel patterns over
composite domains.
-/
import DsdVerif.Lemmas.ReaderSigmaXKernel

namespace Dsd.Sig
open Dsd Dsd.PP Dsd.RState

/-- what a kernel declaration over composite domains means: the expanded names, the structure with the character
    of a composite name copied to each of its domains, and the handles -/
def KDecl.xspec (ds : List Decl) (ss : List SDecl) (k : KDecl) : CSpec :=
  { name := k.name, ns := expNames (xN ds ss) k.ns k.sst, sst := (expSeq (xE ds ss) k.ns k.sst).2,
    seq := (expSeq (xE ds ss) k.ns k.sst).1 }

theorem seqNames_append (w : World) (a b : List (Option Nat)) (na nb : List String) (ha : w.seqNames a = some na)
    (hb : w.seqNames b = some nb) : w.seqNames (a ++ b) = some (na ++ nb) := by
  unfold World.seqNames at ha hb ⊢
  rw [List.mapM_append, ha, hb]; rfl

theorem seqNames_expSeq (w : World) (E : String → List Nat) (N : String → List String) :
    ∀ (ns : List String) (sst : List Char),
      (∀ n ∈ ns, n ≠ "+" → w.seqNames ((E n).map some) = some (N n)) →
      w.seqNames (expSeq E ns sst).1 = some (expNames N ns sst) := by
  intro ns
  induction ns with
  | nil => intro sst _; rfl
  | cons n rest ih =>
    intro sst h
    cases sst with
    | nil => rfl
    | cons c cs =>
      have ih' := ih cs (fun m hm => h m (by simp [hm]))
      by_cases hp : n = "+"
      · subst hp
        simp only [expSeq, expNames, beq_self_eq_true, if_true]
        have : w.seqNames [none] = some ["+"] := rfl
        exact seqNames_append w [none] _ ["+"] _ this ih'
      · have hb : (n == "+") = false := by simpa using hp
        simp only [expSeq, expNames, hb, Bool.false_eq_true, if_false]
        exact seqNames_append w _ _ _ _ (h n (by simp) hp) ih'

theorem expSeq_children (lk : String → Option Nat) (g : String → Nat) (N : String → List String) :
    ∀ (ns : List String) (sst : List Char),
      (∀ n ∈ ns, n ≠ "+" → ∀ x ∈ N n, x ≠ "+" ∧ lk x = some (g x)) →
      ((expSeq (fun n => (N n).map g) ns sst).1.filterMap id).map some =
        ((expNames N ns sst).filter (· != "+")).map lk := by
  intro ns
  induction ns with
  | nil => intro sst _; rfl
  | cons n rest ih =>
    intro sst h
    cases sst with
    | nil => rfl
    | cons c cs =>
      have ih' := ih cs (fun m hm => h m (by simp [hm]))
      by_cases hp : n = "+"
      · subst hp
        simp only [expSeq, expNames, beq_self_eq_true, if_true, List.filterMap_cons, id]
        have : List.filter (fun x => x != "+") ("+" :: expNames N rest cs) =
            List.filter (fun x => x != "+") (expNames N rest cs) := by simp
        rw [this]; exact ih'
      · have hb : (n == "+") = false := by simpa using hp
        simp only [expSeq, expNames, hb, Bool.false_eq_true, if_false, List.filterMap_append, List.map_append,
          List.filter_append]
        rw [ih']
        congr 1
        have hN := h n (by simp) hp
        have hfil : List.filter (fun x => x != "+") (N n) = N n := by
          rw [List.filter_eq_self]; intro x hx; simpa using (hN x hx).1
        rw [hfil, filterMap_some_map, List.map_map]
        apply List.map_congr_left
        intro x hx
        simp only [Function.comp]
        exact ((hN x hx).2).symm

/-- hypotheses on a kernel declaration over composite domains -/
structure XOK (ds : List Decl) (ss : List SDecl) (k : KDecl) : Prop where
  res : resolveKernel (treeSize 1000 k.pat + 2) k.pat = .ok (k.ns, k.sst)
  len : k.ns.length = k.sst.length
  names : ∀ n ∈ k.ns, n ≠ "+" → XName ds ss n
  comp : ∃ n ∈ k.ns, n ≠ "+" ∧ n ∉ domNames ds

theorem xN_facts (ds : List Decl) (hsys : Sys ds) (hplus : ∀ d ∈ ds, d.name ≠ "+") (ss : List SDecl)
    (hss : SSys ds ss) (n : String) (hx : XName ds ss n) :
    ∀ x ∈ xN ds ss n, x ≠ "+" ∧ (dDict ds).lookup x = some (resolveId ds x) := by
  intro x hxm
  have hdom := xN_domNames ds hsys ss hss n hx x hxm
  obtain ⟨k, d, hk, hnd⟩ := (mem_domNames ds x).mp hdom
  obtain ⟨l1, l2⟩ := dDict_lookup ds hsys k d hk
  have hbd := hsys.base d (List.mem_of_getElem? hk)
  constructor
  · rcases hnd with rfl | rfl
    · exact hplus d (List.mem_of_getElem? hk)
    · intro e
      have := star_starred d.name
      rw [e] at this
      revert this; decide
  · unfold resolveId
    rcases hnd with rfl | rfl
    · rw [l1]; rfl
    · rw [l2]; rfl

/-- **reading one kernel line over composite domains** -/
theorem xstep (sl : Slots) (hcd : sl.dom < 4) (hcs : sl.strand < 4) (hcc : sl.cplx < 4) (ds : List Decl)
    (hsys : Sys ds) (ss : List SDecl) (hss : SSys ds ss) (C : List CSpec) (done : List KDecl) (k : KDecl)
    (lines : List Tree) (hk : XOK ds ss k) (hd : Rot.Descr' (k.xspec ds ss).ns (k.xspec ds ss).sst)
    (hname : ∀ c' ∈ C ++ done.map (KDecl.xspec ds ss), c'.name ≠ k.name)
    (hdisj : ∀ c' ∈ C ++ done.map (KDecl.xspec ds ss),
      ∀ x ∈ Rot.orb (Rot.nStr (k.xspec ds ss).ns) (k.xspec ds ss).ns (k.xspec ds ss).sst,
        x ∉ Rot.orb (Rot.nStr c'.ns) c'.ns c'.sst)
    (conc0 : List (Nat × (String × String × String))) (b0 : Nat)
    (hb0 : b0 + done.length = base4 ds ss + (C ++ done.map (KDecl.xspec ds ss)).length)
    (hconc0 : ∀ q ∈ conc0, q.1 < b0) :
    (S4 sl.dom sl.strand sl.cplx ds ss (C ++ done.map (KDecl.xspec ds ss)) (conc0 ++ kConc b0 done)).readDoc
        sl [] [] (.grp k.line :: lines) (D4 ds ss (C ++ done.map (KDecl.xspec ds ss))) =
      (S4 sl.dom sl.strand sl.cplx ds ss (C ++ (done ++ [k]).map (KDecl.xspec ds ss))
          (conc0 ++ kConc b0 (done ++ [k]))).readDoc sl [] [] lines
        (D4 ds ss (C ++ (done ++ [k]).map (KDecl.xspec ds ss))) := by
  have hcs' : C ++ (done ++ [k]).map (KDecl.xspec ds ss) = (C ++ done.map (KDecl.xspec ds ss)) ++ [k.xspec ds ss] := by
    simp
  rw [hcs']
  apply cstep_core sl hcd hcs hcc ds ss (C ++ done.map (KDecl.xspec ds ss)) (k.xspec ds ss) _ _ _ lines _ hname
  -- the first attempt (all names as domains) fails at a composite name
  have hreq : ∀ n ∈ k.ns, n ≠ "+" →
      HereOK (S4 sl.dom sl.strand sl.cplx ds ss (C ++ done.map (KDecl.xspec ds ss)) (conc0 ++ kConc b0 done)) sl n
        (xE ds ss n) :=
    fun n hn hne => hereOK_S4 sl hcd hcs ds hsys ss hss _ _ n (hk.names n hn hne)
  have hdl := domList_fail
    (S4 sl.dom sl.strand sl.cplx ds ss (C ++ done.map (KDecl.xspec ds ss)) (conc0 ++ kConc b0 done)) sl
    (k.ns.filter (· != "+"))
    (by
      intro n hn
      rw [List.mem_filter] at hn
      rcases hreq n hn.1 (by simpa using hn.2) with ⟨id, h1, _⟩ | ⟨h1, _⟩ | ⟨h1, _⟩
      · exact Or.inl ⟨id, h1⟩
      · exact Or.inr h1
      · exact Or.inr h1)
    (by
      obtain ⟨n, hn, hne, hnd⟩ := hk.comp
      refine ⟨n, List.mem_filter.mpr ⟨hn, by simpa using hne⟩, ?_⟩
      rcases hk.names n hn hne with hdm | ⟨hnd', hncd, hne', _⟩
      · exact absurd hdm hnd
      · exact domReq_refused _ sl _ none
          (mkDom_refused_gen _ sl.dom hcd (dObjs ds) rfl n hne' (dObjs_findName_none ds n hnd')
            (dObjs_findName_none ds _ hncd)))
  have hex := expandKernel_same
    (S4 sl.dom sl.strand sl.cplx ds ss (C ++ done.map (KDecl.xspec ds ss)) (conc0 ++ kConc b0 done)) sl (xE ds ss)
    k.ns k.sst hk.len hreq
  have hns : (P4 sl.dom sl.strand sl.cplx ds ss (C ++ done.map (KDecl.xspec ds ss))).world.seqNames (k.xspec ds ss).seq =
      some (k.xspec ds ss).ns :=
    seqNames_expSeq _ (xE ds ss) (xN ds ss) k.ns k.sst
      (fun n hn hne => seqNames_content _ sl.dom (resolveId ds) (xN ds ss n)
        (fun x hx => domObj_S4 sl.dom sl.strand sl.cplx hcd ds hsys ss _ x
          ((mem_domNames ds x).mp (xN_domNames ds hsys ss hss n (hk.names n hn hne) x hx))))
  have hmk := mkCplx_S4 sl.dom sl.strand sl.cplx hcc ds ss (C ++ done.map (KDecl.xspec ds ss)) (k.xspec ds ss) hns hd
    hname hdisj
  have := readLine_xkernel _ sl k hk.res hdl _ _ hex _ _ _ _ hmk
  rw [this]
  congr 1
  rw [kConc_snoc]
  cases hc : k.conc with
  | none => simp only [List.append_nil]; rfl
  | some t =>
    simp only
    unfold setConc S4
    simp only
    have hfil : List.filter (fun p => p.1 != base4 ds ss + (C ++ done.map (KDecl.xspec ds ss)).length)
        (conc0 ++ kConc b0 done) = conc0 ++ kConc b0 done := by
      rw [List.filter_eq_self]
      intro q hq
      rw [List.mem_append] at hq
      have hlt : q.1 < base4 ds ss + (C ++ done.map (KDecl.xspec ds ss)).length := by
        rcases hq with hq | hq
        · have := hconc0 q hq; omega
        · have := kConc_lt _ done q hq; omega
      simp only [bne_iff_ne, ne_eq]
      omega
    rw [hfil]
    have e : conc0 ++ kConc b0 done ++ [(base4 ds ss + (C ++ done.map (KDecl.xspec ds ss)).length, t)] =
        conc0 ++ (kConc b0 done ++ [(b0 + done.length, t)]) := by rw [hb0, List.append_assoc]
    rw [e]

/-! ### whole documents -/

/-- hypotheses on the kernel declarations over composite domains, relative to the complexes `C` read before -/
structure XSys (ds : List Decl) (ss : List SDecl) (C : List CSpec) (xds : List KDecl) : Prop where
  each : ∀ k ∈ xds, XOK ds ss k
  descr : ∀ c ∈ C ++ xds.map (KDecl.xspec ds ss), Rot.Descr' c.ns c.sst
  names : ((C ++ xds.map (KDecl.xspec ds ss)).map (·.name)).Nodup
  nonrot : (C ++ xds.map (KDecl.xspec ds ss)).Pairwise
    (fun a b => (b.ns, b.sst) ∉ Rot.orb (Rot.nStr a.ns) a.ns a.sst)

theorem readDoc_xkernels_tail (sl : Slots) (hcd : sl.dom < 4) (hcs : sl.strand < 4) (hcc : sl.cplx < 4) (ds : List Decl)
    (hsys : Sys ds) (ss : List SDecl) (hss : SSys ds ss) (C : List CSpec)
    (conc0 : List (Nat × (String × String × String))) (hconc0 : ∀ q ∈ conc0, q.1 < base4 ds ss + C.length)
    (tail : List Tree) :
    ∀ (rest done : List KDecl), XSys ds ss C (done ++ rest) →
      (S4 sl.dom sl.strand sl.cplx ds ss (C ++ done.map (KDecl.xspec ds ss))
          (conc0 ++ kConc (base4 ds ss + C.length) done)).readDoc sl [] [] (kdoc rest ++ tail)
          (D4 ds ss (C ++ done.map (KDecl.xspec ds ss))) =
        (S4 sl.dom sl.strand sl.cplx ds ss (C ++ (done ++ rest).map (KDecl.xspec ds ss))
            (conc0 ++ kConc (base4 ds ss + C.length) (done ++ rest))).readDoc sl [] [] tail
          (D4 ds ss (C ++ (done ++ rest).map (KDecl.xspec ds ss))) := by
  intro rest
  induction rest with
  | nil => intro done _; simp [kdoc]
  | cons k rest ih =>
    intro done hs
    have hassoc : done ++ k :: rest = (done ++ [k]) ++ rest := by simp
    have hsplit : C ++ (done ++ k :: rest).map (KDecl.xspec ds ss) =
        (C ++ done.map (KDecl.xspec ds ss)) ++ (k.xspec ds ss :: rest.map (KDecl.xspec ds ss)) := by simp
    have hkmem : k ∈ done ++ k :: rest := by simp
    have hname : ∀ c' ∈ C ++ done.map (KDecl.xspec ds ss), c'.name ≠ k.name := by
      intro c' hc' e
      have hn := hs.names
      rw [hsplit, List.map_append, List.map_cons] at hn
      exact (List.nodup_append.mp hn).2.2 c'.name (List.mem_map_of_mem hc') k.name (by simp [KDecl.xspec]) e
    have hdk : Rot.Descr' (k.xspec ds ss).ns (k.xspec ds ss).sst := hs.descr (k.xspec ds ss) (by rw [hsplit]; simp)
    have hdisj : ∀ c' ∈ C ++ done.map (KDecl.xspec ds ss),
        ∀ x ∈ Rot.orb (Rot.nStr (k.xspec ds ss).ns) (k.xspec ds ss).ns (k.xspec ds ss).sst,
          x ∉ Rot.orb (Rot.nStr c'.ns) c'.ns c'.sst := by
      intro c' hc' x hx hx'
      have hdc : Rot.Descr' c'.ns c'.sst := hs.descr c' (by rw [hsplit]; exact List.mem_append_left _ hc')
      have hp := hs.nonrot
      rw [hsplit] at hp
      have hR := (List.pairwise_append.mp hp).2.2 c' hc' (k.xspec ds ss) (by simp)
      exact hR (orb_meet (c'.ns, c'.sst) ((k.xspec ds ss).ns, (k.xspec ds ss).sst) hdc hdk x hx' hx)
    have hstep := xstep sl hcd hcs hcc ds hsys ss hss C done k (kdoc rest ++ tail) (hs.each k hkmem) hdk hname hdisj
      conc0 (base4 ds ss + C.length) (by simp; omega) hconc0
    have : kdoc (k :: rest) ++ tail = .grp k.line :: (kdoc rest ++ tail) := rfl
    rw [this, hstep, hassoc]
    exact ih (done ++ [k]) (by rw [← hassoc]; exact hs)

/-- **reading a system whose last kernel complexes use composite domains** -/
theorem readDoc_fresh5x (sl : Slots) (hcd : sl.dom < 4) (hcs : sl.strand < 4) (hcc : sl.cplx < 4) (ds : List Decl)
    (hsys : Sys ds) (ss : List SDecl) (hss : SSys ds ss) (cds : List CDecl) (hcs' : CSys ds ss cds)
    (kds : List KDecl) (hks : KSys ds (cds.map (CDecl.spec ds ss)) kds) (xds : List KDecl)
    (hxs : XSys ds ss (cds.map (CDecl.spec ds ss) ++ kds.map (KDecl.spec ds)) xds) (tail : List Tree) :
    ({} : RState).readDoc sl [] [] (doc ds ++ (sdoc ss ++ (cdoc cds ++ (kdoc kds ++ (kdoc xds ++ tail))))) {} =
      (S4 sl.dom sl.strand sl.cplx ds ss
          (cds.map (CDecl.spec ds ss) ++ kds.map (KDecl.spec ds) ++ xds.map (KDecl.xspec ds ss))
          (kConc (base4 ds ss + cds.length) kds ++ kConc (base4 ds ss + (cds.length + kds.length)) xds)).readDoc
        sl [] [] tail
        (D4 ds ss (cds.map (CDecl.spec ds ss) ++ kds.map (KDecl.spec ds) ++ xds.map (KDecl.xspec ds ss))) := by
  rw [readDoc_fresh5_tail sl hcd hcs hcc ds hsys ss hss cds hcs' kds hks (kdoc xds ++ tail)]
  have := readDoc_xkernels_tail sl hcd hcs hcc ds hsys ss hss (cds.map (CDecl.spec ds ss) ++ kds.map (KDecl.spec ds))
    (kConc (base4 ds ss + cds.length) kds)
    (by
      intro q hq
      have := kConc_lt _ kds q hq
      simp only [List.length_append, List.length_map]; omega)
    tail xds [] (by simpa using hxs)
  simp only [List.map_nil, List.append_nil, List.nil_append, List.length_append, List.length_map] at this
  have hk0 : ∀ b, kConc b [] = [] := fun _ => rfl
  rw [hk0, List.append_nil] at this
  exact this

end Dsd.Sig
