/-
The branches of `read_pil_line` on a well-formed world (C16): each keeps the world well-formed and fails with a
declared error only; a line that yields a domain yields one whose complement can be requested.
-/
import DsdVerif.Lemmas.ReaderLine

namespace Dsd.RdL
open Dsd Dsd.PP

/-- what reading a line guarantees -/
def LSpec (r : RState × Except RErr RObj) : Prop :=
  WOK r.1.w ∧ (∀ e, r.2 = .error e → NoFault e) ∧ (∀ id, r.2 = .ok (.dom id) → GoodDom r.1.w id)

theorem LSpec.err {s1 : RState} {e : RErr} (h1 : WOK s1.w) (h3 : NoFault e) : LSpec (s1, .error e) :=
  ⟨h1, (by intro e' h; cases h; exact h3), by intro id h; cases h⟩

theorem LSpec.other {s1 : RState} {o : RObj} (h1 : WOK s1.w) (ho : ∀ id, o ≠ .dom id) : LSpec (s1, .ok o) :=
  ⟨h1, (by intro e' h; cases h), by intro id h; cases h; exact absurd rfl (ho id)⟩

theorem tokList_mem (ts : List Tree) (Q : String → Prop) (h : ∀ t ∈ ts, ∃ s, t = .tok s ∧ Q s) :
    ∀ n ∈ tokList ts, Q n := by
  intro n hn
  unfold tokList at hn
  rw [List.mem_filterMap] at hn
  obtain ⟨t, ht, htn⟩ := hn
  obtain ⟨s, rfl, hs⟩ := h t ht
  simp [tokStr] at htn
  subst htn
  exact hs

theorem nf_pil : NoFault RErr.pilFormat := by intro k; simp
theorem nf_assert : NoFault RErr.assertion := by intro k; simp

theorem readLine_dl (s : RState) (sl : Slots) (hw : WOK s.w) (hsl : SlotsOK sl) (name len : String) (rest : List Tree)
    (hn : GName name) (hl : len = "short" ∨ len = "long" ∨ (len.toNat?).isSome) :
    LSpec (s.readLine sl (.tok "dl-domain" :: .tok name :: .tok len :: rest)) := by
  simp only [RState.readLine]
  have hsome : ∃ l, (if (len == "short") = true then some 5 else if (len == "long") = true then some 15 else len.toNat?) = some l := by
    rcases hl with h | h | h
    · subst h; exact ⟨5, by simp⟩
    · subst h; exact ⟨15, by simp⟩
    · split
      · exact ⟨5, rfl⟩
      · split
        · exact ⟨15, rfl⟩
        · exact Option.isSome_iff_exists.mp h
  obtain ⟨l, hl'⟩ := hsome
  rw [hl']
  simp only
  obtain ⟨a1, a2, a3, a4⟩ := domReq_spec s sl hw hsl name hn.1 (some l)
  generalize s.domReq sl { name := some name, length := some l } = r1 at a1 a2 a3 a4
  obtain ⟨s1, res1⟩ := r1
  cases res1 with
  | error e => exact LSpec.err a1 (a4 e rfl)
  | ok id =>
    refine ⟨a1, (by intro e h; cases h), ?_⟩
    intro id' h
    cases h
    exact (a3 _ rfl).2 hn.2

theorem LSpec.ite (c : Prop) [Decidable c] (a b : RState × Except RErr RObj) (ha : LSpec a) (hb : LSpec b) :
    LSpec (if c then a else b) := by
  split <;> assumption

theorem readLine_sl (s : RState) (sl : Slots) (hw : WOK s.w) (hsl : SlotsOK sl) (name con : String) (rest : List Tree)
    (hn : GName name) :
    LSpec (s.readLine sl (.tok "sl-domain" :: .tok name :: .tok con :: rest)) := by
  simp only [RState.readLine]
  apply LSpec.ite
  · exact LSpec.err hw nf_pil
  · obtain ⟨a1, a2, a3, a4⟩ := domReq_spec s sl hw hsl name hn.1 (some con.length)
    generalize s.domReq sl { name := some name, length := some con.length } = r1 at a1 a2 a3 a4
    obtain ⟨s1, res1⟩ := r1
    cases res1 with
    | error e => exact LSpec.err a1 (a4 e rfl)
    | ok id =>
      refine ⟨a1, (by intro e h; cases h), ?_⟩
      intro id' h
      cases h
      exact (a3 _ rfl).2 hn.2

theorem filterMap_id_map_some (l : List Nat) : (l.map some).filterMap id = l := by
  induction l with
  | nil => rfl
  | cons x xs ih => simp [ih]

theorem readLine_comp (s : RState) (sl : Slots) (hw : WOK s.w) (hsl : SlotsOK sl) (name : String)
    (doms rest : List Tree) (hd : ∀ t ∈ doms, ∃ s, t = .tok s ∧ GName s) :
    LSpec (s.readLine sl (.tok "composite-domain" :: .tok name :: .grp doms :: rest)) := by
  simp only [RState.readLine]
  have hnames := tokList_mem doms GName hd
  obtain ⟨a1, a2, a3, a4⟩ := domList_spec sl hsl (tokList doms) (fun n hn => (hnames n hn).1) s hw
  generalize s.domList sl (tokList doms) = r1 at a1 a2 a3 a4
  obtain ⟨s1, res1⟩ := r1
  cases res1 with
  | error e => exact LSpec.err a1 (a4 e rfl)
  | ok ids =>
    simp only at a1 a2 a3 a4 ⊢
    obtain ⟨_, c2, c3⟩ := a3 ids rfl
    have c3' := c3 (fun n hn => (hnames n hn).2)
    obtain ⟨cr, hc⟩ := class_some s1.w.strands sl.strand a1.lens.2.1 hsl.strand
    have g := mkStrand_grow s1.w sl.strand cr hc (some (ids.map some)) name
    simp only [Option.getD_some, filterMap_id_map_some] at g
    have hw' := g.wok a1 (fun ch hch => (GoodDom.isDom (c3' ch hch)).node a1) (fun _ ch hch => c3' ch hch)
    generalize s1.w.mkStrand sl.strand (some (ids.map some)) (some name) = res at g hw'
    obtain ⟨w', out⟩ := res
    simp only at g hw' ⊢
    cases out with
    | ret i b => exact LSpec.other hw' (by intro id h; cases h)
    | fault kk => exact absurd rfl (g.noFault kk)
    | _ => exact LSpec.err hw' (by intro k; simp [RErr.ofOut])
/-! strand-complex -/

theorem collect_spec (sl : Slots) (hsl : SlotsOK sl) (names : List String) : ∀ (s : RState), WOK s.w →
    WOK (RState.readLine.collect sl s names).1.w ∧ Ext s.w (RState.readLine.collect sl s names).1.w ∧
    (∀ st, (RState.readLine.collect sl s names).2 = .ok st → ∀ ds ∈ st, ∀ d ∈ ds,
      GoodDom (RState.readLine.collect sl s names).1.w d) ∧
    (∀ e, (RState.readLine.collect sl s names).2 = .error e → NoFault e) := by
  induction names with
  | nil =>
    intro s hw
    simp only [RState.readLine.collect]
    exact ⟨hw, Ext.refl _, (by intro st h; cases h; simp), by intro e h; cases h⟩
  | cons n ns ih =>
    intro s hw
    obtain ⟨a1, a2, a3, a4⟩ := strandDomains_spec s sl hw hsl n
    simp only [RState.readLine.collect]
    generalize s.strandDomains sl n = r1 at a1 a2 a3 a4
    obtain ⟨s1, res1⟩ := r1
    cases res1 with
    | error e =>
      simp only at a1 a2 a3 a4 ⊢
      exact ⟨a1, a2, (by intro ids h; cases h), by intro e' h; cases h; exact a4 e rfl⟩
    | ok ds =>
      simp only at a1 a2 a3 a4 ⊢
      obtain ⟨b1, b2, b3, b4⟩ := ih s1 a1
      generalize RState.readLine.collect sl s1 ns = r2 at b1 b2 b3 b4
      obtain ⟨s2, res2⟩ := r2
      cases res2 with
      | error e =>
        simp only at b1 b2 b3 b4 ⊢
        exact ⟨b1, a2.trans b2, (by intro ids h; cases h), by intro e' h; cases h; exact b4 e rfl⟩
      | ok st =>
        simp only at b1 b2 b3 b4 ⊢
        refine ⟨b1, a2.trans b2, ?_, by intro e' h; cases h⟩
        intro st' h
        cases h
        intro ds' hds' d hd
        rcases List.mem_cons.mp hds' with rfl | hds'
        · exact b2.good d (a3 _ rfl d hd)
        · exact b3 st rfl ds' hds' d hd

theorem mem_joinWith_none (st : List (List Nat)) (d : Nat)
    (h : some d ∈ joinWith none (st.map (fun ds => ds.map some))) : ∃ ds ∈ st, d ∈ ds := by
  induction st with
  | nil => simp [joinWith] at h
  | cons x xs ih =>
    cases xs with
    | nil =>
      simp only [List.map_cons, List.map_nil, joinWith, List.mem_map, Option.some.injEq, exists_eq_right] at h
      exact ⟨x, List.mem_cons_self, h⟩
    | cons y ys =>
      simp only [List.map_cons, joinWith, List.mem_append, List.mem_map, Option.some.injEq, exists_eq_right,
        List.mem_cons, reduceCtorEq, false_or] at h
      rcases h with h | h
      · exact ⟨x, List.mem_cons_self, h⟩
      · obtain ⟨ds, hds, hd⟩ := ih (by simpa [joinWith] using h)
        exact ⟨ds, List.mem_cons_of_mem _ hds, hd⟩

/-- the complex request that ends the strand-complex and kernel branches -/
theorem mkCplx_step (s1 : RState) (sl : Slots) (hw : WOK s1.w) (hsl : SlotsOK sl) (seq : List (Option Nat))
    (sst : List Char) (name : String) (hseq : ∀ id, some id ∈ seq → IsDom s1.w id) :
    WOK (s1.w.mkCplx sl.cplx (some seq) sst (some name) none).1 ∧
    (∀ kk, (s1.w.mkCplx sl.cplx (some seq) sst (some name) none).2.1 ≠ .fault kk) := by
  obtain ⟨cr, hc⟩ := class_some s1.w.cplxs sl.cplx hw.lens.2.2.1 hsl.cplx
  have g := mkCplx_grow s1.w sl.cplx cr hc (some seq) sst name
  refine ⟨g.wok hw ?_ (by intro h; cases h), g.noFault⟩
  intro ch hch
  simp only [Option.getD_some, List.mem_filterMap, id_eq, exists_eq_right] at hch
  exact (hseq ch hch).node hw

theorem readLine_strandComplex (s : RState) (sl : Slots) (hw : WOK s.w) (hsl : SlotsOK sl) (name db : String)
    (strands rest : List Tree) :
    LSpec (s.readLine sl (.tok "strand-complex" :: .tok name :: .grp strands :: .tok db :: rest)) := by
  simp only [RState.readLine]
  obtain ⟨a1, a2, a3, a4⟩ := collect_spec sl hsl (tokList strands) s hw
  generalize RState.readLine.collect sl s (tokList strands) = r1 at a1 a2 a3 a4
  obtain ⟨s1, res1⟩ := r1
  cases res1 with
  | error e => exact LSpec.err a1 (a4 e rfl)
  | ok st =>
    cases st with
    | nil => exact LSpec.err a1 nf_pil
    | cons x xs =>
      simp only at a1 a2 a3 a4 ⊢
      obtain ⟨hw', hnf⟩ := mkCplx_step s1 sl a1 hsl
        (joinWith none (List.map (fun ds => List.map some ds) (x :: xs)))
        (List.filter (fun x => x != ' ') db.toList) name (by
          intro id hid
          obtain ⟨ds, hds, hd⟩ := mem_joinWith_none (x :: xs) id hid
          exact (a3 _ rfl ds hds id hd).isDom)
      generalize s1.w.mkCplx sl.cplx (some (joinWith none (List.map (fun ds => List.map some ds) (x :: xs))))
        (List.filter (fun x => x != ' ') db.toList) (some name) none = res at hw' hnf
      obtain ⟨w', out, ids⟩ := res
      simp only at hw' hnf ⊢
      cases out with
      | ret i b => exact LSpec.other hw' (by intro id h; cases h)
      | fault kk => exact absurd rfl (hnf kk)
      | _ => exact LSpec.err hw' (by intro k; simp [RErr.ofOut])

/-! resting-macrostate -/

theorem readLine_resting (s : RState) (sl : Slots) (hw : WOK s.w) (hsl : SlotsOK sl) (name : String)
    (mem rest : List Tree) :
    LSpec (s.readLine sl (.tok "resting-macrostate" :: .tok name :: .grp mem :: rest)) := by
  simp only [RState.readLine]
  obtain ⟨a1, a2, a3, a4⟩ := lookupAll_spec _ .cplx sl.cplx (fun w n hw => lookCplx_grow sl hsl w n hw) (tokList mem) s hw
  generalize s.lookupAll _ (tokList mem) = r1 at a1 a2 a3 a4
  obtain ⟨s1, res1⟩ := r1
  cases res1 with
  | error e => exact LSpec.err a1 (a4 e rfl)
  | ok ids =>
    simp only at a1 a2 a3 a4 ⊢
    obtain ⟨cr, hc⟩ := class_some s1.w.macros sl.macr a1.lens.2.2.2.1 hsl.macr
    have g := mkMacro_grow s1.w sl.macr cr hc (some ids) name
    simp only [Option.getD_some] at g
    have hw' := g.wok a1 (by
      intro ch hch
      obtain ⟨n, hn, hi, _⟩ := a1.objNode .cplx sl.cplx ch (a3 ids rfl ch hch)
      exact ⟨n, hn, hi⟩) (by intro h; cases h)
    generalize s1.w.mkMacro sl.macr (some ids) (some name) = res at g hw'
    obtain ⟨w', out⟩ := res
    simp only at g hw' ⊢
    cases out with
    | ret i b => exact LSpec.other hw' (by intro id h; cases h)
    | fault kk => exact absurd rfl (g.noFault kk)
    | _ => exact LSpec.err hw' (by intro k; simp [RErr.ofOut])
/-! reaction -/

theorem readLine_reaction (s : RState) (sl : Slots) (hw : WOK s.w) (hsl : SlotsOK sl) (info rs ps rest : List Tree) :
    LSpec (s.readLine sl (.tok "reaction" :: .grp info :: .grp rs :: .grp ps :: rest)) := by
  -- only the shape `[grp ty, grp ra, grp un]` of the info box yields a rate
  have hother : LSpec (s, .ok .other) := LSpec.other (o := .other) hw (by intro id h; cases h)
  rcases info with _ | ⟨a, _ | ⟨b, _ | ⟨c, _ | ⟨d, r⟩⟩⟩⟩
  case cons.cons.cons.nil =>
    cases a <;> cases b <;> cases c
    case grp.grp.grp ty0 ra0 un0 =>
      simp only [RState.readLine]
      generalize (tokList ty0).head? = ty
      generalize (tokList ra0).head? = rate
      generalize (tokList un0).head? = units
      cases rate with
      | none => exact hother
      | some ra =>
        simp only
        apply LSpec.ite
        · exact hother
        · -- the look-up function is one of two
          have hlook : ∃ k c, ∀ w n, WOK w →
              Grow w ((if (ty.getD "" == "condensed") = true then fun w n => w.mkMacro sl.macr none (some n)
                  else fun w n => ((w.mkCplx sl.cplx none [] (some n) none).fst,
                    (w.mkCplx sl.cplx none [] (some n) none).snd.fst)) w n).1 k c []
                ((if (ty.getD "" == "condensed") = true then fun w n => w.mkMacro sl.macr none (some n)
                  else fun w n => ((w.mkCplx sl.cplx none [] (some n) none).fst,
                    (w.mkCplx sl.cplx none [] (some n) none).snd.fst)) w n).2 := by
            by_cases hcond : (ty.getD "" == "condensed") = true
            · refine ⟨.macro, sl.macr, ?_⟩
              intro w n hw
              simp only [hcond, if_true]
              exact lookMacro_grow sl hsl w n hw
            · refine ⟨.cplx, sl.cplx, ?_⟩
              intro w n hw
              simp only [hcond]
              exact lookCplx_grow sl hsl w n hw
          obtain ⟨k, c, hf⟩ := hlook
          generalize (if (ty.getD "" == "condensed") = true then fun (w : World) (n : String) => w.mkMacro sl.macr none (some n)
                  else fun w n => ((w.mkCplx sl.cplx none [] (some n) none).fst,
                    (w.mkCplx sl.cplx none [] (some n) none).snd.fst)) = f at hf
          obtain ⟨a1, a2, a3, a4⟩ := lookupAll_spec f k c hf (tokList rs) s hw
          generalize s.lookupAll f (tokList rs) = r1 at a1 a2 a3 a4
          obtain ⟨s1, res1⟩ := r1
          cases res1 with
          | error e => exact LSpec.err a1 (a4 e rfl)
          | ok rids =>
            simp only at a1 a2 a3 a4 ⊢
            obtain ⟨b1, b2, b3, b4⟩ := lookupAll_spec f k c hf (tokList ps) s1 a1
            generalize s1.lookupAll f (tokList ps) = r2 at b1 b2 b3 b4
            obtain ⟨s2, res2⟩ := r2
            cases res2 with
            | error e => exact LSpec.err b1 (b4 e rfl)
            | ok pids =>
              simp only at b1 b2 b3 b4 ⊢
              obtain ⟨cr, hc⟩ := class_some s2.w.rxns sl.rxn b1.lens.2.2.2.2 hsl.rxn
              have g := mkRxn_grow s2.w sl.rxn cr hc rids pids (some (ty.getD "")) none
              have hw' := g.wok b1 (by
                intro ch hch
                rcases List.mem_append.mp hch with hch | hch
                · obtain ⟨n, hn, hi, _⟩ := b1.objNode k c ch (b2.has _ _ _ (a3 rids rfl ch hch))
                  exact ⟨n, hn, hi⟩
                · obtain ⟨n, hn, hi, _⟩ := b1.objNode k c ch (b3 pids rfl ch hch)
                  exact ⟨n, hn, hi⟩) (by intro h; cases h)
              generalize s2.w.mkRxn sl.rxn (some rids) (some pids) (some (ty.getD "")) none = res at g hw'
              obtain ⟨w', out, lists⟩ := res
              simp only at g hw' ⊢
              cases out with
              | ret i b => exact LSpec.other hw' (by intro id h; cases h)
              | fault kk => exact absurd rfl (g.noFault kk)
              | _ => exact LSpec.err hw' (by intro k; simp [RErr.ofOut])
    all_goals (simp only [RState.readLine]; exact hother)
  all_goals (simp only [RState.readLine]; exact hother)
/-! kernel-complex -/

theorem weave_mem (names : List String) : ∀ (ids : List Nat) (id : Nat),
    some id ∈ RState.readLine.weave names ids → id ∈ ids := by
  induction names with
  | nil => intro ids id h; simp [RState.readLine.weave] at h
  | cons n ns ih =>
    intro ids id h
    simp only [RState.readLine.weave] at h
    split at h
    · simp only [List.mem_cons, reduceCtorEq, false_or] at h
      exact ih ids id h
    · cases ids with
      | nil => simp at h
      | cons i is =>
        simp only [List.mem_cons, Option.some.injEq] at h
        rcases h with h | h
        · subst h; exact List.mem_cons_self
        · exact List.mem_cons_of_mem _ (ih is id h)

/-- the end of the kernel branch: the complex request and the optional concentration -/
def ktail (s1 : RState) (sl : Slots) (seq : List (Option Nat)) (sst : List Char) (name : String) (rest : List Tree) :
    RState × Except RErr RObj :=
  match (s1.w.mkCplx sl.cplx (some seq) sst (some name) none).2.1 with
  | .ret id _ =>
    match rest with
    | [.grp [.tok mode, .tok value, .tok unit]] =>
      (({ s1 with w := (s1.w.mkCplx sl.cplx (some seq) sst (some name) none).1 } : RState).setConc id (mode, value, unit),
        .ok (.cplx id))
    | [] => ({ s1 with w := (s1.w.mkCplx sl.cplx (some seq) sst (some name) none).1 }, .ok (.cplx id))
    | _ => ({ s1 with w := (s1.w.mkCplx sl.cplx (some seq) sst (some name) none).1 }, .error .assertion)
  | e => ({ s1 with w := (s1.w.mkCplx sl.cplx (some seq) sst (some name) none).1 }, .error (RErr.ofOut e))

theorem ktail_spec (s1 : RState) (sl : Slots) (hw : WOK s1.w) (hsl : SlotsOK sl) (seq : List (Option Nat))
    (sst : List Char) (name : String) (rest : List Tree) (hseq : ∀ id, some id ∈ seq → IsDom s1.w id) :
    LSpec (ktail s1 sl seq sst name rest) := by
  obtain ⟨hw', hnf⟩ := mkCplx_step s1 sl hw hsl seq sst name hseq
  unfold ktail
  generalize s1.w.mkCplx sl.cplx (some seq) sst (some name) none = res at hw' hnf
  obtain ⟨w', out, ids⟩ := res
  simp only at hw' hnf ⊢
  cases out with
  | ret i b =>
    simp only
    split
    · exact LSpec.other (o := .cplx i) (by simpa [RState.setConc] using hw') (by intro id h; cases h)
    · exact LSpec.other (o := .cplx i) hw' (by intro id h; cases h)
    · exact LSpec.err hw' nf_assert
  | fault kk => exact absurd rfl (hnf kk)
  | _ => exact LSpec.err hw' (by intro k; simp [RErr.ofOut])

theorem readLine_kernel (s : RState) (sl : Slots) (hw : WOK s.w) (hsl : SlotsOK sl) (name : String)
    (pat rest : List Tree) (names : List String) (struct : List Char)
    (hres : resolveKernel (treeSize 1000 pat + 2) pat = .ok (names, struct))
    (hlen : names.length = struct.length) (hnm : ∀ n ∈ names, n ≠ "") :
    LSpec (s.readLine sl (.tok "kernel-complex" :: .tok name :: .grp pat :: rest)) := by
  simp only [RState.readLine, hres]
  obtain ⟨a1, a2, a3, a4⟩ := domList_spec sl hsl (names.filter (fun x => x != "+"))
    (fun n hn => hnm n (List.mem_filter.mp hn).1) s hw
  generalize s.domList sl (names.filter (fun x => x != "+")) = r1 at a1 a2 a3 a4
  obtain ⟨s1, res1⟩ := r1
  cases res1 with
  | ok ids =>
    simp only at a1 a2 a3 a4 ⊢
    exact ktail_spec s1 sl a1 hsl _ struct name rest (fun id hid => ⟨_, (a3 ids rfl).2.1 id (weave_mem names ids id hid)⟩)
  | error e =>
    have hnf := a4 e rfl
    cases e with
    | singleton =>
      simp only at a1 a2 a3 a4 ⊢
      obtain ⟨b1, b2, b3, b4⟩ := expandKernel_spec sl hsl names struct s1 a1 hlen hnm
      generalize s1.expandKernel sl names struct = r2 at b1 b2 b3 b4
      obtain ⟨s2, res2⟩ := r2
      cases res2 with
      | error e2 => exact LSpec.err b1 (b4 e2 rfl)
      | ok p =>
        obtain ⟨seq, sst⟩ := p
        simp only at b1 b2 b3 b4 ⊢
        exact ktail_spec s2 sl b1 hsl seq sst name rest (b3 seq sst rfl)
    | _ => exact LSpec.err a1 hnf

end Dsd.RdL
