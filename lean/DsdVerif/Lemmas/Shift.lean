import DsdVerif.Lemmas.Matcher

namespace Dsd.Bracket


/-- non-crossing fixed-point-free partial involution on [0,N) -/
structure NCI (N : Nat) (M : Nat → Option Nat) : Prop where
  rng : ∀ i j, M i = some j → i < N ∧ j < N ∧ i ≠ j
  inv : ∀ i j, M i = some j → M j = some i
  nocross : ∀ i j k l, M i = some j → M k = some l → i < k → k < j → j < l → False

/-- cyclic shift by p: position i ↦ i - p (i ≥ p) or i + (N - p) (i < p) -/
def sh (N p i : Nat) : Nat := if i < p then i + (N - p) else i - p
def shInv (N p x : Nat) : Nat := if x < N - p then x + p else x - (N - p)

theorem sh_shInv (N p x : Nat) (hp : p ≤ N) (hx : x < N) : sh N p (shInv N p x) = x := by
  unfold sh shInv; split <;> split <;> omega
theorem shInv_sh (N p i : Nat) (hp : p ≤ N) (hi : i < N) : shInv N p (sh N p i) = i := by
  unfold sh shInv; split <;> split <;> omega

def conj (N p : Nat) (M : Nat → Option Nat) : Nat → Option Nat :=
  fun x => if x < N then (M (shInv N p x)).map (sh N p) else none

theorem conj_nci (N p : Nat) (hp : p ≤ N) (M) (h : NCI N M) : NCI N (conj N p M) := by
  obtain ⟨hr, hi, hn⟩ := h
  constructor
  · intro x y hxy
    unfold conj at hxy
    split at hxy
    · rename_i hx
      cases hm : M (shInv N p x) with
      | none => simp [hm] at hxy
      | some j =>
        simp [hm] at hxy
        have := hr _ _ hm
        subst hxy
        refine ⟨hx, ?_, ?_⟩
        · unfold sh; split <;> omega
        · intro e
          have := shInv_sh N p j hp this.2.1
          have h2 : shInv N p x = j := by rw [e]; exact this
          omega
    · simp at hxy
  · intro x y hxy
    unfold conj at hxy ⊢
    split at hxy
    · rename_i hx
      cases hm : M (shInv N p x) with
      | none => simp [hm] at hxy
      | some j =>
        simp [hm] at hxy
        have hb := hr _ _ hm
        subst hxy
        have hlt : sh N p j < N := by unfold sh; split <;> omega
        simp only [hlt, if_true]
        rw [shInv_sh N p j hp hb.2.1, hi _ _ hm]
        simp [sh_shInv N p x hp hx]
    · simp at hxy
  · intro x y k l hxy hkl h1 h2 h3
    unfold conj at hxy hkl
    have hxN : x < N := by
      by_cases h : x < N
      · exact h
      · simp [h] at hxy
    have hkN : k < N := by
      by_cases h : k < N
      · exact h
      · simp [h] at hkl
    simp only [hxN, hkN, if_true] at hxy hkl
    cases hm : M (shInv N p x) with
    | none => simp [hm] at hxy
    | some j =>
      cases hm2 : M (shInv N p k) with
      | none => simp [hm2] at hkl
      | some j2 =>
        simp [hm] at hxy; simp [hm2] at hkl
        have b1 := hr _ _ hm
        have b2 := hr _ _ hm2
        have s1 := hi _ _ hm
        have s2 := hi _ _ hm2
        -- four original points a = shInv x, j, c = shInv k, j2 ; images x < k < y < l
        have c1 := hn (shInv N p x) j (shInv N p k) j2 hm hm2
        have c2 := hn (shInv N p k) j2 (shInv N p x) j hm2 hm
        have c3 := hn j (shInv N p x) j2 (shInv N p k) s1 s2
        have c4 := hn j2 (shInv N p k) j (shInv N p x) s2 s1
        have c5 := hn (shInv N p x) j j2 (shInv N p k) hm s2
        have c6 := hn j2 (shInv N p k) (shInv N p x) j s2 hm
        have c7 := hn j (shInv N p x) (shInv N p k) j2 s1 hm2
        have c8 := hn (shInv N p k) j2 j (shInv N p x) hm2 s1
        subst hxy; subst hkl
        unfold sh shInv at *
        grind




end Dsd.Bracket
