import DsdVerif.Lemmas.Shift

namespace Dsd.Bracket


def sym (M : Nat → Option Nat) (i : Nat) : Sym :=
  match M i with
  | none => .dot
  | some j => if i < j then .op else .cl

def render (N : Nat) (M : Nat → Option Nat) : List Sym := (List.range N).map (sym M)

theorem render_get_some (N M i) (s : Sym) : (render N M)[i]? = some s ↔ i < N ∧ sym M i = s := by
  unfold render
  by_cases h : i < N
  · simp [h]
  · simp [h]

theorem sym_dot (M i) : sym M i = .dot ↔ M i = none := by
  unfold sym; cases M i with
  | none => simp
  | some j => simp; split <;> simp
theorem sym_op (M i) : sym M i = .op ↔ ∃ j, M i = some j ∧ i < j := by
  unfold sym; cases M i with
  | none => simp
  | some j => simp
theorem sym_cl (M i) : sym M i = .cl ↔ ∃ j, M i = some j ∧ ¬ i < j := by
  unfold sym; cases M i with
  | none => simp
  | some j => simp

theorem nci_render_matching (N : Nat) (M) (h : NCI N M) : Matching (render N M) M := by
  obtain ⟨hr, hi, hn⟩ := h
  have hlen : (render N M).length = N := by simp [render]
  constructor
  · intro i hi'
    rw [render_get_some, sym_dot] at hi'
    exact hi'.2
  · intro i hi'
    rw [hlen] at hi'
    cases hm : M i with
    | none => rfl
    | some j => have := hr i j hm; omega
  · intro i hi'
    rw [render_get_some, sym_cl] at hi'
    obtain ⟨hiN, j, hm, hlt⟩ := hi'
    have hb := hr i j hm
    have hs := hi i j hm
    refine ⟨j, by omega, hm, hs, ?_⟩
    rw [render_get_some, sym_op]
    exact ⟨hb.2.1, i, hs, by omega⟩
  · intro i hi'
    rw [render_get_some, sym_op] at hi'
    obtain ⟨hiN, j, hm, hlt⟩ := hi'
    have hb := hr i j hm
    have hs := hi i j hm
    refine ⟨j, hlt, hm, hs, ?_⟩
    rw [render_get_some, sym_cl]
    exact ⟨hb.2.1, i, hs, by omega⟩
  · exact hn

theorem matching_nci (w : List Sym) (M) (h : Matching w M) : NCI w.length M := by
  obtain ⟨hd, ho, hc, hp, hn⟩ := h
  have key : ∀ i j, M i = some j → i < w.length ∧ M j = some i ∧ i ≠ j := by
    intro i j hij
    have hlt : i < w.length := by
      apply Classical.byContradiction; intro h
      rw [ho i (by omega)] at hij; simp at hij
    have hw : w[i]? = some w[i] := List.getElem?_eq_getElem hlt
    cases hs : w[i] with
    | dot => rw [hs] at hw; rw [hd i hw] at hij; simp at hij
    | op =>
      rw [hs] at hw
      obtain ⟨k, h1, h2, h3, _⟩ := hp i hw
      rw [hij] at h2; have := Option.some.inj h2; subst this
      exact ⟨hlt, h3, by omega⟩
    | cl =>
      rw [hs] at hw
      obtain ⟨k, h1, h2, h3, _⟩ := hc i hw
      rw [hij] at h2; have := Option.some.inj h2; subst this
      exact ⟨hlt, h3, by omega⟩
  constructor
  · intro i j hij
    obtain ⟨a, b, c⟩ := key i j hij
    exact ⟨a, (key j i b).1, c⟩
  · intro i j hij; exact (key i j hij).2.1
  · exact hn





end Dsd.Bracket
