/-
End-to-end reading of declared systems (C14, "sigma" theorems), part 2: documents of domain declarations.
The state after reading a list of declarations into the fresh state is computed explicitly.
-/
import DsdVerif.Lemmas.ReaderSigma
import DsdVerif.Props.C17

namespace Dsd.Sig
open Dsd Dsd.PP Dsd.RState

/-! ### declarations -/

/-- a domain declaration: `length n = tk` (`dl-domain`) or `sequence n = seq` (`sl-domain`) -/
inductive Decl
  | dl (n tk : String) (l : Nat)
  | sl (n seq : String)

def Decl.name : Decl → String
  | .dl n _ _ => n
  | .sl n _ => n

def Decl.len : Decl → Nat
  | .dl _ _ l => l
  | .sl _ seq => seq.length

/-- the parsed document line of a declaration -/
def Decl.line : Decl → List Tree
  | .dl n tk _ => [.tok "dl-domain", .tok n, .tok tk]
  | .sl n seq => [.tok "sl-domain", .tok n, .tok seq]

/-- the length token `tk` of a `dl-domain` line denotes `l`: `short` is 5, `long` is 15, a numeral is itself -/
def LenTok (tk : String) (l : Nat) : Prop :=
  (tk = "short" ∧ l = 5) ∨ (tk = "long" ∧ l = 15) ∨ (tk ≠ "short" ∧ tk ≠ "long" ∧ tk.toNat? = some l)

def Decl.OK : Decl → Prop
  | .dl _ tk l => LenTok tk l
  | .sl _ seq => ∀ c ∈ seq.toList, c ∈ Iupac.codes .dna

/-- a base name: non-empty and without a trailing star -/
def BaseName (n : String) : Prop := n ≠ "" ∧ isStarred n = false

def star (n : String) : String := n ++ "*"

/-- the sequence the complement receives -/
def rcOf (seq : String) : String := String.ofList ((Iupac.reverseWcComplement .dna seq.toList).getD [])

/-! ### name facts -/

theorem cnameOf_base (n : String) (h : BaseName n) : cnameOf n = star n := DomL.cnameOf_not n h.2

theorem cnameOf_star (n : String) (h : BaseName n) : cnameOf (star n) = n := by
  have := DomL.cname_cname_of_not n h.2
  rw [DomL.cnameOf_not n h.2] at this; exact this

theorem star_starred (n : String) : isStarred (star n) = true := DomL.isStarred_append_star n

theorem star_ne_empty (n : String) : star n ≠ "" := by
  intro e
  have := congrArg String.toList e
  unfold star at this
  rw [String.toList_append, DomL.toList_star] at this
  simp at this

theorem star_inj (n m : String) (h : star n = star m) : n = m := by
  have := congrArg String.toList h
  unfold star at this
  rw [String.toList_append, String.toList_append, DomL.toList_star] at this
  exact String.ext (List.append_cancel_right this)

theorem base_ne_star (n m : String) (h : BaseName n) : n ≠ star m := by
  intro e
  have := star_starred m
  rw [← e, h.2] at this; cases this

/-! ### lists indexed by the position of the declaration -/

def perDecl {α} (f : Decl → Nat → List α) (ds : List Decl) : List α :=
  ds.zipIdx.flatMap (fun p => f p.1 (2 * p.2))

theorem perDecl_nil {α} (f : Decl → Nat → List α) : perDecl f [] = [] := rfl

theorem perDecl_snoc {α} (f : Decl → Nat → List α) (ds : List Decl) (d : Decl) :
    perDecl f (ds ++ [d]) = perDecl f ds ++ f d (2 * ds.length) := by
  unfold perDecl
  rw [List.zipIdx_append, List.flatMap_append]
  simp

theorem mem_perDecl {α} (f : Decl → Nat → List α) (ds : List Decl) (x : α) :
    x ∈ perDecl f ds ↔ ∃ k d, ds[k]? = some d ∧ x ∈ f d (2 * k) := by
  unfold perDecl
  rw [List.mem_flatMap]
  constructor
  · rintro ⟨⟨d, k⟩, hm, hx⟩
    exact ⟨k, d, List.mem_zipIdx_iff_getElem?.mp hm, hx⟩
  · rintro ⟨k, d, hk, hx⟩
    exact ⟨(d, k), List.mem_zipIdx_iff_getElem?.mpr hk, hx⟩

def dObjs (ds : List Decl) : List (Obj DKey) :=
  perDecl (fun d i => [newDom i d.name d.len, newDom (i + 1) (star d.name) d.len]) ds

def dNodes (c : Nat) (ds : List Decl) : List Node := perDecl (fun _ i => [domNode i c, domNode (i + 1) c]) ds

def dDict (ds : List Decl) : List (String × Nat) := perDecl (fun d i => [(d.name, i), (star d.name, i + 1)]) ds

def dSeq (ds : List Decl) : List (Nat × String) :=
  perDecl (fun d i => match d with
    | .dl _ _ _ => []
    | .sl _ seq => [(i, seq), (i + 1, rcOf seq)]) ds

/-- the explicit world, state and dictionary after reading `ds` into the fresh state -/
def P (cd cs : Nat) (ds : List Decl) : DW :=
  { cd := cd, cs := cs, dobjs := dObjs ds, nodes := dNodes cd ds, held := List.range (2 * ds.length),
    next := 2 * ds.length }

def S (cd cs : Nat) (ds : List Decl) : RState := { w := (P cd cs ds).world, dseq := dSeq ds }

def D (ds : List Decl) : RDict := { domains := dDict ds }

theorem getElem?_lt' {α} (l : List α) (k : Nat) (x : α) (h : l[k]? = some x) : k < l.length :=
  (List.getElem?_eq_some_iff.mp h).1

theorem dObjs_id_lt (ds : List Decl) : ∀ o ∈ dObjs ds, o.id < 2 * ds.length := by
  intro o ho
  obtain ⟨k, d, hk, hx⟩ := (mem_perDecl _ _ _).mp ho
  have := getElem?_lt' _ _ _ hk
  simp only [List.mem_cons, List.not_mem_nil, or_false] at hx
  rcases hx with rfl | rfl <;> simp [newDom] <;> omega

theorem dNodes_id_lt (c : Nat) (ds : List Decl) : ∀ n ∈ dNodes c ds, n.id < 2 * ds.length := by
  intro o ho
  obtain ⟨k, d, hk, hx⟩ := (mem_perDecl _ _ _).mp ho
  have := getElem?_lt' _ _ _ hk
  simp only [List.mem_cons, List.not_mem_nil, or_false] at hx
  rcases hx with rfl | rfl <;> simp [domNode] <;> omega

theorem dSeq_id_lt (ds : List Decl) : ∀ q ∈ dSeq ds, q.1 < 2 * ds.length := by
  intro o ho
  obtain ⟨k, d, hk, hx⟩ := (mem_perDecl _ _ _).mp ho
  have := getElem?_lt' _ _ _ hk
  cases d with
  | dl _ _ _ => simp at hx
  | sl n seq =>
    simp only [List.mem_cons, List.not_mem_nil, or_false] at hx
    rcases hx with rfl | rfl <;> simp <;> omega

/-- the names bound after `ds`: the declared names and their starred complements -/
theorem dObjs_name (ds : List Decl) : ∀ o ∈ dObjs ds, ∃ d ∈ ds, (o.name = d.name ∨ o.name = star d.name) ∧
    o.keys = [o.canon] ∧ o.canon.1 = o.name := by
  intro o ho
  obtain ⟨k, d, hk, hx⟩ := (mem_perDecl _ _ _).mp ho
  have hd : d ∈ ds := List.mem_of_getElem? hk
  simp only [List.mem_cons, List.not_mem_nil, or_false] at hx
  rcases hx with rfl | rfl
  · exact ⟨d, hd, Or.inl rfl, rfl, rfl⟩
  · exact ⟨d, hd, Or.inr rfl, rfl, rfl⟩

theorem dDict_name (ds : List Decl) : ∀ q ∈ dDict ds, ∃ d ∈ ds, q.1 = d.name ∨ q.1 = star d.name := by
  intro o ho
  obtain ⟨k, d, hk, hx⟩ := (mem_perDecl _ _ _).mp ho
  have hd : d ∈ ds := List.mem_of_getElem? hk
  simp only [List.mem_cons, List.not_mem_nil, or_false] at hx
  rcases hx with rfl | rfl
  · exact ⟨d, hd, Or.inl rfl⟩
  · exact ⟨d, hd, Or.inr rfl⟩

/-- a fresh base name differs from every bound name, and so does its complement name -/
theorem fresh_names (ds : List Decl) (hb : ∀ d ∈ ds, BaseName d.name) (n : String) (hn : BaseName n)
    (hf : ∀ d ∈ ds, d.name ≠ n) (d : Decl) (hd : d ∈ ds) :
    d.name ≠ n ∧ star d.name ≠ n ∧ d.name ≠ star n ∧ star d.name ≠ star n := by
  refine ⟨hf d hd, ?_, ?_, ?_⟩
  · intro e; exact base_ne_star n d.name hn e.symm
  · exact base_ne_star d.name n (hb d hd)
  · intro e; exact hf d hd (star_inj _ _ e)

/-! ### pieces of one step -/

theorem dictPut_fresh (d : List (String × Nat)) (n : String) (id : Nat) (h : ∀ q ∈ d, q.1 ≠ n) :
    dictPut d n id = d ++ [(n, id)] := by
  unfold dictPut
  have : d.any (fun p => p.1 == n) = false := by
    rw [List.any_eq_false]
    intro q hq; simpa using h q hq
  simp [this]

theorem find?_snoc_new {α} (l : List α) (x : α) (p : α → Bool) (h : ∀ a ∈ l, p a = false) (hx : p x = true) :
    (l ++ [x]).find? p = some x := by
  rw [List.find?_append]
  have : l.find? p = none := by
    rw [List.find?_eq_none]; intro a ha; simp [h a ha]
  rw [this]; simp [hx]

theorem objName_addDom (p : DW) (hcd : p.cd < 4) (n : String) (l : Nat) (h : ∀ o ∈ p.dobjs, o.id ≠ p.next) :
    objName (p.addDom n l).world.doms p.cd p.next = some n := by
  obtain ⟨cr0, h0, _⟩ := baseDoms_get p.cd hcd
  have hdoms : (p.addDom n l).world.doms = setObjs baseDoms p.cd (p.dobjs ++ [newDom p.next n l]) := rfl
  unfold objName
  rw [hdoms, setObjs_get baseDoms p.cd _ cr0 h0]
  simp only [Option.bind_some, Reg.findId]
  rw [find?_snoc_new _ _ _ (fun a ha => by simpa using h a ha) (by simp [newDom])]
  rfl

theorem domReq_of_mkDom (s : RState) (sl : Slots) (q : DomReq) (w' : World) (id : Nat) (b : Bool)
    (h : s.w.mkDom sl.dom q = (w', .ret id b)) : s.domReq sl q = ({ s with w := w' }, .ok id) := by
  unfold domReq
  rw [h]

/-- what a declaration adds to the sequence table of the state that `domReq` returned -/
def addSeq (d : Decl) (id : Nat) (s1 : RState) : RState :=
  match d with
  | .dl _ _ _ => s1
  | .sl _ seq => { s1 with dseq := (s1.dseq.filter (fun p => p.1 != id)) ++ [(id, seq)] }

theorem readLine_decl (s : RState) (sl : Slots) (d : Decl) (hok : d.OK) (s1 : RState) (id : Nat)
    (h : s.domReq sl { name := some d.name, length := some d.len } = (s1, .ok id)) :
    s.readLine sl d.line = (addSeq d id s1, .ok (.dom id)) := by
  cases d with
  | dl n tk l =>
    simp only [Decl.name, Decl.len] at h
    simp only [Decl.line, addSeq]
    unfold readLine
    rcases hok with ⟨rfl, rfl⟩ | ⟨rfl, rfl⟩ | ⟨h1, h2, h3⟩
    · simp only [beq_self_eq_true, if_true, h]
    · simp [h]
    · simp [h1, h2, h3, h]
  | sl n seq =>
    simp only [Decl.name, Decl.len] at h
    simp only [Decl.line, addSeq]
    unfold readLine
    simp [h]

theorem P_addDom (cd cs : Nat) (ds : List Decl) (d : Decl) :
    ((P cd cs ds).addDom d.name d.len).addDom (star d.name) d.len = P cd cs (ds ++ [d]) := by
  have hc1 : (List.range (2 * ds.length)).contains (2 * ds.length) = false := by simp
  have hc2 : (List.range (2 * ds.length) ++ [2 * ds.length]).contains (2 * ds.length + 1) = false := by simp
  have hr : List.range (2 * (ds.length + 1)) = List.range (2 * ds.length) ++ [2 * ds.length] ++ [2 * ds.length + 1] := by
    have : 2 * (ds.length + 1) = (2 * ds.length).succ.succ := by omega
    rw [this, List.range_succ, List.range_succ]
  simp only [P, DW.addDom, hc1, Bool.false_eq_true, if_false, hc2, dObjs, dNodes, perDecl_snoc, List.length_append,
    List.length_singleton, hr]
  simp
  omega

theorem lookup_none_of {β} (l : List (Nat × β)) (k : Nat) (h : ∀ q ∈ l, q.1 ≠ k) : l.lookup k = none := by
  induction l with
  | nil => rfl
  | cons q qs ih =>
    obtain ⟨a, v⟩ := q
    have h1 : (k == a) = false := by
      have := h (a, v) (by simp); simpa using fun e => this e.symm
    simp only [List.lookup_cons, h1]
    exact ih (fun q hq => h q (by simp [hq]))

theorem range_mem_dDict (ds : List Decl) (i : Nat) (hi : i < 2 * ds.length) : i ∈ (dDict ds).map (·.2) := by
  have hk : i / 2 < ds.length := by omega
  rw [List.mem_map]
  by_cases he : i % 2 = 0
  · refine ⟨(ds[i / 2].name, i), ?_, rfl⟩
    rw [dDict, mem_perDecl]
    refine ⟨i / 2, ds[i / 2], List.getElem?_eq_getElem hk, ?_⟩
    have : 2 * (i / 2) = i := by omega
    simp [this]
  · refine ⟨(star ds[i / 2].name, i), ?_, rfl⟩
    rw [dDict, mem_perDecl]
    refine ⟨i / 2, ds[i / 2], List.getElem?_eq_getElem hk, ?_⟩
    have : 2 * (i / 2) + 1 = i := by omega
    simp [this]

/-- nothing is dropped by the bookkeeping after a line: every handle is in the dictionary -/
theorem keepOnly_S (cd cs : Nat) (hcd : cd < 4) (hcs : cs < 4) (ds : List Decl) (sq : List (Nat × String)) :
    ({ w := (P cd cs ds).world, dseq := sq } : RState).keepOnly [] (D ds) =
      { w := (P cd cs ds).world, dseq := sq } := by
  unfold keepOnly
  have hheld : (P cd cs ds).world.held = List.range (2 * ds.length) := rfl
  have hfil : List.filter (fun h => (([] : List Nat) ++ (D ds).domains.map (·.2) ++ (D ds).strands.map (·.2) ++
      (D ds).complexes.map (·.2) ++ (D ds).macrostates.map (·.2) ++ (D ds).det ++ (D ds).con).contains h)
      (List.range (2 * ds.length)) = List.range (2 * ds.length) := by
    rw [List.filter_eq_self]
    intro i hi
    have := range_mem_dDict ds i (List.mem_range.mp hi)
    simp only [D, List.nil_append, List.map_nil, List.append_nil, List.contains_eq_mem, decide_eq_true_eq]
    exact this
  simp only [hheld, hfil]
  have hw : ({ (P cd cs ds).world with held := List.range (2 * ds.length) } : World) = (P cd cs ds).world := rfl
  rw [hw, collect_DW (P cd cs ds) hcd hcs]
  · intro o ho; exact List.mem_range.mpr (dObjs_id_lt ds o ho)
  · intro o ho; simp [P] at ho
  · intro n hn; exact List.mem_range.mpr (dNodes_id_lt cd ds n hn)

/-! ### one declaration -/

theorem D_snoc (ds : List Decl) (d : Decl) (hb : ∀ x ∈ ds, BaseName x.name) (hn : BaseName d.name)
    (hf : ∀ x ∈ ds, x.name ≠ d.name) :
    putDoms (D ds) d.name (2 * ds.length) (star d.name) (2 * ds.length + 1) = D (ds ++ [d]) := by
  unfold putDoms D
  simp only
  have e1 : dictPut (dDict ds) d.name (2 * ds.length) = dDict ds ++ [(d.name, 2 * ds.length)] := by
    apply dictPut_fresh
    intro q hq
    obtain ⟨x, hx, h1 | h1⟩ := dDict_name ds q hq
    · rw [h1]; exact (fresh_names ds hb d.name hn hf x hx).1
    · rw [h1]; exact (fresh_names ds hb d.name hn hf x hx).2.1
  rw [e1, dictPut_fresh]
  · simp [dDict, perDecl_snoc]
  · intro q hq
    simp only [List.mem_append, List.mem_singleton] at hq
    rcases hq with hq | rfl
    · obtain ⟨x, hx, h1 | h1⟩ := dDict_name ds q hq
      · rw [h1]; exact (fresh_names ds hb d.name hn hf x hx).2.2.1
      · rw [h1]; exact (fresh_names ds hb d.name hn hf x hx).2.2.2
    · exact base_ne_star d.name d.name hn

/-- **reading one declaration** moves the explicit state for `ds` to the explicit state for `ds ++ [d]` -/
theorem step (sl : Slots) (hcd : sl.dom < 4) (cs : Nat) (hcs : cs < 4) (ds : List Decl) (d : Decl) (lines : List Tree)
    (hb : ∀ x ∈ ds, BaseName x.name) (hn : BaseName d.name) (hf : ∀ x ∈ ds, x.name ≠ d.name) (hok : d.OK) :
    (S sl.dom cs ds).readDoc sl [] [] (.grp d.line :: lines) (D ds) =
      (S sl.dom cs (ds ++ [d])).readDoc sl [] [] lines (D (ds ++ [d])) := by
  -- the request for the declared domain
  have hold : ∀ o ∈ (P sl.dom cs ds).dobjs, o.name ≠ d.name ∧ o.name ≠ star d.name := by
    intro o ho
    obtain ⟨x, hx, h1, _⟩ := dObjs_name ds o ho
    obtain ⟨f1, f2, f3, f4⟩ := fresh_names ds hb d.name hn hf x hx
    rcases h1 with h1 | h1 <;> rw [h1]
    · exact ⟨f1, f3⟩
    · exact ⟨f2, f4⟩
  have hkeys : ∀ o ∈ (P sl.dom cs ds).dobjs, ∀ (nm : String) (l : Nat), o.name ≠ nm → (nm, l) ∉ o.keys := by
    intro o ho nm l hne hk
    obtain ⟨_, _, _, h2, h3⟩ := dObjs_name ds o ho
    rw [h2, List.mem_singleton] at hk
    apply hne; rw [← h3, ← hk]
  have hmk := mkDom_DW (P sl.dom cs ds) hcd d.name d.len hn.1 (fun o ho => (hold o ho).1)
    (fun o ho => hkeys o ho _ _ (hold o ho).1)
    (fun o ho e => by rw [cnameOf_base _ hn] at e; exact absurd e (hold o ho).2)
  have hnext : (P sl.dom cs ds).next = 2 * ds.length := rfl
  rw [hnext] at hmk
  have hreq := domReq_of_mkDom (S sl.dom cs ds) sl _ _ _ _ hmk
  have hrl := readLine_decl (S sl.dom cs ds) sl d hok _ _ hreq
  -- its name, as the reader looks it up
  have hidne : ∀ o ∈ (P sl.dom cs ds).dobjs, o.id ≠ (P sl.dom cs ds).next := by
    intro o ho; have := dObjs_id_lt ds o ho; rw [hnext]; omega
  have hn1 := objName_addDom (P sl.dom cs ds) hcd d.name d.len hidne
  rw [hnext] at hn1
  -- the complement
  have hinv := invert_DW ((P sl.dom cs ds).addDom d.name d.len) hcd (2 * ds.length) (newDom (2 * ds.length) d.name d.len)
    (find?_snoc_new _ _ _ (fun n hn' => by
        have := dNodes_id_lt sl.dom ds n hn'; simp; omega) (by simp [domNode, P]))
    (find?_snoc_new _ _ _ (fun o ho => by
        have := dObjs_id_lt ds o ho; simp; omega) (by simp [newDom, P]))
    (by simp only [newDom]; rw [cnameOf_base _ hn]; exact star_ne_empty _)
    (by
      simp only [newDom]; rw [cnameOf_base _ hn]
      intro x hx
      simp only [DW.addDom, List.mem_append, List.mem_singleton] at hx
      rcases hx with hx | rfl
      · exact (hold x hx).2
      · exact base_ne_star d.name d.name hn)
    (by
      simp only [newDom]; rw [cnameOf_base _ hn]
      intro x hx
      simp only [DW.addDom, List.mem_append, List.mem_singleton] at hx
      rcases hx with hx | rfl
      · exact hkeys x hx _ _ (hold x hx).2
      · simp only [newDom, List.mem_singleton, Prod.mk.injEq, not_and]
        intro e; exact absurd e.symm (base_ne_star d.name d.name hn))
    (by
      simp only [newDom]; rw [cnameOf_base _ hn, cnameOf_star _ hn]
      intro x hx hxn
      simp only [DW.addDom, List.mem_append, List.mem_singleton] at hx
      rcases hx with hx | rfl
      · exact absurd hxn (hold x hx).1
      · rfl)
  have hnext1 : ((P sl.dom cs ds).addDom d.name d.len).next = 2 * ds.length + 1 := rfl
  simp only [newDom] at hinv
  rw [cnameOf_base _ hn, hnext1] at hinv
  have hidne1 : ∀ o ∈ ((P sl.dom cs ds).addDom d.name d.len).dobjs, o.id ≠ ((P sl.dom cs ds).addDom d.name d.len).next := by
    intro o ho
    rw [hnext1]
    simp only [DW.addDom, List.mem_append, List.mem_singleton] at ho
    rcases ho with ho | rfl
    · have := dObjs_id_lt ds o ho; omega
    · simp [newDom, P]
  have hn2 := objName_addDom ((P sl.dom cs ds).addDom d.name d.len) hcd (star d.name) d.len hidne1
  rw [hnext1, P_addDom] at hn2
  rw [P_addDom] at hinv
  have hcdd : ((P sl.dom cs ds).addDom d.name d.len).cd = sl.dom := rfl
  rw [hcdd] at hn2
  have hl0 : ∀ k, 2 * ds.length ≤ k → (dSeq ds).lookup k = none := by
    intro k hk
    apply lookup_none_of
    intro q hq; have := dSeq_id_lt ds q hq; omega
  cases d with
  | dl n tk l =>
    have hw1 : (addSeq (Decl.dl n tk l) (2 * ds.length)
        ({ S sl.dom cs ds with w := ((P sl.dom cs ds).addDom (Decl.dl n tk l).name (Decl.dl n tk l).len).world })).w =
        ((P sl.dom cs ds).addDom (Decl.dl n tk l).name (Decl.dl n tk l).len).world := rfl
    rw [readDoc_dom_plain _ sl [] _ lines (D ds) _ _ _ _ _ _ _ hrl (by rw [hw1]; exact hn1) (by rw [hw1]; exact hinv)
      hn2 (by
        have : (addSeq (Decl.dl n tk l) (2 * ds.length)
          ({ S sl.dom cs ds with w := ((P sl.dom cs ds).addDom (Decl.dl n tk l).name (Decl.dl n tk l).len).world })).dseq
            = dSeq ds := rfl
        rw [this, hl0 _ (Nat.le_refl _)]; rfl)]
    rw [D_snoc ds _ hb hn hf]
    have hst : ({ addSeq (Decl.dl n tk l) (2 * ds.length)
          ({ S sl.dom cs ds with w := ((P sl.dom cs ds).addDom (Decl.dl n tk l).name (Decl.dl n tk l).len).world }) with
          w := (P sl.dom cs (ds ++ [Decl.dl n tk l])).world } : RState) =
        { w := (P sl.dom cs (ds ++ [Decl.dl n tk l])).world, dseq := dSeq ds } := rfl
    rw [hst, keepOnly_S sl.dom cs hcd hcs]
    have : dSeq ds = dSeq (ds ++ [Decl.dl n tk l]) := by simp [dSeq, perDecl_snoc]
    rw [this]; rfl
  | sl n seq =>
    obtain ⟨rc, hrc, _, _⟩ := Iupac.wc_sequence_exact .dna seq.toList.reverse
      (fun c hc => hok c (List.mem_reverse.mp hc))
    have hrc' : Iupac.reverseWcComplement .dna seq.toList = some rc := hrc
    have hw1 : (addSeq (Decl.sl n seq) (2 * ds.length)
        ({ S sl.dom cs ds with w := ((P sl.dom cs ds).addDom (Decl.sl n seq).name (Decl.sl n seq).len).world })).w =
        ((P sl.dom cs ds).addDom (Decl.sl n seq).name (Decl.sl n seq).len).world := rfl
    have hfil : List.filter (fun p => p.1 != 2 * ds.length) (dSeq ds) = dSeq ds := by
      rw [List.filter_eq_self]
      intro q hq; have := dSeq_id_lt ds q hq; simp; omega
    have hds : (addSeq (Decl.sl n seq) (2 * ds.length)
        ({ S sl.dom cs ds with w := ((P sl.dom cs ds).addDom (Decl.sl n seq).name (Decl.sl n seq).len).world })).dseq =
        dSeq ds ++ [(2 * ds.length, seq)] := by
      show List.filter (fun p => p.1 != 2 * ds.length) (dSeq ds) ++ [(2 * ds.length, seq)] = _
      rw [hfil]
    rw [readDoc_dom_seq _ sl [] _ lines (D ds) _ _ _ _ _ _ _ seq rc hrl (by rw [hw1]; exact hn1)
      (by rw [hw1]; exact hinv) hn2
      (by rw [hds, List.lookup_append, hl0 _ (Nat.le_refl _)]; simp)
      (by
        rw [hds, List.lookup_append, hl0 _ (by omega)]
        have : (2 * ds.length + 1 == 2 * ds.length) = false := by simp
        simp [List.lookup_cons, this])
      hrc']
    rw [D_snoc ds _ hb hn hf, hds]
    have hst : ({ addSeq (Decl.sl n seq) (2 * ds.length)
          ({ S sl.dom cs ds with w := ((P sl.dom cs ds).addDom (Decl.sl n seq).name (Decl.sl n seq).len).world }) with
          w := (P sl.dom cs (ds ++ [Decl.sl n seq])).world,
          dseq := dSeq ds ++ [(2 * ds.length, seq)] ++ [(2 * ds.length + 1, String.ofList rc)] } : RState) =
        { w := (P sl.dom cs (ds ++ [Decl.sl n seq])).world,
          dseq := dSeq ds ++ [(2 * ds.length, seq)] ++ [(2 * ds.length + 1, String.ofList rc)] } := rfl
    rw [hst, keepOnly_S sl.dom cs hcd hcs]
    have : dSeq ds ++ [(2 * ds.length, seq)] ++ [(2 * ds.length + 1, String.ofList rc)] =
        dSeq (ds ++ [Decl.sl n seq]) := by
      simp [dSeq, perDecl_snoc, rcOf, hrc']
    rw [this]; rfl

/-! ### whole documents -/

/-- the parsed document of a list of declarations -/
def doc (ds : List Decl) : List Tree := ds.map (fun d => Tree.grp d.line)

/-- the hypotheses on a declared system: base names, pairwise distinct, well-formed attributes -/
structure Sys (ds : List Decl) : Prop where
  base : ∀ d ∈ ds, BaseName d.name
  ok : ∀ d ∈ ds, d.OK
  distinct : (ds.map Decl.name).Nodup

theorem readDoc_decls (sl : Slots) (hcd : sl.dom < 4) (cs : Nat) (hcs : cs < 4) :
    ∀ (rest pre : List Decl), Sys (pre ++ rest) →
      (S sl.dom cs pre).readDoc sl [] [] (doc rest) (D pre) = (S sl.dom cs (pre ++ rest), .ok (D (pre ++ rest))) := by
  intro rest
  induction rest with
  | nil => intro pre _; simp [doc, readDoc]
  | cons d rest ih =>
    intro pre hsys
    have hassoc : pre ++ d :: rest = (pre ++ [d]) ++ rest := by simp
    have hnd := hsys.distinct
    rw [List.map_append, List.map_cons] at hnd
    have hf : ∀ x ∈ pre, x.name ≠ d.name := by
      intro x hx e
      have h1 := (List.nodup_append.mp hnd).2.2
      exact h1 x.name (List.mem_map_of_mem hx) d.name (by simp) e
    have hstep := step sl hcd cs hcs pre d (doc rest)
      (fun x hx => hsys.base x (by simp [hx])) (hsys.base d (by simp)) hf (hsys.ok d (by simp))
    have : doc (d :: rest) = .grp d.line :: doc rest := rfl
    rw [this, hstep, hassoc]
    exact ih (pre ++ [d]) (by rw [← hassoc]; exact hsys)

/-- **reading a declared system into the fresh state**: the read succeeds and the resulting state and
    dictionary are the explicit ones -/
theorem readDoc_fresh (sl : Slots) (hcd : sl.dom < 4) (ds : List Decl) (hsys : Sys ds) :
    ({} : RState).readDoc sl [] [] (doc ds) {} = (S sl.dom 0 ds, .ok (D ds)) := by
  have h := readDoc_decls sl hcd 0 (by omega) ds [] (by simpa using hsys)
  have hS : S sl.dom 0 [] = {} := by
    unfold S
    have : P sl.dom 0 [] = { cd := sl.dom, cs := 0 } := rfl
    rw [this, world_empty sl.dom 0 hcd (by omega)]
    rfl
  have hD : D [] = {} := rfl
  rw [hS, hD] at h
  simpa using h

end Dsd.Sig
