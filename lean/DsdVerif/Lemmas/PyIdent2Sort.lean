/-
`sorted` with the raising comparison of canonical forms (Model/PyPreludeIdent2.lean: `Py.formLtM`, `Py.sortedByM`) against the
model's `SetsFull.pySorted` / `memLt` (Model/SetsFull.lean, Model/Objects.lean): AssertionError exactly for a list that holds both
kinds of forms, else the model's stable sort — for lists none of whose forms is the empty macrostate tuple (kernel-checked
counterexample for that one: `sortedByM_empty_macro`).
-/
import DsdVerif.Model.PyPreludeIdent2
import DsdVerif.Model.SetsFull
import DsdVerif.Lemmas.PyIdent2Order

namespace Dsd.PyIdent2
open Dsd Dsd.SetsFull

theorem formLtM_same (a b : MemKey) (h : isCplx a = isCplx b) : Py.formLtM a b = .ok (memLt a b) := by
  cases a with
  | c x => cases b with
    | c y => simp only [Py.formLtM, memLt, ckeyLt_eq]; rfl
    | m y => cases h
  | m x => cases b with
    | c y => cases h
    | m y => simp only [Py.formLtM, memLt, ckeyLt_eq]; rw [seqLt_eq_lexLt']; rfl

theorem formLtM_diff (a b : MemKey) (h : isCplx a ≠ isCplx b) (ha : a ≠ .m []) (hb : b ≠ .m []) :
    Py.formLtM a b = .error .assertion := by
  cases a with
  | c x => cases b with
    | c y => exact absurd rfl h
    | m y => cases y with
      | nil => exact absurd rfl hb
      | cons _ _ => rfl
  | m x => cases b with
    | m y => exact absurd rfl h
    | c y => cases x with
      | nil => exact absurd rfl ha
      | cons _ _ => rfl

/-- both kinds of forms occur among the keys -/
def mixedK {α} (key : α → MemKey) (l : List α) : Bool := l.any (fun x => isCplx (key x)) && l.any (fun x => !isCplx (key x))

theorem mixedK_false_of_all {α} (key : α → MemKey) (b : Bool) (l : List α) (h : ∀ y ∈ l, isCplx (key y) = b) : mixedK key l = false := by
  unfold mixedK
  cases b with
  | true =>
    have : l.any (fun x => !isCplx (key x)) = false := by
      rw [List.any_eq_false]; intro y hy; simp [h y hy]
    simp [this]
  | false =>
    have : l.any (fun x => isCplx (key x)) = false := by
      rw [List.any_eq_false]; intro y hy; simp [h y hy]
    simp [this]

theorem mixedK_true_of {α} (key : α → MemKey) (l : List α) (x y : α) (hx : x ∈ l) (hy : y ∈ l) (h : isCplx (key x) ≠ isCplx (key y)) :
    mixedK key l = true := by
  unfold mixedK
  rw [Bool.and_eq_true, List.any_eq_true, List.any_eq_true]
  cases hkx : isCplx (key x) with
  | true =>
    have hky : isCplx (key y) = false := by
      cases hk : isCplx (key y) with
      | true => rw [hkx, hk] at h; exact absurd rfl h
      | false => rfl
    exact ⟨⟨x, hx, hkx⟩, ⟨y, hy, by simp [hky]⟩⟩
  | false =>
    have hky : isCplx (key y) = true := by
      cases hk : isCplx (key y) with
      | false => rw [hkx, hk] at h; exact absurd rfl h
      | true => rfl
    exact ⟨⟨y, hy, hky⟩, ⟨x, hx, by simp [hkx]⟩⟩

theorem all_of_not_mixedK {α} (key : α → MemKey) (l : List α) (h : mixedK key l = false) : ∃ b, ∀ y ∈ l, isCplx (key y) = b := by
  unfold mixedK at h
  by_cases h1 : l.any (fun x => isCplx (key x)) = true
  · rw [h1, Bool.true_and, List.any_eq_false] at h
    exact ⟨true, fun y hy => by have := h y hy; simpa using this⟩
  · have h1' : l.any (fun x => isCplx (key x)) = false := by simpa using h1
    rw [List.any_eq_false] at h1'
    exact ⟨false, fun y hy => by have := h1' y hy; simpa using this⟩

theorem insertByM_same {α} (key : α → MemKey) (x : α) (s : List α) (h : ∀ y ∈ s, isCplx (key y) = isCplx (key x)) :
    Py.insertByM (fun a b => Py.formLtM (key a) (key b)) x s =
      .ok (insertSorted (fun a b => !memLt (key b) (key a)) x s) := by
  induction s with
  | nil => rfl
  | cons y ys ih =>
    have ih := ih (fun z hz => h z (List.mem_cons_of_mem _ hz))
    simp only [Py.insertByM, formLtM_same _ _ (h y List.mem_cons_self), ih, insertSorted, bind, Except.bind, pure, Except.pure]
    by_cases hc : memLt (key y) (key x) = true <;> simp [hc]

theorem insertByM_diff {α} (key : α → MemKey) (x y : α) (ys : List α) (h : isCplx (key y) ≠ isCplx (key x))
    (hy : key y ≠ .m []) (hx : key x ≠ .m []) :
    Py.insertByM (fun a b => Py.formLtM (key a) (key b)) x (y :: ys) = .error .assertion := by
  simp only [Py.insertByM, formLtM_diff _ _ h hy hx, bind, Except.bind]

/-- **`sorted` over canonical forms of members**: AssertionError exactly when complexes' and macrostates' forms are mixed, else
    the model's stable sort by `memLt` -/
theorem sortedByM_eq {α} (key : α → MemKey) (l : List α) (hne : ∀ y ∈ l, key y ≠ .m []) :
    Py.sortedByM (fun a b => Py.formLtM (key a) (key b)) l =
      if mixedK key l then .error .assertion else .ok (sortBy (fun a b => memLt (key a) (key b)) l) := by
  induction l with
  | nil => rfl
  | cons x xs ih =>
    have ih := ih (fun y hy => hne y (List.mem_cons_of_mem _ hy))
    have hstep : Py.sortedByM (fun a b => Py.formLtM (key a) (key b)) (x :: xs) =
        (Py.sortedByM (fun a b => Py.formLtM (key a) (key b)) xs >>= fun s => Py.insertByM (fun a b => Py.formLtM (key a) (key b)) x s) := rfl
    rw [hstep, ih]
    by_cases hm : mixedK key xs = true
    · have hm' : mixedK key (x :: xs) = true := by
        unfold mixedK at hm ⊢
        rw [Bool.and_eq_true] at hm
        simp [List.any_cons, hm.1, hm.2]
      simp only [hm, hm', if_true]; rfl
    · have hm0 : mixedK key xs = false := by simpa using hm
      obtain ⟨b, hb⟩ := all_of_not_mixedK key xs hm0
      simp only [hm0, Bool.false_eq_true, if_false, bind, Except.bind]
      have hperm := SortL.sortBy_perm (fun a b => memLt (key a) (key b)) xs
      have hsort : sortBy (fun a b => memLt (key a) (key b)) (x :: xs) =
          insertSorted (fun a b => !memLt (key b) (key a)) x (sortBy (fun a b => memLt (key a) (key b)) xs) := rfl
      by_cases hk : isCplx (key x) = b
      · have hall : ∀ y ∈ x :: xs, isCplx (key y) = b := by
          intro y hy
          rcases List.mem_cons.mp hy with rfl | hy
          · exact hk
          · exact hb y hy
        rw [mixedK_false_of_all key b _ hall]
        simp only [Bool.false_eq_true, if_false]
        rw [insertByM_same key x _ (fun y hy => by rw [hk]; exact hb y (hperm.mem_iff.mp hy)), hsort]
      · cases hs : sortBy (fun a b => memLt (key a) (key b)) xs with
        | nil =>
          have hxs : xs = [] := by
            have := hperm.length_eq; rw [hs] at this; exact List.length_eq_zero_iff.mp this.symm
          subst hxs
          rw [mixedK_false_of_all key (isCplx (key x)) [x] (by intro y hy; simp at hy; rw [hy])]
          rfl
        | cons y ys =>
          have hy : y ∈ xs := hperm.mem_iff.mp (by rw [hs]; exact List.mem_cons_self)
          have hd : isCplx (key y) ≠ isCplx (key x) := by rw [hb y hy]; exact fun e => hk e.symm
          rw [mixedK_true_of key (x :: xs) y x (List.mem_cons_of_mem _ hy) List.mem_cons_self hd]
          simp only [if_true]
          exact insertByM_diff key x y ys hd (hne y (List.mem_cons_of_mem _ hy)) (hne x List.mem_cons_self)

/-- `sorted(members, key = lambda y: y.canonical_form)` is the model's `pySorted` -/
theorem sortedMembers_eq (l : List (String × MemKey)) (hne : ∀ y ∈ l, y.2 ≠ .m []) :
    Py.sortedByM (fun a b => Py.formLtM a.2 b.2) l = match pySorted l with | none => .error .assertion | some s => .ok s := by
  rw [sortedByM_eq (fun y : String × MemKey => y.2) l hne]
  unfold pySorted mixed mixedK
  split <;> rfl

/-- `sorted([x.canonical_form for x in members])` is the list of the forms of `pySorted` -/
theorem sortedForms_eq (l : List (String × MemKey)) (hne : ∀ y ∈ l, y.2 ≠ .m []) :
    Py.sortedByM Py.formLtM (l.map (·.2)) = match pySorted l with | none => .error .assertion | some s => .ok (s.map (·.2)) := by
  have h := sortedByM_eq (fun y : MemKey => y) (l.map (·.2)) (by
    intro y hy; obtain ⟨z, hz, rfl⟩ := List.mem_map.mp hy; exact hne z hz)
  rw [h]
  have hmix : mixedK (fun y : MemKey => y) (l.map (·.2)) = mixed l := by
    unfold mixedK mixed; simp [List.any_map, Function.comp_def]
  rw [hmix]
  unfold pySorted
  split
  · rfl
  · rw [← SortL.sortBy_map (fun a : String × MemKey => a.2) memLt l]

/-- the reading of the EMPTY macrostate tuple differs from the model (which treats every complex / macrostate pair as raising):
    `() < (names, structure)` is True in Python without comparing any item.  No empty macrostate can be constructed
    (`MacrostateS([])` raises IndexError resp. AssertionError), so the hypothesis above excludes nothing that occurs. -/
theorem sortedByM_empty_macro :
    Py.sortedByM Py.formLtM [.c (["a"], ['.']), .m []] = .ok [.m [], .c (["a"], ['.'])] ∧
    pySorted [("A", .c (["a"], ['.'])), ("M", .m [])] = none := by decide

end Dsd.PyIdent2
