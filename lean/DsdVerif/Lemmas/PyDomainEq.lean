/-
Towards `py_DomainS_identifiers = DomFull.identifiers`: the representation of the registry `Reg DKey` by the class record `Py.Dom.Cls`
(exact: the dictionaries and the heap ARE the lists read off the live objects), the death of an object on both sides, `len` of a
temporary, and `try … except SingletonError`.
-/
import DsdVerif.Gen.PyDomain
import DsdVerif.Lemmas.PySingleton
import DsdVerif.Model.DomainFull

namespace Dsd.PyDomainEq
open Dsd Dsd.Gen Dsd.PySingletonL

/-- (a) the class record represents the registry exactly: names, canonical keys (each object under all its keys), attributes, `ID` -/
structure RepX (s : Py.Dom.Cls) (r : Reg DKey) : Prop where
  names : s.reg._instanceNames = r.objs.map (fun o => (o.name, o.id))
  canon : s.reg._instanceCanon = r.objs.flatMap (fun o => o.keys.map (fun k => (k, o.id)))
  heap : s.heap = r.objs.map (fun o => (o.id, ({ _name := o.name, _length := some o.canon.2 } : Py.Dom.Obj)))
  id : s.ID = r.autoId

theorem repX_init : RepX {} {} := ⟨rfl, rfl, rfl, rfl⟩

/-- (b) the death of object `id`: `Py.Dom.drop` on the class is `Reg.drop` on the registry -/
theorem repX_drop (s : Py.Dom.Cls) (r : Reg DKey) (h : RepX s r) (id : Nat) :
    (Py.Dom.drop id).exec s = (.ok (), ((Py.Dom.drop id).exec s).2) ∧ RepX ((Py.Dom.drop id).exec s).2 (r.drop id) := by
  refine ⟨rfl, ?_⟩
  show RepX { s with reg := _, heap := _ } _
  obtain ⟨h1, h2, h3, h4⟩ := h
  refine ⟨?_, ?_, ?_, h4⟩
  · show s.reg._instanceNames.filter _ = _
    rw [h1]; unfold Reg.drop
    simp only [List.filter_map]
    rfl
  · show s.reg._instanceCanon.filter _ = _
    rw [h2]; unfold Reg.drop
    simp only
    generalize r.objs = l
    induction l with
    | nil => rfl
    | cons o l ih =>
      simp only [List.flatMap_cons, List.filter_append, ih, List.filter_cons]
      by_cases ho : o.id = id
      · simp [ho, List.filter_map]
      · have : (o.id != id) = true := by simpa using ho
        simp only [this, if_true, List.flatMap_cons, List.filter_map]
        congr 2
        apply List.filter_eq_self.mpr
        intro k _
        simpa using ho
  · show s.heap.filter _ = _
    rw [h3]; unfold Reg.drop
    simp only [List.filter_map]
    rfl

theorem heap_lookup (s : Py.Dom.Cls) (r : Reg DKey) (h : RepX s r) (id : Nat) :
    (s.heap.lookup id).bind (·._length) = (r.findId id).map (fun o => o.canon.2) := by
  rw [h.heap]; unfold Reg.findId
  generalize r.objs = l
  induction l with
  | nil => rfl
  | cons o l ih =>
    by_cases ho : o.id = id
    · subst ho; simp [List.lookup]
    · have h1 : (id == o.id) = false := by simpa using fun e => ho e.symm
      have h2 : (o.id == id) = false := by simpa using ho
      simp only [List.map_cons, List.lookup, h1, List.find?_cons, h2]
      exact ih

/-- `len(<temporary>)`: `Py.Dom.lenTemp` is the model's `lenAndRelease`, when "created" means "is the object `tmp`" -/
theorem lenTemp_eq (s : Py.Dom.Cls) (r : Reg DKey) (h : RepX s r) (tmp id : Nat) (created : Bool) (hc : created = true ↔ id = tmp) :
    ∃ s', RepX s' (DomFull.lenAndRelease r id created).2 ∧
      (Py.Dom.lenTemp tmp id).exec s =
        (match (DomFull.lenAndRelease r id created).1 with | some l => .ok l | none => .error (.fault "TypeError"), s') := by
  unfold Py.Dom.lenTemp Py.Dom.release DomFull.lenAndRelease
  simp only [exec_bind, exec_get, exec_pure]
  rw [heap_lookup s r h id]
  by_cases ht : id = tmp
  · subst ht
    have : created = true := hc.mpr rfl
    subst this
    refine ⟨_, (repX_drop s r h id).2, ?_⟩
    simp only [beq_self_eq_true, if_true, exec_ite]
    rw [(repX_drop s r h id).1]
    cases (r.findId id).map (fun o => o.canon.2) <;> rfl
  · have : created = false := by
      cases created with
      | false => rfl
      | true => exact absurd (hc.mp rfl) ht
    subst this
    have hb : (id == tmp) = false := by simpa using ht
    refine ⟨s, h, ?_⟩
    simp only [hb, Bool.false_eq_true, if_false, exec_ite, exec_pure]
    cases (r.findId id).map (fun o => o.canon.2) <;> rfl

/-- `try: m except SingletonError: …` -/
theorem exec_tryS {α} (m : Py.Dom.M α) (s : Py.Dom.Cls) :
    (Py.Dom.tryS m).exec s = match m.exec s with
      | (.ok a, s') => (.ok (some a), s')
      | (.error (.singleton _), s') => (.ok none, s')
      | (.error e, s') => (.error e, s') := by
  unfold Py.Dom.tryS
  simp only [Py.MS.exec, tryCatch, tryCatchThe, MonadExceptOf.tryCatch, ExceptT.tryCatch, ExceptT.run, ExceptT.mk, Functor.map,
    ExceptT.map, bind, StateT.bind, StateT.run, pure, StateT.pure]
  cases h : m s with
  | mk res s' =>
    cases res with
    | ok a => rfl
    | error e => cases e <;> rfl

end Dsd.PyDomainEq
