/-
Helper lemmas for the strand rotation `rotateOnce` (C07).
Part 1: list facts (`idxOf?`, `splitOn`, `setAll`).
-/
import DsdVerif.Model.Complex
import DsdVerif.Lemmas.Matcher
import DsdVerif.Lemmas.MatchingUnique
import DsdVerif.Lemmas.Render

namespace Dsd.Rot
open Dsd.Bracket

/-! ### idxOf? -/

theorem idxOf?_some {α} [BEq α] [LawfulBEq α] (l : List α) (a : α) (p : Nat)
    (h : l.idxOf? a = some p) :
    p < l.length ∧ l[p]? = some a ∧ ∀ j, j < p → l[j]? ≠ some a := by
  unfold List.idxOf? at h
  rw [List.findIdx?_eq_some_iff_getElem] at h
  obtain ⟨hp, h1, h2⟩ := h
  refine ⟨hp, ?_, ?_⟩
  · rw [List.getElem?_eq_getElem hp]; simp at h1; rw [h1]
  · intro j hj e
    have hjl : j < l.length := by omega
    have := h2 j hj
    rw [List.getElem?_eq_getElem hjl] at e
    simp at this e
    exact this e

theorem idxOf?_split {α} [BEq α] [LawfulBEq α] (l : List α) (a : α) (p : Nat)
    (h : l.idxOf? a = some p) :
    l = l.take p ++ a :: l.drop (p + 1) ∧ a ∉ l.take p := by
  obtain ⟨hp, h1, h2⟩ := idxOf?_some l a p h
  constructor
  · have : l[p] = a := by
      rw [List.getElem?_eq_getElem hp] at h1; exact Option.some.inj h1
    rw [← this, ← List.drop_eq_getElem_cons hp, List.take_append_drop]
  · intro hm
    rw [List.mem_iff_getElem?] at hm
    obtain ⟨j, hj⟩ := hm
    rw [List.getElem?_take] at hj
    split at hj
    · rename_i hlt; exact h2 j hlt hj
    · simp at hj

theorem idxOf?_isSome_of_mem {α} [BEq α] [LawfulBEq α] (l : List α) (a : α) (h : a ∈ l) :
    ∃ p, l.idxOf? a = some p := by
  cases e : l.idxOf? a with
  | some p => exact ⟨p, rfl⟩
  | none =>
    exfalso
    unfold List.idxOf? at e
    rw [List.findIdx?_eq_none_iff] at e
    have := e a h
    simp at this

/-! ### splitOn -/

theorem splitOn_ne_nil {α} [DecidableEq α] (sep : α) (l : List α) : splitOn sep l ≠ [] := by
  induction l with
  | nil => simp [splitOn]
  | cons c cs ih =>
    unfold splitOn
    split
    · simp
    · split <;> simp

theorem splitOn_not_mem {α} [DecidableEq α] (sep : α) (l : List α) (h : sep ∉ l) :
    splitOn sep l = [l] := by
  induction l with
  | nil => simp [splitOn]
  | cons c cs ih =>
    have hc : c ≠ sep := by intro e; subst e; simp at h
    have hcs : sep ∉ cs := by intro e; apply h; simp [e]
    unfold splitOn
    rw [ih hcs]
    simp [hc]

theorem splitOn_cons_ne {α} [DecidableEq α] (sep c : α) (cs s : List α) (ss : List (List α))
    (hc : c ≠ sep) (h : splitOn sep cs = s :: ss) : splitOn sep (c :: cs) = (c :: s) :: ss := by
  unfold splitOn
  rw [h]
  simp [hc]

theorem splitOn_append_sep {α} [DecidableEq α] (sep : α) (a b : List α) :
    splitOn sep (a ++ sep :: b) = splitOn sep a ++ splitOn sep b := by
  induction a with
  | nil => simp [splitOn]
  | cons c cs ih =>
    simp only [List.cons_append]
    by_cases hc : c = sep
    · subst hc
      simp [splitOn, ih]
    · cases hs : splitOn sep cs with
      | nil => exact absurd hs (splitOn_ne_nil sep cs)
      | cons s ss =>
        rw [splitOn_cons_ne sep c cs s ss hc hs,
          splitOn_cons_ne sep c _ s (ss ++ splitOn sep b) hc (by rw [ih, hs]; rfl)]
        rfl

/-! ### the name list returned by `rotateOnce` -/

theorem rotateOnce_fst (seq : List String) (sst : List Char) (r : List String × List Char) (p : Nat)
    (h : rotateOnce seq sst = .ok r) (hp : seq.idxOf? "+" = some p) :
    r.1 = seq.drop (p + 1) ++ ["+"] ++ seq.take p := by
  unfold rotateOnce at h
  rw [hp] at h
  simp only at h
  split at h
  · cases h
  · split at h
    · cases h
    · cases h; rfl

end Dsd.Rot
