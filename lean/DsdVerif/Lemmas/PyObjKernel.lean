/-
`kernel_string` of the translated `ComplexS` object (Gen/PyComplexS.lean): the model's kernel string (its own file, so that
C12 depends on this method only).
-/
import DsdVerif.Lemmas.PyObjDefs
import DsdVerif.Lemmas.LegacyViews

set_option linter.unusedSimpArgs false

namespace Dsd.PyObj.Kernel
open Dsd Gen

/-! ### running the monad -/

section exec
variable {σ α β : Type}

theorem exec_pure (a : α) (s : σ) : (pure a : Py.MS σ α).exec s = (.ok a, s) := rfl

theorem exec_bind (m : Py.MS σ α) (f : α → Py.MS σ β) (s : σ) :
    (m >>= f).exec s = match m.exec s with
      | (.ok a, s') => (f a).exec s'
      | (.error e, s') => (.error e, s') := by
  simp only [Py.MS.exec, ExceptT.run, bind, ExceptT.bind, ExceptT.mk, StateT.bind, StateT.run]
  cases h : m s with
  | mk r s' => cases r <;> rfl

theorem exec_get (s : σ) : (get : Py.MS σ σ).exec s = (.ok s, s) := rfl

theorem exec_modify (f : σ → σ) (s : σ) : (modify f : Py.MS σ Unit).exec s = (.ok (), f s) := rfl

theorem exec_throw (e : Err) (s : σ) : (throw e : Py.MS σ α).exec s = (.error e, s) := rfl

theorem exec_lift (x : Except Err α) (s : σ) : (liftM x : Py.MS σ α).exec s = (x, s) := by
  cases x <;> rfl

theorem exec_monadLift (x : Except Err α) (s : σ) : (monadLift x : Py.MS σ α).exec s = (x, s) := by
  cases x <;> rfl

end exec


theorem exec_ite {σ α : Type} (c : Prop) [Decidable c] (a b : Py.MS σ α) (s : σ) :
    (if c then a else b).exec s = if c then a.exec s else b.exec s := by split <;> rfl

theorem unwrap_some {α} (x : α) : Py.unwrap (some x) = .ok x := rfl

theorem idx_eq {α} (l : List α) (i : Nat) :
    Py.idx l i = match l[i]? with | some x => .ok x | none => .error (.fault "IndexError") := by
  unfold Py.idx; cases l[i]? <;> rfl

/-! ### `kernel_string` -/

theorem sp_toList : (" " : String).toList = [' '] := by decide

theorem kernel_step (seq : List String) (sst : List Char) (i : Nat) (knl : List Char) (s : ComplexS.Self)
    (h1 : i < seq.length) (h2 : i < sst.length) :
    (ComplexS_kernel_string.loop1 { seq := seq, sst := sst, knl := knl } i).exec s =
      (.ok { seq := seq, sst := sst, knl := knl ++ (LgL.tokC (seq[i], sst[i]) ++ [' ']) }, s) := by
  have hg2 : sst[i]? = some sst[i] := List.getElem?_eq_getElem h2
  have hg1 : seq[i]? = some seq[i] := List.getElem?_eq_getElem h1
  unfold ComplexS_kernel_string.loop1
  simp only [exec_bind, exec_lift, idx_eq, hg1, hg2, exec_pure, exec_ite, sp_toList]
  by_cases c1 : sst[i] = '+'
  · simp [c1, LgL.tokC]
  · by_cases c2 : sst[i] = ')'
    · simp [c2, LgL.tokC]
    · by_cases c3 : sst[i] = '('
      · simp [c3, LgL.tokC]
      · simp [c1, c2, c3, LgL.tokC]

theorem kernel_loop_spec (seq : List String) (sst : List Char) : ∀ (k i : Nat) (knl : List Char) (s : ComplexS.Self),
    i + k ≤ seq.length → i + k ≤ sst.length →
    (List.foldlM ComplexS_kernel_string.loop1 { seq := seq, sst := sst, knl := knl } (List.range' i k)).exec s =
      (.ok { seq := seq, sst := sst, knl := knl ++
        ((((seq.drop i).take k).zip ((sst.drop i).take k)).map (fun p => LgL.tokC p ++ [' '])).flatten }, s) := by
  intro k
  induction k with
  | zero => intro i knl s _ _; simp [List.foldlM, exec_pure]
  | succ k ih =>
    intro i knl s h1 h2
    have hi1 : i < seq.length := by omega
    have hi2 : i < sst.length := by omega
    have hs1 : (seq.drop i).take (k + 1) = seq[i] :: (seq.drop (i + 1)).take k := by
      rw [List.drop_eq_getElem_cons hi1, List.take_succ_cons]
    have hs2 : (sst.drop i).take (k + 1) = sst[i] :: (sst.drop (i + 1)).take k := by
      rw [List.drop_eq_getElem_cons hi2, List.take_succ_cons]
    rw [List.range'_succ, hs1, hs2]
    simp only [List.foldlM, exec_bind, kernel_step seq sst i knl s hi1 hi2]
    rw [ih (i + 1) _ s (by omega) (by omega)]
    simp [List.append_assoc]

theorem exec_kernel_string (s : ComplexS.Self) (h : s._sequence.length = s._structure.length) :
    py_ComplexS_kernel_string.exec s = (.ok (kernelString s._sequence s._structure).toList, s) := by
  unfold py_ComplexS_kernel_string
  simp only [exec_bind, exec_get, exec_pure]
  have := kernel_loop_spec s._sequence s._structure s._sequence.length 0 [] s (by omega) (by omega)
  rw [List.range_eq_range']
  rw [this]
  simp only [List.drop_zero, List.take_length, List.nil_append]
  have e : s._structure.take s._sequence.length = s._structure := by rw [h]; exact List.take_length
  rw [e, LgL.kernelString_toList']
  have := LgL.dropLast_flatten_sp ((s._sequence.zip s._structure).map LgL.tokC)
  rw [List.map_map] at this
  rw [← this]
  rfl

theorem view_kernel (s : ComplexS.Self) (canon : CKey) (h : PCoh s) :
    ViewOk s .kernel (C03.qSpec (toObj s canon) .kernel) := by
  simp only [ViewOk, pyQuery, pyAnswer, exec_bind, exec_pure, exec_kernel_string s h.len, C03.qSpec, toObj,
    String.ofList_toList]
  exact ⟨h, SameRepS.refl _, trivial⟩

end Dsd.PyObj.Kernel

#print axioms Dsd.PyObj.Kernel.exec_kernel_string
#print axioms Dsd.PyObj.Kernel.view_kernel
