import DsdVerif.Lemmas.PySplit

/-!
`rotate_complex_pt(stab, ptab)` with `turns = None` as written in the source (`Gen.py_rotate_complex_pt … none`, the list of the
values the generator yields, recursion bounded by `fuel`) is the model's `rotationsPt`.
-/
namespace Dsd.PyEq
open Dsd

abbrev RVars := Gen.rotate_complex_pt.Vars

theorem py_wrap_nat_eq (a m : Nat) (hm : 0 < m) : Gen.py_wrap_nat a m = .ok (wrap (a : Int) m) := by
  have h0 : m ≠ 0 := by omega
  simp only [Gen.py_wrap_nat, Py.mod, h0, if_false, bind, Except.bind, pure, Except.pure, wrap]
  congr 1

theorem py_rotate_locus_eq (stab : List (List String)) (ptab : PairTable) (turns : Option Nat) (x : Option Locus)
    (h : 0 < ptab.length) :
    Gen.rotate_complex_pt.rotate_locus stab ptab turns x 1 = .ok (rotateLocus ptab.length 1 x) := by
  cases x with
  | none => rfl
  | some p =>
    simp [Gen.rotate_complex_pt.rotate_locus, Py.unwrap, py_wrap_nat_eq _ _ h, bind, Except.bind, pure, Except.pure,
      rotateLocus]

theorem rloop1_fold (recur stab ptab turns) (v : RVars) (xs : Parts) :
    List.foldlM (Gen.rotate_complex_pt.loop1 recur stab ptab turns) v xs = .ok { v with yielded := v.yielded ++ xs } := by
  induction xs generalizing v with
  | nil => simp [pure, Except.pure]
  | cons x xs ih =>
    simp only [List.foldlM_cons]
    have : Gen.rotate_complex_pt.loop1 recur stab ptab turns v x = .ok { v with yielded := v.yielded ++ [x] } := by
      simp [Gen.rotate_complex_pt.loop1, pure, Except.pure]
    rw [this]
    simp only [bind, Except.bind]
    rw [ih]
    simp

theorem rot_zero (f : Nat) (stab : List (List String)) (ptab : PairTable) :
    Gen.py_rotate_complex_pt (f + 1) stab ptab (some 0) = .ok [] := by
  rw [Gen.py_rotate_complex_pt]
  simp [Py.unwrap, bind, Except.bind, pure, Except.pure]
  rfl

theorem rot_step (f k : Nat) (stab : List (List String)) (ptab : PairTable) (hk : k + 1 < ptab.length)
    (hs : stab ≠ []) :
    Gen.py_rotate_complex_pt (f + 1) stab ptab (some (k + 1)) =
      (Gen.py_rotate_complex_pt f (rotatePtOnce stab ptab).1 (rotatePtOnce stab ptab).2 (some k)).map
        (fun r => rotatePtOnce stab ptab :: r) := by
  have h1 : 1 < ptab.length := by omega
  have hne : ptab ≠ [] := by intro e; rw [e] at h1; simp at h1
  have hls : Py.last stab = .ok (stab.getLast hs) := by
    simp [Py.last, List.getLast?_eq_some_getLast hs]; rfl
  have hlp : Py.last ptab = .ok (ptab.getLast hne) := by
    simp [Py.last, List.getLast?_eq_some_getLast hne]; rfl
  have hmap : List.mapM (fun y => List.mapM (fun x => Gen.rotate_complex_pt.rotate_locus
        ([stab.getLast hs] ++ stab.dropLast) ptab (some (k + 1)) x 1) y) ([ptab.getLast hne] ++ ptab.dropLast) =
      .ok (([ptab.getLast hne] ++ ptab.dropLast).map (fun y => y.map (rotateLocus ptab.length 1))) := by
    apply mapM_ok
    intro y _
    apply mapM_ok
    intro x _
    exact py_rotate_locus_eq _ _ _ _ (by omega)
  have hrot : rotatePtOnce stab ptab = ([stab.getLast hs] ++ stab.dropLast,
      ([ptab.getLast hne] ++ ptab.dropLast).map (fun y => y.map (rotateLocus ptab.length 1))) := by
    simp [rotatePtOnce, h1, List.getLast?_eq_some_getLast hs, List.getLast?_eq_some_getLast hne]
  have hneq : ¬ (k + 1 = ptab.length) := by omega
  have hdef : (default : Parts) = [] := rfl
  rw [Gen.py_rotate_complex_pt, hrot]
  simp only [Py.unwrap, bind, Except.bind, pure, Except.pure, hls, hlp, hmap, Py.sub]
  simp only [h1, hneq, hdef, gt_iff_lt, Nat.zero_lt_succ, decide_true, Bool.true_and, ne_eq, Option.some.injEq,
    not_false_eq_true, bne_iff_ne, if_true, Nat.le_add_left, Nat.add_sub_cancel, List.nil_append]
  generalize Gen.py_rotate_complex_pt f _ _ (some k) = res
  cases res with
  | error e => rfl
  | ok r => simp [rloop1_fold, Except.map]

theorem rotatePtOnce_len (stab : List (List String)) (ptab : PairTable) :
    (rotatePtOnce stab ptab).2.length = ptab.length := by
  unfold rotatePtOnce
  split
  · rename_i h
    have hne : ptab ≠ [] := by intro e; rw [e] at h; simp at h
    simp [List.getLast?_eq_some_getLast hne]
    omega
  · rfl

theorem rotatePtOnce_ne (stab : List (List String)) (ptab : PairTable) (hs : stab ≠ []) :
    (rotatePtOnce stab ptab).1 ≠ [] := by
  unfold rotatePtOnce
  split
  · simp [List.getLast?_eq_some_getLast hs]
  · exact hs

/-- the recursive calls: `turns = k` below the number of strands -/
theorem rot_go (k : Nat) : ∀ (fuel : Nat) (stab : List (List String)) (ptab : PairTable),
    k < fuel → k < ptab.length → stab ≠ [] →
    Gen.py_rotate_complex_pt fuel stab ptab (some k) = .ok (rotationsPt.go k (stab, ptab)) := by
  induction k with
  | zero =>
    intro fuel stab ptab hf _ _
    obtain ⟨f, rfl⟩ : ∃ f, fuel = f + 1 := ⟨fuel - 1, by omega⟩
    rw [rot_zero]; rfl
  | succ k ih =>
    intro fuel stab ptab hf hk hs
    obtain ⟨f, rfl⟩ : ∃ f, fuel = f + 1 := ⟨fuel - 1, by omega⟩
    rw [rot_step f k stab ptab hk hs, ih f _ _ (by omega) (by rw [rotatePtOnce_len]; omega) (rotatePtOnce_ne _ _ hs)]
    rfl

/-- **`rotate_complex_pt(stab, ptab)` (`turns = None`) as written in the source is the model's `rotationsPt`**: all the
    rotations, starting with the unrotated complex, whenever the strand table is not empty (`stab[-1]` is an IndexError
    otherwise) and the fuel exceeds the number of strands (the depth of the recursion is `len(ptab) + 1`) -/
theorem rotate_complex_pt_eq (fuel : Nat) (stab : List (List String)) (ptab : PairTable)
    (hs : stab ≠ []) (hf : ptab.length < fuel) :
    Gen.py_rotate_complex_pt fuel stab ptab none = .ok (rotationsPt stab ptab) := by
  obtain ⟨f, rfl⟩ : ∃ f, fuel = f + 1 := ⟨fuel - 1, by omega⟩
  rw [Gen.py_rotate_complex_pt]
  cases hn : ptab.length with
  | zero =>
    simp [Py.unwrap, bind, Except.bind, pure, Except.pure, hn, rotationsPt]
    rfl
  | succ k =>
    have hgo := rot_go k f stab ptab (by omega) (by omega) hs
    simp [Py.unwrap, Py.sub, bind, Except.bind, pure, Except.pure, hn, rotationsPt, hgo, rloop1_fold]
    rfl

/-- with too little fuel the translation reports `RecursionError` (as CPython does beyond its recursion limit) -/
theorem rotate_complex_pt_no_fuel (stab : List (List String)) (ptab : PairTable) (turns : Option Nat) :
    Gen.py_rotate_complex_pt 0 stab ptab turns = .error (.fault "RecursionError") := rfl

end Dsd.PyEq

#print axioms Dsd.PyEq.rotate_complex_pt_eq
