/-
Names and kernel patterns for the reader (C16): complement names are never empty unless the name is `*`,
and `resolveKernel` is total on grammar-shaped forests that fit the recursion budget.
-/
import DsdVerif.Model.Reader

namespace Dsd.RdL
open Dsd Dsd.PP

/-- names the reader may request: non-empty and not the bare star -/
def GName (s : String) : Prop := s ≠ "" ∧ s ≠ "*"

theorem str_ne_empty_iff (s : String) : s ≠ "" ↔ s.toList ≠ [] := by
  constructor
  · intro h e; exact h (String.toList_inj.mp (by rw [e]; rfl))
  · intro h e; subst e; exact h rfl

theorem cnameOf_ne_empty (n : String) (h : GName n) : cnameOf n ≠ "" := by
  obtain ⟨h1, h2⟩ := h
  unfold cnameOf
  split
  · rename_i hs
    rw [str_ne_empty_iff, String.toList_ofList]
    intro hd
    unfold isStarred at hs
    have hl : n.toList.getLast? = some '*' := by simpa using hs
    cases hn : n.toList with
    | nil => rw [hn] at hl; simp at hl
    | cons c cs =>
      rw [hn] at hd hl
      cases cs with
      | nil =>
        simp at hl
        apply h2
        apply String.toList_inj.mp
        rw [hn, hl]; rfl
      | cons d ds => simp [List.dropLast] at hd
  · rw [str_ne_empty_iff, String.toList_append]
    simp

theorem isEmpty_false_of_ne (n : String) (h : n ≠ "") : n.isEmpty = false := by
  cases hb : n.isEmpty with
  | false => rfl
  | true => exact absurd (String.isEmpty_iff.mp hb) h

/-- a kernel token forest as the grammar produces it -/
inductive KForest : List Tree → Prop
  | nil : KForest []
  | tok (s : String) (rest : List Tree) : GName s → KForest rest → KForest (.tok s :: rest)
  | loop (s : String) (inner rest : List Tree) : GName s → s ≠ "+" → KForest inner → KForest rest →
      KForest (.tok s :: .grp inner :: rest)

/-- one step of the fold in `resolveKernel` -/
def kstep (fuel : Nat) (acc : List String × List Char) (t : Tree) : Except Err (List String × List Char) :=
  match t with
  | .tok s => .ok (acc.1 ++ [s], acc.2 ++ [if s == "+" then '+' else '.'])
  | .grp inner =>
    match acc.1.getLast? with
    | none => .error (.fault "IndexError")
    | some old =>
      match resolveKernel fuel inner with
      | .error e => .error e
      | .ok (se, ss) =>
        .ok (acc.1 ++ se ++ [compName old], (acc.2.dropLast ++ ['(']) ++ ss ++ [')'])

theorem resolveKernel_succ (fuel : Nat) (toks : List Tree) :
    resolveKernel (fuel + 1) toks = toks.foldlM (kstep fuel) ([], []) := by
  rw [resolveKernel]
  rfl

/-- all names are requestable -/
def NamesOK (l : List String) : Prop := ∀ x ∈ l, x ≠ ""

theorem fold_ok : ∀ (f : Nat) (toks : List Tree), treeSize f toks < f → KForest toks →
    ∀ (fuel : Nat), treeSize f toks ≤ fuel → ∀ (acc : List String × List Char),
      acc.1.length = acc.2.length → NamesOK acc.1 →
      ∃ r, toks.foldlM (kstep fuel) acc = .ok r ∧ r.1.length = r.2.length ∧ NamesOK r.1 := by
  intro f
  induction f using Nat.strongRecOn with
  | _ f ih =>
    intro toks hsz hf fuel hfuel acc hlen hnm
    cases f with
    | zero => simp [treeSize] at hsz
    | succ f =>
      cases hf with
      | nil => exact ⟨acc, rfl, hlen, hnm⟩
      | tok s rest hs hrest =>
        simp only [treeSize] at hsz hfuel
        simp only [List.foldlM_cons, kstep, bind, Except.bind]
        apply ih f (by omega) rest (by omega) hrest fuel (by omega)
        · simp [hlen]
        · intro x hx
          rcases List.mem_append.mp hx with hx | hx
          · exact hnm x hx
          · simp at hx; subst hx; exact hs.1
      | loop s inner rest hs hplus hinner hrest =>
        cases f with
        | zero => simp [treeSize] at hsz
        | succ f =>
          simp only [treeSize] at hsz hfuel
          obtain ⟨fuel', rfl⟩ : ∃ fuel', fuel = fuel' + 1 := ⟨fuel - 1, by omega⟩
          simp only [List.foldlM_cons, kstep, bind, Except.bind]
          have hlast : (acc.1 ++ [s]).getLast? = some s := by simp
          rw [hlast]
          simp only
          rw [resolveKernel_succ]
          obtain ⟨ri, hri, hril, hrin⟩ := ih f (by omega) inner (by omega) hinner fuel' (by omega) ([], []) rfl
            (fun x hx => by simp at hx)
          rw [hri]
          obtain ⟨se, ss⟩ := ri
          simp only
          apply ih f (by omega) rest (by omega) hrest (fuel' + 1) (by omega)
          · simp only at hril
            simp only [List.length_append, List.length_cons, List.length_nil, List.length_dropLast]
            omega
          · intro x hx
            simp only [List.mem_append, List.mem_cons, List.not_mem_nil, or_false] at hx
            rcases hx with ((hx | hx) | hx) | hx
            · exact hnm x hx
            · subst hx; exact hs.1
            · exact hrin x hx
            · subst hx; exact cnameOf_ne_empty s hs

/-- `resolveKernel` succeeds on a grammar-shaped forest within the recursion budget; names and structure have the
    same length and no name is empty -/
theorem resolveKernel_ok (pat : List Tree) (hf : KForest pat) (hsz : treeSize 1000 pat < 1000) :
    ∃ names struct, resolveKernel (treeSize 1000 pat + 2) pat = .ok (names, struct) ∧
      names.length = struct.length ∧ NamesOK names := by
  rw [show treeSize 1000 pat + 2 = (treeSize 1000 pat + 1) + 1 by omega, resolveKernel_succ]
  obtain ⟨r, h1, h2, h3⟩ := fold_ok 1000 pat hsz hf (treeSize 1000 pat + 1) (by omega) ([], []) rfl
    (fun x hx => by simp at hx)
  exact ⟨r.1, r.2, h1, h2, h3⟩

end Dsd.RdL
