/-
`add_constraint` of the legacy `SequenceConstraint` in terms of the per-position results of the current `add_constraints`.
-/
import DsdVerif.Lemmas.PyLegacySeq3c

set_option linter.unusedSimpArgs false

namespace Dsd.PyLegacySeq
open Dsd Dsd.Gen Dsd.PyObj.Basic

/-- **`add_constraint` as written**, on IUPAC sequences of equal length: the per-position results `l` of the current `add_constraints`; an empty
    result refuses (DSDObjectsError, object unchanged), otherwise `_sequence` becomes these results -/
theorem add_constraint_eq (s c : List Char) (mol : String) (hm : mol = "DNA" ∨ mol = "RNA") (hs : ∀ x ∈ s, x ∈ codesOf mol)
    (hc : ∀ x ∈ c, x ∈ codesOf mol) (hl : s.length = c.length) :
    (py_SequenceConstraint_add_constraint (c.map (fun x => [x]))).exec (mkS s mol) =
      match List.mapM (curUnion (tblOf mol)) (List.zip s c) with
      | .error e => (.error e, mkS s mol)
      | .ok l =>
        if (l.map String.toList).contains [] then (.error (.fault "DSDObjectsError"), mkS s mol)
        else (.ok (), { mkS s mol with _sequence := l.map String.toList }) := by
  unfold py_SequenceConstraint_add_constraint
  have hlen : ((s.map (fun x => [x])).length != (c.map (fun x => [x])).length) = false := by
    rw [List.length_map, List.length_map, hl]; simp
  simp only [exec_ite, exec_bind, exec_get, exec_pure, exec_throw, exec_modify, hlen, Bool.false_eq_true, if_false, seq_mkS,
    merge_eq s c mol hm hs hc]
  cases List.mapM (curUnion (tblOf mol)) (List.zip s c) with
  | error e => rfl
  | ok l =>
    simp only [Except.map]
    try (split <;> rfl)

end Dsd.PyLegacySeq
