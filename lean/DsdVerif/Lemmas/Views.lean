/-
Helper lemmas for Props/C03Views: cache-free specifications of the lazily filled tables of a `CplxObj`
and frame lemmas of the getters.
-/
import DsdVerif.Model.CplxObject

namespace Dsd
namespace CplxObj

/-- the cache-free object of the same representation -/
def fresh (o : CplxObj) : CplxObj :=
  { seq := o.seq, sst := o.sst, turns := o.turns, canon := o.canon, name := o.name }

/-- same representation and identity (everything but the caches) -/
def SameRep (o o' : CplxObj) : Prop :=
  o.seq = o'.seq ∧ o.sst = o'.sst ∧ o.turns = o'.turns ∧ o.canon = o'.canon ∧ o.name = o'.name

theorem SameRep.refl (o : CplxObj) : SameRep o o := ⟨rfl, rfl, rfl, rfl, rfl⟩
theorem SameRep.symm {o o' : CplxObj} (h : SameRep o o') : SameRep o' o := by
  obtain ⟨a, b, c, d, e⟩ := h; exact ⟨a.symm, b.symm, c.symm, d.symm, e.symm⟩
theorem SameRep.trans {a b c : CplxObj} (h : SameRep a b) (h' : SameRep b c) : SameRep a c := by
  obtain ⟨a1, a2, a3, a4, a5⟩ := h; obtain ⟨b1, b2, b3, b4, b5⟩ := h'
  exact ⟨a1.trans b1, a2.trans b2, a3.trans b3, a4.trans b4, a5.trans b5⟩
theorem sameRep_fresh (o : CplxObj) : SameRep o.fresh o := ⟨rfl, rfl, rfl, rfl, rfl⟩

theorem fresh_congr {o o' : CplxObj} (h : SameRep o o') : o.fresh = o'.fresh := by
  obtain ⟨a1, a2, a3, a4, a5⟩ := h
  simp only [fresh, a1, a2, a3, a4, a5]

/-- the loop index computed from a pair table -/
def liOf (pt : PairTable) : Except Err (List (List Nat) × List Nat) :=
  match makeLoopIndex pt false with
  | .error e => .error e
  | .ok lo => .ok (lo.loopIndex, lo.exterior)

/-- specification of `getLoopIndex` -/
def liSpec (sst : List Char) : Except Err (List (List Nat) × List Nat) :=
  match makePairTable sst with
  | .error e => .error e
  | .ok pt => liOf pt

/-- exterior / enclosed unpaired domains from pair table and loop index -/
def extOf (pt : PairTable) (l : List (List Nat) × List Nat) : List Locus × List Locus :=
  let li := l.1
  let ext := l.2
  let loci : List Locus := (li.zipIdx.map (fun (p : List Nat × Nat) => p.1.zipIdx.map (fun (q : Nat × Nat) => (p.2, q.2)))).flatten
  let unpaired := loci.filter (fun l => ((pt[l.1]?).bind (fun s => s[l.2]?)).join.isNone)
  let liAt (l : Locus) : Nat := ((li[l.1]?).bind (fun s => s[l.2]?)).getD 0
  let exd := unpaired.filter (fun l => ext.contains (liAt l))
  let end_ := unpaired.filter (fun l => !ext.contains (liAt l))
  (exd, end_)

/-- specification of `getExtDomains` -/
def edSpec (sst : List Char) : Except Err (List Locus × List Locus) :=
  match makePairTable sst with
  | .error e => .error e
  | .ok pt =>
    match liOf pt with
    | .error e => .error e
    | .ok l => .ok (extOf pt l)

/-- `getExtDomains` in terms of `extOf` -/
theorem getExtDomains_eq (o : CplxObj) :
    o.getExtDomains =
      match o.extDomains with
      | some d => (o, .ok d)
      | none =>
        match o.getLoopIndex.2 with
        | .error e => (o.getLoopIndex.1, .error e)
        | .ok l => ({ o.getLoopIndex.1 with extDomains := some (extOf (o.getLoopIndex.1.pairTable.getD []) l) },
                    .ok (extOf (o.getLoopIndex.1.pairTable.getD []) l)) := by
  unfold getExtDomains
  cases o.extDomains with
  | some d => rfl
  | none =>
    simp only
    cases h : o.getLoopIndex with
    | mk o1 r =>
      cases r with
      | error e => rfl
      | ok l => cases l; rfl

/-- `getLoopIndex` in terms of `liOf` -/
theorem getLoopIndex_eq (o : CplxObj) :
    o.getLoopIndex =
      match o.loopIndex with
      | some l => (o, .ok l)
      | none =>
        match o.getPairTable.2 with
        | .error e => (o.getPairTable.1, .error e)
        | .ok pt =>
          match liOf pt with
          | .error e => (o.getPairTable.1, .error e)
          | .ok l => ({ o.getPairTable.1 with loopIndex := some l }, .ok l) := by
  unfold getLoopIndex
  cases o.loopIndex with
  | some d => rfl
  | none =>
    simp only
    cases h : o.getPairTable with
    | mk o1 r =>
      cases r with
      | error e => rfl
      | ok pt =>
        simp only [liOf]
        cases makeLoopIndex pt false <;> rfl

theorem size_eq (o : CplxObj) : o.size = (o.getStrandTable.1, o.getStrandTable.2.length) := rfl

/-- `setTurns` with the destructuring `let`s resolved -/
theorem setTurns_eq (o : CplxObj) (v : Int) :
    o.setTurns v =
      if o.size.2 = 0 then (o.size.1, some (.fault "ZeroDivisionError")) else
      match rotationsFrom o.size.2 o.size.1.seq o.size.1.sst with
      | .error e => (o.size.1, some e)
      | .ok rots =>
        match rots[wrap (-(o.size.1.turns : Int) + v) o.size.2]? with
        | none => (o.size.1, some .objectInit)
        | some p =>
          ({ o.size.1 with seq := p.1, sst := p.2, turns := wrap v o.size.2,
                               strandTable := none, pairTable := none, loopIndex := none, extDomains := none }, none) := by
  unfold setTurns
  cases o.size with
  | mk o1 tot =>
    simp only
    split
    · rfl
    · cases rotationsFrom tot o1.seq o1.sst with
      | error e => rfl
      | ok rots =>
        simp only
        cases rots[wrap (-(o1.turns : Int) + v) tot]? with
        | none => rfl
        | some p => cases p; rfl

/-- the effect of the setter on the representation, stated without caches -/
def stPure (o : CplxObj) (v : Int) : CplxObj :=
  let tot := (makeStrandTableList "+" o.seq).length
  if tot = 0 then o.fresh else
  match rotationsFrom tot o.seq o.sst with
  | .error _ => o.fresh
  | .ok rots =>
    match rots[wrap (-(o.turns : Int) + v) tot]? with
    | none => o.fresh
    | some p => { seq := p.1, sst := p.2, turns := wrap v tot, canon := o.canon, name := o.name }

theorem stPure_congr {o o' : CplxObj} (h : SameRep o o') (v : Int) : stPure o v = stPure o' v := by
  have hf := fresh_congr h
  obtain ⟨a1, a2, a3, a4, a5⟩ := h
  simp only [stPure, a1, a2, a3, a4, a5, hf]

theorem clear_eq_fresh (o : CplxObj) :
    ({ o with strandTable := none, pairTable := none, loopIndex := none, extDomains := none } : CplxObj) = o.fresh := rfl

end CplxObj
end Dsd
