/-
Helper lemmas for the strand rotation (C07).
Part 4: `n` rotations of an `n`-stranded complex are the identity.
-/
import DsdVerif.Lemmas.RotateMatch

namespace Dsd.Rot
open Dsd.Bracket

/-! ### cyclic rotation of a list -/

def R {α} (c : Nat) (l : List α) : List α := l.drop c ++ l.take c

theorem R_zero {α} (l : List α) : R 0 l = l := by simp [R]
theorem R_length {α} (l : List α) : R l.length l = l := by simp [R]

theorem R_R {α} (a b : Nat) (l : List α) (h : a + b ≤ l.length) : R b (R a l) = R (a + b) l := by
  unfold R
  rw [List.drop_append_of_le_length (by simp; omega),
    List.take_append_of_le_length (by simp; omega), List.drop_drop, List.take_add,
    List.append_assoc]

/-! ### composition of cyclic shifts -/

theorem sh_sh (N a b j : Nat) (h : a + b ≤ N) : sh N b (sh N a j) = sh N (a + b) j := by
  unfold sh; split <;> split <;> split <;> omega

theorem shInv_shInv (N a b x : Nat) (h : a + b ≤ N) (hx : x < N) :
    shInv N a (shInv N b x) = shInv N (a + b) x := by
  unfold shInv; split <;> split <;> split <;> omega

theorem shInv_lt (N p x : Nat) (hp : p ≤ N) (hx : x < N) : shInv N p x < N := by
  unfold shInv; split <;> omega

theorem conj_conj (N a b : Nat) (M) (h : a + b ≤ N) :
    conj N b (conj N a M) = conj N (a + b) M := by
  funext x
  unfold conj
  by_cases hx : x < N
  · rw [if_pos hx, if_pos hx, if_pos (shInv_lt N b x (by omega) hx), shInv_shInv N a b x h hx]
    cases M (shInv N (a + b) x) with
    | none => rfl
    | some j => simp [sh_sh N a b j h]
  · rw [if_neg hx, if_neg hx]

theorem conj_zero (N : Nat) (M) (hout : ∀ x, N ≤ x → M x = none) : conj N 0 M = M := by
  funext x
  unfold conj
  by_cases hx : x < N
  · have e : shInv N 0 x = x := by unfold shInv; split <;> omega
    have e2 : sh N 0 = id := by funext j; unfold sh; simp
    rw [if_pos hx, e, e2]; simp
  · rw [if_neg hx, hout x (by omega)]

theorem conj_full (N : Nat) (M) (hout : ∀ x, N ≤ x → M x = none)
    (hrng : ∀ i j, M i = some j → j < N) : conj N N M = M := by
  funext x
  unfold conj
  by_cases hx : x < N
  · have e : shInv N N x = x := by unfold shInv; split <;> omega
    rw [if_pos hx, e]
    cases hj : M x with
    | none => rfl
    | some j =>
      have := hrng x j hj
      simp; unfold sh; split <;> omega
  · rw [if_neg hx, hout x (by omega)]

/-! ### aligned lists, one step -/

/-- same length, break tokens at the same positions -/
def Al (seq : List String) (sst : List Char) : Prop :=
  seq.length = sst.length ∧ ∀ i : Nat, seq[i]? = some "+" ↔ sst[i]? = some '+'

def OkChars (sst : List Char) : Prop := ∀ c ∈ sst, c = '(' ∨ c = ')' ∨ c = '.' ∨ c = '+'

/-- one rotation step with everything the period argument needs -/
theorem rotateOnce_step (seq : List String) (sst : List Char) (p : Nat) (t : List (Option Nat))
    (hal : Al seq sst) (hok : OkChars sst) (hp : seq.idxOf? "+" = some p)
    (hm : matchW (cword sst) = some t) :
    ∃ (sst' : List Char) (t' : List (Option Nat)),
      rotateOnce seq sst = .ok (rotL seq "+" p, sst') ∧
      Al (rotL seq "+" p) sst' ∧ OkChars sst' ∧
      matchW (cword sst') = some t' ∧
      P t' = conj (sst.length + 1) (p + 1) (P t) := by
  obtain ⟨hlen, hplus⟩ := hal
  obtain ⟨hps, hpp, _⟩ := idxOf?_some seq "+" p hp
  have hpl : p < sst.length := by omega
  have hpb : sst[p]? = some '+' := (hplus p).mp hpp
  obtain ⟨n2, t', hn2, hrot, hnone, hchr, hm', hP⟩ := rotateOnce_main seq sst p t hp hpl hpb hm
  have hM := matchW_sound _ _ hm
  have hseqmid : (rotL seq "+" p)[sst.length - p - 1]? = some "+" := by
    have := rot_get_mid seq "+" p hps; rw [hlen] at this; exact this
  have hsstmid : (rotL n2 '+' p)[sst.length - p - 1]? = some '+' := by
    have := rot_get_mid n2 '+' p (by omega); rw [hn2] at this; exact this
  have hseqsh : ∀ i, i < sst.length → i ≠ p →
      (rotL seq "+" p)[sh (sst.length + 1) (p + 1) i]? = seq[i]? := by
    intro i hi hip
    have := rot_get_sh seq "+" p i hps (by omega) hip; rw [hlen] at this; exact this
  have hsstsh : ∀ i, i < sst.length → i ≠ p →
      (rotL n2 '+' p)[sh (sst.length + 1) (p + 1) i]? = n2[i]? := by
    intro i hi hip
    have := rot_get_sh n2 '+' p i (by omega) (by omega) hip; rw [hn2] at this; exact this
  have hplus2 : ∀ i : Nat, n2[i]? = some '+' ↔ sst[i]? = some '+' := by
    intro i
    constructor
    · intro h
      rcases hchr i '+' h with h' | ⟨h', _⟩
      · exact h'
      · rcases h' with h' | h' <;> simp at h'
    · intro h
      have hd : (cword sst)[i]? = some .dot := by rw [cword_get, h]; rfl
      rw [hnone i (hM.dot i hd)]; exact h
  refine ⟨rotL n2 '+' p, t', hrot, ⟨?_, ?_⟩, ?_, hm', hP⟩
  · unfold rotL; rw [rot_length n2 _ _ (by omega), rot_length seq _ _ hps]; omega
  · intro x
    by_cases hx : x < sst.length
    · rcases rot_pos_cases sst.length p x hpl hx with h | ⟨i, hi, hip, hsh⟩
      · subst h; rw [hseqmid, hsstmid]; simp
      · subst hsh; rw [hseqsh i hi hip, hsstsh i hi hip, hplus2, hplus]
    · have e1 : (rotL seq "+" p)[x]? = none := by
        apply List.getElem?_eq_none; unfold rotL; rw [rot_length _ _ _ hps]; omega
      have e2 : (rotL n2 '+' p)[x]? = none := by
        apply List.getElem?_eq_none; unfold rotL; rw [rot_length _ _ _ (by omega)]; omega
      rw [e1, e2]; simp
  · intro c hc
    unfold rotL at hc
    simp only [List.mem_append, List.mem_singleton] at hc
    have hn2ok : ∀ c ∈ n2, c = '(' ∨ c = ')' ∨ c = '.' ∨ c = '+' := by
      intro c hc
      obtain ⟨i, hi⟩ := List.mem_iff_getElem?.mp hc
      rcases hchr i c hi with h | ⟨h, _⟩
      · exact hok c (List.mem_iff_getElem?.mpr ⟨i, h⟩)
      · rcases h with h | h
        · left; exact h
        · right; left; exact h
    rcases hc with (hc | hc) | hc
    · exact hn2ok c (List.mem_of_mem_drop hc)
    · right; right; right; exact hc
    · exact hn2ok c (List.mem_of_mem_take hc)

/-! ### a structure is determined by its break positions and its pairing -/

theorem matching_sym (w : List Sym) (M) (hM : Matching w M) (i : Nat) (hi : i < w.length) :
    w[i]? = some (sym M i) := by
  rcases sym_cases w i hi with h | h | h
  · obtain ⟨j, hj1, hj2, _, _⟩ := hM.op i h
    rw [h, sym_some _ _ _ hj2, if_pos hj1]
  · obtain ⟨j, hj1, hj2, _, _⟩ := hM.cl i h
    rw [h, sym_some _ _ _ hj2, if_neg (by omega)]
  · rw [h, sym_none _ _ (hM.dot i h)]

theorem okchar_eq (c d : Char) (hc : c = '(' ∨ c = ')' ∨ c = '.' ∨ c = '+')
    (hd : d = '(' ∨ d = ')' ∨ d = '.' ∨ d = '+') (hs : tsym c = tsym d) (hp : c = '+' ↔ d = '+') :
    c = d := by
  rcases hc with rfl | rfl | rfl | rfl <;> rcases hd with rfl | rfl | rfl | rfl <;>
    first
      | rfl
      | (exfalso; revert hs; decide)
      | (exfalso; revert hp; decide)

theorem struct_unique (seq : List String) (s1 s2 : List Char) (M : Nat → Option Nat)
    (h1 : Al seq s1) (h2 : Al seq s2) (o1 : OkChars s1) (o2 : OkChars s2)
    (m1 : Matching (cword s1) M) (m2 : Matching (cword s2) M) : s1 = s2 := by
  have hl : s1.length = s2.length := by rw [← h1.1, ← h2.1]
  apply List.ext_getElem hl
  intro i hi1 hi2
  have e1 := matching_sym _ _ m1 i (by rw [cword_length]; exact hi1)
  have e2 := matching_sym _ _ m2 i (by rw [cword_length]; exact hi2)
  rw [cword_get, List.getElem?_eq_getElem hi1] at e1
  rw [cword_get, List.getElem?_eq_getElem hi2] at e2
  simp only [Option.map_some, Option.some.injEq] at e1 e2
  apply okchar_eq _ _ (o1 _ (List.getElem_mem hi1)) (o2 _ (List.getElem_mem hi2)) (by rw [e1, e2])
  have a1 := h1.2 i
  have a2 := h2.2 i
  rw [List.getElem?_eq_getElem hi1] at a1
  rw [List.getElem?_eq_getElem hi2] at a2
  simp only [Option.some.injEq] at a1 a2
  rw [← a1, ← a2]

/-! ### counting strands -/

theorem splitOn_length {α} [DecidableEq α] (sep : α) (l : List α) :
    (splitOn sep l).length = l.count sep + 1 := by
  induction l with
  | nil => simp [splitOn]
  | cons c cs ih =>
    by_cases hc : c = sep
    · subst hc; simp [splitOn, ih]
    · cases hs : splitOn sep cs with
      | nil => exact absurd hs (splitOn_ne_nil sep cs)
      | cons s ss =>
        rw [splitOn_cons_ne sep c cs s ss hc hs, List.count_cons_of_ne (by simpa using hc), ← ih, hs]
        rfl

/-! ### the period -/

theorem rotL_snoc (seq : List String) (p : Nat) (hp : seq.idxOf? "+" = some p) :
    rotL seq "+" p ++ ["+"] = R (p + 1) (seq ++ ["+"]) := by
  obtain ⟨hps, hpp, _⟩ := idxOf?_some seq "+" p hp
  unfold rotL R
  rw [List.drop_append_of_le_length (by omega), List.take_append_of_le_length (by omega),
    take_snoc seq p "+" hpp]
  simp

theorem R_len {α} (c : Nat) (l : List α) : (R c l).length = l.length := by
  unfold R; simp; omega

theorem R_count {α} [BEq α] (a : α) (c : Nat) (l : List α) : (R c l).count a = l.count a := by
  unfold R
  rw [List.count_append, Nat.add_comm, ← List.count_append, List.take_append_drop]

theorem period_aux (seq : List String) (sst : List Char) (t : List (Option Nat))
    (hal : Al seq sst) (hok : OkChars sst) (hm : matchW (cword sst) = some t) (hplus : "+" ∈ seq) :
    ∀ (r : Nat) (seq' : List String) (sst' : List Char) (t' : List (Option Nat)) (c : Nat),
      Al seq' sst' → OkChars sst' → matchW (cword sst') = some t' →
      P t' = conj (sst.length + 1) c (P t) → c ≤ sst.length + 1 →
      seq' ++ ["+"] = R c (seq ++ ["+"]) → (List.drop c (seq ++ ["+"])).count "+" = r →
      rotateN r seq' sst' = .ok (seq, sst) := by
  have hM := matchW_sound _ _ hm
  have hN : seq.length = sst.length := hal.1
  have hL : (seq ++ ["+"]).length = sst.length + 1 := by simp [hN]
  intro r
  induction r with
  | zero =>
    intro seq' sst' t' c hal' hok' hm' hP hc hseq hcnt
    have hcN : c = sst.length + 1 := by
      apply Classical.byContradiction
      intro hne
      have hle : c ≤ seq.length := by omega
      rw [List.drop_append_of_le_length hle, List.count_append] at hcnt
      simp at hcnt
    subst hcN
    have hs : seq' = seq := by
      rw [← hL, R_length] at hseq
      exact List.append_cancel_right hseq
    subst hs
    have hPt : P t' = P t := by
      rw [hP]
      apply conj_full
      · intro x hx; apply hM.out; rw [cword_length]; omega
      · intro i j hij
        have := (matching_nci _ _ hM).rng i j hij
        rw [cword_length] at this; omega
    have hM' := matchW_sound _ _ hm'
    rw [hPt] at hM'
    have := struct_unique seq' sst' sst (P t) hal' hal hok' hok hM' hM
    subst this
    rfl
  | succ r ih =>
    intro seq' sst' t' c hal' hok' hm' hP hc hseq hcnt
    have hlen' : seq'.length = sst.length := by
      have := congrArg List.length hseq
      rw [R_len, hL] at this; simpa using this
    have hsst' : sst'.length = sst.length := by rw [← hal'.1]; exact hlen'
    have hmem' : "+" ∈ seq' := by
      have := congrArg (List.count "+") hseq
      rw [R_count, List.count_append, List.count_append] at this
      have h1 : 0 < seq.count "+" := List.count_pos_iff.mpr hplus
      have h2 : 0 < seq'.count "+" := by omega
      exact List.count_pos_iff.mp h2
    obtain ⟨p, hp⟩ := idxOf?_isSome_of_mem seq' "+" hmem'
    obtain ⟨hps, hpp, hpmin⟩ := idxOf?_some seq' "+" p hp
    obtain ⟨_, hnot⟩ := idxOf?_split seq' "+" p hp
    have hdl : (List.drop c (seq ++ ["+"])).length = sst.length + 1 - c := by
      rw [List.length_drop, hL]
    have hbound : c + p + 1 ≤ sst.length + 1 := by
      apply Classical.byContradiction
      intro hgt
      have hin : "+" ∈ List.drop c (seq ++ ["+"]) := List.count_pos_iff.mp (by omega)
      obtain ⟨j, hj⟩ := List.mem_iff_getElem?.mp hin
      have hjl : j < sst.length + 1 - c := by have := u_lt _ _ _ hj; omega
      have e : (seq' ++ ["+"])[j]? = some "+" := by
        rw [hseq]; unfold R
        rw [List.getElem?_append_left (by omega)]; exact hj
      rw [List.getElem?_append_left (by omega)] at e
      exact hpmin j (by omega) e
    obtain ⟨sst'', t'', hrot, hal'', hok'', hm'', hP''⟩ :=
      rotateOnce_step seq' sst' p t' hal' hok' hp hm'
    have hstep : rotateN (r + 1) seq' sst' = rotateN r (rotL seq' "+" p) sst'' := by
      simp only [rotateN, hrot]; rfl
    rw [hstep]
    apply ih (rotL seq' "+" p) sst'' t'' (c + (p + 1)) hal'' hok'' hm''
    · rw [hP'', hsst', hP, conj_conj _ _ _ _ (by omega)]
    · omega
    · rw [rotL_snoc seq' p hp, hseq, R_R _ _ _ (by rw [hL]; omega)]
    · have hsplit : List.drop c (seq ++ ["+"]) =
          List.take (p + 1) (List.drop c (seq ++ ["+"])) ++ List.drop (c + (p + 1)) (seq ++ ["+"]) := by
        rw [← List.drop_drop, List.take_append_drop]
      have htk : List.take (p + 1) (List.drop c (seq ++ ["+"])) = seq'.take p ++ ["+"] := by
        have : List.take (p + 1) (seq' ++ ["+"]) = List.take (p + 1) (List.drop c (seq ++ ["+"])) := by
          rw [hseq]; unfold R
          rw [List.take_append_of_le_length (by omega)]
        rw [← this, List.take_append_of_le_length (by omega), take_snoc seq' p "+" hpp]
      rw [hsplit, htk, List.count_append, List.count_append,
        List.count_eq_zero.mpr hnot] at hcnt
      simp at hcnt
      omega

end Dsd.Rot
