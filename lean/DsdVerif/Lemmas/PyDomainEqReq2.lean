/-
(d) ingredients of the request step: the creation of an object keeps the exact representation; the translated `Singleton.__call__`
zoomed onto the dictionaries of `Py.Dom.Cls` against `Reg.call`.
-/
import DsdVerif.Lemmas.PyDomainEqReq1
import DsdVerif.Props.PySingleton

namespace Dsd.PyDomainEq
open Dsd Dsd.Gen Dsd.PySingletonL

theorem dictSet_free {κ β} [DecidableEq κ] (d : List (κ × β)) (k : κ) (x : β) (h : d.lookup k = none) :
    Py.dictSet d k x = d ++ [(k, x)] := by
  unfold Py.dictSet Py.dictHas
  simp [h]

/-- creation: both dictionaries get one entry, the heap gets the attributes, `ID` counts automatic names - that is `Reg.register` -/
theorem repX_register (s : Py.Dom.Cls) (r : Reg DKey) (h : RepX s r) (fresh : Nat) (name : String) (k : DKey) (auto : Bool)
    (hn : r.findName name = none) (hc : r.findCanon k = none) :
    RepX { reg := { _instanceNames := Py.dictSet s.reg._instanceNames name fresh,
                    _instanceCanon := @Py.dictSet DKey Nat instBEqOfDecidableEq s.reg._instanceCanon k fresh },
           ID := if auto then s.ID + 1 else s.ID,
           heap := s.heap ++ [(fresh, ({ _name := name, _length := some k.2 } : Py.Dom.Obj))] }
      (r.register { id := fresh, name := name, canon := k, keys := [k] } auto) := by
  have hR := repX_rep s r h
  have h1 : s.reg._instanceNames.lookup name = none := by rw [hR.names, hn]; rfl
  have h2 : @List.lookup DKey Nat instBEqOfDecidableEq k s.reg._instanceCanon = none := by rw [hR.canon, hc]; rfl
  refine ⟨?_, ?_, ?_, ?_⟩
  · show Py.dictSet _ _ _ = _
    rw [dictSet_free _ _ _ h1, h.names]; simp [Reg.register]
  · show @Py.dictSet DKey Nat instBEqOfDecidableEq _ _ _ = _
    rw [dictSet_free _ _ _ h2, h.canon]; simp [Reg.register]
  · show s.heap ++ _ = _
    rw [h.heap]; simp [Reg.register]
  · show (if auto then s.ID + 1 else s.ID) = _
    rw [h.id]; cases auto <;> simp [Reg.register]

end Dsd.PyDomainEq
