/-
Declared systems as TEXT: the canonical rendering of domain declarations, composite domains, strand-notation
complexes (`structure` form) and kernel complexes, one statement per line in the simplest layout, and the proof that
the PIL parser turns it into exactly the token trees the reader theorems of C14 (`read_*_sigma`) are stated on.
-/
import DsdVerif.Props.C13Doc
import DsdVerif.Lemmas.ReaderSigmaKernel

namespace Dsd.TextSig
open Dsd Dsd.PP Dsd.Gen
open Dsd.C13 (blanks star Ident Digits Letters DomName spaced plusSep tokOf DotBracket LegalNames Stmt stmtsText)
open Dsd.Pil (StmtText)

/-! ### domain declarations -/

/-- `length n = tk` / `sequence n = SEQ` -/
def renderDecl : Sig.Decl → List Char
  | .dl n tk _ => "length ".toList ++ n.toList ++ " = ".toList ++ tk.toList
  | .sl n seq => "sequence ".toList ++ n.toList ++ " = ".toList ++ seq.toList

/-- the textual side conditions of a domain declaration: the name is a PIL identifier; the length token is
    `short`, `long` or digits; the sequence consists of letters -/
def DeclText : Sig.Decl → Prop
  | .dl n tk _ => Ident n.toList ∧ (tk = "short" ∨ tk = "long" ∨ Digits tk.toList)
  | .sl n seq => Ident n.toList ∧ Letters seq.toList

theorem stmtText_decl (d : Sig.Decl) (h : DeclText d) : StmtText (renderDecl d) (.grp d.line) := by
  have kl : "length ".toList = "length".toList ++ [' '] := by rfl
  have ks : "sequence ".toList = "sequence".toList ++ [' '] := by rfl
  have ke : " = ".toList = [' ', '=', ' '] := by rfl
  cases d with
  | dl n tk l =>
    obtain ⟨hn, htk⟩ := h
    have e1 : ∀ dt : List Char, "length".toList ++ blanks (0 + 1) ++ n.toList ++ star false ++ blanks 1 ++ ['='] ++ blanks 1 ++
        dt ++ blanks 0 = "length ".toList ++ n.toList ++ " = ".toList ++ dt := by
      intro dt; rw [kl, ke]; simp [blanks, star, List.append_assoc]
    have e2 : (Tree.grp [.tok "dl-domain", .tok (String.ofList (n.toList ++ star false)),
        .tok (String.ofList tk.toList)]) = .grp (Sig.Decl.dl n tk l).line := by
      simp [star, Sig.Decl.line, String.ofList_toList]
    rw [← e2]
    show StmtText ("length ".toList ++ n.toList ++ " = ".toList ++ tk.toList) _
    rw [← e1]
    rcases htk with rfl | rfl | hd
    · exact C13.stmtText_dl_domain_dtype _ (Or.inl rfl) n.toList false _ (Or.inl rfl) '=' (Or.inl rfl) hn 0 1 1 0
    · exact C13.stmtText_dl_domain_dtype _ (Or.inl rfl) n.toList false _ (Or.inr rfl) '=' (Or.inl rfl) hn 0 1 1 0
    · exact C13.stmtText_dl_domain _ (Or.inl rfl) n.toList tk.toList false '=' (Or.inl rfl) hn hd 0 1 1 0
  | sl n seq =>
    obtain ⟨hn, hseq⟩ := h
    have e1 : "sequence".toList ++ blanks (0 + 1) ++ n.toList ++ star false ++ blanks 1 ++ ['='] ++ blanks 1 ++
        seq.toList ++ blanks 0 = "sequence ".toList ++ n.toList ++ " = ".toList ++ seq.toList := by
      rw [ks, ke]; simp [blanks, star, List.append_assoc]
    have e2 : (Tree.grp [.tok "sl-domain", .tok (String.ofList (n.toList ++ star false)),
        .tok (String.ofList seq.toList)]) = .grp (Sig.Decl.sl n seq).line := by
      simp [star, Sig.Decl.line, String.ofList_toList]
    rw [← e2]
    show StmtText ("sequence ".toList ++ n.toList ++ " = ".toList ++ seq.toList) _
    rw [← e1]
    exact C13.stmtText_sl_domain n.toList seq.toList false '=' (Or.inl rfl) hn hseq 0 1 1 0

/-! ### composite domains -/

/-- `strand s = d1 d2 …` -/
def renderStrand (p : Sig.SDecl) : List Char :=
  "strand ".toList ++ p.1.toList ++ " = ".toList ++ spaced (p.2.map String.toList)

def StrandText (p : Sig.SDecl) : Prop :=
  Ident p.1.toList ∧ p.2 ≠ [] ∧ ∀ n ∈ p.2, DomName n.toList

theorem map_tokOf_toList (l : List String) : (l.map String.toList).map tokOf = l.map Tree.tok := by
  simp [tokOf, String.ofList_toList]

theorem stmtText_strand (p : Sig.SDecl) (h : StrandText p) :
    StmtText (renderStrand p) (.grp (Sig.compLine p.1 p.2)) := by
  obtain ⟨hn, hne, hd⟩ := h
  have kl : "strand ".toList = "strand".toList ++ [' '] := by rfl
  have ke : " = ".toList = [' ', '=', ' '] := by rfl
  have e1 : "strand".toList ++ blanks (0 + 1) ++ p.1.toList ++ blanks 1 ++ ['='] ++ blanks 1 ++
      spaced (p.2.map String.toList) ++ blanks 0 = renderStrand p := by
    unfold renderStrand; rw [kl, ke]; simp [blanks, List.append_assoc]
  have e2 : (Tree.grp [.tok "composite-domain", tokOf p.1.toList, .grp ((p.2.map String.toList).map tokOf)]) =
      .grp (Sig.compLine p.1 p.2) := by
    rw [map_tokOf_toList]; simp [tokOf, Sig.compLine, String.ofList_toList]
  rw [← e1, ← e2]
  exact C13.stmtText_comp_domain _ (Or.inl rfl) p.1.toList (p.2.map String.toList) '=' (Or.inl rfl) hn
    ⟨by simpa using hne, by
      intro d hd'
      obtain ⟨n, hn', rfl⟩ := List.mem_map.mp hd'
      exact hd n hn'⟩ 0 1 1 0

/-! ### strand-notation complexes -/

/-- `structure c = s1 + s2 : dotbracket` -/
def renderCplx (c : Sig.CDecl) : List Char :=
  "structure ".toList ++ c.name.toList ++ " = ".toList ++ plusSep (c.strands.map String.toList) ++ " : ".toList ++ c.sst

def CplxText (c : Sig.CDecl) : Prop :=
  Ident c.name.toList ∧ c.strands ≠ [] ∧ (∀ n ∈ c.strands, DomName n.toList) ∧ DotBracket c.sst

theorem stmtText_cplx (c : Sig.CDecl) (h : CplxText c) :
    StmtText (renderCplx c) (.grp (Sig.scplxLine c.name c.strands c.sst)) := by
  obtain ⟨hn, hne, hd, hdb⟩ := h
  have kl : "structure ".toList = "structure".toList ++ [' '] := by rfl
  have ke : " = ".toList = [' ', '=', ' '] := by rfl
  have kc : " : ".toList = [' ', ':', ' '] := by rfl
  have e1 : "structure".toList ++ blanks (0 + 1) ++ c.name.toList ++ [' ', '=', ' '] ++
      plusSep (c.strands.map String.toList) ++ [' ', ':', ' '] ++ c.sst = renderCplx c := by
    unfold renderCplx; rw [kl, ke, kc]; simp [blanks, List.append_assoc]
  have e2 : (Tree.grp [.tok "strand-complex", tokOf c.name.toList, .grp ((c.strands.map String.toList).map tokOf),
      tokOf c.sst]) = .grp (Sig.scplxLine c.name c.strands c.sst) := by
    rw [map_tokOf_toList]; simp [tokOf, Sig.scplxLine, String.ofList_toList]
  rw [← e1, ← e2]
  exact C13.stmtText_structure c.name.toList (c.strands.map String.toList) c.sst '=' ':' (Or.inl rfl) (Or.inr rfl) hn
    ⟨by simpa using hne, by
      intro d hd'
      obtain ⟨n, hn', rfl⟩ := List.mem_map.mp hd'
      exact hd n hn'⟩ hdb 0

/-! ### kernel complexes -/

/-- a kernel complex as written: name, names and structure, optional concentration `(mode, value, unit)` -/
structure KText where
  name : String
  seq : List String
  sst : List Char
  conc : Option (String × String × String)

/-- the declaration the reader theorems speak about: the pattern is the token forest of the kernel string -/
def KText.decl (k : KText) : Sig.KDecl :=
  { name := k.name, pat := (kernelTokens k.seq k.sst).getD [], ns := k.seq, sst := k.sst, conc := k.conc }

/-- `k = <kernel string>`, optionally followed by ` @mode value unit` -/
def renderKernel (k : KText) : List Char :=
  k.name.toList ++ " = ".toList ++ (kernelString k.seq k.sst).toList ++
    (match k.conc with
     | none => []
     | some (m, v, u) => " @".toList ++ m.toList ++ [' '] ++ v.toList ++ [' '] ++ u.toList)

def ConcText (c : String × String × String) : Prop :=
  (c.1 = "initial" ∨ c.1 = "i" ∨ c.1 = "constant" ∨ c.1 = "c") ∧ Digits c.2.1.toList ∧
    (c.2.2 = "M" ∨ c.2.2 = "mM" ∨ c.2.2 = "uM" ∨ c.2.2 = "nM" ∨ c.2.2 = "pM")

def KernText (k : KText) : Prop :=
  Ident k.name.toList ∧ LegalNames k.seq k.sst ∧ k.sst ≠ [] ∧ (∃ toks, kernelTokens k.seq k.sst = some toks) ∧
    ∀ c, k.conc = some c → ConcText c

theorem stmtText_kern (k : KText) (h : KernText k) : StmtText (renderKernel k) (.grp k.decl.line) := by
  obtain ⟨hn, hl, hne, ⟨toks, ht⟩, hc⟩ := h
  obtain ⟨name, seq, sst, conc⟩ := k
  simp only at hn hl hne ht hc
  cases conc with
  | none =>
    have e1 : name.toList ++ " = ".toList ++ (kernelString seq sst).toList =
        renderKernel ⟨name, seq, sst, none⟩ := by
      simp [renderKernel]
    have e2 : (Tree.grp [.tok "kernel-complex", tokOf name.toList, .grp toks]) =
        .grp (KText.decl ⟨name, seq, sst, none⟩).line := by
      simp [KText.decl, Sig.KDecl.line, ht, tokOf, String.ofList_toList]
    rw [← e1, ← e2]
    exact C13.stmtText_kernel name.toList seq sst toks hn hl hne ht
  | some c =>
    obtain ⟨m, v, u⟩ := c
    obtain ⟨hm, hv, hu⟩ := hc _ rfl
    simp only at hm hv hu
    have e1 : name.toList ++ " = ".toList ++ (kernelString seq sst).toList ++ " @".toList ++ m.toList ++ [' '] ++
        v.toList ++ [' '] ++ u.toList = renderKernel ⟨name, seq, sst, some (m, v, u)⟩ := by
      simp [renderKernel, List.append_assoc]
    have e2 : (Tree.grp [.tok "kernel-complex", tokOf name.toList, .grp toks,
        .grp [tokOf m.toList, tokOf v.toList, tokOf u.toList]]) =
        .grp (KText.decl ⟨name, seq, sst, some (m, v, u)⟩).line := by
      simp [KText.decl, Sig.KDecl.line, ht, tokOf, String.ofList_toList]
    rw [← e1, ← e2]
    refine C13.stmtText_kernel_conc name.toList seq sst toks m.toList v.toList u.toList hn hl hne ht ?_ hv ?_
    · rcases hm with rfl | rfl | rfl | rfl
      · exact Or.inl rfl
      · exact Or.inr (Or.inl rfl)
      · exact Or.inr (Or.inr (Or.inl rfl))
      · exact Or.inr (Or.inr (Or.inr rfl))
    · rcases hu with rfl | rfl | rfl | rfl | rfl
      · exact Or.inl rfl
      · exact Or.inr (Or.inl rfl)
      · exact Or.inr (Or.inr (Or.inl rfl))
      · exact Or.inr (Or.inr (Or.inr (Or.inl rfl)))
      · exact Or.inr (Or.inr (Or.inr (Or.inr rfl)))

/-! ### systems -/

/-- the statements of a declared system, in the order the reader theorems take them: domains, composite domains,
    strand-notation complexes, kernel complexes; no blank lines -/
def items (ds : List Sig.Decl) (ss : List Sig.SDecl) (cds : List Sig.CDecl) (kds : List KText) : List Stmt :=
  ds.map (fun d => (renderDecl d, Tree.grp d.line, 0)) ++
    (ss.map (fun p => (renderStrand p, Tree.grp (Sig.compLine p.1 p.2), 0)) ++
      (cds.map (fun c => (renderCplx c, Tree.grp (Sig.scplxLine c.name c.strands c.sst), 0)) ++
        kds.map (fun k => (renderKernel k, Tree.grp k.decl.line, 0))))

/-- **the canonical text of a declared system**: one statement per line -/
def renderSys (ds : List Sig.Decl) (ss : List Sig.SDecl) (cds : List Sig.CDecl) (kds : List KText) : String :=
  String.ofList (stmtsText (items ds ss cds kds))

/-- the textual side conditions on a declared system -/
structure TextSys (ds : List Sig.Decl) (ss : List Sig.SDecl) (cds : List Sig.CDecl) (kds : List KText) : Prop where
  decls : ∀ d ∈ ds, DeclText d
  strands : ∀ p ∈ ss, StrandText p
  cplxs : ∀ c ∈ cds, CplxText c
  kerns : ∀ k ∈ kds, KernText k

/-- **the rendered system parses to the reader theorems' document**: the token trees are literally
    `Sig.doc ds ++ Sig.sdoc ss ++ Sig.cdoc cds ++ Sig.kdoc …` -/
theorem render_parses (ds : List Sig.Decl) (ss : List Sig.SDecl) (cds : List Sig.CDecl) (kds : List KText)
    (h : TextSys ds ss cds kds) (hne : items ds ss cds kds ≠ []) :
    parseDoc pil_env pil_grammar (renderSys ds ss cds kds) =
      some (Sig.doc ds ++ (Sig.sdoc ss ++ (Sig.cdoc cds ++ Sig.kdoc (kds.map KText.decl)))) := by
  have hall : ∀ x ∈ items ds ss cds kds, StmtText x.1 x.2.1 := by
    intro x hx
    simp only [items, List.mem_append, List.mem_map] at hx
    rcases hx with ⟨d, hd, rfl⟩ | ⟨p, hp, rfl⟩ | ⟨c, hc, rfl⟩ | ⟨k, hk, rfl⟩
    · exact stmtText_decl d (h.decls d hd)
    · exact stmtText_strand p (h.strands p hp)
    · exact stmtText_cplx c (h.cplxs c hc)
    · exact stmtText_kern k (h.kerns k hk)
  have := C13.document_rt (items ds ss cds kds) hne hall
  unfold renderSys stmtsText
  rw [this]
  simp [items, Sig.doc, Sig.sdoc, Sig.cdoc, Sig.kdoc, Function.comp_def]

end Dsd.TextSig
