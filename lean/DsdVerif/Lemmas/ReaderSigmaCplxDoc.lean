/-
End-to-end reading of declared systems (C14, "sigma" theorems), part 6: documents with strand-notation
complexes over declared strands.
-/
import DsdVerif.Lemmas.ReaderSigmaCplx

namespace Dsd.Sig
open Dsd Dsd.PP Dsd.RState

/-- a complex given as names and structure, with the handles of its domains -/
structure CSpec where
  name : String
  ns : List String              -- the sequence of names (with "+")
  sst : List Char               -- the structure
  seq : List (Option Nat)       -- the handles of the domains (`none` = break)

/-- the explicit registry, nodes, states and dictionary of a list of complexes created from identity `b` on -/
def cObjs (b : Nat) (cs : List CSpec) : List (Obj CKey) :=
  cs.zipIdx.map (fun p => newCplx (b + p.2) p.1.name (cIds p.1.ns p.1.sst))

def cNodes (cc b : Nat) (cs : List CSpec) : List Node :=
  cs.zipIdx.map (fun p => cplxNode (b + p.2) cc (p.1.seq.filterMap id))

def cStates (b : Nat) (cs : List CSpec) : List (Nat × CplxObj) :=
  cs.zipIdx.map (fun p => (b + p.2, cplxState p.1.ns p.1.sst (cIds p.1.ns p.1.sst) p.1.name))

def cDict (b : Nat) (cs : List CSpec) : List (String × Nat) := cs.zipIdx.map (fun p => (p.1.name, b + p.2))

def base4 (ds : List Decl) (ss : List SDecl) : Nat := 2 * ds.length + ss.length

def P4 (cd cst cc : Nat) (ds : List Decl) (ss : List SDecl) (cs : List CSpec) : DW4 :=
  { cd := cd, cs := cst, cc := cc, dobjs := dObjs ds, sobjs := sObjs ds ss, cobjs := cObjs (base4 ds ss) cs,
    nodes := dNodes cd ds ++ sNodes cst ds ss ++ cNodes cc (base4 ds ss) cs,
    held := List.range (base4 ds ss + cs.length), next := base4 ds ss + cs.length,
    cstate := cStates (base4 ds ss) cs }

def S4 (cd cst cc : Nat) (ds : List Decl) (ss : List SDecl) (cs : List CSpec) (conc : List (Nat × (String × String × String))) :
    RState :=
  { w := (P4 cd cst cc ds ss cs).world, dseq := dSeq ds, conc := conc }

def D4 (ds : List Decl) (ss : List SDecl) (cs : List CSpec) : RDict :=
  { domains := dDict ds, strands := sDict ds ss, complexes := cDict (base4 ds ss) cs }

theorem S4_nil (cd cst cc : Nat) (hcc : cc < 4) (ds : List Decl) (ss : List SDecl) :
    S4 cd cst cc ds ss [] [] = S3 cd cst ds ss := by
  unfold S4 S3
  have := DW4_of_DW (P3 cd cst ds ss) cc hcc
  have e : P4 cd cst cc ds ss [] = (P3 cd cst ds ss).lift cc := by
    simp [P4, P3, DW.lift, cObjs, cNodes, cStates, base4]
  rw [e, this]

theorem D4_nil (ds : List Decl) (ss : List SDecl) : D4 ds ss [] = D3 ds ss := rfl

/-! ### membership and look-up in the explicit lists -/

theorem cObjs_mem (b : Nat) (cs : List CSpec) (o : Obj CKey) (ho : o ∈ cObjs b cs) :
    ∃ j c, cs[j]? = some c ∧ o = newCplx (b + j) c.name (cIds c.ns c.sst) := by
  obtain ⟨j, c, hj, rfl⟩ := (mem_zipIdx_map cs _ o).mp ho
  exact ⟨j, c, hj, rfl⟩

theorem cNodes_mem (cc b : Nat) (cs : List CSpec) (n : Node) (hn : n ∈ cNodes cc b cs) :
    ∃ j c, cs[j]? = some c ∧ n = cplxNode (b + j) cc (c.seq.filterMap id) := by
  obtain ⟨j, c, hj, rfl⟩ := (mem_zipIdx_map cs _ n).mp hn
  exact ⟨j, c, hj, rfl⟩

theorem nodes4_dom (cd cst cc : Nat) (ds : List Decl) (ss : List SDecl) (cs : List CSpec) (i : Nat)
    (hi : i < 2 * ds.length) :
    (P4 cd cst cc ds ss cs).nodes.find? (fun m => m.id == i) = some (domNode i cd) := by
  show (dNodes cd ds ++ sNodes cst ds ss ++ cNodes cc (base4 ds ss) cs).find? _ = _
  rw [List.append_assoc, List.find?_append, dNodes_find cd ds i hi]; rfl

theorem nodes4_strand (cd cst cc : Nat) (ds : List Decl) (ss : List SDecl) (cs : List CSpec) (j : Nat) (p : SDecl)
    (hj : ss[j]? = some p) :
    (P4 cd cst cc ds ss cs).nodes.find? (fun m => m.id == 2 * ds.length + j) =
      some (strandNode (2 * ds.length + j) cst (idsOf ds p.2)) := by
  show (dNodes cd ds ++ sNodes cst ds ss ++ cNodes cc (base4 ds ss) cs).find? _ = _
  rw [List.find?_append, sNodes_find cd cst ds ss j p hj]; rfl

theorem nodes4_cplx (cd cst cc : Nat) (ds : List Decl) (ss : List SDecl) (cs : List CSpec) (j : Nat) (c : CSpec)
    (hj : cs[j]? = some c) :
    (P4 cd cst cc ds ss cs).nodes.find? (fun m => m.id == base4 ds ss + j) =
      some (cplxNode (base4 ds ss + j) cc (c.seq.filterMap id)) := by
  show (dNodes cd ds ++ sNodes cst ds ss ++ cNodes cc (base4 ds ss) cs).find? _ = _
  apply RegL.find?_unique
  · rw [List.mem_append]; right
    rw [cNodes, mem_zipIdx_map]; exact ⟨j, c, hj, rfl⟩
  · simp [cplxNode]
  · intro a ha hp
    have hid : a.id = base4 ds ss + j := by simpa using hp
    rw [List.mem_append, List.mem_append] at ha
    rcases ha with (ha | ha) | ha
    · have := dNodes_id_lt cd ds a ha; unfold base4 at hid; omega
    · obtain ⟨j', p', hj', rfl⟩ := (mem_zipIdx_map ss _ a).mp ha
      have := getElem?_lt' _ _ _ hj'
      simp only [strandNode] at hid; unfold base4 at hid; omega
    · obtain ⟨j', c', hj', rfl⟩ := cNodes_mem cc _ cs a ha
      simp only [cplxNode] at hid
      have : j' = j := by omega
      subst this
      rw [getElem?_det cs j' c c' hj hj']

theorem cObjs_find (b : Nat) (cs : List CSpec) (j : Nat) (c : CSpec) (hj : cs[j]? = some c) :
    (cObjs b cs).find? (fun o => o.id == b + j) = some (newCplx (b + j) c.name (cIds c.ns c.sst)) := by
  apply RegL.find?_unique
  · rw [cObjs, mem_zipIdx_map]; exact ⟨j, c, hj, rfl⟩
  · simp [newCplx]
  · intro a ha hp
    have hid : a.id = b + j := by simpa using hp
    obtain ⟨j', c', hj', rfl⟩ := cObjs_mem b cs a ha
    simp only [newCplx] at hid
    have : j' = j := by omega
    subst this
    rw [getElem?_det cs j' c c' hj hj']

theorem cDict_lookup (b : Nat) (cs : List CSpec) (hn : (cs.map (·.name)).Nodup) (j : Nat) (c : CSpec)
    (hj : cs[j]? = some c) : (cDict b cs).lookup c.name = some (b + j) := by
  apply lookup_unique
  · rw [cDict, mem_zipIdx_map]; exact ⟨j, c, hj, rfl⟩
  · intro v' hv'
    rw [cDict, mem_zipIdx_map] at hv'
    obtain ⟨j', c', hj', he⟩ := hv'
    simp only [Prod.mk.injEq] at he
    have h1 : (cs.map (·.name))[j]? = some c.name := by simp [hj]
    have h2 : (cs.map (·.name))[j']? = some c'.name := by simp [hj']
    have hlt : j < (cs.map (·.name)).length := by simpa using getElem?_lt' _ _ _ hj
    have : j = j' := (List.getElem?_inj hlt hn).mp (by rw [h1, h2, he.1])
    rw [he.2, this]

theorem cStates_lookup (b : Nat) (cs : List CSpec) (j : Nat) (c : CSpec) (hj : cs[j]? = some c) :
    (cStates b cs).lookup (b + j) = some (cplxState c.ns c.sst (cIds c.ns c.sst) c.name) := by
  apply lookup_unique
  · rw [cStates, mem_zipIdx_map]; exact ⟨j, c, hj, rfl⟩
  · intro v' hv'
    rw [cStates, mem_zipIdx_map] at hv'
    obtain ⟨j', c', hj', he⟩ := hv'
    simp only [Prod.mk.injEq] at he
    have : j' = j := by omega
    subst this
    rw [he.2, getElem?_det cs j' c c' hj hj']

theorem cDict_keys (b : Nat) (cs : List CSpec) : (cDict b cs).map (·.1) = cs.map (·.name) := by
  unfold cDict
  rw [List.map_map]
  have : ((fun (x : String × Nat) => x.1) ∘ fun (p : CSpec × Nat) => (p.1.name, b + p.2)) =
      (fun (q : CSpec) => q.name) ∘ Prod.fst := rfl
  rw [this, ← List.map_map, List.zipIdx_map_fst]

/-! ### one complex -/

theorem P4_snoc_world (cd cst cc : Nat) (ds : List Decl) (ss : List SDecl) (cs : List CSpec) (c : CSpec) :
    ({ (P4 cd cst cc ds ss cs).world with
        cplxs := setObjs baseCplxs cc (cObjs (base4 ds ss) cs ++
          [newCplx (P4 cd cst cc ds ss cs).world.nextId c.name (cIds c.ns c.sst)]),
        nodes := (P4 cd cst cc ds ss cs).world.nodes ++
          [cplxNode (P4 cd cst cc ds ss cs).world.nextId cc (c.seq.filterMap id)],
        held := if (P4 cd cst cc ds ss cs).world.held.contains (P4 cd cst cc ds ss cs).world.nextId
          then (P4 cd cst cc ds ss cs).world.held
          else (P4 cd cst cc ds ss cs).world.held ++ [(P4 cd cst cc ds ss cs).world.nextId],
        nextId := (P4 cd cst cc ds ss cs).world.nextId + 1,
        cstate := (P4 cd cst cc ds ss cs).world.cstate ++
          [((P4 cd cst cc ds ss cs).world.nextId, cplxState c.ns c.sst (cIds c.ns c.sst) c.name)] } : World) =
      (P4 cd cst cc ds ss (cs ++ [c])).world := by
  have hnext : (P4 cd cst cc ds ss cs).world.nextId = base4 ds ss + cs.length := rfl
  have hheld : (P4 cd cst cc ds ss cs).world.held = List.range (base4 ds ss + cs.length) := rfl
  have hc : (List.range (base4 ds ss + cs.length)).contains (base4 ds ss + cs.length) = false := by simp
  have hr : List.range (base4 ds ss + (cs.length + 1)) =
      List.range (base4 ds ss + cs.length) ++ [base4 ds ss + cs.length] := by
    have : base4 ds ss + (cs.length + 1) = (base4 ds ss + cs.length).succ := by omega
    rw [this, List.range_succ]
  simp only [hnext, hheld, hc, Bool.false_eq_true, if_false]
  unfold DW4.world P4
  simp only [cObjs, cNodes, cStates, zipIdx_snoc, List.map_append, List.map_cons, List.map_nil, List.length_append,
    List.length_singleton, hr, List.append_assoc]
  rfl

/-- **creating the next complex** in the explicit state -/
theorem mkCplx_S4 (cd cst cc : Nat) (hcc : cc < 4) (ds : List Decl) (ss : List SDecl) (cs : List CSpec) (c : CSpec)
    (hns : (P4 cd cst cc ds ss cs).world.seqNames c.seq = some c.ns) (hd : Rot.Descr' c.ns c.sst)
    (hname : ∀ c' ∈ cs, c'.name ≠ c.name)
    (hdisj : ∀ c' ∈ cs, ∀ x ∈ Rot.orb (Rot.nStr c.ns) c.ns c.sst, x ∉ Rot.orb (Rot.nStr c'.ns) c'.ns c'.sst) :
    (P4 cd cst cc ds ss cs).world.mkCplx cc (some c.seq) c.sst (some c.name) none =
      ((P4 cd cst cc ds ss (cs ++ [c])).world, .ret (base4 ds ss + cs.length) true, some (cIds c.ns c.sst)) := by
  have hkeys : ∀ o ∈ cObjs (base4 ds ss) cs, ∀ x ∈ Rot.orb (Rot.nStr c.ns) c.ns c.sst, x ∉ o.keys := by
    intro o ho x hx hk
    obtain ⟨j, c', hj, rfl⟩ := cObjs_mem _ cs o ho
    simp only [newCplx, cIds] at hk
    exact hdisj c' (List.mem_of_getElem? hj) x hx (List.mem_eraseDups.mp hk)
  have hfree : ∀ x ∈ Rot.orb (Rot.nStr c.ns) c.ns c.sst,
      Reg.findCanon ({ objs := cObjs (base4 ds ss) cs, autoId := 1 } : Reg CKey) x = none := by
    intro x hx
    exact findCanon_none_of _ _ (fun o ho => hkeys o ho x hx)
  obtain ⟨hids, hcan, _⟩ := cIds_spec _ c.ns c.sst hd hfree
  have := mkCplx_create (P4 cd cst cc ds ss cs).world cc hcc (cObjs (base4 ds ss) cs) rfl c.seq c.ns hns c.sst c.name
    (cIds c.ns c.sst) hids
    (by
      intro o ho
      obtain ⟨j, c', hj, rfl⟩ := cObjs_mem _ cs o ho
      exact hname c' (List.mem_of_getElem? hj))
    (fun o ho => hkeys o ho _ hcan)
    (by
      intro o ho
      obtain ⟨j, c', hj, rfl⟩ := cObjs_mem _ cs o ho
      have := getElem?_lt' _ _ _ hj
      show base4 ds ss + j ≠ base4 ds ss + cs.length
      omega)
  rw [this, P4_snoc_world]
  rfl

theorem objName_S4 (cd cst cc : Nat) (hcc : cc < 4) (ds : List Decl) (ss : List SDecl) (cs : List CSpec) (j : Nat)
    (c : CSpec) (hj : cs[j]? = some c) :
    objName (P4 cd cst cc ds ss cs).world.cplxs cc (base4 ds ss + j) = some c.name := by
  obtain ⟨cr0, h0, _⟩ := baseCplxs_get cc hcc
  have hcp : (P4 cd cst cc ds ss cs).world.cplxs = setObjs baseCplxs cc (cObjs (base4 ds ss) cs) := rfl
  unfold objName
  rw [hcp, setObjs_get baseCplxs cc _ cr0 h0]
  simp only [Option.bind_some, Reg.findId, cObjs_find _ cs j c hj]
  rfl

theorem range_mem_dicts4 (ds : List Decl) (ss : List SDecl) (cs : List CSpec) (i : Nat)
    (hi : i < base4 ds ss + cs.length) :
    i ∈ (dDict ds).map (·.2) ++ (sDict ds ss).map (·.2) ++ (cDict (base4 ds ss) cs).map (·.2) := by
  rw [List.mem_append]
  by_cases h : i < base4 ds ss
  · exact Or.inl (range_mem_dicts ds ss i h)
  · right
    rw [List.mem_map]
    have hj : i - base4 ds ss < cs.length := by omega
    refine ⟨(cs[i - base4 ds ss].name, i), ?_, rfl⟩
    rw [cDict, mem_zipIdx_map]
    refine ⟨i - base4 ds ss, cs[i - base4 ds ss], List.getElem?_eq_getElem hj, ?_⟩
    simp only [Prod.mk.injEq, true_and]; omega

theorem keepOnly_S4 (cd cst cc : Nat) (hcd : cd < 4) (hcs : cst < 4) (hcc : cc < 4) (ds : List Decl) (ss : List SDecl)
    (cs : List CSpec) (conc : List (Nat × (String × String × String))) :
    (S4 cd cst cc ds ss cs conc).keepOnly [] (D4 ds ss cs) = S4 cd cst cc ds ss cs conc := by
  unfold keepOnly
  have hheld : (S4 cd cst cc ds ss cs conc).w.held = List.range (base4 ds ss + cs.length) := rfl
  have hfil : List.filter (fun h => (([] : List Nat) ++ (D4 ds ss cs).domains.map (·.2) ++ (D4 ds ss cs).strands.map (·.2) ++
      (D4 ds ss cs).complexes.map (·.2) ++ (D4 ds ss cs).macrostates.map (·.2) ++ (D4 ds ss cs).det ++
      (D4 ds ss cs).con).contains h)
      (List.range (base4 ds ss + cs.length)) = List.range (base4 ds ss + cs.length) := by
    rw [List.filter_eq_self]
    intro i hi
    have := range_mem_dicts4 ds ss cs i (List.mem_range.mp hi)
    simp only [D4, List.nil_append, List.map_nil, List.append_nil, List.contains_eq_mem, decide_eq_true_eq]
    exact this
  simp only [hheld, hfil]
  have hw : ({ (S4 cd cst cc ds ss cs conc).w with held := List.range (base4 ds ss + cs.length) } : World) =
      (P4 cd cst cc ds ss cs).world := rfl
  rw [hw, collect_DW4 (P4 cd cst cc ds ss cs) hcd hcs hcc]
  · rfl
  · intro o ho; exact List.mem_range.mpr (by have := dObjs_id_lt ds o ho; unfold base4; omega)
  · intro o ho
    obtain ⟨j, p, hj, rfl⟩ := sObjs_mem ds ss o ho
    have := getElem?_lt' _ _ _ hj
    exact List.mem_range.mpr (by simp only [newStrand]; unfold base4; omega)
  · intro o ho
    obtain ⟨j, c, hj, rfl⟩ := cObjs_mem _ cs o ho
    have := getElem?_lt' _ _ _ hj
    exact List.mem_range.mpr (by simp only [newCplx]; omega)
  · intro n hn
    have hn' : n ∈ dNodes cd ds ++ sNodes cst ds ss ++ cNodes cc (base4 ds ss) cs := hn
    rw [List.mem_append, List.mem_append] at hn'
    rcases hn' with (h | h) | h
    · exact List.mem_range.mpr (by have := dNodes_id_lt cd ds n h; unfold base4; omega)
    · obtain ⟨j, p, hj, rfl⟩ := (mem_zipIdx_map ss _ n).mp h
      have := getElem?_lt' _ _ _ hj
      exact List.mem_range.mpr (by simp only [strandNode]; unfold base4; omega)
    · obtain ⟨j, c, hj, rfl⟩ := cNodes_mem cc _ cs n h
      have := getElem?_lt' _ _ _ hj
      exact List.mem_range.mpr (by simp only [cplxNode]; omega)
  · intro q hq
    obtain ⟨j, c, hj, rfl⟩ := (mem_zipIdx_map cs _ q).mp hq
    have := getElem?_lt' _ _ _ hj
    exact List.mem_range.mpr (by simp only; omega)

/-- **a line that created the next complex**: the document continues from the explicit state with it -/
theorem cstep_core (sl : Slots) (hcd : sl.dom < 4) (hcs : sl.strand < 4) (hcc : sl.cplx < 4) (ds : List Decl)
    (ss : List SDecl) (cs : List CSpec) (c : CSpec) (conc conc' : List (Nat × (String × String × String)))
    (line lines : List Tree)
    (hrl : (S4 sl.dom sl.strand sl.cplx ds ss cs conc).readLine sl line =
      (S4 sl.dom sl.strand sl.cplx ds ss (cs ++ [c]) conc', .ok (.cplx (base4 ds ss + cs.length))))
    (hname : ∀ c' ∈ cs, c'.name ≠ c.name) :
    (S4 sl.dom sl.strand sl.cplx ds ss cs conc).readDoc sl [] [] (.grp line :: lines) (D4 ds ss cs) =
      (S4 sl.dom sl.strand sl.cplx ds ss (cs ++ [c]) conc').readDoc sl [] [] lines (D4 ds ss (cs ++ [c])) := by
  have hon := objName_S4 sl.dom sl.strand sl.cplx hcc ds ss (cs ++ [c]) cs.length c (by simp)
  rw [readDoc_cplx _ sl [] _ lines (D4 ds ss cs) _ _ c.name hrl hon]
  have hd : ({ D4 ds ss cs with complexes := dictPut (D4 ds ss cs).complexes c.name (base4 ds ss + cs.length) } : RDict) =
      D4 ds ss (cs ++ [c]) := by
    unfold D4
    simp only
    rw [dictPut_fresh]
    · simp [cDict, zipIdx_snoc]
    · intro q hq
      obtain ⟨j, x, hj, rfl⟩ := (mem_zipIdx_map cs _ q).mp hq
      exact hname x (List.mem_of_getElem? hj)
  rw [hd, keepOnly_S4 sl.dom sl.strand sl.cplx hcd hcs hcc]

end Dsd.Sig
