/-
The helpers of the legacy `SequenceConstraint` read only `ToU` (`ReadsToU`), so the per-pair table of Lemmas/PyLegacySeq3 holds on every object.
-/
import DsdVerif.Lemmas.PyLegacySeq3

set_option linter.unusedSimpArgs false

namespace Dsd.PyLegacySeq
open Dsd Dsd.Gen Dsd.PyObj.Basic

/-- a computation that leaves the object untouched and whose result depends on `ToU` only -/
def ReadsToU {α} (m : SequenceConstraint.M α) : Prop := ∀ st, m.exec st = ((m.exec (st0 st.ToU)).1, st)

theorem ReadsToU.pure {α} (a : α) : ReadsToU (pure a : SequenceConstraint.M α) := fun _ => rfl

theorem ReadsToU.bind {α β} (m : SequenceConstraint.M α) (f : α → SequenceConstraint.M β) (hm : ReadsToU m) (hf : ∀ a, ReadsToU (f a)) :
    ReadsToU (m >>= f) := by
  intro st
  have h1 := hm st
  have h2 := hm (st0 st.ToU)
  have e : (st0 st.ToU).ToU = st.ToU := rfl
  rw [e] at h2
  rw [exec_bind, exec_bind, h1]
  rcases hr : m.exec (st0 st.ToU) with ⟨r, s2⟩
  rw [hr] at h2
  simp only [Prod.mk.injEq] at h2
  obtain ⟨_, hs2⟩ := h2
  subst hs2
  cases r with
  | error e => rfl
  | ok a => simp only []; exact hf a st

theorem bin_reads (x : List Char) : ReadsToU (py_SequenceConstraint_iupac_bin x) := by
  intro st
  unfold py_SequenceConstraint_iupac_bin st0
  simp only [exec_bind, exec_get, exec_pure, exec_lift, exec_monadLift]

theorem binI_reads (n : Nat) : ReadsToU (py_SequenceConstraint_bin_iupac n) := by
  intro st
  unfold py_SequenceConstraint_bin_iupac st0
  simp only [exec_bind, exec_get, exec_pure, exec_lift, exec_monadLift]

theorem step_reads (nucs : List Char × List Char) (v : SequenceConstraint_iupac_union.Vars) (n : List Char) :
    ReadsToU (SequenceConstraint_iupac_union.loop1 nucs v n) := by
  unfold SequenceConstraint_iupac_union.loop1
  refine ReadsToU.bind _ _ (bin_reads _) (fun a => ?_)
  refine ReadsToU.bind _ _ (bin_reads _) (fun b => ?_)
  refine ReadsToU.bind _ _ (binI_reads _) (fun c => ?_)
  exact ReadsToU.pure _

theorem foldlM_reads {α β : Type} (f : β → α → SequenceConstraint.M β) (hf : ∀ v x, ReadsToU (f v x)) :
    ∀ (l : List α) (v : β), ReadsToU (List.foldlM f v l) := by
  intro l
  induction l with
  | nil => intro v; exact ReadsToU.pure v
  | cons x xs ih =>
    intro v
    rw [List.foldlM_cons]
    exact ReadsToU.bind _ _ (hf v x) (fun v' => ih v')

theorem union_reads (p : List Char × List Char) : ReadsToU (py_SequenceConstraint_iupac_union p) := by
  unfold py_SequenceConstraint_iupac_union
  refine ReadsToU.bind _ _ (foldlM_reads _ (step_reads p) _ _) (fun v => ?_)
  exact ReadsToU.pure _

end Dsd.PyLegacySeq
