/-
The union helper of the legacy `SequenceConstraint` (`_iupac_union` with `_iupac_bin` / `_bin_iupac`, as translated) against the tables of the
current `add_constraints` (Gen/IupacTables.lean): every pair of codes, by kernel evaluation.
-/
import DsdVerif.Lemmas.PyLegacySeq2Add

set_option linter.unusedSimpArgs false
set_option maxRecDepth 100000

namespace Dsd.PyLegacySeq
open Dsd Dsd.Gen Dsd.PyObj.Basic

/-- what the current `add_constraints` computes for one pair of codes -/
def curUnion (tbl : List String) (p : Char × Char) : Py.M String := do
  pure (← Py.idx tbl ((← Py.dictGet iupac_bin p.1) &&& (← Py.dictGet iupac_bin p.2)))

/-- all pairs of codes of a molecule -/
def pairsOf (mol : String) : List (Char × Char) := (codesOf mol).flatMap (fun x => (codesOf mol).map (fun y => (x, y)))

/-- **the 15 × 15 table**: the legacy union of two codes is the current `bin_iupac[bin x & bin y]` (DNA, RNA) -/
theorem union_pairs_dna : ∀ p ∈ pairsOf "DNA", ((py_SequenceConstraint_iupac_union ([p.1], [p.2])).exec (st0 ['T'])).1 =
    (curUnion bin_iupac_dna p).map String.toList := by decide
theorem union_pairs_rna : ∀ p ∈ pairsOf "RNA", ((py_SequenceConstraint_iupac_union ([p.1], [p.2])).exec (st0 ['U'])).1 =
    (curUnion bin_iupac_rna p).map String.toList := by decide

end Dsd.PyLegacySeq
