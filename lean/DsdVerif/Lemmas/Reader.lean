/-
Helper lemmas about the PIL reader model (C14).
-/
import DsdVerif.Model.Reader
import DsdVerif.Lemmas.World
import DsdVerif.Lemmas.Registry
import DsdVerif.Lemmas.Domain

namespace Dsd.ReaderL
open Dsd Dsd.PP Dsd.RState

/-- on every error path `readDoc` hands back a state that went through `keepOnly before {}` -/
theorem readDoc_error (sl : Slots) (ign : List String) (before : List Nat) :
    ∀ (lines : List Tree) (s : RState) (d : RDict) (s' : RState) (e : RErr),
      s.readDoc sl ign before lines d = (s', .error e) → ∃ sX : RState, s' = sX.keepOnly before {} := by
  intro lines
  induction lines with
  | nil => intro s d s' e h; simp [readDoc] at h
  | cons t rest ih =>
    intro s d s' e h
    cases t with
    | tok _ => simp [readDoc] at h
    | grp line =>
      unfold readDoc at h
      simp only at h
      split at h
      · exact ih _ _ _ _ h
      · split at h
        · cases h; exact ⟨_, rfl⟩
        · split at h
          · cases h; exact ⟨_, rfl⟩
          · exact ih _ _ _ _ h

/-! ### member look-ups of `read_reaction` -/

theorem settle_regs (w : World) (out : Out) (kind : Kind) (cls : Nat) (children : List Nat) :
    (w.settle out kind cls children).doms = w.doms ∧ (w.settle out kind cls children).cplxs = w.cplxs ∧
    (w.settle out kind cls children).macros = w.macros ∧ (w.settle out kind cls children).cstate = w.cstate := by
  unfold World.settle
  split <;> simp

theorem findName_congr {κ} (r1 r2 : Reg κ) (h : r1.objs = r2.objs) (n : String) :
    r1.findName n = r2.findName n := by
  unfold Reg.findName; rw [h]

/-- a name-only request: found object or SingletonError, registry objects untouched -/
theorem call_name_only {κ} [DecidableEq κ] (r : Reg κ) (n : String) (fresh : Nat) (keys : List κ) (auto : Bool) :
    (r.call none (some n) fresh keys auto).1 = r ∧
    ((∃ o, r.findName n = some o ∧ (r.call none (some n) fresh keys auto).2 = .ret o.id false) ∨
     (r.findName n = none ∧ (r.call none (some n) fresh keys auto).2 = .singletonErr none)) := by
  cases h : r.findName n with
  | none => simp [Reg.call, Reg.decide, h]
  | some o => simp [Reg.call, Reg.decide, h]

/-- the class registry after a request that went through `x` -/
def updCls {κ} (cs : List (ClassReg κ)) (c : Nat) (cr : ClassReg κ) (eid : Nat) (r' : Reg κ) : List (ClassReg κ) :=
  cs.set c { cr with reg := r', ownId := cr.ownId || r'.autoId != eid }

/-- `Complex(None, None, name)` against class `c`, as an equation -/
theorem mkCplx_none (w : World) (c : Nat) (m : String) (cr : ClassReg CKey) (hc : w.cplxs[c]? = some cr) :
    w.mkCplx c none [] (some m) none =
      let x := Reg.call { cr.reg with autoId := World.effId w.cplxs 5 c } none (some m) w.nextId [] false
      (({ w with cplxs := updCls w.cplxs c cr (World.effId w.cplxs 5 c) x.1 } : World).settle x.2 .cplx c [], x.2, none) := by
  unfold World.mkCplx
  simp only [hc, Option.map_none, complexRequest]
  split
  · rename_i h1 h2 h3; cases h2
  · rfl

theorem updCls_get {κ} (cs : List (ClassReg κ)) (c : Nat) (cr : ClassReg κ) (eid : Nat) (r' : Reg κ)
    (hc : cs[c]? = some cr) :
    (updCls cs c cr eid r')[c]? = some { cr with reg := r', ownId := cr.ownId || r'.autoId != eid } := by
  have hlt : c < cs.length := (List.getElem?_eq_some_iff.mp hc).1
  unfold updCls
  rw [List.getElem?_set_self hlt]

/-- the look-up of a complex by name: the class stays, its objects stay, and the outcome is the object of
    that name or `SingletonError` -/
theorem look_cplx (w : World) (c : Nat) (m : String) (cr : ClassReg CKey) (hc : w.cplxs[c]? = some cr) :
    ∃ cr', (w.mkCplx c none [] (some m) none).1.cplxs[c]? = some cr' ∧ cr'.reg.objs = cr.reg.objs ∧
      (w.mkCplx c none [] (some m) none).1.macros = w.macros ∧
      ((∃ o, cr.reg.findName m = some o ∧ (w.mkCplx c none [] (some m) none).2.1 = .ret o.id false) ∨
       (cr.reg.findName m = none ∧ (w.mkCplx c none [] (some m) none).2.1 = .singletonErr none)) := by
  obtain ⟨h1, h2⟩ := call_name_only { cr.reg with autoId := World.effId w.cplxs 5 c } m w.nextId [] false
  have hfn : Reg.findName { cr.reg with autoId := World.effId w.cplxs 5 c } m = cr.reg.findName m := rfl
  rw [hfn] at h2
  rw [mkCplx_none w c m cr hc]
  simp only
  rw [(settle_regs _ _ _ _ _).2.1, (settle_regs _ _ _ _ _).2.2.1]
  refine ⟨_, updCls_get w.cplxs c cr _ _ hc, ?_, rfl, h2⟩
  simp only [h1]

/-- `Macrostate(None, name)` against class `c`, as an equation -/
theorem mkMacro_none (w : World) (c : Nat) (m : String) (cr : ClassReg MKey) (hc : w.macros[c]? = some cr) :
    w.mkMacro c none (some m) =
      let x := Reg.call { cr.reg with autoId := World.effId w.macros 5 c } none (some m) w.nextId [] false
      (({ w with macros := updCls w.macros c cr (World.effId w.macros 5 c) x.1 } : World).settle x.2 .macro c [], x.2) := by
  unfold World.mkMacro World.withClass
  simp only [hc, Option.map_none, macroRequest]
  rfl

theorem look_macro (w : World) (c : Nat) (m : String) (cr : ClassReg MKey) (hc : w.macros[c]? = some cr) :
    ∃ cr', (w.mkMacro c none (some m)).1.macros[c]? = some cr' ∧ cr'.reg.objs = cr.reg.objs ∧
      (w.mkMacro c none (some m)).1.cplxs = w.cplxs ∧
      ((∃ o, cr.reg.findName m = some o ∧ (w.mkMacro c none (some m)).2 = .ret o.id false) ∨
       (cr.reg.findName m = none ∧ (w.mkMacro c none (some m)).2 = .singletonErr none)) := by
  obtain ⟨h1, h2⟩ := call_name_only { cr.reg with autoId := World.effId w.macros 5 c } m w.nextId [] false
  have hfn : Reg.findName { cr.reg with autoId := World.effId w.macros 5 c } m = cr.reg.findName m := rfl
  rw [hfn] at h2
  rw [mkMacro_none w c m cr hc]
  simp only
  rw [(settle_regs _ _ _ _ _).2.1, (settle_regs _ _ _ _ _).2.2.1]
  refine ⟨_, updCls_get w.macros c cr _ _ hc, ?_, rfl, h2⟩
  simp only [h1]

/-- `lookupAll` stops with `SingletonError` at the first refusal; if one of the names cannot be found and all
    refusals are `SingletonError`s, that is the result -/
theorem lookupAll_missing (f : World → String → World × Out) (Pw : World → Prop) (n : String)
    (hstep : ∀ w m, Pw w → Pw (f w m).1 ∧
      ((∃ id c, (f w m).2 = .ret id c) ∨ ∃ e, (f w m).2 = .singletonErr e))
    (hmiss : ∀ w, Pw w → ∃ e, (f w n).2 = .singletonErr e) :
    ∀ (names : List String) (s : RState), Pw s.w → n ∈ names →
      ∃ s', s.lookupAll f names = (s', .error .singleton) := by
  intro names
  induction names with
  | nil => intro s _ hn; simp at hn
  | cons m ms ih =>
    intro s hP hn
    unfold lookupAll
    obtain ⟨hP', hout⟩ := hstep s.w m hP
    generalize hfm : f s.w m = x at hP' hout
    obtain ⟨w', out⟩ := x
    simp only at hP' hout ⊢
    by_cases hmn : m = n
    · subst hmn
      obtain ⟨e, he⟩ := hmiss s.w hP
      rw [hfm] at he
      simp only at he
      subst he
      exact ⟨_, rfl⟩
    · have hn' : n ∈ ms := by
        simp only [List.mem_cons] at hn
        rcases hn with h | h
        · exact absurd h.symm hmn
        · exact h
      rcases hout with ⟨id, c, rfl⟩ | ⟨e, rfl⟩
      · obtain ⟨s', hs'⟩ := ih { s with w := w' } hP' hn'
        simp only [hs']
        exact ⟨_, rfl⟩
      · exact ⟨_, rfl⟩

/-! ### domain requests in a consistent world -/

theorem call_ret_false {κ} [DecidableEq κ] (r : Reg κ) (canon : Option κ) (n : String) (fresh : Nat)
    (keys : List κ) (auto : Bool) (id : Nat) (h : (r.call canon (some n) fresh keys auto).2 = .ret id false) :
    ∃ o ∈ r.objs, o.id = id ∧ o.name = n := by
  cases canon with
  | none =>
    cases hn : r.findName n with
    | none => simp [Reg.call, Reg.decide, hn] at h
    | some o =>
      simp [Reg.call, Reg.decide, hn] at h
      obtain ⟨h1, h2⟩ := Reg.findName_some r n o hn
      exact ⟨o, h1, h, h2⟩
  | some k =>
    cases hn : r.findName n with
    | none =>
      cases hc : r.findCanon k <;> simp [Reg.call, Reg.decide, hn, hc] at h
    | some on =>
      obtain ⟨h1, h2⟩ := Reg.findName_some r n on hn
      cases hc : r.findCanon k with
      | none => simp [Reg.call, Reg.decide, hn, hc] at h
      | some oc =>
        by_cases hid : on.id = oc.id
        · simp [Reg.call, Reg.decide, hn, hc, hid] at h
          exact ⟨on, h1, by rw [hid]; exact h, h2⟩
        · simp [Reg.call, Reg.decide, hn, hc, hid] at h

theorem domTail_ret_false (r : Reg DKey) (fresh : Nat) (name : String) (length : Option Nat) (auto : Bool) (id : Nat)
    (h : (DomL.domTail r fresh name length auto).2 = .ret id false) : ∃ o ∈ r.objs, o.id = id ∧ o.name = name := by
  unfold DomL.domTail at h
  cases length with
  | none =>
    simp only at h
    split at h
    · split at h
      · exact call_ret_false _ _ _ _ _ _ _ h
      · exact call_ret_false _ _ _ _ _ _ _ h
    · exact call_ret_false _ _ _ _ _ _ _ h
  | some l =>
    simp only at h
    split at h
    · split at h
      · simp at h
      · exact call_ret_false _ _ _ _ _ _ _ h
    · exact call_ret_false _ _ _ _ _ _ _ h

theorem domainRequest_ret_false (cfg : DomCfg) (r : Reg DKey) (fresh : Nat) (q : DomReq) (id : Nat)
    (h : (domainRequest cfg r fresh q).2 = .ret id false) :
    ∃ o ∈ r.objs, o.id = id ∧ o.name = DomL.effName cfg r q := by
  rw [DomL.domainRequest_eq] at h
  split at h
  · simp at h
  · split at h
    · simp at h
    · exact domTail_ret_false _ _ _ _ _ _ h

/-- the slot class of domains is consistent with the world: identities are distinct and below the counter,
    every live domain has its node (of kind `dom`, of this class), node identities are below the counter -/
structure DomSlotOK (w : World) (c : Nat) : Prop where
  cls : ∃ cr, w.doms[c]? = some cr ∧ cr.reg.objs.Pairwise (fun a b => a.id ≠ b.id) ∧
    ∀ o ∈ cr.reg.objs, o.id < w.nextId ∧ ∃ n, w.node o.id = some n ∧ n.kind = .dom ∧ n.cls = c
  nodes : ∀ n ∈ w.nodes, n.id < w.nextId

theorem mkDom_eq (w : World) (c : Nat) (q : DomReq) :
    w.mkDom c q =
      (({ w with doms := (World.withClass w.doms c (fun r => domainRequest
            { ((w.cfg[c]?).getD {}) with prefix_ := World.effPrefix w.doms 5 c } r w.nextId q)).1 } : World).settle
          (World.withClass w.doms c (fun r => domainRequest
            { ((w.cfg[c]?).getD {}) with prefix_ := World.effPrefix w.doms 5 c } r w.nextId q)).2 .dom c [],
       (World.withClass w.doms c (fun r => domainRequest
            { ((w.cfg[c]?).getD {}) with prefix_ := World.effPrefix w.doms 5 c } r w.nextId q)).2) := rfl

theorem withClass_some {κ} (cs : List (ClassReg κ)) (c : Nat) (f : Reg κ → Reg κ × Out) (cr : ClassReg κ)
    (hc : cs[c]? = some cr) :
    World.withClass cs c f =
      (updCls cs c cr (World.effId cs 5 c) (f { cr.reg with autoId := World.effId cs 5 c }).1,
       (f { cr.reg with autoId := World.effId cs 5 c }).2) := by
  unfold World.withClass updCls
  simp only [hc]

theorem findId_unique {κ} [DecidableEq κ] (r : Reg κ) (h : r.objs.Pairwise (fun a b => a.id ≠ b.id)) (o : Obj κ)
    (ho : o ∈ r.objs) : r.findId o.id = some o := by
  unfold Reg.findId
  apply RegL.find?_unique _ _ o ho (by simp)
  intro a ha hp
  have hid : a.id = o.id := by simpa using hp
  rcases RegL.pairwise_cases _ _ h a o ha ho with h1 | h1 | h1
  · exact h1
  · exact absurd hid h1
  · exact absurd hid.symm h1

/-- **a successful domain request in a consistent world**: the world stays consistent and the returned
    identity is registered in the slot class under the requested name -/
theorem mkDom_ok (w : World) (c : Nat) (q : DomReq) (hok : DomSlotOK w c) (id : Nat) (b : Bool) (nm : String)
    (hq : q.name = some nm) (h : (w.mkDom c q).2 = .ret id b) :
    DomSlotOK (w.mkDom c q).1 c ∧ objName (w.mkDom c q).1.doms c id = some nm := by
  obtain ⟨⟨cr, hc, hpw, hobjs⟩, hnodes⟩ := hok
  rw [mkDom_eq, withClass_some w.doms c _ cr hc] at h ⊢
  simp only at h ⊢
  have heff : ∀ cfg r, DomL.effName cfg r q = nm := by
    intro cfg r; unfold DomL.effName; rw [hq]
  generalize hcfg : ({ ((w.cfg[c]?).getD {}) with prefix_ := World.effPrefix w.doms 5 c } : DomCfg) = cfg at h ⊢
  have hspec := DomL.domainRequest_spec cfg { cr.reg with autoId := World.effId w.doms 5 c } w.nextId q
  have hfalse := domainRequest_ret_false cfg { cr.reg with autoId := World.effId w.doms 5 c } w.nextId q
  generalize hX : domainRequest cfg { cr.reg with autoId := World.effId w.doms 5 c } w.nextId q = X at h hspec hfalse ⊢
  obtain ⟨r', out⟩ := X
  simp only at h hspec hfalse ⊢
  subst h
  have hdoms : ∀ (w1 : World), (w1.settle (.ret id b) .dom c []).doms = w1.doms := fun w1 => (settle_regs w1 _ _ _ _).1
  rw [hdoms]
  simp only
  have hget := updCls_get w.doms c cr (World.effId w.doms 5 c) r' hc
  cases b with
  | false =>
    rcases hspec with ⟨h1, _⟩ | ⟨L, hreq, _⟩
    · subst h1
      obtain ⟨o, ho, hoid, honame⟩ := hfalse id rfl
      rw [heff] at honame
      refine ⟨⟨⟨_, hget, hpw, ?_⟩, ?_⟩, ?_⟩
      · intro o' ho'
        exact hobjs o' ho'
      · exact hnodes
      · unfold objName
        rw [hget]
        simp only [Option.bind_some]
        have := findId_unique { cr.reg with autoId := World.effId w.doms 5 c } hpw o ho
        rw [hoid] at this
        rw [this]; simp [honame]
    · cases hreq
  | true =>
    rcases hspec with ⟨_, h2⟩ | ⟨L, hreq, _⟩
    · exact absurd rfl (h2 id)
    · simp only [Prod.mk.injEq, Out.ret.injEq, and_true] at hreq
      obtain ⟨hr', hid⟩ := hreq
      subst hid
      rw [heff] at hr'
      have hnodeNew : ∀ (x : Nat), x < w.nextId →
          List.find? (fun n => n.id == x) (w.nodes ++ [{ id := w.nextId, kind := .dom, cls := c, children := [] }]) =
            List.find? (fun n => n.id == x) w.nodes := by
        intro x hx
        rw [List.find?_append]
        cases hf : List.find? (fun n => n.id == x) w.nodes with
        | some n => rfl
        | none =>
          simp only [Option.none_or, List.find?_cons, List.find?_nil]
          have : (w.nextId == x) = false := by simp; omega
          simp [this]
      have hnone : List.find? (fun (n : Node) => n.id == w.nextId) w.nodes = none := by
        rw [List.find?_eq_none]
        intro n hn
        have := hnodes n hn
        simp; omega
      refine ⟨⟨⟨_, hget, ?_, ?_⟩, ?_⟩, ?_⟩
      · rw [hr']
        simp only [Reg.register]
        rw [List.pairwise_append]
        refine ⟨hpw, by simp, ?_⟩
        intro a ha b' hb'
        simp only [List.mem_singleton] at hb'; subst hb'
        have := (hobjs a ha).1
        simp only; omega
      · intro o ho
        rw [hr'] at ho
        simp only [Reg.register, List.mem_append, List.mem_singleton] at ho
        simp only [World.settle, World.node]
        rcases ho with ho | rfl
        · obtain ⟨h1, n, h2, h3, h4⟩ := hobjs o ho
          refine ⟨by omega, n, ?_, h3, h4⟩
          rw [hnodeNew o.id h1]; exact h2
        · refine ⟨by simp, { id := w.nextId, kind := .dom, cls := c, children := [] }, ?_, rfl, rfl⟩
          simp only
          rw [List.find?_append, hnone]
          simp
      · intro n hn
        simp only [World.settle, List.mem_append, List.mem_singleton] at hn ⊢
        rcases hn with hn | rfl
        · have := hnodes n hn; omega
        · simp
      · unfold objName
        rw [hget]
        simp only [Option.bind_some, hr', Reg.register, Reg.findId]
        have hnf : List.find? (fun (o : Obj DKey) => o.id == w.nextId) cr.reg.objs = none := by
          rw [List.find?_eq_none]
          intro o ho
          have := (hobjs o ho).1
          simp; omega
        rw [RegL.find?_append_none _ _ _ hnf]
        simp

theorem domObj_ok (w : World) (c : Nat) (hok : DomSlotOK w c) (id : Nat) (nm : String)
    (h : objName w.doms c id = some nm) : ∃ o, w.domObj id = some (c, o) ∧ o.name = nm := by
  obtain ⟨⟨cr, hc, _, hobjs⟩, _⟩ := hok
  unfold objName at h
  rw [hc] at h
  simp only [Option.bind_some] at h
  cases hf : cr.reg.findId id with
  | none => rw [hf] at h; cases h
  | some o =>
    rw [hf] at h
    simp only [Option.map_some, Option.some.injEq] at h
    have hmem : o ∈ cr.reg.objs := by unfold Reg.findId at hf; exact List.mem_of_find?_eq_some hf
    have hid : o.id = id := by unfold Reg.findId at hf; simpa using List.find?_some hf
    obtain ⟨_, n, hn, hk, hcl⟩ := hobjs o hmem
    rw [hid] at hn
    refine ⟨o, ?_, h⟩
    unfold World.domObj
    rw [hn]
    simp only [hk, if_true, hcl, hc, Option.bind_some, hf, Option.map_some]

/-- `~d` in a consistent world: the complement is registered in the same class under the complement name -/
theorem invert_ok (w : World) (c : Nat) (hok : DomSlotOK w c) (id : Nat) (nm : String)
    (hn : objName w.doms c id = some nm) (cid : Nat) (b : Bool) (h : (w.invert id).2 = .ret cid b) :
    DomSlotOK (w.invert id).1 c ∧ objName (w.invert id).1.doms c cid = some (cnameOf nm) := by
  obtain ⟨o, ho, hnm⟩ := domObj_ok w c hok id nm hn
  unfold World.invert at h ⊢
  rw [ho] at h ⊢
  simp only at h ⊢
  rw [hnm] at h ⊢
  exact mkDom_ok w c _ hok cid b (cnameOf nm) rfl h

/-! ### dictionary and association-list look-ups -/

theorem lookup_dictPut_self (d : List (String × Nat)) (n : String) (id : Nat) :
    (dictPut d n id).lookup n = some id := by
  unfold dictPut
  split
  · rename_i h
    induction d with
    | nil => simp at h
    | cons p ps ih =>
      obtain ⟨k, v⟩ := p
      by_cases hk : k = n
      · subst hk; simp
      · have hk' : (n == k) = false := by simpa using fun e => hk e.symm
        have hk'' : (k == n) = false := by simpa using hk
        simp only [List.any_cons, hk'', Bool.false_or] at h
        simp only [List.map_cons, hk'', Bool.false_eq_true, if_false, List.lookup_cons, hk']
        exact ih h
  · rename_i h
    rw [List.lookup_append]
    have : d.lookup n = none := by
      induction d with
      | nil => rfl
      | cons p ps ih =>
        obtain ⟨k, v⟩ := p
        simp only [List.any_cons, Bool.or_eq_true, not_or] at h
        have hk' : (n == k) = false := by
          have := h.1; simp only [beq_iff_eq] at this
          simpa using fun e => this e.symm
        simp only [List.lookup_cons, hk']
        exact ih (by simpa using h.2)
    rw [this]; simp

theorem lookup_map_ne (d : List (String × Nat)) (n m : String) (id : Nat) (h : m ≠ n) :
    (d.map (fun p => if p.1 == n then (n, id) else p)).lookup m = d.lookup m := by
  induction d with
  | nil => rfl
  | cons p ps ih =>
    obtain ⟨k, v⟩ := p
    by_cases hk : k = n
    · subst hk
      have : (m == k) = false := by simpa using h
      simp only [List.map_cons, beq_self_eq_true, if_true, List.lookup_cons, this]
      exact ih
    · have hk'' : (k == n) = false := by simpa using hk
      simp only [List.map_cons, hk'', Bool.false_eq_true, if_false, List.lookup_cons]
      rw [ih]

theorem lookup_dictPut_ne (d : List (String × Nat)) (n m : String) (id : Nat) (h : m ≠ n) :
    (dictPut d n id).lookup m = d.lookup m := by
  unfold dictPut
  split
  · exact lookup_map_ne d n m id h
  · rw [List.lookup_append]
    have : (m == n) = false := by simpa using h
    simp [List.lookup_cons, this]

theorem lookup_filter_ne {β} (l : List (Nat × β)) (id : Nat) :
    (l.filter (fun p => p.1 != id)).lookup id = none := by
  induction l with
  | nil => rfl
  | cons p ps ih =>
    obtain ⟨k, v⟩ := p
    by_cases hk : k = id
    · subst hk; simp [ih]
    · have h1 : (k != id) = true := by simpa using hk
      have h2 : (id == k) = false := by simpa using fun e => hk e.symm
      simp only [List.filter_cons, h1, if_true, List.lookup_cons, h2]
      exact ih

theorem lookup_filter_none {β} (l : List (Nat × β)) (id k : Nat) (h : l.lookup k = none) :
    (l.filter (fun p => p.1 != id)).lookup k = none := by
  induction l with
  | nil => rfl
  | cons p ps ih =>
    obtain ⟨a, v⟩ := p
    simp only [List.lookup_cons] at h
    cases hka : k == a with
    | true => rw [hka] at h; cases h
    | false =>
      rw [hka] at h
      simp only [List.filter_cons]
      split
      · simp only [List.lookup_cons, hka]; exact ih h
      · exact ih h

end Dsd.ReaderL
