/-
Well-formedness of the object world under the reader's operations (C16).
`WOK w`: four classes per kind, node identities unique and below `nextId`, every registry object has a node of
its kind and class, children of nodes are nodes, children of strands are domain objects with a proper name,
domain identities are unique per class.  Requests preserve it (`Grow`), collection preserves it.
-/
import DsdVerif.Lemmas.ReaderReq
import DsdVerif.Props.C05World

namespace Dsd.RdL
open Dsd Dsd.PP

def HasObj {κ} (cs : List (ClassReg κ)) (c i : Nat) : Prop := ∃ cr, cs[c]? = some cr ∧ ∃ o ∈ cr.reg.objs, o.id = i

/-- class `c` of kind `k` holds an object with identity `i` -/
def has (w : World) : Kind → Nat → Nat → Prop
  | .dom, c, i => HasObj w.doms c i
  | .strand, c, i => HasObj w.strands c i
  | .cplx, c, i => HasObj w.cplxs c i
  | .macro, c, i => HasObj w.macros c i
  | .rxn, c, i => HasObj w.rxns c i

/-- a live domain object whose complement has a proper name -/
def GoodDom (w : World) (i : Nat) : Prop :=
  ∃ (c : Nat) (cr : ClassReg DKey) (o : Obj DKey),
    w.doms[c]? = some cr ∧ o ∈ cr.reg.objs ∧ o.id = i ∧ o.name ≠ "" ∧ o.name ≠ "*"

def HasNode (w : World) (i : Nat) : Prop := ∃ m ∈ w.nodes, m.id = i

structure WOK (w : World) : Prop where
  lens : w.doms.length = 4 ∧ w.strands.length = 4 ∧ w.cplxs.length = 4 ∧ w.macros.length = 4 ∧ w.rxns.length = 4
  nodup : (w.nodes.map (·.id)).Nodup
  lt : ∀ n ∈ w.nodes, n.id < w.nextId
  objNode : ∀ k c i, has w k c i → ∃ n ∈ w.nodes, n.id = i ∧ n.kind = k ∧ n.cls = c
  child : ∀ n ∈ w.nodes, ∀ ch ∈ n.children, HasNode w ch
  strandChild : ∀ n ∈ w.nodes, n.kind = .strand → ∀ ch ∈ n.children, GoodDom w ch
  domIds : ∀ (c : Nat) (cr : ClassReg DKey), w.doms[c]? = some cr → (cr.reg.objs.map (·.id)).Nodup

theorem wok_empty : WOK ({} : World) := by
  refine ⟨⟨rfl, rfl, rfl, rfl, rfl⟩, by simp, by simp, ?_, by simp, by simp, ?_⟩
  · intro k c i h
    exfalso
    cases k <;> simp only [has, HasObj] at h <;> obtain ⟨cr, hcr, o, ho, _⟩ := h <;>
      (match c, hcr with
        | 0, hcr => simp at hcr; subst hcr; simp at ho
        | 1, hcr => simp at hcr; subst hcr; simp at ho
        | 2, hcr => simp at hcr; subst hcr; simp at ho
        | 3, hcr => simp at hcr; subst hcr; simp at ho
        | _ + 4, hcr => simp at hcr)
  · intro c cr hcr
    match c, hcr with
    | 0, hcr => simp at hcr; subst hcr; simp
    | 1, hcr => simp at hcr; subst hcr; simp
    | 2, hcr => simp at hcr; subst hcr; simp
    | 3, hcr => simp at hcr; subst hcr; simp
    | _ + 4, hcr => simp at hcr

/-- the well-formedness does not mention the handles -/
theorem wok_held (w : World) (h : WOK w) (held : List Nat) : WOK { w with held := held } :=
  ⟨h.lens, h.nodup, h.lt, h.objNode, h.child, h.strandChild, h.domIds⟩

theorem hasObj_set {κ} (cs : List (ClassReg κ)) (c : Nat) (cr cr' : ClassReg κ) (extra : List (Obj κ))
    (hc : cs[c]? = some cr) (hobjs : cr'.reg.objs = cr.reg.objs ++ extra) (c' i : Nat) :
    HasObj (cs.set c cr') c' i ↔ HasObj cs c' i ∨ (c' = c ∧ ∃ o ∈ extra, o.id = i) := by
  have hlt : c < cs.length := by
    rcases Nat.lt_or_ge c cs.length with h | h
    · exact h
    · rw [List.getElem?_eq_none h] at hc; cases hc
  unfold HasObj
  by_cases hcc : c' = c
  · subst hcc
    rw [List.getElem?_set_self hlt]
    constructor
    · rintro ⟨x, hx, o, ho, hi⟩
      cases hx
      rw [hobjs, List.mem_append] at ho
      rcases ho with ho | ho
      · exact Or.inl ⟨cr, hc, o, ho, hi⟩
      · exact Or.inr ⟨rfl, o, ho, hi⟩
    · rintro (⟨x, hx, o, ho, hi⟩ | ⟨_, o, ho, hi⟩)
      · rw [hc] at hx; cases hx
        exact ⟨cr', rfl, o, by rw [hobjs]; exact List.mem_append_left _ ho, hi⟩
      · exact ⟨cr', rfl, o, by rw [hobjs]; exact List.mem_append_right _ ho, hi⟩
  · rw [List.getElem?_set_ne (fun e => hcc e.symm)]
    constructor
    · intro h; exact Or.inl h
    · rintro (h | ⟨e, _⟩)
      · exact h
      · exact absurd e hcc

/-- the node a request adds -/
def newNodes (out : Out) (k : Kind) (c : Nat) (children : List Nat) : List Node :=
  match out with
  | .ret i true => [{ id := i, kind := k, cls := c, children := children }]
  | _ => []

def nextOf (out : Out) (n : Nat) : Nat :=
  match out with
  | .ret _ true => n + 1
  | _ => n

/-- the effect of a request of kind `k` to class `c` on the world -/
structure Grow (w w' : World) (k : Kind) (c : Nat) (children : List Nat) (out : Out) : Prop where
  lens : w'.doms.length = w.doms.length ∧ w'.strands.length = w.strands.length ∧ w'.cplxs.length = w.cplxs.length ∧
    w'.macros.length = w.macros.length ∧ w'.rxns.length = w.rxns.length
  hasOld : ∀ k' c' i, has w k' c' i → has w' k' c' i
  hasNew : ∀ k' c' i, has w' k' c' i → has w k' c' i ∨ (out = .ret w.nextId true ∧ i = w.nextId ∧ k' = k ∧ c' = c)
  ret : ∀ i b, out = .ret i b → has w' k c i
  retTrue : ∀ i, out = .ret i true → i = w.nextId
  nodes : w'.nodes = w.nodes ++ newNodes out k c children
  next : w'.nextId = nextOf out w.nextId
  goodOld : ∀ i, GoodDom w i → GoodDom w' i
  domObjs : ∀ (c' : Nat) (cr' : ClassReg DKey), w'.doms[c']? = some cr' → ∃ cr : ClassReg DKey, w.doms[c']? = some cr ∧
    (cr'.reg.objs = cr.reg.objs ∨ ∃ o, cr'.reg.objs = cr.reg.objs ++ [o] ∧ o.id = w.nextId)
  noFault : ∀ kk, out ≠ .fault kk

theorem Grow.nodesOld {w w' k c children out} (g : Grow w w' k c children out) : ∀ n ∈ w.nodes, n ∈ w'.nodes := by
  intro n hn; rw [g.nodes]; exact List.mem_append_left _ hn

theorem Grow.hasNodeOld {w w' k c children out} (g : Grow w w' k c children out) (i : Nat) (h : HasNode w i) :
    HasNode w' i := by
  obtain ⟨m, hm, hi⟩ := h
  exact ⟨m, g.nodesOld m hm, hi⟩

/-- requests preserve well-formedness, provided the children of a new node are nodes (domain objects with a proper
    name for a strand) -/
theorem Grow.wok {w w' k c children out} (g : Grow w w' k c children out) (h : WOK w)
    (hch : ∀ ch ∈ children, HasNode w ch) (hst : k = .strand → ∀ ch ∈ children, GoodDom w ch) : WOK w' := by
  have hnodes := g.nodes
  have hnext := g.next
  unfold newNodes at hnodes
  unfold nextOf at hnext
  refine ⟨?_, ?_, ?_, ?_, ?_, ?_, ?_⟩
  · obtain ⟨a, b, c', d, e⟩ := g.lens
    obtain ⟨a', b', c'', d', e'⟩ := h.lens
    exact ⟨by omega, by omega, by omega, by omega, by omega⟩
  · rw [hnodes]
    cases out with
    | ret i b =>
      cases b with
      | false => simpa using h.nodup
      | true =>
        have hi := g.retTrue i rfl
        simp only [List.map_append, List.map_cons, List.map_nil]
        rw [List.nodup_append]
        refine ⟨h.nodup, by simp, ?_⟩
        intro a ha b hb
        simp at hb; subst hb
        obtain ⟨n, hn, rfl⟩ := List.mem_map.mp ha
        have := h.lt n hn
        omega
    | _ => simpa using h.nodup
  · intro n hn
    rw [hnodes] at hn
    rw [hnext]
    rcases List.mem_append.mp hn with hn | hn
    · have := h.lt n hn
      cases out with
      | ret i b => cases b <;> simp <;> omega
      | _ => simpa using this
    · cases out with
      | ret i b =>
        cases b with
        | false => simp at hn
        | true =>
          have hi := g.retTrue i rfl
          simp at hn; subst hn; simp; omega
      | _ => simp at hn
  · intro k' c' i hh
    rcases g.hasNew k' c' i hh with hh | ⟨ho, hi, hk, hc⟩
    · obtain ⟨n, hn, h1⟩ := h.objNode k' c' i hh
      exact ⟨n, g.nodesOld n hn, h1⟩
    · refine ⟨{ id := i, kind := k, cls := c, children := children }, ?_, rfl, hk.symm, hc.symm⟩
      rw [hnodes, ho, hi]
      simp
  · intro n hn ch hc
    rw [hnodes] at hn
    rcases List.mem_append.mp hn with hn | hn
    · exact g.hasNodeOld ch (h.child n hn ch hc)
    · cases out with
      | ret i b =>
        cases b with
        | false => simp at hn
        | true => simp at hn; subst hn; exact g.hasNodeOld ch (hch ch hc)
      | _ => simp at hn
  · intro n hn hk ch hc
    rw [hnodes] at hn
    rcases List.mem_append.mp hn with hn | hn
    · exact g.goodOld ch (h.strandChild n hn hk ch hc)
    · cases out with
      | ret i b =>
        cases b with
        | false => simp at hn
        | true => simp at hn; subst hn; exact g.goodOld ch (hst hk ch hc)
      | _ => simp at hn
  · intro c' cr' hcr'
    obtain ⟨cr, hcr, hobjs | ⟨o, hobjs, hoid⟩⟩ := g.domObjs c' cr' hcr'
    · rw [hobjs]; exact h.domIds c' cr hcr
    · rw [hobjs]
      simp only [List.map_append, List.map_cons, List.map_nil]
      rw [List.nodup_append]
      refine ⟨h.domIds c' cr hcr, by simp, ?_⟩
      intro a ha b hb
      simp at hb; subst hb
      obtain ⟨o', ho', rfl⟩ := List.mem_map.mp ha
      obtain ⟨n, hn, hid, _⟩ := h.objNode .dom c' o'.id ⟨cr, hcr, o', ho', rfl⟩
      have := h.lt n hn
      omega

/-! ### building `Grow` from a registry outcome -/

theorem ROut.objs {κ} {r r' : Reg κ} {fresh : Nat} {nm : String} {out : Out} {new : Option (Obj κ)}
    (h : ROut r fresh nm r' out new) : r'.objs = r.objs ++ new.toList := by
  cases h <;> simp [Reg.register]

/-- the object a successful request answers with -/
theorem ROut.retObj {κ} {r r' : Reg κ} {fresh : Nat} {nm : String} {out : Out} {new : Option (Obj κ)}
    (h : ROut r fresh nm r' out new) (i : Nat) (b : Bool) (ho : out = .ret i b) :
    ∃ o ∈ r'.objs, o.id = i ∧ o.name = nm := by
  cases h with
  | created o auto h1 h2 =>
    cases ho
    exact ⟨o, by simp [Reg.register], h1, h2⟩
  | existing o h1 h2 => cases ho; exact ⟨o, h1, rfl, h2⟩
  | refused e h1 h2 => exact absurd ho (h2 i b)

theorem settle_nodes (w : World) (out : Out) (k : Kind) (c : Nat) (ch : List Nat) :
    (w.settle out k c ch).nodes = w.nodes ++ newNodes out k c ch ∧
    (w.settle out k c ch).nextId = nextOf out w.nextId := by
  unfold World.settle newNodes nextOf
  cases out with
  | ret i b => cases b <;> simp
  | _ => simp

theorem grow_build {κ} (w w' : World) (k : Kind) (c : Nat) (children : List Nat) (out : Out) (r r' : Reg κ)
    (nm : String) (new : Option (Obj κ)) (hr : ROut r w.nextId nm r' out new)
    (hlens : w'.doms.length = w.doms.length ∧ w'.strands.length = w.strands.length ∧
      w'.cplxs.length = w.cplxs.length ∧ w'.macros.length = w.macros.length ∧ w'.rxns.length = w.rxns.length)
    (hhas : ∀ k' c' i, has w' k' c' i ↔ has w k' c' i ∨ (k' = k ∧ c' = c ∧ ∃ o, new = some o ∧ o.id = i))
    (hex : ∀ o ∈ r.objs, has w k c o.id)
    (hnodes : w'.nodes = w.nodes ++ newNodes out k c children) (hnext : w'.nextId = nextOf out w.nextId)
    (hgood : ∀ i, GoodDom w i → GoodDom w' i)
    (hdom : ∀ (c' : Nat) (cr' : ClassReg DKey), w'.doms[c']? = some cr' → ∃ cr : ClassReg DKey, w.doms[c']? = some cr ∧
      (cr'.reg.objs = cr.reg.objs ∨ ∃ o, cr'.reg.objs = cr.reg.objs ++ [o] ∧ o.id = w.nextId)) :
    Grow w w' k c children out := by
  refine ⟨hlens, fun k' c' i h => (hhas k' c' i).2 (Or.inl h), ?_, ?_, ?_, hnodes, hnext, hgood, hdom, ?_⟩
  · intro k' c' i h
    rcases (hhas k' c' i).1 h with h | ⟨hk, hc, o, ho, hi⟩
    · exact Or.inl h
    · right
      cases hr with
      | created o' auto h1 h2 => cases ho; exact ⟨rfl, by rw [← hi, h1], hk, hc⟩
      | existing o' h1 h2 => cases ho
      | refused e h1 h2 => cases ho
  · intro i b ho
    cases hr with
    | created o auto h1 h2 =>
      cases ho
      exact (hhas k c _).2 (Or.inr ⟨rfl, rfl, o, rfl, h1⟩)
    | existing o h1 h2 => cases ho; exact (hhas k c _).2 (Or.inl (hex o h1))
    | refused e h1 h2 => exact absurd ho (h2 i b)
  · intro i ho
    cases hr with
    | created o auto h1 h2 => cases ho; rfl
    | existing o h1 h2 => cases ho
    | refused e h1 h2 => exact absurd ho (h2 i true)
  · intro kk ho
    cases hr with
    | created o auto h1 h2 => cases ho
    | existing o h1 h2 => cases ho
    | refused e h1 h2 => exact h1 kk ho

theorem withClass_some {κ} (cs : List (ClassReg κ)) (c : Nat) (f : Reg κ → Reg κ × Out) (cr : ClassReg κ)
    (hc : cs[c]? = some cr) :
    World.withClass cs c f =
      (cs.set c { cr with reg := (f { cr.reg with autoId := World.effId cs 5 c }).1,
                          ownId := cr.ownId || (f { cr.reg with autoId := World.effId cs 5 c }).1.autoId != World.effId cs 5 c },
       (f { cr.reg with autoId := World.effId cs 5 c }).2) := by
  unfold World.withClass
  rw [hc]

theorem goodDom_set (w : World) (c : Nat) (cr cr' : ClassReg DKey) (hc : w.doms[c]? = some cr)
    (hsub : ∀ o ∈ cr.reg.objs, o ∈ cr'.reg.objs) (ds : List (ClassReg DKey)) (hds : ds = w.doms.set c cr')
    (w' : World) (hw' : w'.doms = ds) (i : Nat) (h : GoodDom w i) : GoodDom w' i := by
  obtain ⟨c0, cr0, o, h1, h2, h3⟩ := h
  have hlt : c < w.doms.length := by
    rcases Nat.lt_or_ge c w.doms.length with h | h
    · exact h
    · rw [List.getElem?_eq_none h] at hc; cases hc
  by_cases hcc : c0 = c
  · subst hcc
    rw [hc] at h1; cases h1
    exact ⟨c0, cr', o, by rw [hw', hds, List.getElem?_set_self hlt], hsub o h2, h3⟩
  · exact ⟨c0, cr0, o, by rw [hw', hds, List.getElem?_set_ne (fun e => hcc e.symm)]; exact h1, h2, h3⟩

/-! ### domains -/

theorem mkDom_grow (w : World) (c : Nat) (cr : ClassReg DKey) (hc : w.doms[c]? = some cr) (n : String) (hn : n ≠ "")
    (len : Option Nat) :
    Grow w (w.mkDom c { name := some n, length := len }).1 .dom c [] (w.mkDom c { name := some n, length := len }).2 ∧
    (∀ i b, (w.mkDom c { name := some n, length := len }).2 = .ret i b → n ≠ "*" →
      GoodDom (w.mkDom c { name := some n, length := len }).1 i) := by
  rw [C05.mkDom_eq, withClass_some w.doms c _ cr hc]
  simp only
  obtain ⟨new, hr⟩ := domainRequest_rout
    { ((w.cfg[c]?).getD {}) with prefix_ := World.effPrefix w.doms 5 c }
    { cr.reg with autoId := World.effId w.doms 5 c } w.nextId n hn len
  generalize hres : domainRequest { ((w.cfg[c]?).getD {}) with prefix_ := World.effPrefix w.doms 5 c }
    { cr.reg with autoId := World.effId w.doms 5 c } w.nextId { name := some n, length := len } = res at hr
  obtain ⟨r', out⟩ := res
  simp only at hr ⊢
  have hobjs := hr.objs
  simp only at hobjs
  obtain ⟨f1, f2, f3, f4, f5, _⟩ := C05.settle_frame
    ({ w with doms := w.doms.set c { cr with reg := r', ownId := cr.ownId || r'.autoId != World.effId w.doms 5 c } } : World)
    out .dom c []
  obtain ⟨n1, n2⟩ := settle_nodes
    ({ w with doms := w.doms.set c { cr with reg := r', ownId := cr.ownId || r'.autoId != World.effId w.doms 5 c } } : World)
    out .dom c []
  have hset := hasObj_set w.doms c cr { cr with reg := r', ownId := cr.ownId || r'.autoId != World.effId w.doms 5 c }
    new.toList hc hobjs
  constructor
  · apply grow_build w _ .dom c [] out _ r' n new hr
    · simp [f1, f2, f3, f4, f5]
    · intro k' c' i
      cases k' <;> simp only [has, f1, f2, f3, f4, f5]
      · rw [hset c' i]
        simp [Option.mem_toList]
      all_goals simp
    · intro o ho
      exact ⟨cr, hc, o, ho, rfl⟩
    · exact n1
    · exact n2
    · intro i hi
      exact goodDom_set w c cr _ hc (fun o ho => by rw [hobjs]; exact List.mem_append_left _ ho) _ rfl _ f1 i hi
    · intro c' cr' hcr'
      rw [f1] at hcr'
      simp only at hcr'
      have hlt : c < w.doms.length := by
        rcases Nat.lt_or_ge c w.doms.length with h | h
        · exact h
        · rw [List.getElem?_eq_none h] at hc; cases hc
      by_cases hcc : c' = c
      · subst hcc
        rw [List.getElem?_set_self hlt] at hcr'
        cases hcr'
        refine ⟨cr, hc, ?_⟩
        simp only [hobjs]
        cases hr with
        | created o auto h1 h2 => right; exact ⟨o, by simp, h1⟩
        | existing o h1 h2 => left; simp
        | refused e h1 h2 => left; simp
      · rw [List.getElem?_set_ne (fun e => hcc e.symm)] at hcr'
        exact ⟨cr', hcr', Or.inl rfl⟩
  · intro i b ho hstar
    obtain ⟨o, ho1, ho2, ho3⟩ := hr.retObj i b ho
    have hlt : c < w.doms.length := by
      rcases Nat.lt_or_ge c w.doms.length with h | h
      · exact h
      · rw [List.getElem?_eq_none h] at hc; cases hc
    refine ⟨c, { cr with reg := r', ownId := cr.ownId || r'.autoId != World.effId w.doms 5 c }, o, ?_, ho1, ho2,
      by rw [ho3]; exact hn, by rw [ho3]; exact hstar⟩
    rw [f1]
    simp only
    rw [List.getElem?_set_self hlt]

theorem goodDom_congr (w w' : World) (h : w'.doms = w.doms) (i : Nat) (hg : GoodDom w i) : GoodDom w' i := by
  obtain ⟨c, cr, o, h1, h2⟩ := hg
  exact ⟨c, cr, o, by rw [h]; exact h1, h2⟩

theorem domObjs_congr (w w' : World) (h : w'.doms = w.doms) :
    ∀ (c' : Nat) (cr' : ClassReg DKey), w'.doms[c']? = some cr' → ∃ cr : ClassReg DKey, w.doms[c']? = some cr ∧
      (cr'.reg.objs = cr.reg.objs ∨ ∃ o, cr'.reg.objs = cr.reg.objs ++ [o] ∧ o.id = w.nextId) := by
  intro c' cr' hcr'
  exact ⟨cr', by rw [← h]; exact hcr', Or.inl rfl⟩

theorem getElem?_lt {α} (l : List α) (c : Nat) (x : α) (h : l[c]? = some x) : c < l.length := by
  rcases Nat.lt_or_ge c l.length with h' | h'
  · exact h'
  · rw [List.getElem?_eq_none h'] at h; cases h

/-! ### strands -/

theorem mkStrand_grow (w : World) (c : Nat) (cr : ClassReg CKey) (hc : w.strands[c]? = some cr)
    (seq : Option (List (Option Nat))) (n : String) :
    Grow w (w.mkStrand c seq (some n)).1 .strand c ((seq.getD []).filterMap id) (w.mkStrand c seq (some n)).2 := by
  unfold World.mkStrand
  simp only
  rw [withClass_some w.strands c _ cr hc]
  simp only
  obtain ⟨new, hr⟩ := strandRequest_rout (World.effPrefix w.strands 5 c)
    { cr.reg with autoId := World.effId w.strands 5 c } w.nextId (seq.map (fun s => (w.seqNames s).getD [])) n
  generalize hres : strandRequest (World.effPrefix w.strands 5 c)
    { cr.reg with autoId := World.effId w.strands 5 c } w.nextId (seq.map (fun s => (w.seqNames s).getD [])) (some n) = res at hr
  obtain ⟨r', out⟩ := res
  simp only at hr ⊢
  have hobjs := hr.objs
  simp only at hobjs
  obtain ⟨f1, f2, f3, f4, f5, _⟩ := C05.settle_frame
    ({ w with strands := w.strands.set c { cr with reg := r', ownId := cr.ownId || r'.autoId != World.effId w.strands 5 c } } : World)
    out .strand c ((seq.getD []).filterMap id)
  obtain ⟨n1, n2⟩ := settle_nodes
    ({ w with strands := w.strands.set c { cr with reg := r', ownId := cr.ownId || r'.autoId != World.effId w.strands 5 c } } : World)
    out .strand c ((seq.getD []).filterMap id)
  have hset := hasObj_set w.strands c cr { cr with reg := r', ownId := cr.ownId || r'.autoId != World.effId w.strands 5 c }
    new.toList hc hobjs
  apply grow_build w _ .strand c _ out _ r' n new hr
  · simp [f1, f2, f3, f4, f5]
  · intro k' c' i
    cases k' <;> simp only [has, f1, f2, f3, f4, f5]
    · simp
    · rw [hset c' i]
      simp [Option.mem_toList]
    all_goals simp
  · intro o ho
    exact ⟨cr, hc, o, ho, rfl⟩
  · exact n1
  · exact n2
  · exact goodDom_congr w _ f1
  · exact domObjs_congr w _ f1

/-! ### macrostates -/

theorem mkMacro_grow (w : World) (c : Nat) (cr : ClassReg MKey) (hc : w.macros[c]? = some cr)
    (members : Option (List Nat)) (n : String) :
    Grow w (w.mkMacro c members (some n)).1 .macro c (members.getD []) (w.mkMacro c members (some n)).2 := by
  unfold World.mkMacro
  simp only
  rw [withClass_some w.macros c _ cr hc]
  simp only
  obtain ⟨new, hr⟩ := macroRequest_rout { cr.reg with autoId := World.effId w.macros 5 c } w.nextId
    (members.map (fun l => l.filterMap (fun id => (w.cplxObj id).map (fun p => (p.2.name, p.2.canon))))) n
  generalize hres : macroRequest { cr.reg with autoId := World.effId w.macros 5 c } w.nextId
    (members.map (fun l => l.filterMap (fun id => (w.cplxObj id).map (fun p => (p.2.name, p.2.canon))))) (some n) = res at hr
  obtain ⟨r', out⟩ := res
  simp only at hr ⊢
  have hobjs := hr.objs
  simp only at hobjs
  obtain ⟨f1, f2, f3, f4, f5, _⟩ := C05.settle_frame
    ({ w with macros := w.macros.set c { cr with reg := r', ownId := cr.ownId || r'.autoId != World.effId w.macros 5 c } } : World)
    out .macro c (members.getD [])
  obtain ⟨n1, n2⟩ := settle_nodes
    ({ w with macros := w.macros.set c { cr with reg := r', ownId := cr.ownId || r'.autoId != World.effId w.macros 5 c } } : World)
    out .macro c (members.getD [])
  have hset := hasObj_set w.macros c cr { cr with reg := r', ownId := cr.ownId || r'.autoId != World.effId w.macros 5 c }
    new.toList hc hobjs
  apply grow_build w _ .macro c _ out _ r' n new hr
  · simp [f1, f2, f3, f4, f5]
  · intro k' c' i
    cases k' <;> simp only [has, f1, f2, f3, f4, f5]
    · simp
    · simp
    · simp
    · rw [hset c' i]
      simp [Option.mem_toList]
    · simp
  · intro o ho
    exact ⟨cr, hc, o, ho, rfl⟩
  · exact n1
  · exact n2
  · exact goodDom_congr w _ f1
  · exact domObjs_congr w _ f1

/-! ### complexes -/

theorem mkCplx_grow (w : World) (c : Nat) (cr : ClassReg CKey) (hc : w.cplxs[c]? = some cr)
    (seq : Option (List (Option Nat))) (sst : List Char) (n : String) :
    Grow w (w.mkCplx c seq sst (some n) none).1 .cplx c ((seq.getD []).filterMap id)
      (w.mkCplx c seq sst (some n) none).2.1 := by
  unfold World.mkCplx
  simp only [hc]
  obtain ⟨new, hr⟩ := complexRequest_rout (World.effPrefix w.cplxs 5 c)
    { cr.reg with autoId := World.effId w.cplxs 5 c } w.nextId (seq.map (fun s => (w.seqNames s).getD [])) sst n
  generalize hres : complexRequest (World.effPrefix w.cplxs 5 c)
    { cr.reg with autoId := World.effId w.cplxs 5 c } w.nextId
    { seq := seq.map (fun s => (w.seqNames s).getD []), sst := sst, name := some n, prefix_ := none } = res at hr
  obtain ⟨r', out, ids⟩ := res
  simp only at hr ⊢
  have hobjs := hr.objs
  simp only at hobjs
  obtain ⟨f1, f2, f3, f4, f5, _⟩ := C05.settle_frame
    ({ w with cplxs := w.cplxs.set c { cr with reg := r', ownId := cr.ownId || r'.autoId != World.effId w.cplxs 5 c } } : World)
    out .cplx c ((seq.getD []).filterMap id)
  obtain ⟨n1, n2⟩ := settle_nodes
    ({ w with cplxs := w.cplxs.set c { cr with reg := r', ownId := cr.ownId || r'.autoId != World.effId w.cplxs 5 c } } : World)
    out .cplx c ((seq.getD []).filterMap id)
  have hset := hasObj_set w.cplxs c cr { cr with reg := r', ownId := cr.ownId || r'.autoId != World.effId w.cplxs 5 c }
    new.toList hc hobjs
  -- the final record differs from the settled one in `cstate` only
  generalize hw2 : (({ w with cplxs := w.cplxs.set c { cr with reg := r', ownId := cr.ownId || r'.autoId != World.effId w.cplxs 5 c } } : World).settle
    out .cplx c ((seq.getD []).filterMap id)) = w2 at f1 f2 f3 f4 f5 n1 n2
  have hfin : ∀ w3 : World, (w3.doms = w2.doms ∧ w3.strands = w2.strands ∧ w3.cplxs = w2.cplxs ∧ w3.macros = w2.macros ∧
      w3.rxns = w2.rxns ∧ w3.nodes = w2.nodes ∧ w3.nextId = w2.nextId) →
      Grow w w3 .cplx c ((seq.getD []).filterMap id) out := by
    intro w3 ⟨g1, g2, g3, g4, g5, g6, g7⟩
    apply grow_build w _ .cplx c _ out _ r' n new hr
    · simp [g1, g2, g3, g4, g5, f1, f2, f3, f4, f5]
    · intro k' c' i
      cases k' <;> simp only [has, g1, g2, g3, g4, g5, f1, f2, f3, f4, f5]
      · simp
      · simp
      · rw [hset c' i]
        simp [Option.mem_toList]
      · simp
      · simp
    · intro o ho
      exact ⟨cr, hc, o, ho, rfl⟩
    · rw [g6]; exact n1
    · rw [g7]; exact n2
    · exact goodDom_congr w _ (by rw [g1, f1])
    · exact domObjs_congr w _ (by rw [g1, f1])
  apply hfin
  split <;> simp

/-! ### reactions -/

theorem mkRxn_grow (w : World) (c : Nat) (cr : ClassReg RKey) (hc : w.rxns[c]? = some cr)
    (rs ps : List Nat) (rtype name : Option String) :
    Grow w (w.mkRxn c (some rs) (some ps) rtype name).1 .rxn c (rs ++ ps)
      (w.mkRxn c (some rs) (some ps) rtype name).2.1 := by
  unfold World.mkRxn
  simp only [hc, Option.map_some, Option.getD_some]
  obtain ⟨nm, new, hr⟩ := reactionRequest_rout cr.reg w.nextId (rs.filterMap w.memberKey) (ps.filterMap w.memberKey)
    rtype name
  generalize hres : reactionRequest cr.reg w.nextId (some (rs.filterMap w.memberKey)) (some (ps.filterMap w.memberKey))
    rtype name = res at hr
  obtain ⟨r', out, lists⟩ := res
  simp only at hr ⊢
  have hobjs := hr.objs
  obtain ⟨f1, f2, f3, f4, f5, _⟩ := C05.settle_frame
    ({ w with rxns := w.rxns.set c { cr with reg := r' } } : World) out .rxn c (rs ++ ps)
  obtain ⟨n1, n2⟩ := settle_nodes
    ({ w with rxns := w.rxns.set c { cr with reg := r' } } : World) out .rxn c (rs ++ ps)
  have hset := hasObj_set w.rxns c cr { cr with reg := r' } new.toList hc hobjs
  apply grow_build w _ .rxn c _ out _ r' nm new hr
  · simp [f1, f2, f3, f4, f5]
  · intro k' c' i
    cases k' <;> simp only [has, f1, f2, f3, f4, f5]
    · simp
    · simp
    · simp
    · simp
    · rw [hset c' i]
      simp [Option.mem_toList]
  · intro o ho
    exact ⟨cr, hc, o, ho, rfl⟩
  · exact n1
  · exact n2
  · exact goodDom_congr w _ f1
  · exact domObjs_congr w _ f1

/-! ### looking objects up in a well-formed world -/

theorem eq_of_nodup_map {α β} (f : α → β) (l : List α) (h : (l.map f).Nodup) (a b : α) (ha : a ∈ l) (hb : b ∈ l)
    (hf : f a = f b) : a = b := by
  induction l with
  | nil => simp at ha
  | cons x xs ih =>
    simp only [List.map_cons, List.nodup_cons, List.mem_map, not_exists, not_and] at h
    rcases List.mem_cons.mp ha with ea | ha'
    · rcases List.mem_cons.mp hb with eb | hb'
      · rw [ea, eb]
      · exact absurd (by rw [← ea]; exact hf.symm) (h.1 b hb')
    · rcases List.mem_cons.mp hb with eb | hb'
      · exact absurd (by rw [← eb]; exact hf) (h.1 a ha')
      · exact ih h.2 ha' hb'

theorem node_of_mem (w : World) (h : WOK w) (n : Node) (hn : n ∈ w.nodes) : w.node n.id = some n := by
  unfold World.node
  apply RegL.find?_unique _ _ n hn (by simp)
  intro a ha hp
  exact eq_of_nodup_map (·.id) w.nodes h.nodup a n ha hn (by simpa using hp)

theorem node_of_has (w : World) (h : WOK w) (k : Kind) (c i : Nat) (hh : has w k c i) :
    ∃ n, w.node i = some n ∧ n ∈ w.nodes ∧ n.id = i ∧ n.kind = k ∧ n.cls = c := by
  obtain ⟨n, hn, h1, h2, h3⟩ := h.objNode k c i hh
  exact ⟨n, by rw [← h1]; exact node_of_mem w h n hn, hn, h1, h2, h3⟩

/-- a good domain can be looked up by its identity -/
theorem domObj_of_good (w : World) (h : WOK w) (i : Nat) (hg : GoodDom w i) :
    ∃ (c : Nat) (cr : ClassReg DKey) (o : Obj DKey), w.domObj i = some (c, o) ∧ w.doms[c]? = some cr ∧
      o.name ≠ "" ∧ o.name ≠ "*" := by
  obtain ⟨c, cr, o, h1, h2, h3, h4, h5⟩ := hg
  obtain ⟨n, hn, _, _, hk, hc⟩ := node_of_has w h .dom c i ⟨cr, h1, o, h2, h3⟩
  refine ⟨c, cr, o, ?_, h1, h4, h5⟩
  unfold World.domObj
  rw [hn]
  simp only [hk, if_true, hc, h1, Option.bind_some]
  have : cr.reg.findId i = some o := by
    unfold Reg.findId
    apply RegL.find?_unique _ _ o h2 (by simp [h3])
    intro a ha hp
    exact eq_of_nodup_map (·.id) cr.reg.objs (h.domIds c cr h1) a o ha h2 (by simp at hp; rw [hp, h3])
  rw [this]
  rfl

/-- `~d` for a good domain -/
theorem invert_grow (w : World) (h : WOK w) (i : Nat) (hg : GoodDom w i) :
    ∃ c, Grow w (w.invert i).1 .dom c [] (w.invert i).2 ∧
      (∀ j b, (w.invert i).2 = .ret j b → HasObj (w.invert i).1.doms c j) := by
  obtain ⟨c, cr, o, h1, h2, h3, h4⟩ := domObj_of_good w h i hg
  refine ⟨c, ?_⟩
  unfold World.invert
  rw [h1]
  simp only
  obtain ⟨g, _⟩ := mkDom_grow w c cr h2 (cnameOf o.name) (cnameOf_ne_empty _ ⟨h3, h4⟩) (some o.canon.2)
  exact ⟨g, fun j b hj => g.ret j b hj⟩

/-! ### garbage collection -/

theorem dropDead_some {κ} [DecidableEq κ] (cs : List (ClassReg κ)) (alive : List Nat) (c : Nat) (cr' : ClassReg κ)
    (h : (World.dropDead cs alive)[c]? = some cr') :
    ∃ cr, cs[c]? = some cr ∧ cr'.reg.objs = cr.reg.objs.filter (fun o => alive.contains o.id) := by
  unfold World.dropDead at h
  rw [List.getElem?_map] at h
  cases hc : cs[c]? with
  | none => rw [hc] at h; simp at h
  | some cr =>
    rw [hc] at h
    simp only [Option.map_some, Option.some.injEq] at h
    subst h
    exact ⟨cr, rfl, rfl⟩

theorem hasObj_dropDead {κ} [DecidableEq κ] (cs : List (ClassReg κ)) (alive : List Nat) (c i : Nat) :
    HasObj (World.dropDead cs alive) c i ↔ HasObj cs c i ∧ i ∈ alive := by
  constructor
  · rintro ⟨cr', hcr', o, ho, hi⟩
    obtain ⟨cr, hcr, hobjs⟩ := dropDead_some cs alive c cr' hcr'
    rw [hobjs] at ho
    simp only [List.mem_filter, List.contains_eq_mem, decide_eq_true_eq] at ho
    exact ⟨⟨cr, hcr, o, ho.1, hi⟩, by rw [← hi]; exact ho.2⟩
  · rintro ⟨⟨cr, hcr, o, ho, hi⟩, ha⟩
    refine ⟨_, C05.dropDead_get cs alive c cr hcr, o, ?_, hi⟩
    simp only [List.mem_filter, List.contains_eq_mem, decide_eq_true_eq]
    exact ⟨ho, by rw [hi]; exact ha⟩

theorem has_collect (w : World) (k : Kind) (c i : Nat) : has w.collect k c i ↔ has w k c i ∧ i ∈ w.reachable := by
  cases k <;> simp only [has, World.collect] <;> exact hasObj_dropDead _ _ _ _

theorem childrenOf_of_mem (w : World) (h : WOK w) (n : Node) (hn : n ∈ w.nodes) : w.childrenOf n.id = n.children := by
  have := node_of_mem w h n hn
  unfold World.node at this
  unfold World.childrenOf
  rw [this]

/-- the reachable set is closed under containment -/
theorem reachable_closed (w : World) (h : WOK w) (n : Node) (hn : n ∈ w.nodes) (hr : n.id ∈ w.reachable)
    (ch : Nat) (hc : ch ∈ n.children) : ch ∈ w.reachable := by
  have hids : ∀ x, C05.Reach w x → x ∈ w.held ∨ ∃ m ∈ w.nodes, m.id = x := by
    intro x hx
    induction hx with
    | held y hy => exact Or.inl hy
    | child a b ha hb _ =>
      right
      unfold World.childrenOf at hb
      cases hf : w.nodes.find? (fun m => m.id == a) with
      | none => rw [hf] at hb; simp at hb
      | some m =>
        rw [hf] at hb
        exact h.child m (List.mem_of_find?_eq_some hf) b hb
  apply C05.reachable_complete w hids h.nodup
  apply C05.Reach.child n.id ch (C05.reachable_sound w n.id hr)
  rw [childrenOf_of_mem w h n hn]
  exact hc

theorem wok_collect (w : World) (h : WOK w) : WOK w.collect := by
  refine ⟨?_, ?_, ?_, ?_, ?_, ?_, ?_⟩
  · obtain ⟨a, b, c, d, e⟩ := h.lens
    simp only [World.collect, World.dropDead, List.length_map]
    exact ⟨a, b, c, d, e⟩
  · simp only [World.collect]
    exact List.Nodup.sublist (List.Sublist.map _ List.filter_sublist) h.nodup
  · intro n hn
    simp only [World.collect, List.mem_filter] at hn ⊢
    exact h.lt n hn.1
  · intro k c i hh
    obtain ⟨hh, ha⟩ := (has_collect w k c i).1 hh
    obtain ⟨n, hn, h1, h2, h3⟩ := h.objNode k c i hh
    refine ⟨n, ?_, h1, h2, h3⟩
    simp only [World.collect, List.mem_filter, List.contains_eq_mem, decide_eq_true_eq]
    exact ⟨hn, by rw [h1]; exact ha⟩
  · intro n hn ch hc
    simp only [World.collect, List.mem_filter, List.contains_eq_mem, decide_eq_true_eq] at hn
    obtain ⟨m, hm, hmi⟩ := h.child n hn.1 ch hc
    refine ⟨m, ?_, hmi⟩
    simp only [World.collect, List.mem_filter, List.contains_eq_mem, decide_eq_true_eq]
    exact ⟨hm, by rw [hmi]; exact reachable_closed w h n hn.1 hn.2 ch hc⟩
  · intro n hn hk ch hc
    simp only [World.collect, List.mem_filter, List.contains_eq_mem, decide_eq_true_eq] at hn
    obtain ⟨c, cr, o, h1, h2, h3, h4⟩ := h.strandChild n hn.1 hk ch hc
    have hal := reachable_closed w h n hn.1 hn.2 ch hc
    refine ⟨c, { cr with reg := { cr.reg with objs := cr.reg.objs.filter (fun o => w.reachable.contains o.id) } },
      o, ?_, ?_, h3, h4⟩
    · simp only [World.collect]
      exact C05.dropDead_get w.doms _ c cr h1
    · simp only [List.mem_filter, List.contains_eq_mem, decide_eq_true_eq]
      exact ⟨h2, by rw [h3]; exact hal⟩
  · intro c cr' hcr'
    simp only [World.collect] at hcr'
    obtain ⟨cr, hcr, hobjs⟩ := dropDead_some w.doms _ c cr' hcr'
    rw [hobjs]
    exact List.Nodup.sublist (List.Sublist.map _ List.filter_sublist) (h.domIds c cr hcr)

end Dsd.RdL
