/-
`add_constraint` of the legacy `SequenceConstraint` (as translated) changes `_sequence` and nothing else; a complement read afterwards is the
complement of the NEW sequence.
-/
import DsdVerif.Lemmas.PyLegacySeq2

set_option linter.unusedSimpArgs false

namespace Dsd.PyLegacySeq
open Dsd Dsd.Gen Dsd.PyObj.Basic

theorem bin_pure (x : List Char) (st : SequenceConstraint.Self) : ∃ r, (py_SequenceConstraint_iupac_bin x).exec st = (r, st) := by
  unfold py_SequenceConstraint_iupac_bin
  simp only [exec_bind, exec_get, exec_pure, exec_lift, exec_monadLift]
  exact ⟨_, rfl⟩

theorem binI_pure (n : Nat) (st : SequenceConstraint.Self) : ∃ r, (py_SequenceConstraint_bin_iupac n).exec st = (r, st) := by
  unfold py_SequenceConstraint_bin_iupac
  simp only [exec_bind, exec_get, exec_pure, exec_lift, exec_monadLift]
  exact ⟨_, rfl⟩

theorem step_pure (nucs : List Char × List Char) (v : SequenceConstraint_iupac_union.Vars) (n : List Char) (st : SequenceConstraint.Self) :
    ∃ r, (SequenceConstraint_iupac_union.loop1 nucs v n).exec st = (r, st) := by
  unfold SequenceConstraint_iupac_union.loop1
  simp only [exec_bind, exec_pure]
  obtain ⟨r1, h1⟩ := bin_pure v.u st
  obtain ⟨r2, h2⟩ := bin_pure n st
  rw [h1]
  cases r1 with
  | error e => exact ⟨_, rfl⟩
  | ok a =>
    simp only [h2]
    cases r2 with
    | error e => exact ⟨_, rfl⟩
    | ok b =>
      simp only []
      obtain ⟨r3, h3⟩ := binI_pure (a &&& b) st
      rw [h3]
      cases r3 <;> exact ⟨_, rfl⟩

theorem foldlM_pure {α β : Type} (f : β → α → SequenceConstraint.M β) (hf : ∀ v x st, ∃ r, (f v x).exec st = (r, st)) :
    ∀ (l : List α) (v : β) (st : SequenceConstraint.Self), ∃ r, (List.foldlM f v l).exec st = (r, st) := by
  intro l
  induction l with
  | nil => intro v st; exact ⟨_, rfl⟩
  | cons x xs ih =>
    intro v st
    rw [List.foldlM_cons, exec_bind]
    obtain ⟨r, hr⟩ := hf v x st
    rw [hr]
    cases r with
    | error e => exact ⟨_, rfl⟩
    | ok v' => exact ih v' st

theorem union_pure (p : List Char × List Char) (st : SequenceConstraint.Self) :
    ∃ r, (py_SequenceConstraint_iupac_union p).exec st = (r, st) := by
  unfold py_SequenceConstraint_iupac_union
  simp only [exec_bind, exec_pure]
  obtain ⟨r, hr⟩ := foldlM_pure (SequenceConstraint_iupac_union.loop1 p) (step_pure p) [p.1, p.2] { u := ['N'] } st
  rw [hr]
  cases r <;> exact ⟨_, rfl⟩

theorem mapM_pure {α β : Type} (f : α → SequenceConstraint.M β) (hf : ∀ x st, ∃ r, (f x).exec st = (r, st)) :
    ∀ (l : List α) (st : SequenceConstraint.Self), ∃ r, (List.mapM f l).exec st = (r, st) := by
  intro l
  induction l with
  | nil => intro st; exact ⟨_, rfl⟩
  | cons x xs ih =>
    intro st
    rw [List.mapM_cons, exec_bind]
    obtain ⟨r, hr⟩ := hf x st
    rw [hr]
    cases r with
    | error e => exact ⟨_, rfl⟩
    | ok y =>
      simp only [exec_bind]
      obtain ⟨r2, hr2⟩ := ih st
      rw [hr2]
      cases r2 <;> exact ⟨_, rfl⟩

/-- **`add_constraint` assigns `_sequence` and nothing else** (in particular nothing that a later complement read could reuse) -/
theorem add_frame (con : List (List Char)) (st st' : SequenceConstraint.Self)
    (h : (py_SequenceConstraint_add_constraint con).exec st = (.ok (), st')) : ∃ new, st' = { st with _sequence := new } := by
  unfold py_SequenceConstraint_add_constraint py_SequenceConstraint_merge_constraints at h
  simp only [exec_ite, exec_bind, exec_get, exec_pure, exec_throw, exec_modify] at h
  split at h
  · cases h
  · obtain ⟨r, hr⟩ := mapM_pure (fun x => py_SequenceConstraint_iupac_union x) union_pure (List.zip st._sequence con) st
    rw [hr] at h
    cases r with
    | error e => cases h
    | ok new =>
      simp only [] at h
      split at h
      · cases h
      · simp only [Prod.mk.injEq] at h
        exact ⟨new, h.2.symm⟩

/-- **after `add_constraint`, `complement` is the current API's complement of the NEW sequence** -/
theorem add_then_complement (s : List Char) (mol : String) (hm : mol = "DNA" ∨ mol = "RNA") (con : List (List Char))
    (st' : SequenceConstraint.Self) (h : (py_SequenceConstraint_add_constraint con).exec (mkS s mol) = (.ok (), st'))
    (s' : List Char) (hs' : st'._sequence = s'.map (fun c => [c])) (hi : ∀ c ∈ s', c ∈ codesOf mol) :
    (py_SequenceConstraint_complement).exec st' = (py_complement s' mol, st') := by
  obtain ⟨new, hn⟩ := add_frame con _ _ h
  have : st' = mkS s' mol := by
    rw [hn] at hs' ⊢
    simp only [] at hs'
    rw [hs']; rfl
  rw [this]
  exact complement_eq s' mol hm hi

end Dsd.PyLegacySeq
