import DsdVerif.Gen.PyFuncs
import DsdVerif.Lemmas.Locus

namespace Dsd.PyEq
open Dsd Dsd.Bracket

theorem toSym_cases (c : Char) :
    (c = '(' ∧ toSym c = some .op) ∨ (c = ')' ∧ toSym c = some .cl) ∨ (c = '.' ∧ toSym c = some .dot) ∨
    (c ≠ '(' ∧ c ≠ ')' ∧ c ≠ '.' ∧ toSym c = none) := by
  unfold toSym
  split <;> simp_all

/-! ### toLocus under growth of the last strand -/

theorem toLocus_stable (ls : List Nat) (l l' : Nat) (r : List Nat) (i : Nat)
    (h : i < ls.sum + l) (hl : l ≤ l') :
    toLocus (ls ++ l' :: r) i = toLocus (ls ++ [l]) i := by
  induction ls generalizing i with
  | nil =>
    simp only [List.sum_nil, Nat.zero_add] at h
    simp only [List.nil_append]
    rw [toLocus_cons_lt _ _ _ (by omega), toLocus_cons_lt _ _ _ h]
  | cons a as ih =>
    simp only [List.sum_cons] at h
    simp only [List.cons_append]
    by_cases hi : i < a
    · rw [toLocus_cons_lt _ _ _ hi, toLocus_cons_lt _ _ _ hi]
    · rw [toLocus_cons_ge _ _ _ hi, toLocus_cons_ge _ _ _ hi, ih (i - a) (by omega)]

theorem toLocus_new (ls : List Nat) (l : Nat) (r : List Nat) (k : Nat) (h : k < l) :
    toLocus (ls ++ l :: r) (ls.sum + k) = (ls.length, k) := by
  induction ls with
  | nil => simp [toLocus_cons_lt _ _ _ h]
  | cons a as ih =>
    simp only [List.cons_append, List.sum_cons, List.length_cons]
    rw [toLocus_cons_ge _ _ _ (by omega)]
    have : a + as.sum + k - a = as.sum + k := by omega
    rw [this, ih]

/-! ### the Python primitives on a table of known shape -/

theorem appendLast_spec {α} (pt : List (List α)) (li : List Nat) (cl : Nat) (x : α)
    (h : pt.map List.length = li ++ [cl]) :
    ∃ pt', Py.appendLast pt x = .ok pt' ∧ pt'.map List.length = li ++ [cl + 1] ∧
      pt'.flatten = pt.flatten ++ [x] := by
  rcases List.eq_nil_or_concat pt with rfl | ⟨init, cur, rfl⟩
  · simp at h
  · simp only [List.concat_eq_append] at h ⊢
    simp only [List.map_append, List.map_cons, List.map_nil] at h
    obtain ⟨h1, h2⟩ := List.append_inj' h rfl
    simp only [List.cons.injEq, and_true] at h2
    refine ⟨init ++ [cur ++ [x]], ?_, ?_, ?_⟩
    · simp [Py.appendLast]; rfl
    · simp [h1, h2]
    · simp

theorem setIdx2_cons_succ {α} (a : List α) (pt : List (List α)) (i j : Nat) (x : α) :
    Py.setIdx2 (a :: pt) (i + 1) j x = (Py.setIdx2 pt i j x).map (a :: ·) := by
  unfold Py.setIdx2 Py.idx Py.setIdx
  simp only [List.getElem?_cons_succ]
  cases pt[i]? with
  | none => rfl
  | some row =>
    simp only [List.length_cons, Nat.add_lt_add_iff_right, List.set_cons_succ]
    by_cases hj : j < row.length <;> by_cases hi : i < pt.length <;>
      simp [hj, hi, bind, Except.bind, pure, Except.pure, Except.map, throw, throwThe, MonadExceptOf.throw]

theorem setIdx2_spec {α} (pt : List (List α)) (t : Nat) (x : α)
    (h : t < (pt.map List.length).sum) :
    ∃ pt', Py.setIdx2 pt (toLocus (pt.map List.length) t).1 (toLocus (pt.map List.length) t).2 x = .ok pt' ∧
      pt'.map List.length = pt.map List.length ∧ pt'.flatten = pt.flatten.set t x := by
  induction pt generalizing t with
  | nil => simp at h
  | cons a pt ih =>
    simp only [List.map_cons, List.sum_cons] at h
    simp only [List.map_cons]
    by_cases ht : t < a.length
    · rw [toLocus_cons_lt _ _ _ ht]
      refine ⟨a.set t x :: pt, ?_, ?_, ?_⟩
      · simp [Py.setIdx2, Py.idx, Py.setIdx, ht, bind, Except.bind, pure, Except.pure]
      · simp
      · simp [ht]
    · rw [toLocus_cons_ge _ _ _ ht]
      obtain ⟨pt', e1, e2, e3⟩ := ih (t - a.length) (by omega)
      refine ⟨a :: pt', ?_, ?_, ?_⟩
      · simp only [setIdx2_cons_succ, e1]; rfl
      · simp [e2]
      · simp [List.set_append, ht, e3]


/-! ### the simulation relation -/

/-- the local variables of the Python loop against the linear matcher state; `li ++ [cl]` are the strand lengths so far -/
structure R (v : Gen.make_pair_table.Vars) (li : List Nat) (cl : Nat) (s : St) : Prop where
  shape : v.pair_table.map List.length = li ++ [cl]
  si : v.strand_index = li.length
  di : v.domain_index = cl
  flat : v.pair_table.flatten = s.tbl.map (Option.map (toLocus (li ++ [cl])))
  stack : v.stack = (s.stack.map (toLocus (li ++ [cl]))).reverse
  hst : ∀ t ∈ s.stack, t < s.tbl.length
  htb : ∀ j, some j ∈ s.tbl → j < s.tbl.length

theorem R.len {v li cl s} (h : R v li cl s) : s.tbl.length = li.sum + cl := by
  have := congrArg List.length h.flat
  rw [List.length_flatten, h.shape] at this
  simpa using this.symm

theorem map_tbl_congr (tbl : List (Option Nat)) (ls : List Nat) (l l' : Nat) (r : List Nat)
    (hlen : tbl.length = ls.sum + l) (hl : l ≤ l') (htb : ∀ j, some j ∈ tbl → j < tbl.length) :
    tbl.map (Option.map (toLocus (ls ++ l' :: r))) = tbl.map (Option.map (toLocus (ls ++ [l]))) := by
  apply List.map_congr_left
  intro o ho
  cases o with
  | none => rfl
  | some j =>
    simp only [Option.map_some]
    rw [toLocus_stable ls l l' r j (by have := htb j ho; omega) hl]

theorem map_stack_congr (st : List Nat) (n : Nat) (ls : List Nat) (l l' : Nat) (r : List Nat)
    (hlen : n = ls.sum + l) (hl : l ≤ l') (hst : ∀ t ∈ st, t < n) :
    st.map (toLocus (ls ++ l' :: r)) = st.map (toLocus (ls ++ [l])) := by
  apply List.map_congr_left
  intro t ht
  exact toLocus_stable ls l l' r t (by have := hst t ht; omega) hl

theorem step_brk (ss : List Char) (brk : Char) (v li cl s) (h : R v li cl s) :
    ∃ v', Gen.make_pair_table.loop1 ss brk ['.'] v brk = .ok v' ∧ R v' (li ++ [cl]) 0 s := by
  refine ⟨{ v with strand_index := v.strand_index + 1, domain_index := 0, pair_table := v.pair_table ++ [[]] }, ?_, ?_⟩
  · simp [Gen.make_pair_table.loop1]; rfl
  · have hlen := h.len
    constructor
    · simp [h.shape]
    · simp [h.si]
    · rfl
    · simp only [List.flatten_append, List.flatten_cons, List.flatten_nil, List.append_nil, h.flat,
        List.append_assoc, List.cons_append, List.nil_append]
      exact (map_tbl_congr s.tbl li cl cl [0] hlen (Nat.le_refl _) h.htb).symm
    · simp only [h.stack, List.append_assoc, List.cons_append, List.nil_append]
      rw [map_stack_congr s.stack s.tbl.length li cl cl [0] hlen (Nat.le_refl _) h.hst]
    · exact h.hst
    · exact h.htb

theorem step_dot (ss : List Char) (brk : Char) (v li cl s) (h : R v li cl s) (hb : '.' ≠ brk) :
    ∃ v', Gen.make_pair_table.loop1 ss brk ['.'] v '.' = .ok v' ∧
      R v' li (cl + 1) { s with tbl := s.tbl ++ [none] } := by
  obtain ⟨pt', e1, e2, e3⟩ := appendLast_spec v.pair_table li cl none h.shape
  refine ⟨{ v with pair_table := pt', domain_index := v.domain_index + 1 }, ?_, ?_⟩
  · simp [Gen.make_pair_table.loop1, hb, e1]; rfl
  · have hlen := h.len
    constructor
    · exact e2
    · exact h.si
    · simp [h.di]
    · simp only [e3, h.flat, List.map_append, List.map_cons, List.map_nil, Option.map_none]
      rw [map_tbl_congr s.tbl li cl (cl + 1) [] hlen (Nat.le_succ _) h.htb]
    · simp only [h.stack]
      rw [map_stack_congr s.stack s.tbl.length li cl (cl + 1) [] hlen (Nat.le_succ _) h.hst]
    · intro t ht; have := h.hst t ht; simp; omega
    · intro j hj
      simp only [List.mem_append, List.mem_cons, List.not_mem_nil, or_false, reduceCtorEq] at hj
      have := h.htb j hj; simp; omega

theorem step_op (ss : List Char) (brk : Char) (v li cl s) (h : R v li cl s) (hb : '(' ≠ brk) :
    ∃ v', Gen.make_pair_table.loop1 ss brk ['.'] v '(' = .ok v' ∧
      R v' li (cl + 1) { tbl := s.tbl ++ [none], stack := s.tbl.length :: s.stack } := by
  obtain ⟨pt', e1, e2, e3⟩ := appendLast_spec v.pair_table li cl none h.shape
  refine ⟨{ v with pair_table := pt', stack := v.stack ++ [(v.strand_index, v.domain_index)],
                   domain_index := v.domain_index + 1 }, ?_, ?_⟩
  · simp [Gen.make_pair_table.loop1, hb, e1]; rfl
  · have hlen := h.len
    constructor
    · exact e2
    · exact h.si
    · simp [h.di]
    · simp only [e3, h.flat, List.map_append, List.map_cons, List.map_nil, Option.map_none]
      rw [map_tbl_congr s.tbl li cl (cl + 1) [] hlen (Nat.le_succ _) h.htb]
    · simp only [h.stack, List.map_cons, List.reverse_cons]
      rw [map_stack_congr s.stack s.tbl.length li cl (cl + 1) [] hlen (Nat.le_succ _) h.hst]
      rw [hlen, toLocus_new li (cl + 1) [] cl (Nat.lt_succ_self _), h.si, h.di]
    · intro t ht
      simp only [List.mem_cons] at ht
      simp only [List.length_append, List.length_cons, List.length_nil]
      rcases ht with rfl | ht
      · omega
      · have := h.hst t ht; omega
    · intro j hj
      simp only [List.mem_append, List.mem_cons, List.not_mem_nil, or_false, reduceCtorEq] at hj
      have := h.htb j hj; simp; omega


theorem step_bad (ss : List Char) (brk : Char) (v) (c : Char) (hb : c ≠ brk)
    (h1 : c ≠ '(') (h2 : c ≠ ')') (h3 : c ≠ '.') :
    Gen.make_pair_table.loop1 ss brk ['.'] v c = .error .secondaryStructure := by
  simp [Gen.make_pair_table.loop1, hb, h1, h2, h3]; rfl

theorem step_cl_nil (ss : List Char) (brk : Char) (v li cl s) (h : R v li cl s) (hb : ')' ≠ brk)
    (hs : s.stack = []) :
    Gen.make_pair_table.loop1 ss brk ['.'] v ')' = .error .secondaryStructure := by
  have : v.stack = [] := by rw [h.stack, hs]; rfl
  simp [Gen.make_pair_table.loop1, hb, Py.pop, this]; rfl

theorem step_cl_cons (ss : List Char) (brk : Char) (v li cl s) (h : R v li cl s) (hb : ')' ≠ brk)
    (t : Nat) (rest : List Nat) (hs : s.stack = t :: rest) :
    ∃ v', Gen.make_pair_table.loop1 ss brk ['.'] v ')' = .ok v' ∧
      R v' li (cl + 1) { tbl := (s.tbl.set t (some s.tbl.length)) ++ [some t], stack := rest } := by
  have hlen := h.len
  have htlt : t < s.tbl.length := h.hst t (by simp [hs])
  have hrest : ∀ t' ∈ rest, t' < s.tbl.length := fun t' ht' => h.hst t' (by simp [hs, ht'])
  have hstk : v.stack = (rest.map (toLocus (li ++ [cl]))).reverse ++ [toLocus (li ++ [cl]) t] := by
    rw [h.stack, hs]; simp
  obtain ⟨pt1, e1, e2, e3⟩ := appendLast_spec v.pair_table li cl (some (toLocus (li ++ [cl]) t)) h.shape
  have hloc : toLocus (li ++ [cl]) t = toLocus (pt1.map List.length) t := by
    rw [e2, toLocus_stable li cl (cl + 1) [] t (by omega) (Nat.le_succ _)]
  obtain ⟨pt2, f1, f2, f3⟩ := setIdx2_spec pt1 t (some (v.strand_index, v.domain_index))
    (by rw [e2]; simp; omega)
  rw [← hloc] at f1
  refine ⟨{ v with pair_table := pt2, stack := (rest.map (toLocus (li ++ [cl]))).reverse,
                   loc := toLocus (li ++ [cl]) t, domain_index := v.domain_index + 1 }, ?_, ?_⟩
  · simp [Gen.make_pair_table.loop1, hb, Py.pop, hstk, pure, Except.pure, e1, f1, bind, Except.bind]
  · constructor
    · rw [f2, e2]
    · exact h.si
    · simp [h.di]
    · simp only [f3, e3, h.flat]
      rw [List.map_append, List.map_set, map_tbl_congr s.tbl li cl (cl + 1) [] hlen (Nat.le_succ _) h.htb]
      rw [List.set_append_left _ _ (by simpa using htlt)]
      simp only [List.map_cons, List.map_nil, Option.map_some]
      rw [hlen, toLocus_new li (cl + 1) [] cl (Nat.lt_succ_self _), h.si, h.di,
        toLocus_stable li cl (cl + 1) [] t (by omega) (Nat.le_succ _)]
    · simp only
      rw [map_stack_congr rest s.tbl.length li cl (cl + 1) [] hlen (Nat.le_succ _) hrest]
    · intro t' ht'
      have := hrest t' ht'
      simp; omega
    · intro j hj
      simp only [List.mem_append, List.mem_cons, List.not_mem_nil, or_false, Option.some.injEq] at hj
      simp only [List.length_append, List.length_set, List.length_cons, List.length_nil]
      rcases hj with hj | rfl
      · rcases List.mem_or_eq_of_mem_set hj with hj | hj
        · have := h.htb j hj; omega
        · simp only [Option.some.injEq] at hj; omega
      · omega


/-! ### the model on a text extended by one character -/

theorem splitOn_snoc {α} [DecidableEq α] (sep c : α) (l : List α) :
    ∃ init cur, splitOn sep l = init ++ [cur] ∧
      splitOn sep (l ++ [c]) = if c = sep then init ++ [cur, []] else init ++ [cur ++ [c]] := by
  induction l with
  | nil =>
    refine ⟨[], [], rfl, ?_⟩
    by_cases hc : c = sep
    · simp [splitOn, hc]
    · simp [splitOn, hc]
  | cons a as ih =>
    obtain ⟨init, cur, e1, e2⟩ := ih
    by_cases ha : a = sep
    · subst ha
      refine ⟨[] :: init, cur, ?_, ?_⟩
      · rw [splitOn_cons_eq, e1]; rfl
      · rw [List.cons_append, splitOn_cons_eq, e2]; split <;> rfl
    · rw [List.cons_append, splitOn_cons_ne _ _ _ ha, splitOn_cons_ne _ _ _ ha, e1, e2]
      cases init with
      | nil => exact ⟨[], a :: cur, rfl, by by_cases hc : c = sep <;> simp [hc]⟩
      | cons i is => exact ⟨(a :: i) :: is, cur, rfl, by by_cases hc : c = sep <;> simp [hc]⟩

theorem mapM_snoc_opt {α β} (f : α → Option β) (l : List α) (a : α) :
    (l ++ [a]).mapM f = match l.mapM f, f a with
      | some bs, some b => some (bs ++ [b])
      | _, _ => none := by
  rw [List.mapM_append]
  cases l.mapM f <;> cases h : f a <;> simp [List.mapM_cons, h]

/-- the symbol table of a text: the first stage of `makePairTable` -/
def MS (brk : Char) (p : List Char) : Option (List (List Sym)) :=
  (splitOn brk p).mapM (fun s => s.mapM toSym)

theorem MS_snoc_brk (brk : Char) (p : List Char) :
    MS brk (p ++ [brk]) = (MS brk p).map (· ++ [[]]) := by
  obtain ⟨init, cur, e1, e2⟩ := splitOn_snoc brk brk p
  simp only [if_true] at e2
  unfold MS
  rw [e1, e2, show init ++ [cur, []] = (init ++ [cur]) ++ [[]] by simp, mapM_snoc_opt]
  cases (init ++ [cur]).mapM (fun s => s.mapM toSym) <;> simp

theorem MS_snoc_bad (brk : Char) (p : List Char) (c : Char) (hc : c ≠ brk) (h : toSym c = none) :
    MS brk (p ++ [c]) = none := by
  obtain ⟨init, cur, e1, e2⟩ := splitOn_snoc brk c p
  simp only [if_neg hc] at e2
  unfold MS
  rw [e2, mapM_snoc_opt, mapM_snoc_opt, h]
  cases init.mapM (fun s => s.mapM toSym) <;> cases cur.mapM toSym <;> simp

theorem MS_snoc_none (brk : Char) (p : List Char) (c : Char) (hc : c ≠ brk) (h : MS brk p = none) :
    MS brk (p ++ [c]) = none := by
  obtain ⟨init, cur, e1, e2⟩ := splitOn_snoc brk c p
  simp only [if_neg hc] at e2
  unfold MS at h ⊢
  rw [e1, mapM_snoc_opt] at h
  rw [e2, mapM_snoc_opt, mapM_snoc_opt]
  revert h
  cases init.mapM (fun s => s.mapM toSym) <;> cases cur.mapM toSym <;> cases toSym c <;> simp

theorem MS_snoc_some (brk : Char) (p : List Char) (c : Char) (hc : c ≠ brk) (y : Sym) (hy : toSym c = some y)
    (syms : List (List Sym)) (h : MS brk p = some syms) :
    ∃ init cur, syms = init ++ [cur] ∧ MS brk (p ++ [c]) = some (init ++ [cur ++ [y]]) := by
  obtain ⟨init, cur, e1, e2⟩ := splitOn_snoc brk c p
  simp only [if_neg hc] at e2
  unfold MS at h ⊢
  rw [e1, mapM_snoc_opt] at h
  rw [e2, mapM_snoc_opt, mapM_snoc_opt, hy]
  revert h
  cases init.mapM (fun s => s.mapM toSym) <;> cases cur.mapM toSym <;> simp
  exact fun h => h.symm

theorem run_snoc (s0 : St) (w : List Sym) (y : Sym) :
    run s0 (w ++ [y]) = (run s0 w).bind (fun s => step s y) := by
  rw [run_append]
  congr 1
  funext s
  simp only [run]
  cases step s y <;> rfl


/-! ### the loop against the model, by induction on the text from the right -/

/-- what the loop over a text yields, given the model's symbol table of that text -/
def Good (r : Py.M Gen.make_pair_table.Vars) (ms : Option (List (List Sym))) : Prop :=
  match ms with
  | none => r = .error .secondaryStructure
  | some syms =>
    match run ⟨[], []⟩ syms.flatten with
    | none => r = .error .secondaryStructure
    | some s => ∃ v li cl, r = .ok v ∧ syms.map List.length = li ++ [cl] ∧ R v li cl s

def v0 : Gen.make_pair_table.Vars :=
  { pair_table := [[]], stack := [], strand_index := 0, domain_index := 0 }

theorem R_init : R v0 [] 0 ⟨[], []⟩ := by
  constructor <;> simp [v0]

theorem err_bind {α β} (e : Err) (f : α → Py.M β) : ((Except.error e : Py.M α) >>= f) = .error e := rfl
theorem ok_bind {α β} (a : α) (f : α → Py.M β) : ((Except.ok a : Py.M α) >>= f) = f a := rfl

theorem snoc_induction {α} {motive : List α → Prop} (nil : motive [])
    (append_singleton : ∀ l a, motive l → motive (l ++ [a])) (l : List α) : motive l := by
  have : ∀ l : List α, motive l.reverse := by
    intro l
    induction l with
    | nil => exact nil
    | cons a as ih => rw [List.reverse_cons]; exact append_singleton _ _ ih
  simpa using this l.reverse

theorem good_fold (ss : List Char) (brk : Char) (p : List Char) :
    Good (List.foldlM (Gen.make_pair_table.loop1 ss brk ['.']) v0 p) (MS brk p) := by
  induction p using snoc_induction with
  | nil =>
    simp only [Good, MS, splitOn, List.mapM_cons, List.mapM_nil, List.foldlM_nil]
    exact ⟨v0, [], 0, rfl, rfl, R_init⟩
  | append_singleton p c ih =>
    rw [List.foldlM_append]
    simp only [List.foldlM_cons, List.foldlM_nil, bind_pure]
    generalize List.foldlM (Gen.make_pair_table.loop1 ss brk ['.']) v0 p = r at ih ⊢
    by_cases hc : c = brk
    · subst hc
      rw [MS_snoc_brk]
      cases hm : MS c p with
      | none => rw [hm] at ih; simp only [Good] at ih ⊢; rw [ih]; rfl
      | some syms =>
        rw [hm] at ih
        simp only [Good, Option.map_some, List.flatten_append, List.flatten_cons, List.flatten_nil,
          List.append_nil] at ih ⊢
        cases hr : run ⟨[], []⟩ syms.flatten with
        | none => rw [hr] at ih; simp only at ih ⊢; rw [ih]; rfl
        | some s =>
          rw [hr] at ih
          obtain ⟨v, li, cl, e, hl, hR⟩ := ih
          obtain ⟨v', e', hR'⟩ := step_brk ss c v li cl s hR
          exact ⟨v', li ++ [cl], 0, by rw [e, ok_bind, e'], by simp [hl], hR'⟩
    · cases hm : MS brk p with
      | none =>
        rw [hm] at ih; rw [MS_snoc_none brk p c hc hm]
        simp only [Good] at ih ⊢; rw [ih]; rfl
      | some syms =>
        rw [hm] at ih
        simp only [Good] at ih
        rcases toSym_cases c with ⟨rfl, hy⟩ | ⟨rfl, hy⟩ | ⟨rfl, hy⟩ | ⟨h1, h2, h3, hy⟩
        · obtain ⟨init, cur, rfl, e2⟩ := MS_snoc_some brk p _ hc _ hy syms hm
          rw [e2]
          have hfl : (init ++ [cur ++ [Sym.op]]).flatten = (init ++ [cur]).flatten ++ [Sym.op] := by simp
          simp only [Good, hfl, run_snoc]
          cases hr : run ⟨[], []⟩ (init ++ [cur]).flatten with
          | none => rw [hr] at ih; simp only [Option.bind_none] at ih ⊢; rw [ih]; rfl
          | some s =>
            rw [hr] at ih
            obtain ⟨v, li, cl, e, hl, hR⟩ := ih
            obtain ⟨v', e', hR'⟩ := step_op ss brk v li cl s hR hc
            simp only [Option.bind_some, step]
            refine ⟨v', li, cl + 1, by rw [e, ok_bind, e'], ?_, hR'⟩
            simp only [List.map_append, List.map_cons, List.map_nil] at hl
            obtain ⟨h1, h2⟩ := List.append_inj' hl rfl
            simp only [List.cons.injEq, and_true] at h2
            simp [h1, h2]
        · obtain ⟨init, cur, rfl, e2⟩ := MS_snoc_some brk p _ hc _ hy syms hm
          rw [e2]
          have hfl : (init ++ [cur ++ [Sym.cl]]).flatten = (init ++ [cur]).flatten ++ [Sym.cl] := by simp
          simp only [Good, hfl, run_snoc]
          cases hr : run ⟨[], []⟩ (init ++ [cur]).flatten with
          | none => rw [hr] at ih; simp only [Option.bind_none] at ih ⊢; rw [ih]; rfl
          | some s =>
            rw [hr] at ih
            obtain ⟨v, li, cl, e, hl, hR⟩ := ih
            simp only [Option.bind_some, step]
            cases hs : s.stack with
            | nil =>
              simp only
              rw [e, ok_bind, step_cl_nil ss brk v li cl s hR hc hs]
            | cons t rest =>
              obtain ⟨v', e', hR'⟩ := step_cl_cons ss brk v li cl s hR hc t rest hs
              simp only
              refine ⟨v', li, cl + 1, by rw [e, ok_bind, e'], ?_, hR'⟩
              simp only [List.map_append, List.map_cons, List.map_nil] at hl
              obtain ⟨h1, h2⟩ := List.append_inj' hl rfl
              simp only [List.cons.injEq, and_true] at h2
              simp [h1, h2]
        · obtain ⟨init, cur, rfl, e2⟩ := MS_snoc_some brk p _ hc _ hy syms hm
          rw [e2]
          have hfl : (init ++ [cur ++ [Sym.dot]]).flatten = (init ++ [cur]).flatten ++ [Sym.dot] := by simp
          simp only [Good, hfl, run_snoc]
          cases hr : run ⟨[], []⟩ (init ++ [cur]).flatten with
          | none => rw [hr] at ih; simp only [Option.bind_none] at ih ⊢; rw [ih]; rfl
          | some s =>
            rw [hr] at ih
            obtain ⟨v, li, cl, e, hl, hR⟩ := ih
            obtain ⟨v', e', hR'⟩ := step_dot ss brk v li cl s hR hc
            simp only [Option.bind_some, step]
            refine ⟨v', li, cl + 1, by rw [e, ok_bind, e'], ?_, hR'⟩
            simp only [List.map_append, List.map_cons, List.map_nil] at hl
            obtain ⟨h1, h2⟩ := List.append_inj' hl rfl
            simp only [List.cons.injEq, and_true] at h2
            simp [h1, h2]
        · rw [MS_snoc_bad brk p c hc hy]
          simp only [Good]
          cases hr : run ⟨[], []⟩ syms.flatten with
          | none => rw [hr] at ih; simp only at ih; rw [ih]; rfl
          | some s =>
            rw [hr] at ih
            obtain ⟨v, li, cl, e, hl, hR⟩ := ih
            rw [e, ok_bind, step_bad ss brk v c hc h1 h2 h3]

theorem reshape_self {α} (pt : List (List α)) : reshape (pt.map List.length) pt.flatten = pt := by
  induction pt with
  | nil => rfl
  | cons a pt ih => simp [reshape, ih]

/-- the translated `make_pair_table` is the model's, for every text and every break character -/
theorem make_pair_table_eq (ss : List Char) (brk : Char) :
    Gen.py_make_pair_table ss brk ['.'] = makePairTable ss brk := by
  have hg := good_fold ss brk ss
  have hpy : Gen.py_make_pair_table ss brk ['.'] =
      (List.foldlM (Gen.make_pair_table.loop1 ss brk ['.']) v0 ss >>= fun v =>
        if v.stack.length > 0 then .error .secondaryStructure else .ok v.pair_table) := by
    simp [Gen.py_make_pair_table, v0]
    rfl
  rw [hpy]
  unfold makePairTable
  simp only
  change Good _ ((splitOn brk ss).mapM fun s => s.mapM toSym) at hg
  generalize List.foldlM (Gen.make_pair_table.loop1 ss brk ['.']) v0 ss = r at hg ⊢
  cases hm : (splitOn brk ss).mapM (fun s => s.mapM toSym) with
  | none => rw [hm] at hg; simp only [Good] at hg; rw [hg]; rfl
  | some syms =>
    rw [hm] at hg
    simp only [Good] at hg
    simp only [matchW]
    cases hr : run ⟨[], []⟩ syms.flatten with
    | none => rw [hr] at hg; simp only at hg; rw [hg]; rfl
    | some s =>
      rw [hr] at hg
      obtain ⟨v, li, cl, e, hl, hR⟩ := hg
      rw [e, ok_bind]
      obtain ⟨tbl, stack⟩ := s
      have hlen : v.stack.length = stack.length := by rw [hR.stack]; simp
      cases stack with
      | nil =>
        simp only [List.length_nil] at hlen
        simp only [hlen, Nat.lt_irrefl, if_false, hl]
        rw [← hR.flat, ← hR.shape, reshape_self]
      | cons t rest =>
        simp only [List.length_cons] at hlen
        simp [hlen]

end Dsd.PyEq

