/-
Symbolic execution of the remaining PIL statement kinds: strand-notation complexes, reactions,
kernel complexes with a concentration, and documents with more than one statement.
-/
import DsdVerif.Gen.Grammars
import DsdVerif.Lemmas.PPRun
import DsdVerif.Lemmas.PilRun
import DsdVerif.Lemmas.PilKernel

namespace Dsd.Pil
open Dsd.PP Dsd.Gen

/-! ### generic pieces -/

theorem join_acc (acc : String) (ss : List (List Char)) :
    List.foldl (fun r s => r ++ s) acc (ss.map String.ofList) = acc ++ String.ofList ss.flatten := by
  induction ss generalizing acc with
  | nil => simp
  | cons s ss ih => simp [ih, String.ofList_append, String.append_assoc]

theorem join_ofList (ss : List (List Char)) : String.join (ss.map String.ofList) = String.ofList ss.flatten := by
  unfold String.join; rw [join_acc]; simp

theorem flatToks_toks (ss : List String) (f : Nat) (h : ss.length < f) : flatToks f (ss.map Tree.tok) = ss := by
  induction ss generalizing f with
  | nil => cases f <;> simp [flatToks]
  | cons s ss ih =>
    obtain ⟨k, rfl⟩ : ∃ k, f = k + 1 := ⟨f - 1, by simp at h; omega⟩
    simp only [List.map_cons, flatToks]
    rw [ih k (by simp at h; omega)]

/-- `LineEnd` on a newline at the very beginning of the remaining input -/
theorem Ok_nl (env : Env) (r : List Char) :
    Ok env 2 {} (.suppress .lineEnd) { rest := '\n' :: r, past := false } ({ rest := r, past := false }, []) :=
  Ok_suppress (Ok_lineEnd_nl env {} _ r (by rw [pre_skip]; exact skipIgn_cons '\n' r (by decide) (by decide)))

/-- blank lines between statements: `ZeroOrMore(Suppress(LineEnd))` up to the next non-blank character -/
theorem OkMany_nls (env : Env) (k : Nat) (c0 : Char) (t : List Char) (h1 : isWs c0 = false) (h2 : c0 ≠ '#')
    (h3 : c0 ≠ '\n') :
    OkMany env (k + 3) {} (.suppress .lineEnd) { rest := List.replicate k '\n' ++ (c0 :: t), past := false }
      ({ rest := c0 :: t, past := false }, []) := by
  induction k with
  | zero =>
    have := OkMany_stop (No_suppress (No_lineEnd_cons env {} { rest := c0 :: t, past := false } c0 t
      (by rw [pre_skip]; exact skipIgn_cons c0 t h1 h2) h3))
    intro reps fuel hr hf
    simpa using this reps fuel (by omega) (by omega)
  | succ k ih =>
    have hne : ({ rest := List.replicate k '\n' ++ (c0 :: t), past := false } : Pos) ≠
        { rest := '\n' :: (List.replicate k '\n' ++ (c0 :: t)), past := false } :=
      pos_ne_of_length _ _ _ _ (by simp)
    have := OkMany_step (Ok_nl env (List.replicate k '\n' ++ (c0 :: t))) hne ih
    intro reps fuel hr hf
    simpa [List.replicate_succ] using this reps fuel (by omega) (by omega)

theorem Ok_eol_nls (env : Env) (k : Nat) (c0 : Char) (t : List Char) (h1 : isWs c0 = false) (h2 : c0 ≠ '#')
    (h3 : c0 ≠ '\n') :
    Ok env (k + 4) {} (.many1 (.suppress .lineEnd))
      { rest := '\n' :: (List.replicate k '\n' ++ (c0 :: t)), past := false }
      ({ rest := c0 :: t, past := false }, []) := by
  have := Ok_many1 (Ok_nl env (List.replicate k '\n' ++ (c0 :: t))) (OkMany_nls env k c0 t h1 h2 h3)
  simp only [List.append_nil] at this
  exact this.mono (by omega)

/-- a domain-length statement with an arbitrary continuation after the line end -/
theorem Ok_dl_body' (env : Env) (kc : Char) (ks : List Char) (hk : isWs kc = false) (hk' : kc ≠ '#')
    (a : Nat) (ha : 0 < a) (c : Char) (m : List Char) (st : Bool) (b : Nat) (sign : Char) (hs : sign = '=' ∨ sign = ':')
    (cc : Nat) (X tail : List Char) (NL NE : Nat) (pend : Pos)
    (hc : c ∈ identChars) (hm : ∀ x ∈ m, x ∈ identChars)
    (hlen : Ok env NL {} pil_dlength { rest := List.replicate cc ' ' ++ (X ++ tail), past := false }
      ({ rest := tail, past := false }, [.tok (String.ofList X)]))
    (heol : Ok env NE {} (.many1 (.suppress .lineEnd)) { rest := tail, past := false } (pend, [])) :
    Ok env (max (max NL NE) 6 + 8) {} (dlBody (kc :: ks))
      { rest := kc :: (ks ++ dlText a c m st b sign cc X tail), past := false }
      (pend, [.grp [.tok "dl-domain", .tok (String.ofList (c :: m ++ star st)), .tok (String.ofList X)]]) := by
  unfold dlBody dlText
  have h1 := Ok_kw env kc ks (List.replicate a ' ' ++ (c :: m ++ (star st ++ (List.replicate b ' ' ++
    (sign :: (List.replicate cc ' ' ++ (X ++ tail))))))) hk hk' (OutHd_kw_blanks a ha _)
  have h2 := Ok_domain env a c m st _ hc hm (OutHd_sign b sign hs (List.replicate cc ' ' ++ (X ++ tail)))
  have h3 := Ok_assign env b sign hs (List.replicate cc ' ' ++ (X ++ tail))
  have := Ok_group (Ok_tag (t := "dl-domain") (Ok_seq (OkSeq_cons h1 (OkSeq_cons h2 (OkSeq_cons h3
    (OkSeq_cons hlen (OkSeq_cons heol (OkSeq_nil env _ _))))))))
  simp only [List.nil_append, List.append_nil, List.cons_append] at this
  exact this.mono (by omega)

/-- a document of two statements -/
theorem Ok_document2 (env : Env) (N1 N2 : Nat) (rest rest2 : List Char) (c : Char) (t : List Char)
    (ts1 ts2 : List Tree) (hstart : skipIgn rest = c :: t) (hc : c ≠ '\n')
    (h1 : Ok env N1 {} pil_stmt { rest := rest, past := false } ({ rest := rest2, past := false }, ts1))
    (h2 : Ok env N2 {} pil_stmt { rest := rest2, past := false } ({ rest := [], past := true }, ts2)) :
    Ok env (max (max N1 N2) 21 + 10) {} pil_grammar { rest := rest, past := false }
      ({ rest := [], past := true }, ts1 ++ ts2) := by
  unfold pil_grammar pil_document
  have h0 := Ok_stringStart env {} { rest := rest, past := false }
  have hm : Ok env 4 {} (.many (.suppress .lineEnd)) { rest := rest, past := false }
      ({ rest := rest, past := false }, []) :=
    Ok_many (OkMany_stop (No_suppress (No_lineEnd_cons env {} _ c t (by rw [pre_skip]; exact hstart) hc)))
  have hne : ({ rest := [], past := true } : Pos) ≠ { rest := rest2, past := false } := by
    intro e; have := congrArg Pos.past e; simp at this
  have hs := Ok_many1 h1 (OkMany_step h2 hne (OkMany_stop (No_stmt_end env)))
  have h3 : Ok env 1 {} .stringEnd { rest := [], past := true } ({ rest := [], past := true }, []) :=
    Ok_stringEnd env {} _ rfl
  have := Ok_seq (OkSeq_cons h0 (OkSeq_cons hm (OkSeq_cons hs (OkSeq_cons h3 (OkSeq_nil env _ _)))))
  simp only [List.nil_append, List.append_nil] at this
  exact this.mono (by omega)

def lengthKw : List Char := ['l', 'e', 'n', 'g', 't', 'h']

theorem two_dl (nc1 : Char) (m1 : List Char) (dc1 : Char) (dm1 : List Char) (k : Nat)
    (nc2 : Char) (m2 : List Char) (dc2 : Char) (dm2 : List Char)
    (h1 : nc1 ∈ identChars) (h1' : ∀ x ∈ m1, x ∈ identChars) (hd1 : dc1 ∈ pp_nums) (hd1' : ∀ x ∈ dm1, x ∈ pp_nums)
    (h2 : nc2 ∈ identChars) (h2' : ∀ x ∈ m2, x ∈ identChars) (hd2 : dc2 ∈ pp_nums) (hd2' : ∀ x ∈ dm2, x ∈ pp_nums) :
    parseDoc pil_env pil_grammar (String.ofList
      (lengthKw ++ dlText 1 nc1 m1 false 1 '=' 1 (dc1 :: dm1)
        ('\n' :: (List.replicate k '\n' ++ (lengthKw ++ dlText 1 nc2 m2 false 1 '=' 1 (dc2 :: dm2) ['\n']))))) =
    some [.grp [.tok "dl-domain", .tok (String.ofList (nc1 :: m1)), .tok (String.ofList (dc1 :: dm1))],
          .grp [.tok "dl-domain", .tok (String.ofList (nc2 :: m2)), .tok (String.ofList (dc2 :: dm2))]] := by
  -- second statement
  have tl2 : OutHd (fun x => x ∉ identChars) ['\n'] := OutHd_cons _ _ _ (outside_facts '\n' (by decide))
  have e2 : EolTail ['\n'] := Or.inl (skipIgn_cons '\n' [] (by decide) (by decide))
  have b2 := Ok_dl_body pil_env 'l' ['e', 'n', 'g', 't', 'h'] (by decide) (by decide) 1 (by decide) nc2 m2 false 1 '='
    (Or.inl rfl) 1 (dc2 :: dm2) ['\n'] _ h2 h2' (Ok_dlength_num pil_env 1 dc2 dm2 ['\n'] hd2 hd2' tl2) e2
  have s2 := Ok_dl_stmt pil_env lengthKw (dlText 1 nc2 m2 false 1 '=' 1 (dc2 :: dm2) ['\n']) (Or.inl rfl) _ _ _
    (No_sl_kw pil_env lengthKw _ (Or.inl rfl)) b2
  -- first statement
  generalize hT2 : lengthKw ++ dlText 1 nc2 m2 false 1 '=' 1 (dc2 :: dm2) ['\n'] = T2 at s2 ⊢
  have hT2' : T2 = 'l' :: (['e', 'n', 'g', 't', 'h'] ++ dlText 1 nc2 m2 false 1 '=' 1 (dc2 :: dm2) ['\n']) := hT2.symm
  have tl1 : OutHd (fun x => x ∉ identChars) ('\n' :: (List.replicate k '\n' ++ T2)) :=
    OutHd_cons _ _ _ (outside_facts '\n' (by decide))
  have eol1 : Ok pil_env (k + 4) {} (.many1 (.suppress .lineEnd))
      { rest := '\n' :: (List.replicate k '\n' ++ T2), past := false } ({ rest := T2, past := false }, []) := by
    rw [hT2']; exact Ok_eol_nls pil_env k 'l' _ (by decide) (by decide) (by decide)
  have b1 := Ok_dl_body' pil_env 'l' ['e', 'n', 'g', 't', 'h'] (by decide) (by decide) 1 (by decide) nc1 m1 false 1 '='
    (Or.inl rfl) 1 (dc1 :: dm1) ('\n' :: (List.replicate k '\n' ++ T2)) _ _ _ h1 h1'
    (Ok_dlength_num pil_env 1 dc1 dm1 _ hd1 hd1' tl1) eol1
  have s1 := Ok_dl_stmt pil_env lengthKw (dlText 1 nc1 m1 false 1 '=' 1 (dc1 :: dm1)
    ('\n' :: (List.replicate k '\n' ++ T2))) (Or.inl rfl) _ _ _ (No_sl_kw pil_env lengthKw _ (Or.inl rfl)) b1
  have hdoc := Ok_document2 pil_env _ _ _ _ 'l' _ _ _ (skipIgn_cons 'l' _ (by decide) (by decide)) (by decide) s1 s2
  have hstar : ∀ (c : Char) (m : List Char), c :: m ++ star false = c :: m := fun c m => List.append_nil _
  rw [hstar, hstar] at hdoc
  -- tabs and fuel
  have n1 := notab_dlText 1 nc2 m2 false 1 '=' (Or.inl rfl) 1 (dc2 :: dm2) ['\n'] h2 h2'
    (notab_of_nums _ (by intro x hx; rcases List.mem_cons.mp hx with rfl | h; exact hd2; exact hd2' x h)) (by decide)
  have nT2 : '\t' ∉ T2 := by
    rw [← hT2]; simp only [List.mem_append, not_or]; exact ⟨by decide, n1⟩
  have n2 := notab_dlText 1 nc1 m1 false 1 '=' (Or.inl rfl) 1 (dc1 :: dm1) ('\n' :: (List.replicate k '\n' ++ T2)) h1 h1'
    (notab_of_nums _ (by intro x hx; rcases List.mem_cons.mp hx with rfl | h; exact hd1; exact hd1' x h))
    (by simp only [List.mem_cons, List.mem_append, not_or]
        exact ⟨by decide, fun h => by have := List.eq_of_mem_replicate h; revert this; decide, nT2⟩)
  refine parseDoc_ok' pil_env pil_grammar _ _ _ _ ?_ hdoc ?_
  · simp only [List.mem_append, not_or]; exact ⟨by decide, n2⟩
  · have : k ≤ (dlText 1 nc1 m1 false 1 '=' 1 (dc1 :: dm1) ('\n' :: (List.replicate k '\n' ++ T2))).length := by
      unfold dlText; simp only [List.length_append, List.length_cons, List.length_replicate]; omega
    simp only [List.length_append]
    omega

/-! ### strand-notation complexes -/

def dbChars : List Char := ['(', '.', ')', '+', ' ']
def dbCore : List Char := ['(', ')', '.', '+']

theorem dbCore_facts : ∀ c ∈ dbCore, c ∈ dbChars ∧ isWs c = false ∧ c ≠ '#' ∧ c ≠ '\t' := by decide

/-- the dot-bracket word after `n` blanks -/
theorem Ok_db (env : Env) (n : Nat) (dc : Char) (dm r : List Char) (hdc : dc ∈ dbCore) (hdm : ∀ x ∈ dm, x ∈ dbCore)
    (hr : OutHd (fun x => x ∉ dbChars) r) :
    Ok env 1 {} pil_dotbracket { rest := List.replicate n ' ' ++ (dc :: dm ++ r), past := false }
      ({ rest := r, past := false }, [.tok (String.ofList (dc :: dm))]) := by
  have hf := dbCore_facts dc hdc
  exact Ok_word env {} dbChars dbChars _ dc dm r
    (by rw [pre_skip, List.cons_append]; exact skipIgn_blanks_cons n dc _ hf.2.1 hf.2.2.1) hf.1
    (fun x hx => (dbCore_facts x (hdm x hx)).1) hr

theorem notab_db (dc : Char) (dm : List Char) (hdc : dc ∈ dbCore) (hdm : ∀ x ∈ dm, x ∈ dbCore) :
    '\t' ∉ dc :: dm := by
  intro h
  rcases List.mem_cons.mp h with h | h
  · exact (dbCore_facts dc hdc).2.2.2 h.symm
  · exact (dbCore_facts _ (hdm _ h)).2.2.2 rfl

theorem OutTail_nl_cons (r : List Char) : OutTail ('\n' :: r) :=
  ⟨OutHd_cons _ _ _ ⟨outside_facts '\n' (by decide), by decide⟩,
    '\n', r, skipIgn_cons '\n' r (by decide) (by decide), outside_facts '\n' (by decide)⟩

def complexBody : G :=
  .group (.tag "strand-complex" (.seq [.suppress (.kw ['c', 'o', 'm', 'p', 'l', 'e', 'x'] identChars), pil_identifier,
    .suppress pil_assign, .opt (.suppress .lineEnd), .group (.many1 pil_domain), .opt (.suppress .lineEnd),
    pil_dotbracket, .many1 (.suppress .lineEnd)]))

def complexText (a : Nat) (c : Char) (m : List Char) (b : Nat) (sign : Char) (d : List Char)
    (ds : List (List Char)) (dbc : Char) (dbm : List Char) : List Char :=
  List.replicate a ' ' ++ (c :: m ++ (List.replicate b ' ' ++ (sign :: ('\n' :: (d ++ (spDoms ds ++
    ('\n' :: (dbc :: dbm ++ ['\n']))))))))

theorem Ok_complex_body (env : Env) (a : Nat) (ha : 0 < a) (c : Char) (m : List Char) (b : Nat) (sign : Char)
    (hs : sign = '=' ∨ sign = ':') (d : List Char) (ds : List (List Char)) (dbc : Char) (dbm : List Char)
    (hc : c ∈ identChars) (hm : ∀ x ∈ m, x ∈ identChars) (hd : IsDom d) (hds : ∀ x ∈ ds, IsDom x)
    (hdbc : dbc ∈ dbCore) (hdbm : ∀ x ∈ dbm, x ∈ dbCore) :
    Ok env (ds.length + 24) {} complexBody
      { rest := 'c' :: (['o', 'm', 'p', 'l', 'e', 'x'] ++ complexText a c m b sign d ds dbc dbm), past := false }
      ({ rest := [], past := true },
        [.grp [.tok "strand-complex", .tok (String.ofList (c :: m)),
          .grp ((d :: ds).map (fun d => .tok (String.ofList d))), .tok (String.ofList (dbc :: dbm))]]) := by
  unfold complexBody complexText
  obtain ⟨dc, dm, st, rfl, hdc, hdm⟩ := hd
  have h1 := Ok_kw env 'c' ['o', 'm', 'p', 'l', 'e', 'x'] (List.replicate a ' ' ++ (c :: m ++
    (List.replicate b ' ' ++ (sign :: ('\n' :: (dc :: dm ++ star st ++ (spDoms ds ++
    ('\n' :: (dbc :: dbm ++ ['\n']))))))))) (by decide) (by decide) (OutHd_kw_blanks a ha _)
  have h2 := Ok_ident env a c m (List.replicate b ' ' ++ (sign :: ('\n' :: (dc :: dm ++ star st ++ (spDoms ds ++
    ('\n' :: (dbc :: dbm ++ ['\n'])))))))
    hc hm ((OutHd_sign b sign hs _).imp (fun x hx => hx.1))
  have h3 := Ok_assign env b sign hs ('\n' :: (dc :: dm ++ star st ++ (spDoms ds ++
    ('\n' :: (dbc :: dbm ++ ['\n'])))))
  have h4 := Ok_opt_some (Ok_nl env (dc :: dm ++ star st ++ (spDoms ds ++ ('\n' :: (dbc :: dbm ++ ['\n'])))))
  have tl := OutTail_nl_cons (dbc :: dbm ++ ['\n'])
  have h5a := Ok_domain env 0 dc dm st (spDoms ds ++ ('\n' :: (dbc :: dbm ++ ['\n']))) hdc hdm
    (OutHd_spDoms ds _ tl.1)
  have h5b := OkMany_doms env ds _ hds tl
  have h6 := Ok_opt_some (Ok_nl env (dbc :: dbm ++ ['\n']))
  have h7 := Ok_db env 0 dbc dbm ['\n'] hdbc hdbm (OutHd_cons _ _ _ (by decide))
  have h8 := Ok_eol_nl env ['\n'] (skipIgn_cons '\n' [] (by decide) (by decide))
  simp only [List.cons_append, List.append_assoc, List.replicate_zero, List.nil_append] at h1 h2 h3 h4 h5a h5b h6 h7 ⊢
  have h5 := Ok_group (Ok_many1 h5a h5b)
  have := Ok_group (Ok_tag (t := "strand-complex") (Ok_seq (OkSeq_cons h1 (OkSeq_cons h2 (OkSeq_cons h3
    (OkSeq_cons h4 (OkSeq_cons h5 (OkSeq_cons h6 (OkSeq_cons h7 (OkSeq_cons h8 (OkSeq_nil env _ _)))))))))))
  simp only [List.nil_append, List.append_nil, List.cons_append, List.map_cons] at this ⊢
  exact this.mono (by omega)

theorem Ok_complex_stmt (env : Env) (T : List Char) (res : Pos × List Tree) (N : Nat)
    (hbody : Ok env N {} complexBody { rest := 'c' :: (['o', 'm', 'p', 'l', 'e', 'x'] ++ T), past := false } res) :
    Ok env (max N 10 + 8) {} pil_stmt { rest := 'c' :: (['o', 'm', 'p', 'l', 'e', 'x'] ++ T), past := false } res := by
  unfold pil_stmt pil_sl_domain pil_dl_domain pil_comp_domain pil_strand pil_strandcomplex
  unfold complexBody at hbody
  have nk : ∀ (t : String) (s : List Char) (gs : List G),
      stripPrefix s ('c' :: (['o', 'm', 'p', 'l', 'e', 'x'] ++ T)) = none →
      No env 6 {} (.group (.tag t (.seq (.suppress (.kw s identChars) :: gs))))
        { rest := 'c' :: (['o', 'm', 'p', 'l', 'e', 'x'] ++ T), past := false } :=
    fun t s gs h => No_gts_at env t s gs 'c' _ (by decide) (by decide) h
  exact (Ok_alt (OkAlt_tail (nk _ _ _ (by simp [stripPrefix]))
    (OkAlt_tail (No_alt (NoAlt_cons (nk _ _ _ (by simp [stripPrefix])) (NoAlt_cons (nk _ _ _ (by simp [stripPrefix]))
      (NoAlt_cons (nk _ _ _ (by simp [stripPrefix])) (NoAlt_nil env _ _)))))
    (OkAlt_tail (nk _ _ _ (by simp [stripPrefix]))
    (OkAlt_tail (nk _ _ _ (by simp [stripPrefix]))
    (OkAlt_head (Ok_alt (OkAlt_head hbody)))))))).mono (by omega)

theorem complex_parse (a : Nat) (ha : 0 < a) (c : Char) (m : List Char) (b : Nat) (sign : Char)
    (hs : sign = '=' ∨ sign = ':') (d : List Char) (ds : List (List Char)) (dbc : Char) (dbm : List Char)
    (hc : c ∈ identChars) (hm : ∀ x ∈ m, x ∈ identChars) (hd : IsDom d) (hds : ∀ x ∈ ds, IsDom x)
    (hdbc : dbc ∈ dbCore) (hdbm : ∀ x ∈ dbm, x ∈ dbCore) :
    parseDoc pil_env pil_grammar
      (String.ofList (['c', 'o', 'm', 'p', 'l', 'e', 'x'] ++ complexText a c m b sign d ds dbc dbm)) =
    some [.grp [.tok "strand-complex", .tok (String.ofList (c :: m)),
      .grp ((d :: ds).map (fun d => .tok (String.ofList d))), .tok (String.ofList (dbc :: dbm))]] := by
  have hb := Ok_complex_body pil_env a ha c m b sign hs d ds dbc dbm hc hm hd hds hdbc hdbm
  have hstmt := Ok_complex_stmt pil_env _ _ _ hb
  have hlen : ds.length ≤ (complexText a c m b sign d ds dbc dbm).length := by
    have := spDoms_length ds
    unfold complexText
    simp only [List.length_append, List.length_cons]
    omega
  have hnt : '\t' ∉ complexText a c m b sign d ds dbc dbm := by
    have h1 := notab_ident (c :: m) (by intro x hx; rcases List.mem_cons.mp hx with rfl | h; exact hc; exact hm x h)
    have h2 := notab_db dbc dbm hdbc hdbm
    have hsg : '\t' ≠ sign := by rcases hs with rfl | rfl <;> decide
    unfold complexText
    simp only [List.mem_append, List.mem_cons, not_or]
    simp only [List.mem_cons, not_or] at h1 h2
    exact ⟨notab_replicate a, ⟨h1.1, h1.2⟩, notab_replicate b, hsg, by decide, notab_dom d hd,
      notab_spDoms ds hds, by decide, ⟨h2.1, h2.2⟩, by decide, List.not_mem_nil⟩
  refine parse_stmt' _ 'c' _ _ _ (skipIgn_cons 'c' _ (by decide) (by decide)) (by decide) hstmt ?_ ?_
  · simp only [List.length_append, List.length_cons] at hlen ⊢; omega
  · show '\t' ∉ ['c', 'o', 'm', 'p', 'l', 'e', 'x'] ++ complexText a c m b sign d ds dbc dbm
    intro h
    rcases List.mem_append.mp h with h | h
    · revert h; decide
    · exact hnt h

/-! ### the `structure` form -/

/-- `" + x1 + x2 …"` -/
def psList (xs : List (List Char)) : List Char := (xs.map (fun d => ' ' :: '+' :: ' ' :: d)).flatten

theorem psList_cons (x : List Char) (xs : List (List Char)) :
    psList (x :: xs) = ' ' :: '+' :: ' ' :: (x ++ psList xs) := by simp [psList]

theorem psList_length (xs : List (List Char)) : 3 * xs.length ≤ (psList xs).length := by
  induction xs with
  | nil => simp [psList]
  | cons d ds ih => rw [psList_cons]; simp; omega

theorem notab_psList (xs : List (List Char)) (h : ∀ d ∈ xs, '\t' ∉ d) : '\t' ∉ psList xs := by
  induction xs with
  | nil => simp [psList]
  | cons d ds ih =>
    rw [psList_cons]
    simp only [List.mem_cons, List.mem_append, not_or]
    exact ⟨by decide, by decide, by decide, h d (by simp), ih (fun x hx => h x (List.mem_cons_of_mem _ hx))⟩

def domOrPlus : G := .alt [pil_domain, .suppress (.lit ['+'])]

theorem OutHd_psList (ds : List (List Char)) (s2 : Char) (r : List Char) :
    OutHd (fun x => x ∉ identChars ∧ x ≠ '*') (psList ds ++ (' ' :: s2 :: r)) := by
  cases ds with
  | nil => exact OutHd_cons _ _ _ ⟨outside_facts ' ' (by decide), by decide⟩
  | cons d ds => rw [psList_cons]; exact OutHd_cons _ _ _ ⟨outside_facts ' ' (by decide), by decide⟩

theorem OkMany_plusdoms (env : Env) (ds : List (List Char)) (s2 : Char) (hs2 : s2 = '=' ∨ s2 = ':') (r : List Char)
    (hd : ∀ d ∈ ds, IsDom d) :
    OkMany env (2 * ds.length + 9) {} domOrPlus { rest := psList ds ++ (' ' :: s2 :: r), past := false }
      ({ rest := ' ' :: s2 :: r, past := false }, ds.map (fun d => .tok (String.ofList d))) := by
  unfold domOrPlus
  have hs2f : s2 ∉ identChars ∧ s2 ≠ '+' ∧ isWs s2 = false ∧ s2 ≠ '#' := by
    rcases hs2 with rfl | rfl
    · exact ⟨outside_facts '=' (by decide), by decide, by decide, by decide⟩
    · exact ⟨outside_facts ':' (by decide), by decide, by decide, by decide⟩
  induction ds with
  | nil =>
    have hsk : skipIgn (' ' :: s2 :: r) = s2 :: r := by
      have := skipIgn_blanks_cons 1 s2 r hs2f.2.2.1 hs2f.2.2.2; simpa using this
    have n1 := No_domain env { rest := ' ' :: s2 :: r, past := false } s2 r hsk hs2f.1
    have n2 := No_punct env { rest := ' ' :: s2 :: r, past := false } '+' s2 r hsk hs2f.2.1
    have := OkMany_stop (No_alt (NoAlt_cons n1 (NoAlt_cons n2 (NoAlt_nil env _ _))))
    intro reps fuel hr hf
    simpa [psList] using this reps fuel (by omega) (by omega)
  | cons d ds ih =>
    obtain ⟨c, m, st, rfl, hc, hm⟩ := hd d (by simp)
    have ih' := ih (fun d hd' => hd d (List.mem_cons_of_mem _ hd'))
    have hsk : skipIgn (' ' :: '+' :: ' ' :: (c :: m ++ (star st ++ (psList ds ++ (' ' :: s2 :: r))))) =
        '+' :: ' ' :: (c :: m ++ (star st ++ (psList ds ++ (' ' :: s2 :: r)))) := by
      have := skipIgn_blanks_cons 1 '+' (' ' :: (c :: m ++ (star st ++ (psList ds ++ (' ' :: s2 :: r)))))
        (by decide) (by decide)
      simpa using this
    have a1 : Ok env 8 {} (.alt [pil_domain, .suppress (.lit ['+'])])
        { rest := ' ' :: '+' :: ' ' :: (c :: m ++ (star st ++ (psList ds ++ (' ' :: s2 :: r)))), past := false }
        ({ rest := ' ' :: (c :: m ++ (star st ++ (psList ds ++ (' ' :: s2 :: r)))), past := false }, []) := by
      have n1 : No env 5 {} pil_domain
          { rest := ' ' :: '+' :: ' ' :: (c :: m ++ (star st ++ (psList ds ++ (' ' :: s2 :: r)))), past := false } :=
        No_domain env _ '+' _ hsk (punct_facts '+' (by decide)).1
      have o1 := Ok_punct env 1 '+' (' ' :: (c :: m ++ (star st ++ (psList ds ++ (' ' :: s2 :: r)))))
        (by decide) (by decide)
      exact (Ok_alt (OkAlt_tail n1 (OkAlt_head o1))).mono (by decide)
    have a2 : Ok env 8 {} (.alt [pil_domain, .suppress (.lit ['+'])])
        { rest := ' ' :: (c :: m ++ (star st ++ (psList ds ++ (' ' :: s2 :: r)))), past := false }
        ({ rest := psList ds ++ (' ' :: s2 :: r), past := false }, [.tok (String.ofList (c :: m ++ star st))]) := by
      have o1 := Ok_domain env 1 c m st (psList ds ++ (' ' :: s2 :: r)) hc hm (OutHd_psList ds s2 r)
      exact (Ok_alt (OkAlt_head o1)).mono (by decide)
    have hne1 : ({ rest := ' ' :: (c :: m ++ (star st ++ (psList ds ++ (' ' :: s2 :: r)))), past := false } : Pos) ≠
        { rest := ' ' :: '+' :: ' ' :: (c :: m ++ (star st ++ (psList ds ++ (' ' :: s2 :: r)))), past := false } :=
      pos_ne_of_length _ _ _ _ (by simp)
    have hne2 : ({ rest := psList ds ++ (' ' :: s2 :: r), past := false } : Pos) ≠
        { rest := ' ' :: (c :: m ++ (star st ++ (psList ds ++ (' ' :: s2 :: r)))), past := false } :=
      pos_ne_of_length _ _ _ _ (by simp; omega)
    have := OkMany_step a1 hne1 (OkMany_step a2 hne2 ih')
    rw [psList_cons]
    simp only [List.cons_append, List.append_assoc, List.nil_append, List.map_cons, List.length_cons] at this ⊢
    intro reps fuel hr hf
    exact this reps fuel (by omega) (by omega)

def structBody : G :=
  .group (.tag "strand-complex" (.seq [.suppress (.kw ['s', 't', 'r', 'u', 'c', 't', 'u', 'r', 'e'] identChars), pil_identifier,
    .suppress pil_assign, .group (.many1 (.alt [pil_domain, .suppress (.lit ['+'])])), .suppress pil_assign,
    pil_dotbracket, .many1 (.suppress .lineEnd)]))

def structText (a : Nat) (c : Char) (m : List Char) (s1 : Char) (d : List Char)
    (ds : List (List Char)) (s2 : Char) (dbc : Char) (dbm : List Char) : List Char :=
  List.replicate a ' ' ++ (c :: m ++ (' ' :: s1 :: ' ' :: (d ++ (psList ds ++
    (' ' :: s2 :: ' ' :: (dbc :: dbm ++ ['\n']))))))

theorem Ok_struct_body (env : Env) (a : Nat) (ha : 0 < a) (c : Char) (m : List Char) (s1 s2 : Char)
    (hs1 : s1 = '=' ∨ s1 = ':') (hs2 : s2 = '=' ∨ s2 = ':') (d : List Char) (ds : List (List Char))
    (dbc : Char) (dbm : List Char)
    (hc : c ∈ identChars) (hm : ∀ x ∈ m, x ∈ identChars) (hd : IsDom d) (hds : ∀ x ∈ ds, IsDom x)
    (hdbc : dbc ∈ dbCore) (hdbm : ∀ x ∈ dbm, x ∈ dbCore) :
    Ok env (2 * ds.length + 24) {} structBody
      { rest := 's' :: (['t', 'r', 'u', 'c', 't', 'u', 'r', 'e'] ++ structText a c m s1 d ds s2 dbc dbm), past := false }
      ({ rest := [], past := true },
        [.grp [.tok "strand-complex", .tok (String.ofList (c :: m)),
          .grp ((d :: ds).map (fun d => .tok (String.ofList d))), .tok (String.ofList (dbc :: dbm))]]) := by
  unfold structBody structText
  obtain ⟨dc, dm, st, rfl, hdc, hdm⟩ := hd
  have h1 := Ok_kw env 's' ['t', 'r', 'u', 'c', 't', 'u', 'r', 'e'] (List.replicate a ' ' ++ (c :: m ++
    (' ' :: s1 :: ' ' :: (dc :: dm ++ star st ++ (psList ds ++ (' ' :: s2 :: ' ' :: (dbc :: dbm ++ ['\n']))))))) (by decide) (by decide)
    (OutHd_kw_blanks a ha _)
  have h2 := Ok_ident env a c m (' ' :: s1 :: ' ' :: (dc :: dm ++ star st ++ (psList ds ++
    (' ' :: s2 :: ' ' :: (dbc :: dbm ++ ['\n'])))))
    hc hm (OutHd_cons _ _ _ (outside_facts ' ' (by decide)))
  have h3 := Ok_assign env 1 s1 hs1 (' ' :: (dc :: dm ++ star st ++ (psList ds ++
    (' ' :: s2 :: ' ' :: (dbc :: dbm ++ ['\n'])))))
  have h4a := Ok_alt (OkAlt_head (gs := [.suppress (.lit ['+'])])
    (Ok_domain env 1 dc dm st (psList ds ++ (' ' :: s2 :: ' ' :: (dbc :: dbm ++ ['\n']))) hdc hdm
      (OutHd_psList ds s2 _)))
  have h4b := OkMany_plusdoms env ds s2 hs2 (' ' :: (dbc :: dbm ++ ['\n'])) hds
  have h5 := Ok_assign env 1 s2 hs2 (' ' :: (dbc :: dbm ++ ['\n']))
  have h6 := Ok_db env 1 dbc dbm ['\n'] hdbc hdbm (OutHd_cons _ _ _ (by decide))
  have h7 := Ok_eol_nl env ['\n'] (skipIgn_cons '\n' [] (by decide) (by decide))
  unfold domOrPlus at h4b
  simp only [List.cons_append, List.append_assoc, List.replicate_one, List.nil_append] at h1 h2 h3 h4a h4b h5 h6 ⊢
  have h4 := Ok_group (Ok_many1 h4a h4b)
  have := Ok_group (Ok_tag (t := "strand-complex") (Ok_seq (OkSeq_cons h1 (OkSeq_cons h2 (OkSeq_cons h3
    (OkSeq_cons h4 (OkSeq_cons h5 (OkSeq_cons h6 (OkSeq_cons h7 (OkSeq_nil env _ _))))))))))
  simp only [List.nil_append, List.append_nil, List.cons_append, List.map_cons] at this ⊢
  exact this.mono (by omega)

theorem Ok_struct_stmt (env : Env) (T : List Char) (res : Pos × List Tree) (N : Nat)
    (hbody : Ok env N {} structBody
      { rest := 's' :: (['t', 'r', 'u', 'c', 't', 'u', 'r', 'e'] ++ T), past := false } res) :
    Ok env (max N 10 + 9) {} pil_stmt
      { rest := 's' :: (['t', 'r', 'u', 'c', 't', 'u', 'r', 'e'] ++ T), past := false } res := by
  unfold pil_stmt pil_sl_domain pil_dl_domain pil_comp_domain pil_strand pil_strandcomplex
  unfold structBody at hbody
  have nk : ∀ (t : String) (s : List Char) (gs : List G),
      stripPrefix s ('s' :: (['t', 'r', 'u', 'c', 't', 'u', 'r', 'e'] ++ T)) = none →
      No env 6 {} (.group (.tag t (.seq (.suppress (.kw s identChars) :: gs))))
        { rest := 's' :: (['t', 'r', 'u', 'c', 't', 'u', 'r', 'e'] ++ T), past := false } :=
    fun t s gs h => No_gts_at env t s gs 's' _ (by decide) (by decide) h
  exact (Ok_alt (OkAlt_tail (nk _ _ _ (by simp [stripPrefix]))
    (OkAlt_tail (No_alt (NoAlt_cons (nk _ _ _ (by simp [stripPrefix])) (NoAlt_cons (nk _ _ _ (by simp [stripPrefix]))
      (NoAlt_cons (nk _ _ _ (by simp [stripPrefix])) (NoAlt_nil env _ _)))))
    (OkAlt_tail (nk _ _ _ (by simp [stripPrefix]))
    (OkAlt_tail (nk _ _ _ (by simp [stripPrefix]))
    (OkAlt_head (Ok_alt (OkAlt_tail (nk _ _ _ (by simp [stripPrefix])) (OkAlt_head hbody))))))))).mono (by omega)

theorem struct_parse (a : Nat) (ha : 0 < a) (c : Char) (m : List Char) (s1 s2 : Char)
    (hs1 : s1 = '=' ∨ s1 = ':') (hs2 : s2 = '=' ∨ s2 = ':') (d : List Char) (ds : List (List Char))
    (dbc : Char) (dbm : List Char)
    (hc : c ∈ identChars) (hm : ∀ x ∈ m, x ∈ identChars) (hd : IsDom d) (hds : ∀ x ∈ ds, IsDom x)
    (hdbc : dbc ∈ dbCore) (hdbm : ∀ x ∈ dbm, x ∈ dbCore) :
    parseDoc pil_env pil_grammar
      (String.ofList (['s', 't', 'r', 'u', 'c', 't', 'u', 'r', 'e'] ++ structText a c m s1 d ds s2 dbc dbm)) =
    some [.grp [.tok "strand-complex", .tok (String.ofList (c :: m)),
      .grp ((d :: ds).map (fun d => .tok (String.ofList d))), .tok (String.ofList (dbc :: dbm))]] := by
  have hb := Ok_struct_body pil_env a ha c m s1 s2 hs1 hs2 d ds dbc dbm hc hm hd hds hdbc hdbm
  have hstmt := Ok_struct_stmt pil_env _ _ _ hb
  have hlen : 3 * ds.length ≤ (structText a c m s1 d ds s2 dbc dbm).length := by
    have := psList_length ds
    unfold structText
    simp only [List.length_append, List.length_cons]
    omega
  have hnt : '\t' ∉ structText a c m s1 d ds s2 dbc dbm := by
    have h1 := notab_ident (c :: m) (by intro x hx; rcases List.mem_cons.mp hx with rfl | h; exact hc; exact hm x h)
    have h2 := notab_db dbc dbm hdbc hdbm
    have hsg1 : '\t' ≠ s1 := by rcases hs1 with rfl | rfl <;> decide
    have hsg2 : '\t' ≠ s2 := by rcases hs2 with rfl | rfl <;> decide
    unfold structText
    simp only [List.mem_append, List.mem_cons, not_or]
    simp only [List.mem_cons, not_or] at h1 h2
    exact ⟨notab_replicate a, ⟨h1.1, h1.2⟩, by decide, hsg1, by decide, notab_dom d hd,
      notab_psList ds (fun x hx => notab_dom x (hds x hx)), by decide, hsg2, by decide, ⟨h2.1, h2.2⟩,
      by decide, List.not_mem_nil⟩
  refine parse_stmt' _ 's' _ _ _ (skipIgn_cons 's' _ (by decide) (by decide)) (by decide) hstmt ?_ ?_
  · simp only [List.length_append, List.length_cons] at hlen ⊢; omega
  · show '\t' ∉ ['s', 't', 'r', 'u', 'c', 't', 'u', 'r', 'e'] ++ structText a c m s1 d ds s2 dbc dbm
    intro h
    rcases List.mem_append.mp h with h | h
    · revert h; decide
    · exact hnt h


/-! ### numbers and units -/

theorem e_ident : 'e' ∈ identChars := by decide

/-- `gorf` on an integer: `num_sci` fails at the missing `e`, `num_flt` yields the digits -/
theorem Ok_gorf_int (env : Env) (n : Nat) (dc : Char) (dm r : List Char) (hdc : dc ∈ pp_nums)
    (hdm : ∀ x ∈ dm, x ∈ pp_nums) (hr : OutHd (fun x => x ∉ identChars ∧ x ≠ '.') r) :
    Ok env 12 {} pil_gorf { rest := List.replicate n ' ' ++ (dc :: dm ++ r), past := false }
      ({ rest := r, past := false }, [.tok (String.ofList (dc :: dm))]) := by
  unfold pil_gorf pil_num_sci pil_num_flt pil_number
  have hdf := ident_facts dc (nums_facts dc hdc).1
  have hpre : pre {} { rest := List.replicate n ' ' ++ (dc :: dm ++ r), past := false } =
      { rest := dc :: dm ++ r, past := false } := by
    show (⟨skipIgn _, false⟩ : Pos) = _
    rw [List.cons_append, skipIgn_blanks_cons n dc _ hdf.1 hdf.2.1]
  have hnum : Ok env 1 { skip := false } (.word pp_nums pp_nums) { rest := dc :: dm ++ r, past := false }
      ({ rest := r, past := false }, [.tok (String.ofList (dc :: dm))]) :=
    Ok_word env { skip := false } _ _ _ dc dm r rfl hdc hdm (hr.imp (fun x hx => outside_nums x hx.1))
  have hdot : No env 1 { skip := false } (.lit ['.']) { rest := r, past := false } := by
    apply No_lit
    show stripPrefix ['.'] r = none
    cases r with
    | nil => rfl
    | cons x t => have := (hr x rfl).2; simp [stripPrefix, Ne.symm this]
  have hopt := Ok_opt_none (No_seq (NoSeq_head (gs := [.word pp_nums pp_nums]) hdot))
  have he : No env 1 { skip := false } (.lit ['e']) { rest := r, past := false } := by
    apply No_lit
    show stripPrefix ['e'] r = none
    cases r with
    | nil => rfl
    | cons x t =>
      have : x ≠ 'e' := fun e => (hr x rfl).1 (e ▸ e_ident)
      simp [stripPrefix, Ne.symm this]
  have hsci := No_combine (ctx := {}) (p := { rest := List.replicate n ' ' ++ (dc :: dm ++ r), past := false })
    (hpre ▸ No_seq (NoSeq_tail hnum (NoSeq_tail hopt (NoSeq_head
      (gs := [.opt (.alt [.lit ['-'], .lit ['+']]), .word pp_nums pp_nums]) he))))
  have hflt := Ok_combine (ctx := {}) (p := { rest := List.replicate n ' ' ++ (dc :: dm ++ r), past := false })
    (toks := [String.ofList (dc :: dm)]) (N' := 2)
    (hpre ▸ Ok_seq (OkSeq_cons hnum (OkSeq_cons hopt (OkSeq_nil env _ _))))
    (by intro f hf; obtain ⟨k, rfl⟩ : ∃ k, f = k + 2 := ⟨f - 2, by omega⟩; simp [flatToks])
  rw [join1] at hflt
  exact (Ok_alt (OkAlt_tail hsci (OkAlt_head hflt))).mono (by decide)

def IsCunit (u : List Char) : Prop :=
  u = ['M'] ∨ u = ['m', 'M'] ∨ u = ['u', 'M'] ∨ u = ['n', 'M'] ∨ u = ['p', 'M']
def IsTunit (u : List Char) : Prop := u = ['s'] ∨ u = ['m'] ∨ u = ['h']

theorem Ok_cunit (env : Env) (ctx : Ctx) (p : Pos) (u r : List Char) (hu : IsCunit u)
    (h : (pre ctx p).rest = u ++ r) (hp : p.past = false) :
    Ok env 7 ctx pil_cunit p ({ rest := r, past := false }, [.tok (String.ofList u)]) := by
  unfold pil_cunit
  have no : ∀ s, stripPrefix s (u ++ r) = none → No env 1 ctx (.lit s) p :=
    fun s hs => No_lit env ctx s p (by rw [h]; exact hs)
  have ok := Ok_lit env ctx u p r h hp
  rcases hu with rfl | rfl | rfl | rfl | rfl
  · exact (Ok_alt (OkAlt_head ok)).mono (by decide)
  · exact (Ok_alt (OkAlt_tail (no _ (by simp [stripPrefix])) (OkAlt_head ok))).mono (by decide)
  · exact (Ok_alt (OkAlt_tail (no _ (by simp [stripPrefix])) (OkAlt_tail (no _ (by simp [stripPrefix]))
      (OkAlt_head ok)))).mono (by decide)
  · exact (Ok_alt (OkAlt_tail (no _ (by simp [stripPrefix])) (OkAlt_tail (no _ (by simp [stripPrefix]))
      (OkAlt_tail (no _ (by simp [stripPrefix])) (OkAlt_head ok))))).mono (by decide)
  · exact (Ok_alt (OkAlt_tail (no _ (by simp [stripPrefix])) (OkAlt_tail (no _ (by simp [stripPrefix]))
      (OkAlt_tail (no _ (by simp [stripPrefix])) (OkAlt_tail (no _ (by simp [stripPrefix])) (OkAlt_head ok)))))).mono
      (by decide)

/-- no concentration unit at a time unit followed by `]` -/
theorem No_cunit_tu (env : Env) (ctx : Ctx) (p : Pos) (tu r : List Char) (htu : IsTunit tu)
    (h : (pre ctx p).rest = tu ++ (']' :: r)) : No env 7 ctx pil_cunit p := by
  unfold pil_cunit
  have no : ∀ s, stripPrefix s (tu ++ (']' :: r)) = none → No env 1 ctx (.lit s) p :=
    fun s hs => No_lit env ctx s p (by rw [h]; exact hs)
  rcases htu with rfl | rfl | rfl <;>
  exact (No_alt (NoAlt_cons (no _ (by simp [stripPrefix])) (NoAlt_cons (no _ (by simp [stripPrefix]))
    (NoAlt_cons (no _ (by simp [stripPrefix])) (NoAlt_cons (no _ (by simp [stripPrefix]))
    (NoAlt_cons (no _ (by simp [stripPrefix])) (NoAlt_nil env _ _))))))).mono (by decide)

theorem Ok_tunit (env : Env) (ctx : Ctx) (p : Pos) (u r : List Char) (hu : IsTunit u)
    (h : (pre ctx p).rest = u ++ r) (hp : p.past = false) :
    Ok env 5 ctx pil_tunit p ({ rest := r, past := false }, [.tok (String.ofList u)]) := by
  unfold pil_tunit
  have no : ∀ s, stripPrefix s (u ++ r) = none → No env 1 ctx (.lit s) p :=
    fun s hs => No_lit env ctx s p (by rw [h]; exact hs)
  have ok := Ok_lit env ctx u p r h hp
  rcases hu with rfl | rfl | rfl
  · exact (Ok_alt (OkAlt_head ok)).mono (by decide)
  · exact (Ok_alt (OkAlt_tail (no _ (by simp [stripPrefix])) (OkAlt_head ok))).mono (by decide)
  · exact (Ok_alt (OkAlt_tail (no _ (by simp [stripPrefix])) (OkAlt_tail (no _ (by simp [stripPrefix]))
      (OkAlt_head ok)))).mono (by decide)

/-- `"/u1/u2…"` -/
def cuText (cus : List (List Char)) : List Char := (cus.map (fun u => '/' :: u)).flatten
/-- the words of the rate unit: `/`, `u1`, `/`, `u2`, … -/
def cuWords (cus : List (List Char)) : List (List Char) := (cus.map (fun u => [['/'], u])).flatten

theorem cuText_cons (u : List Char) (cus : List (List Char)) : cuText (u :: cus) = '/' :: (u ++ cuText cus) := by
  simp [cuText]
theorem cuWords_cons (u : List Char) (cus : List (List Char)) : cuWords (u :: cus) = ['/'] :: u :: cuWords cus := by
  simp [cuWords]
theorem cuWords_flatten (cus : List (List Char)) : (cuWords cus).flatten = cuText cus := by
  induction cus with
  | nil => rfl
  | cons u cus ih => rw [cuWords_cons, cuText_cons]; simp [ih]
theorem cuWords_length (cus : List (List Char)) : (cuWords cus).length = 2 * cus.length := by
  induction cus with
  | nil => rfl
  | cons u cus ih => rw [cuWords_cons]; simp [ih]; omega
theorem cuText_length (cus : List (List Char)) : cus.length ≤ (cuText cus).length := by
  induction cus with
  | nil => simp [cuText]
  | cons u cus ih => rw [cuText_cons]; simp; omega
theorem notab_cuText (cus : List (List Char)) (h : ∀ u ∈ cus, IsCunit u) : '\t' ∉ cuText cus := by
  induction cus with
  | nil => simp [cuText]
  | cons u cus ih =>
    rw [cuText_cons]
    simp only [List.mem_cons, List.mem_append, not_or]
    refine ⟨by decide, ?_, ih (fun x hx => h x (List.mem_cons_of_mem _ hx))⟩
    rcases h u (by simp) with rfl | rfl | rfl | rfl | rfl <;> decide

theorem OkMany_cunits (env : Env) (cus : List (List Char)) (tu r : List Char) (hcu : ∀ u ∈ cus, IsCunit u)
    (htu : IsTunit tu) :
    OkMany env (cus.length + 12) { skip := false } (.seq [.lit ['/'], pil_cunit])
      { rest := cuText cus ++ ('/' :: (tu ++ (']' :: r))), past := false }
      ({ rest := '/' :: (tu ++ (']' :: r)), past := false },
        (cuWords cus).map (fun w => .tok (String.ofList w))) := by
  induction cus with
  | nil =>
    have h1 : Ok env 1 { skip := false } (.lit ['/']) { rest := '/' :: (tu ++ (']' :: r)), past := false }
        ({ rest := tu ++ (']' :: r), past := false }, [.tok (String.ofList ['/'])]) :=
      Ok_lit env _ ['/'] _ _ rfl rfl
    have h2 := No_cunit_tu env { skip := false } { rest := tu ++ (']' :: r), past := false } tu r htu rfl
    have := OkMany_stop (No_seq (NoSeq_tail h1 (NoSeq_head (gs := []) h2)))
    intro reps fuel hr hf
    simpa [cuText, cuWords] using this reps fuel (by omega) (by omega)
  | cons u cus ih =>
    have ih' := ih (fun x hx => hcu x (List.mem_cons_of_mem _ hx))
    have h1 : Ok env 1 { skip := false } (.lit ['/'])
        { rest := '/' :: (u ++ (cuText cus ++ ('/' :: (tu ++ (']' :: r))))), past := false }
        ({ rest := u ++ (cuText cus ++ ('/' :: (tu ++ (']' :: r)))), past := false }, [.tok (String.ofList ['/'])]) :=
      Ok_lit env _ ['/'] _ _ rfl rfl
    have h2 := Ok_cunit env { skip := false } { rest := u ++ (cuText cus ++ ('/' :: (tu ++ (']' :: r)))), past := false }
      u _ (hcu u (by simp)) rfl rfl
    have hne : ({ rest := cuText cus ++ ('/' :: (tu ++ (']' :: r))), past := false } : Pos) ≠
        { rest := '/' :: (u ++ (cuText cus ++ ('/' :: (tu ++ (']' :: r))))), past := false } :=
      pos_ne_of_length _ _ _ _ (by simp; omega)
    have := OkMany_step (Ok_seq (OkSeq_cons h1 (OkSeq_cons h2 (OkSeq_nil env _ _)))) hne ih'
    rw [cuText_cons, cuWords_cons]
    simp only [List.cons_append, List.append_assoc, List.nil_append, List.append_nil, List.map_cons,
      List.length_cons] at this ⊢
    intro reps fuel hr hf
    exact this reps fuel (by omega) (by omega)

/-- the rate unit `Combine(ZeroOrMore('/' cunit) '/' tunit)` after one blank -/
theorem Ok_runit (env : Env) (cus : List (List Char)) (tu r : List Char) (hcu : ∀ u ∈ cus, IsCunit u)
    (htu : IsTunit tu) :
    Ok env (2 * cus.length + 20) {} pil_runit
      { rest := ' ' :: (cuText cus ++ ('/' :: (tu ++ (']' :: r)))), past := false }
      ({ rest := ']' :: r, past := false }, [.tok (String.ofList (cuText cus ++ ('/' :: tu)))]) := by
  unfold pil_runit
  have hhead : ∃ t, cuText cus ++ ('/' :: (tu ++ (']' :: r))) = '/' :: t := by
    cases cus with
    | nil => exact ⟨_, rfl⟩
    | cons u cus => rw [cuText_cons]; exact ⟨_, rfl⟩
  obtain ⟨t, ht⟩ := hhead
  have hpre : pre {} { rest := ' ' :: (cuText cus ++ ('/' :: (tu ++ (']' :: r)))), past := false } =
      { rest := cuText cus ++ ('/' :: (tu ++ (']' :: r))), past := false } := by
    show (⟨skipIgn _, false⟩ : Pos) = _
    rw [ht]
    have := skipIgn_blanks_cons 1 '/' t (by decide) (by decide)
    simp only [List.replicate_one, List.singleton_append] at this
    rw [this]
  have h1 := Ok_many (OkMany_cunits env cus tu r hcu htu)
  have h2 : Ok env 1 { skip := false } (.lit ['/']) { rest := '/' :: (tu ++ (']' :: r)), past := false }
      ({ rest := tu ++ (']' :: r), past := false }, [.tok (String.ofList ['/'])]) :=
    Ok_lit env _ ['/'] _ _ rfl rfl
  have h3 := Ok_tunit env { skip := false } { rest := tu ++ (']' :: r), past := false } tu (']' :: r) htu rfl rfl
  have hseq := Ok_seq (OkSeq_cons h1 (OkSeq_cons h2 (OkSeq_cons h3 (OkSeq_nil env _ _))))
  have hts : (cuWords cus).map (fun w => Tree.tok (String.ofList w)) ++
      ([Tree.tok (String.ofList ['/'])] ++ ([Tree.tok (String.ofList tu)] ++ [])) =
      (((cuWords cus) ++ [['/'], tu]).map String.ofList).map Tree.tok := by simp
  rw [hts] at hseq
  have := Ok_combine (ctx := {}) (p := { rest := ' ' :: (cuText cus ++ ('/' :: (tu ++ (']' :: r)))), past := false })
    (toks := ((cuWords cus) ++ [['/'], tu]).map String.ofList) (N' := 2 * cus.length + 3)
    (hpre ▸ hseq)
    (by intro f hf
        apply flatToks_toks
        simp only [List.length_map, List.length_append, cuWords_length, List.length_cons, List.length_nil]
        omega)
  rw [join_ofList] at this
  have hfl : ((cuWords cus) ++ [['/'], tu]).flatten = cuText cus ++ ('/' :: tu) := by
    simp [cuWords_flatten]
  rw [hfl] at this
  exact this.mono (by omega)


/-! ### reactions -/

theorem OutHd_psList_id (xs : List (List Char)) (tail : List Char) (ht : OutHd (fun x => x ∉ identChars) tail) :
    OutHd (fun x => x ∉ identChars) (psList xs ++ tail) := by
  cases xs with
  | nil => simpa [psList] using ht
  | cons d ds => rw [psList_cons]; exact OutHd_cons _ _ _ (outside_facts ' ' (by decide))

theorem OkMany_ids (env : Env) (xs : List (List Char)) (tail : List Char) (c0 : Char) (t : List Char)
    (hx : ∀ x ∈ xs, IsId x) (ht : OutHd (fun x => x ∉ identChars) tail) (hsk : skipIgn tail = c0 :: t)
    (hc0 : c0 ≠ '+') :
    OkMany env (xs.length + 6) {} (.seq [.suppress (.lit ['+']), pil_identifier])
      { rest := psList xs ++ tail, past := false }
      ({ rest := tail, past := false }, xs.map (fun d => .tok (String.ofList d))) := by
  induction xs with
  | nil =>
    have h0 := No_punct env { rest := tail, past := false } '+' c0 t hsk hc0
    have := OkMany_stop (No_seq (NoSeq_head (gs := [pil_identifier]) h0))
    intro reps fuel hr hf
    simpa [psList] using this reps fuel (by omega) (by omega)
  | cons d ds ih =>
    obtain ⟨c, m, rfl, hc, hm⟩ := hx d (by simp)
    have ih' := ih (fun d hd' => hx d (List.mem_cons_of_mem _ hd'))
    have h1 := Ok_punct env 1 '+' (' ' :: (c :: m ++ (psList ds ++ tail))) (by decide) (by decide)
    have h2 := Ok_ident env 1 c m (psList ds ++ tail) hc hm (OutHd_psList_id ds tail ht)
    have hne : ({ rest := psList ds ++ tail, past := false } : Pos) ≠
        { rest := List.replicate 1 ' ' ++ ('+' :: ' ' :: (c :: m ++ (psList ds ++ tail))), past := false } :=
      pos_ne_of_length _ _ _ _ (by simp; omega)
    simp only [List.replicate_one, List.singleton_append] at h1 h2 hne
    have := OkMany_step (Ok_seq (OkSeq_cons h1 (OkSeq_cons h2 (OkSeq_nil env _ _)))) hne ih'
    rw [psList_cons]
    simp only [List.cons_append, List.append_assoc, List.nil_append, List.append_nil, List.map_cons,
      List.length_cons] at this ⊢
    intro reps fuel hr hf
    exact this reps fuel (by omega) (by omega)

/-- `species = identifier (S('+') identifier)*` after `n` blanks -/
theorem Ok_species (env : Env) (n : Nat) (c : Char) (m : List Char) (xs : List (List Char)) (tail : List Char)
    (c0 : Char) (t : List Char) (hc : c ∈ identChars) (hm : ∀ x ∈ m, x ∈ identChars)
    (hx : ∀ x ∈ xs, IsId x) (ht : OutHd (fun x => x ∉ identChars) tail) (hsk : skipIgn tail = c0 :: t)
    (hc0 : c0 ≠ '+') :
    Ok env (xs.length + 12) {} (.group pil_species)
      { rest := List.replicate n ' ' ++ (c :: m ++ (psList xs ++ tail)), past := false }
      ({ rest := tail, past := false }, [.grp (((c :: m) :: xs).map (fun d => .tok (String.ofList d)))]) := by
  unfold pil_species
  have h1 := Ok_ident env n c m (psList xs ++ tail) hc hm (OutHd_psList_id xs tail ht)
  have h2 := Ok_many (OkMany_ids env xs tail c0 t hx ht hsk hc0)
  have := Ok_group (Ok_seq (OkSeq_cons h1 (OkSeq_cons h2 (OkSeq_nil env _ _))))
  simp only [List.append_nil, List.singleton_append, List.map_cons] at this ⊢
  exact this.mono (by omega)

def rxBody (kw : List Char) : G :=
  .group (.tag "reaction" (.seq [.suppress (.kw kw identChars), .group (.opt pil_infobox), .group pil_species,
    .suppress (.lit ['-', '>']), .group pil_species, .many1 (.suppress .lineEnd)]))

/-- reactants, arrow, products, newline; preceded by `n` blanks -/
def rxText (n : Nat) (rc : Char) (rm : List Char) (rs : List (List Char)) (pc : Char) (pm : List Char)
    (ps : List (List Char)) : List Char :=
  List.replicate n ' ' ++ (rc :: rm ++ (psList rs ++ (' ' :: '-' :: '>' :: ' ' :: (pc :: pm ++ (psList ps ++ ['\n'])))))

theorem Ok_rx_body (env : Env) (kc : Char) (ks : List Char) (hk : isWs kc = false) (hk' : kc ≠ '#')
    (T0 : List Char) (hT0 : OutHd (fun x => x ∉ identChars) T0) (NI : Nat) (itoks : List Tree)
    (n : Nat) (rc : Char) (rm : List Char) (rs : List (List Char)) (pc : Char) (pm : List Char) (ps : List (List Char))
    (hrc : rc ∈ identChars) (hrm : ∀ x ∈ rm, x ∈ identChars) (hrs : ∀ x ∈ rs, IsId x)
    (hpc : pc ∈ identChars) (hpm : ∀ x ∈ pm, x ∈ identChars) (hps : ∀ x ∈ ps, IsId x)
    (hinfo : Ok env NI {} (.group (.opt pil_infobox)) { rest := T0, past := false }
      ({ rest := rxText n rc rm rs pc pm ps, past := false }, [.grp itoks])) :
    Ok env (max NI (rs.length + ps.length) + 24) {} (rxBody (kc :: ks))
      { rest := kc :: (ks ++ T0), past := false }
      ({ rest := [], past := true },
        [.grp [.tok "reaction", .grp itoks, .grp (((rc :: rm) :: rs).map (fun d => .tok (String.ofList d))),
          .grp (((pc :: pm) :: ps).map (fun d => .tok (String.ofList d)))]]) := by
  unfold rxBody
  unfold rxText at hinfo
  have h1 := Ok_kw env kc ks T0 hk hk' hT0
  have hsk1 : skipIgn (' ' :: '-' :: '>' :: ' ' :: (pc :: pm ++ (psList ps ++ ['\n']))) =
      '-' :: '>' :: ' ' :: (pc :: pm ++ (psList ps ++ ['\n'])) := by
    have := skipIgn_blanks_cons 1 '-' ('>' :: ' ' :: (pc :: pm ++ (psList ps ++ ['\n']))) (by decide) (by decide)
    simpa using this
  have h3 := Ok_species env n rc rm rs (' ' :: '-' :: '>' :: ' ' :: (pc :: pm ++ (psList ps ++ ['\n']))) '-' _
    hrc hrm hrs (OutHd_cons _ _ _ (outside_facts ' ' (by decide))) hsk1 (by decide)
  have h4 : Ok env 2 {} (.suppress (.lit ['-', '>']))
      { rest := ' ' :: '-' :: '>' :: ' ' :: (pc :: pm ++ (psList ps ++ ['\n'])), past := false }
      ({ rest := ' ' :: (pc :: pm ++ (psList ps ++ ['\n'])), past := false }, []) :=
    Ok_suppress (Ok_lit env {} ['-', '>'] _ _ (by rw [pre_skip]; exact hsk1) rfl)
  have h5 := Ok_species env 1 pc pm ps ['\n'] '\n' [] hpc hpm hps
    (OutHd_cons _ _ _ (outside_facts '\n' (by decide))) (skipIgn_cons '\n' [] (by decide) (by decide)) (by decide)
  have h6 := Ok_eol_nl env ['\n'] (skipIgn_cons '\n' [] (by decide) (by decide))
  simp only [List.replicate_one, List.singleton_append] at h5
  have := Ok_group (Ok_tag (t := "reaction") (Ok_seq (OkSeq_cons h1 (OkSeq_cons hinfo (OkSeq_cons h3
    (OkSeq_cons h4 (OkSeq_cons h5 (OkSeq_cons h6 (OkSeq_nil env _ _)))))))))
  simp only [List.nil_append, List.append_nil, List.cons_append] at this ⊢
  exact this.mono (by omega)

/-- `pil_stmt` on a reaction statement -/
theorem Ok_rx_stmt (env : Env) (kw : List Char)
    (hkw : kw = ['r', 'e', 'a', 'c', 't', 'i', 'o', 'n'] ∨ kw = ['k', 'i', 'n', 'e', 't', 'i', 'c'])
    (T : List Char) (res : Pos × List Tree) (N : Nat)
    (hbody : Ok env N {} (rxBody kw) { rest := kw ++ T, past := false } res) :
    Ok env (max N 10 + 10) {} pil_stmt { rest := kw ++ T, past := false } res := by
  unfold pil_stmt pil_sl_domain pil_dl_domain pil_comp_domain pil_strand pil_strandcomplex pil_reaction
  unfold rxBody at hbody
  rcases hkw with rfl | rfl
  · have nk : ∀ (t : String) (s : List Char) (gs : List G),
        stripPrefix s ('r' :: (['e', 'a', 'c', 't', 'i', 'o', 'n'] ++ T)) = none →
        No env 6 {} (.group (.tag t (.seq (.suppress (.kw s identChars) :: gs))))
          { rest := ['r', 'e', 'a', 'c', 't', 'i', 'o', 'n'] ++ T, past := false } :=
      fun t s gs h => No_gts_at env t s gs 'r' _ (by decide) (by decide) h
    exact (Ok_alt (OkAlt_tail (nk _ _ _ (by simp [stripPrefix]))
      (OkAlt_tail (No_alt (NoAlt_cons (nk _ _ _ (by simp [stripPrefix])) (NoAlt_cons (nk _ _ _ (by simp [stripPrefix]))
        (NoAlt_cons (nk _ _ _ (by simp [stripPrefix])) (NoAlt_nil env _ _)))))
      (OkAlt_tail (nk _ _ _ (by simp [stripPrefix]))
      (OkAlt_tail (nk _ _ _ (by simp [stripPrefix]))
      (OkAlt_tail (No_alt (NoAlt_cons (nk _ _ _ (by simp [stripPrefix])) (NoAlt_cons (nk _ _ _ (by simp [stripPrefix]))
        (NoAlt_nil env _ _))))
      (OkAlt_head (Ok_alt (OkAlt_tail (nk _ _ _ (by simp [stripPrefix])) (OkAlt_head hbody)))))))))).mono (by omega)
  · have nk : ∀ (t : String) (s : List Char) (gs : List G),
        stripPrefix s ('k' :: (['i', 'n', 'e', 't', 'i', 'c'] ++ T)) = none →
        No env 6 {} (.group (.tag t (.seq (.suppress (.kw s identChars) :: gs))))
          { rest := ['k', 'i', 'n', 'e', 't', 'i', 'c'] ++ T, past := false } :=
      fun t s gs h => No_gts_at env t s gs 'k' _ (by decide) (by decide) h
    exact (Ok_alt (OkAlt_tail (nk _ _ _ (by simp [stripPrefix]))
      (OkAlt_tail (No_alt (NoAlt_cons (nk _ _ _ (by simp [stripPrefix])) (NoAlt_cons (nk _ _ _ (by simp [stripPrefix]))
        (NoAlt_cons (nk _ _ _ (by simp [stripPrefix])) (NoAlt_nil env _ _)))))
      (OkAlt_tail (nk _ _ _ (by simp [stripPrefix]))
      (OkAlt_tail (nk _ _ _ (by simp [stripPrefix]))
      (OkAlt_tail (No_alt (NoAlt_cons (nk _ _ _ (by simp [stripPrefix])) (NoAlt_cons (nk _ _ _ (by simp [stripPrefix]))
        (NoAlt_nil env _ _))))
      (OkAlt_head (Ok_alt (OkAlt_head hbody))))))))).mono (by omega)

theorem rxText_facts (n : Nat) (rc : Char) (rm : List Char) (rs : List (List Char)) (pc : Char) (pm : List Char)
    (ps : List (List Char))
    (hrc : rc ∈ identChars) (hrm : ∀ x ∈ rm, x ∈ identChars) (hrs : ∀ x ∈ rs, IsId x)
    (hpc : pc ∈ identChars) (hpm : ∀ x ∈ pm, x ∈ identChars) (hps : ∀ x ∈ ps, IsId x) :
    rs.length + ps.length ≤ (rxText n rc rm rs pc pm ps).length ∧ '\t' ∉ rxText n rc rm rs pc pm ps := by
  have l1 := psList_length rs
  have l2 := psList_length ps
  have nid : ∀ x, IsId x → '\t' ∉ x := by
    rintro x ⟨c, m, rfl, hc, hm⟩
    exact notab_ident (c :: m) (by intro y hy; rcases List.mem_cons.mp hy with rfl | h; exact hc; exact hm y h)
  have h1 := nid _ ⟨rc, rm, rfl, hrc, hrm⟩
  have h2 := nid _ ⟨pc, pm, rfl, hpc, hpm⟩
  unfold rxText
  constructor
  · simp only [List.length_append, List.length_cons]; omega
  · simp only [List.mem_append, List.mem_cons, not_or]
    simp only [List.mem_cons, not_or] at h1 h2
    exact ⟨notab_replicate n, ⟨h1.1, h1.2⟩, notab_psList rs (fun x hx => nid x (hrs x hx)), by decide, by decide,
      by decide, by decide, ⟨h2.1, h2.2⟩, notab_psList ps (fun x hx => nid x (hps x hx)), by decide, List.not_mem_nil⟩

theorem rx_plain_parse (kw : List Char)
    (hkw : kw = ['r', 'e', 'a', 'c', 't', 'i', 'o', 'n'] ∨ kw = ['k', 'i', 'n', 'e', 't', 'i', 'c'])
    (a : Nat) (rc : Char) (rm : List Char) (rs : List (List Char)) (pc : Char) (pm : List Char) (ps : List (List Char))
    (hrc : rc ∈ identChars) (hrm : ∀ x ∈ rm, x ∈ identChars) (hrs : ∀ x ∈ rs, IsId x)
    (hpc : pc ∈ identChars) (hpm : ∀ x ∈ pm, x ∈ identChars) (hps : ∀ x ∈ ps, IsId x) :
    parseDoc pil_env pil_grammar (String.ofList (kw ++ rxText (a + 1) rc rm rs pc pm ps)) =
      some [.grp [.tok "reaction", .grp [], .grp (((rc :: rm) :: rs).map (fun d => .tok (String.ofList d))),
          .grp (((pc :: pm) :: ps).map (fun d => .tok (String.ofList d)))]] := by
  have hrcf := ident_facts rc hrc
  have hbr : rc ≠ '[' := fun e => (punct_facts '[' (by decide)).1 (e ▸ hrc)
  have hinfo : Ok pil_env 6 {} (.group (.opt pil_infobox)) { rest := rxText (a + 1) rc rm rs pc pm ps, past := false }
      ({ rest := rxText (a + 1) rc rm rs pc pm ps, past := false }, [.grp []]) := by
    unfold pil_infobox
    have hsk : skipIgn (rxText (a + 1) rc rm rs pc pm ps) = rc :: (rm ++ (psList rs ++
        (' ' :: '-' :: '>' :: ' ' :: (pc :: pm ++ (psList ps ++ ['\n']))))) := by
      unfold rxText
      rw [List.cons_append]
      exact skipIgn_blanks_cons (a + 1) rc _ hrcf.1 hrcf.2.1
    have := No_punct pil_env { rest := rxText (a + 1) rc rm rs pc pm ps, past := false } '[' rc _ hsk hbr
    exact (Ok_group (Ok_opt_none (No_seq (NoSeq_head this)))).mono (by decide)
  obtain ⟨f1, f2⟩ := rxText_facts (a + 1) rc rm rs pc pm ps hrc hrm hrs hpc hpm hps
  rcases hkw with rfl | rfl
  · have hb := Ok_rx_body pil_env 'r' ['e', 'a', 'c', 't', 'i', 'o', 'n'] (by decide) (by decide) _
      (by unfold rxText; exact OutHd_kw_blanks (a + 1) (Nat.succ_pos a) _) _ _
      (a + 1) rc rm rs pc pm ps hrc hrm hrs hpc hpm hps hinfo
    have hstmt := Ok_rx_stmt pil_env ['r', 'e', 'a', 'c', 't', 'i', 'o', 'n'] (Or.inl rfl) _ _ _ hb
    refine parse_stmt' _ 'r' _ _ _ (skipIgn_cons 'r' _ (by decide) (by decide)) (by decide) hstmt ?_ ?_
    · simp only [List.length_append, List.length_cons] at f1 ⊢; omega
    · intro h
      rcases List.mem_append.mp h with h | h
      · revert h; decide
      · exact f2 h
  · have hb := Ok_rx_body pil_env 'k' ['i', 'n', 'e', 't', 'i', 'c'] (by decide) (by decide) _
      (by unfold rxText; exact OutHd_kw_blanks (a + 1) (Nat.succ_pos a) _) _ _
      (a + 1) rc rm rs pc pm ps hrc hrm hrs hpc hpm hps hinfo
    have hstmt := Ok_rx_stmt pil_env ['k', 'i', 'n', 'e', 't', 'i', 'c'] (Or.inr rfl) _ _ _ hb
    refine parse_stmt' _ 'k' _ _ _ (skipIgn_cons 'k' _ (by decide) (by decide)) (by decide) hstmt ?_ ?_
    · simp only [List.length_append, List.length_cons] at f1 ⊢; omega
    · intro h
      rcases List.mem_append.mp h with h | h
      · revert h; decide
      · exact f2 h


theorem cuText_head (cus : List (List Char)) (r : List Char) : ∃ t, cuText cus ++ ('/' :: r) = '/' :: t := by
  cases cus with
  | nil => exact ⟨_, rfl⟩
  | cons u cus => rw [cuText_cons]; exact ⟨_, rfl⟩

/-- the text of an information box `" [type = rate /u…/t"` followed by `]` and `rest` -/
def infoText (tc : Char) (tm : List Char) (dc : Char) (dm : List Char) (cus : List (List Char)) (tu rest : List Char) :
    List Char :=
  ' ' :: '[' :: (tc :: tm ++ (' ' :: '=' :: ' ' :: (dc :: dm ++ (' ' :: (cuText cus ++ ('/' :: (tu ++ (']' :: rest))))))))

theorem Ok_infobox (env : Env) (tc : Char) (tm : List Char) (dc : Char) (dm : List Char) (cus : List (List Char))
    (tu rest : List Char)
    (htc : tc ∈ identChars) (htm : ∀ x ∈ tm, x ∈ identChars) (hdc : dc ∈ pp_nums) (hdm : ∀ x ∈ dm, x ∈ pp_nums)
    (hcu : ∀ u ∈ cus, IsCunit u) (htu : IsTunit tu) :
    Ok env (2 * cus.length + 32) {} (.group (.opt pil_infobox))
      { rest := infoText tc tm dc dm cus tu rest, past := false }
      ({ rest := rest, past := false },
        [.grp [.grp [.tok (String.ofList (tc :: tm))], .grp [.tok (String.ofList (dc :: dm))],
          .grp [.tok (String.ofList (cuText cus ++ ('/' :: tu)))]]]) := by
  unfold pil_infobox infoText
  obtain ⟨t, ht⟩ := cuText_head cus (tu ++ (']' :: rest))
  have i1 := Ok_punct env 1 '[' (tc :: tm ++ (' ' :: '=' :: ' ' :: (dc :: dm ++ (' ' :: (cuText cus ++
    ('/' :: (tu ++ (']' :: rest)))))))) (by decide) (by decide)
  have i2a := Ok_ident env 0 tc tm (' ' :: '=' :: ' ' :: (dc :: dm ++ (' ' :: (cuText cus ++
    ('/' :: (tu ++ (']' :: rest))))))) htc htm (OutHd_cons _ _ _ (outside_facts ' ' (by decide)))
  have i2b := Ok_assign env 1 '=' (Or.inl rfl) (' ' :: (dc :: dm ++ (' ' :: (cuText cus ++
    ('/' :: (tu ++ (']' :: rest)))))))
  have i3a := Ok_gorf_int env 1 dc dm (' ' :: (cuText cus ++ ('/' :: (tu ++ (']' :: rest))))) hdc hdm
    (OutHd_cons _ _ _ ⟨outside_facts ' ' (by decide), by decide⟩)
  have i3b : No env 2 {} (.suppress (.lit ['+', '/', '-']))
      { rest := ' ' :: (cuText cus ++ ('/' :: (tu ++ (']' :: rest)))), past := false } := by
    apply No_suppress; apply No_lit
    rw [pre_skip, ht]
    have := skipIgn_blanks_cons 1 '/' t (by decide) (by decide)
    simp only [List.replicate_one, List.singleton_append] at this
    rw [this]; simp [stripPrefix]
  have i3c := Ok_opt_none (No_seq (NoSeq_head (gs := [pil_ginf]) i3b))
  have i4 := Ok_group (Ok_runit env cus tu rest hcu htu)
  have i5 := Ok_punct env 0 ']' rest (by decide) (by decide)
  simp only [List.replicate_one, List.replicate_zero, List.nil_append,
    List.cons_append] at i1 i2a i2b i3a i5 ⊢
  have i2 := Ok_group (Ok_opt_some (Ok_seq (OkSeq_cons i2a (OkSeq_cons i2b (OkSeq_nil env _ _)))))
  have i3 := Ok_group (Ok_seq (OkSeq_cons i3a (OkSeq_cons i3c (OkSeq_nil env _ _))))
  have := Ok_group (Ok_opt_some (Ok_seq (OkSeq_cons i1 (OkSeq_cons i2 (OkSeq_cons i3 (OkSeq_cons i4
    (OkSeq_cons i5 (OkSeq_nil env _ _))))))))
  simp only [List.nil_append, List.append_nil, List.cons_append] at this ⊢
  exact this.mono (by omega)

theorem rx_info_parse (tc : Char) (tm : List Char) (dc : Char) (dm : List Char) (cus : List (List Char))
    (tu : List Char) (rc : Char) (rm : List Char) (rs : List (List Char)) (pc : Char) (pm : List Char)
    (ps : List (List Char))
    (htc : tc ∈ pp_alphas) (htm : ∀ x ∈ tm, x ∈ pp_alphas) (hdc : dc ∈ pp_nums) (hdm : ∀ x ∈ dm, x ∈ pp_nums)
    (hcu : ∀ u ∈ cus, IsCunit u) (htu : IsTunit tu)
    (hrc : rc ∈ identChars) (hrm : ∀ x ∈ rm, x ∈ identChars) (hrs : ∀ x ∈ rs, IsId x)
    (hpc : pc ∈ identChars) (hpm : ∀ x ∈ pm, x ∈ identChars) (hps : ∀ x ∈ ps, IsId x) :
    parseDoc pil_env pil_grammar (String.ofList (['r', 'e', 'a', 'c', 't', 'i', 'o', 'n'] ++
      infoText tc tm dc dm cus tu (rxText 1 rc rm rs pc pm ps))) =
      some [.grp [.tok "reaction",
        .grp [.grp [.tok (String.ofList (tc :: tm))], .grp [.tok (String.ofList (dc :: dm))],
          .grp [.tok (String.ofList (cuText cus ++ ('/' :: tu)))]],
        .grp (((rc :: rm) :: rs).map (fun d => .tok (String.ofList d))),
        .grp (((pc :: pm) :: ps).map (fun d => .tok (String.ofList d)))]] := by
  have htc' := (alphas_facts tc htc).1
  have htm' : ∀ x ∈ tm, x ∈ identChars := fun x hx => (alphas_facts x (htm x hx)).1
  have hinfo := Ok_infobox pil_env tc tm dc dm cus tu (rxText 1 rc rm rs pc pm ps) htc' htm' hdc hdm hcu htu
  have hb := Ok_rx_body pil_env 'r' ['e', 'a', 'c', 't', 'i', 'o', 'n'] (by decide) (by decide) _
    (by unfold infoText; exact OutHd_cons _ _ _ (outside_facts ' ' (by decide))) _ _
    1 rc rm rs pc pm ps hrc hrm hrs hpc hpm hps hinfo
  have hstmt := Ok_rx_stmt pil_env ['r', 'e', 'a', 'c', 't', 'i', 'o', 'n'] (Or.inl rfl) _ _ _ hb
  obtain ⟨f1, f2⟩ := rxText_facts 1 rc rm rs pc pm ps hrc hrm hrs hpc hpm hps
  have l3 := cuText_length cus
  have n3 := notab_cuText cus hcu
  have n1 := notab_ident (tc :: tm) (by intro x hx; rcases List.mem_cons.mp hx with rfl | h; exact htc'; exact htm' x h)
  have n2 := notab_of_nums (dc :: dm) (by intro x hx; rcases List.mem_cons.mp hx with rfl | h; exact hdc; exact hdm x h)
  have n4 : '\t' ∉ tu := by rcases htu with rfl | rfl | rfl <;> decide
  refine parse_stmt' _ 'r' _ _ _ (skipIgn_cons 'r' _ (by decide) (by decide)) (by decide) hstmt ?_ ?_
  · unfold infoText
    simp only [List.length_append, List.length_cons] at f1 ⊢; omega
  · intro h
    rcases List.mem_append.mp h with h | h
    · revert h; decide
    · have hnt : '\t' ∉ infoText tc tm dc dm cus tu (rxText 1 rc rm rs pc pm ps) := by
        unfold infoText
        simp only [List.mem_cons, List.mem_append, not_or]
        simp only [List.mem_cons, not_or] at n1 n2
        exact ⟨by decide, by decide, ⟨n1.1, n1.2⟩, by decide, by decide, by decide, ⟨n2.1, n2.2⟩, by decide, n3,
          by decide, n4, by decide, f2⟩
      exact hnt h


/-! ### kernel complexes with a concentration -/

/-- the elements of `pil_cplx` up to and including the pattern (any tail `X`) -/
theorem cplx_parts3 (nc : Char) (m : List Char) (L : List Ent) (toks : List Tree) (X : List Char)
    (hnc : nc ∈ identChars) (hm : ∀ x ∈ m, x ∈ identChars) (hL : L ≠ []) (hleg : ∀ e ∈ L, LegalEnt e)
    (hp : pItems (2 * L.length + 1) L = some (toks, [])) (hX : TailOK X) :
    Ok pil_env 1 {} pil_identifier { rest := nc :: (m ++ (' ' :: '=' :: (sp L ++ X))), past := false }
      ({ rest := ' ' :: '=' :: (sp L ++ X), past := false }, [.tok (String.ofList (nc :: m))]) ∧
    Ok pil_env 2 {} (.suppress (.lit ['='])) { rest := ' ' :: '=' :: (sp L ++ X), past := false }
      ({ rest := sp L ++ X, past := false }, []) ∧
    Ok pil_env (8 * L.length + 46) {} (.many1 (.group (.ref "pattern"))) { rest := sp L ++ X, past := false }
      ({ rest := X, past := false }, [.grp toks]) := by
  have hpat : Ok pil_env (8 * L.length + 42) {} (.many1 itemG) { rest := sp L ++ X, past := false }
      ({ rest := X, past := false }, toks) := by
    cases L with
    | nil => exact absurd rfl hL
    | cons e R0 =>
      obtain ⟨n, c⟩ := e
      rw [show 2 * ((n, c) :: R0).length + 1 = (2 * R0.length + 2) + 1 by simp only [List.length_cons]; omega,
        pItems] at hp
      by_cases h2 : c = ')'
      · simp [h2] at hp
      · simp only [h2, if_false] at hp
        cases hpa : pItem (2 * R0.length + 2) ((n, c) :: R0) with
        | none => simp [hpa] at hp
        | some qa =>
          obtain ⟨ta, La⟩ := qa
          simp only [hpa] at hp
          cases hpb : pItems (2 * R0.length + 2) La with
          | none => simp [hpb] at hp
          | some qb =>
            obtain ⟨tb, Rb⟩ := qb
            simp only [hpb, Option.some.injEq, Prod.mk.injEq] at hp
            obtain ⟨rfl, rfl⟩ := hp
            obtain ⟨la, _⟩ := (pItem_nestGo _).1 _ _ _ hpa
            obtain ⟨P, _, eP⟩ := (pItem_suffix _).1 _ _ _ hpa
            have hlegLa : ∀ e ∈ La, LegalEnt e := by
              intro e he
              exact hleg e (by rw [eP]; exact List.mem_append_right _ he)
            have A := (kernel_sim _).1 _ _ _ hpa hleg X hX
            have B := (kernel_sim _).2 _ _ _ hpb hlegLa X hX
            have := Ok_many1 A B
            simp only [sp, List.map_nil, List.flatten_nil, List.nil_append] at this
            simp only [List.length_cons, List.length_nil] at la this ⊢
            exact this.mono (by omega)
  obtain ⟨hX1, hX2⟩ := hX
  have h1 := Ok_ident pil_env 0 nc m (' ' :: '=' :: (sp L ++ X)) hnc hm
    (OutHd_cons _ _ _ (outside_facts ' ' (by decide)))
  have h2 := Ok_punct pil_env 1 '=' (sp L ++ X) (by decide) (by decide)
  have hstop : No pil_env 15 {} (.group (.ref "pattern")) { rest := X, past := false } :=
    No_group (No_ref pattern_lookup (No_many1 hX2))
  have h3 := Ok_many1 (Ok_group (Ok_ref pattern_lookup hpat)) (OkMany_stop hstop)
  simp only [List.replicate_zero, List.nil_append, List.replicate_one,
    List.cons_append] at h1 h2
  have h3' := h3.mono (N' := 8 * L.length + 46) (by omega)
  simp only [List.append_nil] at h3'
  exact ⟨h1, h2, h3'⟩

def IsMode (mode : List Char) : Prop :=
  mode = ['i', 'n', 'i', 't', 'i', 'a', 'l'] ∨ mode = ['i'] ∨ mode = ['c', 'o', 'n', 's', 't', 'a', 'n', 't'] ∨ mode = ['c']

/-- `" @mode value unit\n"` -/
def concText (mode : List Char) (vc : Char) (vm unit : List Char) : List Char :=
  ' ' :: '@' :: (mode ++ (' ' :: (vc :: vm ++ (' ' :: (unit ++ ['\n'])))))

theorem Ok_conc (mode : List Char) (vc : Char) (vm unit : List Char) (hmode : IsMode mode)
    (hvc : vc ∈ pp_nums) (hvm : ∀ x ∈ vm, x ∈ pp_nums) (hu : IsCunit unit) :
    Ok pil_env 24 {} pil_conc { rest := concText mode vc vm unit, past := false }
      ({ rest := ['\n'], past := false },
        [.grp [.tok (String.ofList mode), .tok (String.ofList (vc :: vm)), .tok (String.ofList unit)]]) := by
  unfold pil_conc concText
  -- after the mode
  have hg := Ok_gorf_int pil_env 1 vc vm (' ' :: (unit ++ ['\n'])) hvc hvm
    (OutHd_cons _ _ _ ⟨outside_facts ' ' (by decide), by decide⟩)
  have hcu : Ok pil_env 7 {} pil_cunit { rest := ' ' :: (unit ++ ['\n']), past := false }
      ({ rest := ['\n'], past := false }, [.tok (String.ofList unit)]) := by
    apply Ok_cunit pil_env {} _ unit ['\n'] hu _ rfl
    rw [pre_skip]
    rcases hu with rfl | rfl | rfl | rfl | rfl
    · have := skipIgn_blanks_cons 1 'M' ['\n'] (by decide) (by decide); simpa using this
    · have := skipIgn_blanks_cons 1 'm' ['M', '\n'] (by decide) (by decide); simpa using this
    · have := skipIgn_blanks_cons 1 'u' ['M', '\n'] (by decide) (by decide); simpa using this
    · have := skipIgn_blanks_cons 1 'n' ['M', '\n'] (by decide) (by decide); simpa using this
    · have := skipIgn_blanks_cons 1 'p' ['M', '\n'] (by decide) (by decide); simpa using this
  simp only [List.replicate_one, List.singleton_append] at hg
  have hat := Ok_punct pil_env 1 '@' (mode ++ (' ' :: (vc :: vm ++ (' ' :: (unit ++ ['\n']))))) (by decide) (by decide)
  simp only [List.replicate_one, List.singleton_append] at hat
  -- generic assembly of one alternative
  have asm : ∀ (l1 l2 : List Char) (N : Nat),
      Ok pil_env N {} (.alt [.lit l1, .lit l2])
        { rest := mode ++ (' ' :: (vc :: vm ++ (' ' :: (unit ++ ['\n'])))), past := false }
        ({ rest := ' ' :: (vc :: vm ++ (' ' :: (unit ++ ['\n']))), past := false }, [.tok (String.ofList mode)]) →
      Ok pil_env (max N 12 + 6) {} (.group (.seq [.suppress (.lit ['@']), .alt [.lit l1, .lit l2], pil_gorf, pil_cunit]))
        { rest := ' ' :: '@' :: (mode ++ (' ' :: (vc :: vm ++ (' ' :: (unit ++ ['\n']))))), past := false }
        ({ rest := ['\n'], past := false },
          [.grp [.tok (String.ofList mode), .tok (String.ofList (vc :: vm)), .tok (String.ofList unit)]]) := by
    intro l1 l2 N hmd
    have := Ok_group (Ok_seq (OkSeq_cons hat (OkSeq_cons hmd (OkSeq_cons hg (OkSeq_cons hcu (OkSeq_nil pil_env _ _))))))
    simp only [List.nil_append, List.append_nil, List.cons_append] at this
    exact this.mono (by omega)
  have lit_ok : ∀ (s r : List Char) (c : Char) (s' : List Char), s = c :: s' → isWs c = false → c ≠ '#' →
      Ok pil_env 1 {} (.lit s) { rest := s ++ r, past := false } ({ rest := r, past := false }, [.tok (String.ofList s)]) := by
    intro s r c s' hs h1 h2
    subst hs
    exact Ok_lit pil_env {} _ _ r (by rw [pre_skip]; exact skipIgn_cons c _ h1 h2) rfl
  have lit_no : ∀ (s t : List Char) (c : Char) (t' : List Char), t = c :: t' → isWs c = false → c ≠ '#' →
      stripPrefix s t = none → No pil_env 1 {} (.lit s) { rest := t, past := false } := by
    intro s t c t' ht h1 h2 h3
    subst ht
    exact No_lit pil_env {} s _ (by rw [pre_skip, skipIgn_cons c t' h1 h2]; exact h3)
  rcases hmode with rfl | rfl | rfl | rfl
  · -- initial
    have hmd := Ok_alt (OkAlt_head (gs := [.lit ['i']])
      (lit_ok ['i', 'n', 'i', 't', 'i', 'a', 'l'] (' ' :: (vc :: vm ++ (' ' :: (unit ++ ['\n'])))) 'i' _ rfl
        (by decide) (by decide)))
    exact (Ok_alt (OkAlt_head (asm _ _ _ hmd))).mono (by decide)
  · -- i
    have n1 := lit_no ['i', 'n', 'i', 't', 'i', 'a', 'l'] (['i'] ++ (' ' :: (vc :: vm ++ (' ' :: (unit ++ ['\n'])))))
      'i' _ rfl (by decide) (by decide) (by simp [stripPrefix])
    have o1 := lit_ok ['i'] (' ' :: (vc :: vm ++ (' ' :: (unit ++ ['\n'])))) 'i' _ rfl (by decide) (by decide)
    have hmd := Ok_alt (OkAlt_tail n1 (OkAlt_head (gs := []) o1))
    exact (Ok_alt (OkAlt_head (asm _ _ _ hmd))).mono (by decide)
  · -- constant
    have n1 := lit_no ['i', 'n', 'i', 't', 'i', 'a', 'l']
      (['c', 'o', 'n', 's', 't', 'a', 'n', 't'] ++ (' ' :: (vc :: vm ++ (' ' :: (unit ++ ['\n'])))))
      'c' _ rfl (by decide) (by decide) (by simp [stripPrefix])
    have n2 := lit_no ['i']
      (['c', 'o', 'n', 's', 't', 'a', 'n', 't'] ++ (' ' :: (vc :: vm ++ (' ' :: (unit ++ ['\n'])))))
      'c' _ rfl (by decide) (by decide) (by simp [stripPrefix])
    have g1 := No_group (No_seq (NoSeq_tail hat (NoSeq_head (gs := [pil_gorf, pil_cunit])
      (No_alt (NoAlt_cons n1 (NoAlt_cons n2 (NoAlt_nil pil_env _ _)))))))
    have hmd := Ok_alt (OkAlt_head (gs := [.lit ['c']])
      (lit_ok ['c', 'o', 'n', 's', 't', 'a', 'n', 't'] (' ' :: (vc :: vm ++ (' ' :: (unit ++ ['\n'])))) 'c' _ rfl
        (by decide) (by decide)))
    exact (Ok_alt (OkAlt_tail g1 (OkAlt_head (asm _ _ _ hmd)))).mono (by decide)
  · -- c
    have n1 := lit_no ['i', 'n', 'i', 't', 'i', 'a', 'l'] (['c'] ++ (' ' :: (vc :: vm ++ (' ' :: (unit ++ ['\n'])))))
      'c' _ rfl (by decide) (by decide) (by simp [stripPrefix])
    have n2 := lit_no ['i'] (['c'] ++ (' ' :: (vc :: vm ++ (' ' :: (unit ++ ['\n'])))))
      'c' _ rfl (by decide) (by decide) (by simp [stripPrefix])
    have g1 := No_group (No_seq (NoSeq_tail hat (NoSeq_head (gs := [pil_gorf, pil_cunit])
      (No_alt (NoAlt_cons n1 (NoAlt_cons n2 (NoAlt_nil pil_env _ _)))))))
    have n3 := lit_no ['c', 'o', 'n', 's', 't', 'a', 'n', 't'] (['c'] ++ (' ' :: (vc :: vm ++ (' ' :: (unit ++ ['\n'])))))
      'c' _ rfl (by decide) (by decide) (by simp [stripPrefix])
    have o1 := lit_ok ['c'] (' ' :: (vc :: vm ++ (' ' :: (unit ++ ['\n'])))) 'c' _ rfl (by decide) (by decide)
    have hmd := Ok_alt (OkAlt_tail n3 (OkAlt_head (gs := []) o1))
    exact (Ok_alt (OkAlt_tail g1 (OkAlt_head (asm _ _ _ hmd)))).mono (by decide)

theorem TailOK_conc (mode : List Char) (vc : Char) (vm unit : List Char) : TailOK (concText mode vc vm unit) := by
  unfold concText
  have hsk : skipIgn (' ' :: '@' :: (mode ++ (' ' :: (vc :: vm ++ (' ' :: (unit ++ ['\n'])))))) =
      '@' :: (mode ++ (' ' :: (vc :: vm ++ (' ' :: (unit ++ ['\n']))))) := by
    have := skipIgn_blanks_cons 1 '@' (mode ++ (' ' :: (vc :: vm ++ (' ' :: (unit ++ ['\n']))))) (by decide) (by decide)
    simpa using this
  exact TailOK.of_cons _ (OutHd_cons _ _ _ ⟨outside_facts ' ' (by decide), by decide, by decide, by decide⟩) '@' _ hsk
    (punct_facts '@' (by decide)).1 (by decide)

theorem kernel_conc_parse (nc : Char) (m : List Char) (L : List Ent) (toks : List Tree)
    (mode : List Char) (vc : Char) (vm unit : List Char)
    (hnc : nc ∈ identChars) (hm : ∀ x ∈ m, x ∈ identChars) (hL : L ≠ [])
    (hleg : ∀ e ∈ L, LegalEnt e) (hp : pItems (2 * L.length + 1) L = some (toks, []))
    (hmode : IsMode mode) (hvc : vc ∈ pp_nums) (hvm : ∀ x ∈ vm, x ∈ pp_nums) (hu : IsCunit unit) :
    parseDoc pil_env pil_grammar (String.ofList (kernelText nc m L (concText mode vc vm unit))) =
      some [.grp [.tok "kernel-complex", .tok (String.ofList (nc :: m)), .grp toks,
        .grp [.tok (String.ofList mode), .tok (String.ofList (vc :: vm)), .tok (String.ofList unit)]]] := by
  obtain ⟨h1, h2, h3⟩ := cplx_parts3 nc m L toks _ hnc hm hL hleg hp (TailOK_conc mode vc vm unit)
  have h4 := Ok_opt_some (Ok_conc mode vc vm unit hmode hvc hvm hu)
  have h5 := Ok_eol_nl pil_env ['\n'] (skipIgn_cons '\n' [] (by decide) (by decide))
  have hc : Ok pil_env (8 * L.length + 60) {} pil_cplx
      { rest := nc :: (m ++ (' ' :: '=' :: (sp L ++ concText mode vc vm unit))), past := false }
      ({ rest := [], past := true }, [.grp [.tok "kernel-complex", .tok (String.ofList (nc :: m)), .grp toks,
        .grp [.tok (String.ofList mode), .tok (String.ofList (vc :: vm)), .tok (String.ofList unit)]]]) := by
    unfold pil_cplx
    have := Ok_group (Ok_tag (t := "kernel-complex") (Ok_seq (OkSeq_cons h1 (OkSeq_cons h2 (OkSeq_cons h3
      (OkSeq_cons h4 (OkSeq_cons h5 (OkSeq_nil pil_env _ _))))))))
    simp only [List.nil_append, List.append_nil, List.cons_append] at this
    exact this.mono (by omega)
  have hstmt := stmt_before_cplx nc m _ hnc hm _ _ (OkAlt_head (gs := [pil_restingset]) hc)
  have hXt : '\t' ∉ concText mode vc vm unit := by
    have n1 : '\t' ∉ mode := by rcases hmode with rfl | rfl | rfl | rfl <;> decide
    have n2 := notab_of_nums (vc :: vm) (by intro x hx; rcases List.mem_cons.mp hx with rfl | h; exact hvc; exact hvm x h)
    have n3 : '\t' ∉ unit := by rcases hu with rfl | rfl | rfl | rfl | rfl <;> decide
    unfold concText
    simp only [List.mem_cons, List.mem_append, not_or]
    simp only [List.mem_cons, not_or] at n2
    exact ⟨by decide, by decide, n1, by decide, ⟨n2.1, n2.2⟩, by decide, n3, by decide, List.not_mem_nil⟩
  obtain ⟨f1, f2⟩ := kernelText_facts nc m L (concText mode vc vm unit) hnc hm hleg hXt
  have hcf := ident_facts nc hnc
  refine parse_stmt' (kernelText nc m L (concText mode vc vm unit)) nc _ _ _ (skipIgn_cons nc _ hcf.1 hcf.2.1)
    hcf.2.2.2.2.2.1 hstmt ?_ f2
  omega


end Dsd.Pil
